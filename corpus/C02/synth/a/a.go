// Synthetic input of the `goext nondet` self-test (Props.C02.extractor_selftest). Every construct the
// extractor must list or must not list appears once; the expected keys are in Props/C02.lean.
package a

import (
	"context"
	crand "crypto/rand"
	"fmt"
	"math/rand"
	"os"
	"reflect"
	"runtime"
	"sort"
	"sync"
	"time"

	"example.org/synth/b"
)

type local map[string]int

type holder struct {
	m    map[string]int
	s    []int
	l    local
	box  *b.Box
	sm   sync.Map
	emb
}

type emb struct{ inner map[int]int }

var pkgMap = map[string]int{}
var pkgSlice = []int{}

func fmap() map[string]int { return nil }
func fslice() []string     { return nil }
func two() (map[string]int, error) { return nil, nil }

func (h *holder) ranges(param map[int]int, ch chan int, unknown Opaque) {
	for range h.m { // maprange h.m
	}
	for range h.s { // slice: not listed
	}
	for range h.l { // maprange (named map type)
	}
	for range h.inner { // maprange (promoted field)
	}
	for range h.box.Items { // maprange (field of a type of another package)
	}
	for range h.box.Order { // slice
	}
	for range h.box.Nested.Set { // maprange (named map type of another package)
	}
	for range h.box.All() { // maprange (method result)
	}
	for range param { // maprange
	}
	for range pkgMap { // maprange
	}
	for range pkgSlice { // slice
	}
	for range b.Registry { // maprange
	}
	for range b.Keys() { // slice
	}
	for range b.Index() { // maprange
	}
	for range fmap() { // maprange
	}
	for range fslice() { // slice
	}
	x := make(map[string]bool)
	for range x { // maprange
	}
	y := []string{}
	for range y { // slice
	}
	z, _ := two()
	for range z { // maprange
	}
	for range ch { // channel: not listed
	}
	for range "abc" { // string
	}
	for range 3 { // integer
	}
	for range unknown.Field { // range? (type not resolvable)
	}
	for k, v := range h.m { // maprange h.m#1
		_ = k
		for range []int{v} { // slice
		}
	}
	h.sm.Range(func(k, v interface{}) bool { return true }) // syncmap
}

func clocks() {
	_ = time.Now()           // time
	_ = time.Since(time.Now()) // time, time#?: Since and Now
	time.Sleep(1)            // not listed
	_ = rand.Intn(3)         // rand
	r := rand.New(rand.NewSource(1)) // rand, rand
	_ = r.Intn(3)            // method on a local: not listed
	_, _ = crand.Read(nil)   // rand
	go clocks()              // go
	go func() {}()           // go
	c := make(chan int)
	select { // select
	case <-c:
	default:
	}
}

var initialised = func() int {
	for range pkgMap { // maprange in a package-level initialiser
	}
	return 0
}()

type rows struct{}

func (rows) Err() error { return nil }

var logger = log.NewLogger("synth")

// effects: what the body of a map iteration does (rows of `loops`)
func (h *holder) effects(ctx context.Context, unknown Opaque, out []string, db Store) (int, error) {
	total := 0
	for k, v := range h.m { // exits return; writes out, total, h.box.Items[_]; calls append, db.Put (as .Put), fmt.Sprint
		if v < 0 {
			return 0, fmt.Errorf("negative")
		}
		tmp := fmt.Sprint(k) // tmp is loop-local: not a write
		out = append(out, tmp)
		total += v
		h.box.Items[k] = v
		db.Put(k, v)
		logger.Debug().Str("k", k).Msg("visited") // logger chain: left out
	}
	for k := range h.m { // exits break; writes delete(h.m)
		if k == "" {
			break
		}
		switch k {
		case "x":
			break // leaves the switch, not the loop
		}
		delete(h.m, k)
	}
outer:
	for range h.s {
		for k := range h.m { // exits continue outer
			if k == "y" {
				continue outer
			}
			func() {
				return // inside a function literal: not an exit
			}()
		}
	}
	h.sm.Range(func(k, v interface{}) bool { // syncmap: exits return false; writes total
		total++
		return false
	})
	sort.Slice(out, func(i, j int) bool { return out[i] < out[j] }) // sort
	sort.Strings(out)                                             // sort
	_ = sort.SearchStrings(out, "a")                              // not listed
	_ = ctx.Err()                                                 // ctxpoll
	_, _ = ctx.Deadline()                                         // ctxpoll
	_ = unknown.Err()                                             // ctxpoll? (type not resolvable)
	var r rows
	_ = r.Err()                   // a type of this module that is not a context: not listed
	_ = os.Getenv("X")            // env
	_ = runtime.NumCPU()          // env
	_ = reflect.ValueOf(h.m).MapKeys() // mapkeys
	_ = fmt.Sprintf("%p", h)      // ptrfmt
	return total, nil
}
