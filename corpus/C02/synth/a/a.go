// Synthetic input of the `goext nondet` self-test (Props.C02.extractor_selftest). Every construct the
// extractor must list or must not list appears once; the expected keys are in Props/C02.lean.
package a

import (
	crand "crypto/rand"
	"math/rand"
	"sync"
	"time"

	"example.org/synth/b"
)

type local map[string]int

type holder struct {
	m    map[string]int
	s    []int
	l    local
	box  *b.Box
	sm   sync.Map
	emb
}

type emb struct{ inner map[int]int }

var pkgMap = map[string]int{}
var pkgSlice = []int{}

func fmap() map[string]int { return nil }
func fslice() []string     { return nil }
func two() (map[string]int, error) { return nil, nil }

func (h *holder) ranges(param map[int]int, ch chan int, unknown Opaque) {
	for range h.m { // maprange h.m
	}
	for range h.s { // slice: not listed
	}
	for range h.l { // maprange (named map type)
	}
	for range h.inner { // maprange (promoted field)
	}
	for range h.box.Items { // maprange (field of a type of another package)
	}
	for range h.box.Order { // slice
	}
	for range h.box.Nested.Set { // maprange (named map type of another package)
	}
	for range h.box.All() { // maprange (method result)
	}
	for range param { // maprange
	}
	for range pkgMap { // maprange
	}
	for range pkgSlice { // slice
	}
	for range b.Registry { // maprange
	}
	for range b.Keys() { // slice
	}
	for range b.Index() { // maprange
	}
	for range fmap() { // maprange
	}
	for range fslice() { // slice
	}
	x := make(map[string]bool)
	for range x { // maprange
	}
	y := []string{}
	for range y { // slice
	}
	z, _ := two()
	for range z { // maprange
	}
	for range ch { // channel: not listed
	}
	for range "abc" { // string
	}
	for range 3 { // integer
	}
	for range unknown.Field { // range? (type not resolvable)
	}
	for k, v := range h.m { // maprange h.m#1
		_ = k
		for range []int{v} { // slice
		}
	}
	h.sm.Range(func(k, v interface{}) bool { return true }) // syncmap
}

func clocks() {
	_ = time.Now()           // time
	_ = time.Since(time.Now()) // time, time#?: Since and Now
	time.Sleep(1)            // not listed
	_ = rand.Intn(3)         // rand
	r := rand.New(rand.NewSource(1)) // rand, rand
	_ = r.Intn(3)            // method on a local: not listed
	_, _ = crand.Read(nil)   // rand
	go clocks()              // go
	go func() {}()           // go
	c := make(chan int)
	select { // select
	case <-c:
	default:
	}
}

var initialised = func() int {
	for range pkgMap { // maprange in a package-level initialiser
	}
	return 0
}()
