// Synthetic input of the `goext nondet` self-test (Props.C02.extractor_selftest): package b is only imported.
package b

type Table map[string]int

type Box struct {
	Items  map[int]string
	Order  []string
	Nested *Inner
}

type Inner struct{ Set Table }

var Registry = map[string]bool{}

func Keys() []string       { return nil }
func Index() map[string]int { return nil }

func (b *Box) All() map[int]string { return b.Items }
