module example.org/synth

go 1.23
