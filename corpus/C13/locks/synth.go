// Synthetic cases for `goext poollocks` (C13 lock table): helpers and the lock level they are entered with.
// Regenerated into Aergo.Gen.PoolLocksSynth on every run; Props.C13.lock_checker_selftest states the exact verdicts.
package synth

import "sync"

type Pool struct {
	sync.RWMutex
	pool   map[int]int
	length int
	orphan int
}

// 1. helper called only under the exclusive lock: its write is fine
func (mp *Pool) Evict() { mp.Lock(); defer mp.Unlock(); mp.forget(1) }
func (mp *Pool) forget(n int) { mp.length -= n }

// 2. helper called under the read lock, writing: violation (level 1)
func (mp *Pool) Report() { mp.RLock(); defer mp.RUnlock(); mp.touch() }
func (mp *Pool) touch()  { mp.orphan++ }

// 3. helper with one locked and one unlocked call site: unlocked (level 0)
func (mp *Pool) Drop()   { mp.Lock(); mp.drop(); mp.Unlock() }
func (mp *Pool) Sloppy() { mp.drop() }
func (mp *Pool) drop()   { delete(mp.pool, 1) }

// 4. helper of a helper under the exclusive lock: fine (fixpoint)
func (mp *Pool) Deep()  { mp.Lock(); defer mp.Unlock(); mp.outer() }
func (mp *Pool) outer() { mp.inner() }
func (mp *Pool) inner() { mp.length++ }

// 5. exported method, called here only under the lock: callable from anywhere, judged unlocked
func (mp *Pool) Exported()     { mp.length = 0 }
func (mp *Pool) UsesExported() { mp.Lock(); defer mp.Unlock(); mp.Exported() }

// 6. helper used as a value: callable from anywhere, judged unlocked
func (mp *Pool) Spawn() {
	mp.Lock()
	defer mp.Unlock()
	f := mp.escaped
	f()
	mp.escaped()
}
func (mp *Pool) escaped() { mp.orphan = 0 }

// 7. helper without any call site: judged unlocked
func (mp *Pool) unused() { mp.length = 7 }

// 8. reading helper under the read lock: fine; the same read with no lock: violation
func (mp *Pool) Size() int  { mp.RLock(); defer mp.RUnlock(); return mp.count() }
func (mp *Pool) count() int { return mp.length }
func (mp *Pool) Peek() int  { return mp.orphan }

// 9. plain function taking the pool, called under the exclusive lock: fine
func (mp *Pool) Reset() { mp.Lock(); defer mp.Unlock(); wipe(mp) }
func wipe(mp *Pool)     { mp.pool = map[int]int{} }

// 10. the lock is released before the helper is called: unlocked
func (mp *Pool) Late() { mp.Lock(); mp.length++; mp.Unlock(); mp.after() }
func (mp *Pool) after() { mp.orphan-- }

// 11. the lists are collected under the read lock, the lock is released, then they are walked: a read of guarded memory
// (the slices share the lists' backing arrays) with no lock
func (mp *Pool) Fetch() int {
	mp.RLock()
	var runs []int
	for _, v := range mp.pool {
		runs = append(runs, v)
	}
	n := mp.length
	mp.RUnlock()
	total := n
	for _, r := range runs {
		total += r
	}
	return total
}

// 12. the same walk before the (deferred) unlock, and a copied scalar used after the unlock: fine
func (mp *Pool) FetchLocked() int {
	mp.RLock()
	defer mp.RUnlock()
	total := 0
	for _, v := range mp.pool {
		total += v
	}
	return total
}
func (mp *Pool) Count() int {
	mp.RLock()
	n := len(mp.pool)
	mp.RUnlock()
	return n
}
