package p

type CI struct {
	Name string
	Args []interface{}
}

const (
	A = "a"
	B = "b"
	C = "c"
)

func Entry(ci CI) int {
	return first(ci.Args)
}

func first(xs []interface{}) int {
	return len(xs[0].(string)) + len(xs[1].(string))
}
