package p

type CI struct {
	Name string
	Args []interface{}
}

const (
	A = "a"
	B = "b"
	C = "c"
)

func Entry(ci CI) int {
	return len(ci.Args[0].(string))
}
