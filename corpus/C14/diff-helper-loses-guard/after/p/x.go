package p

type CI struct {
	Name string
	Args []interface{}
}

const (
	A = "a"
	B = "b"
	C = "c"
)

func Entry(ci CI) int {
	return first(ci.Args)
}

func first(xs []interface{}) int {
	_, ok := xs[0].(string)
	if ok {
		return 1
	}
	return 2
}
