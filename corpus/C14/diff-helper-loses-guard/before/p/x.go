package p

type CI struct {
	Name string
	Args []interface{}
}

const (
	A = "a"
	B = "b"
	C = "c"
)

func Entry(ci CI) int {
	if len(ci.Args) < 1 {
		return 0
	}
	_, ok := ci.Args[0].(string)
	if ok {
		return 1
	}
	return 2
}
