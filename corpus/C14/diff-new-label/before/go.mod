module m

go 1.23
