package p

type CI struct {
	Name string
	Args []interface{}
}

const (
	A = "a"
	B = "b"
	C = "c"
)

func Entry(ci CI) int {
	rest := ci.Args[1:]
	return first(rest)
}

func first(xs []interface{}) int {
	if len(xs) < 1 {
		return 0
	}
	str := xs[0].(string)
	return len(str)
}
