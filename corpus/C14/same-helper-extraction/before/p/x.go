package p

type CI struct {
	Name string
	Args []interface{}
}

const (
	A = "a"
	B = "b"
	C = "c"
)

func Entry(ci CI) int {
	rest := ci.Args[1:]
	if len(rest) < 1 {
		return 0
	}
	s := rest[0].(string)
	return len(s)
}
