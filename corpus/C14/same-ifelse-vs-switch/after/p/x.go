package p

type CI struct {
	Name string
	Args []interface{}
}

const (
	A = "a"
	B = "b"
	C = "c"
)

func Entry(ci CI) int {
	switch ci.Name {
	case A:
		return 1
	case B:
		return len(ci.Args[0].(string))
	}
	return 0
}
