package p

type CI struct {
	Name string
	Args []interface{}
}

const (
	A = "a"
	B = "b"
	C = "c"
)

func Entry(ci CI) int {
	if ci.Name == A {
		return 1
	} else if ci.Name == B {
		return len(ci.Args[0].(string))
	}
	return 0
}
