package p

type CI struct {
	Name string
	Args []interface{}
}

const (
	A = "a"
	B = "b"
	C = "c"
)

func Entry(ci CI) int {
	switch {
	case ci.Name == A:
		return 1
	case ci.Name == B:
		return 2
	}
	return 0
}
