#!/usr/bin/env python3
"""Synthetic extractor tests for `goext raftquorum` (C16, tie T).
usage: raftquorum_variants.py <goext binary> [cluster.go] [reference RaftQuorum.lean]
Harmless rewrites of Cluster.isEnableChangeMembership must give the reference output (comments aside);
real changes must give a different output or be refused. Exit 0 iff all as expected."""
import subprocess, re, sys, os, tempfile
goext = sys.argv[1]
srcp = sys.argv[2] if len(sys.argv) > 2 else '/repo/consensus/impl/raftv2/cluster.go'
refp = sys.argv[3] if len(sys.argv) > 3 else '/verif/lean/Aergo/Gen/RaftQuorum.lean'
src, ref = open(srcp).read(), open(refp).read()
norm = lambda t: re.sub(r'(?m)^(--|/--).*$', '', t)
tmp = tempfile.mkdtemp()
bad = 0
def run(name, s, harmless):
    global bad
    f = os.path.join(tmp, name + '.go'); open(f, 'w').write(s)
    p = subprocess.run([goext, 'raftquorum', '-ns', 'Aergo.Gen.RaftQuorum', f], capture_output=True, text=True)
    same = p.returncode == 0 and norm(p.stdout).replace('progress_N', 'cp_N').replace('nHealthy', 'healthy') == norm(ref)
    ok = same == harmless
    bad += not ok
    print('%-24s %-9s %s' % (name, 'same' if same else ('refused' if p.returncode else 'different'), 'ok' if ok else 'UNEXPECTED'))
G = """		if !isClusterAvilable(cp.N-1, healthy-1) {
			logger.Error().Msg("can't remove healthy node. If you remove this node, cluster can be stop.")
			return ErrRemoveHealthyNode
		}

		return nil"""
assert G in src, 'source shape changed: adapt the variants'
run('unchanged', src, True)
run('rename_closure', src.replace('isClusterAvilable', 'isClusterAvailable'), True)
run('rename_local', src.replace('healthy := getHealthyMembers(cp)', 'nHealthy := getHealthyMembers(cp)').replace('isClusterAvilable(cp.N, healthy)', 'isClusterAvilable(cp.N, nHealthy)').replace('isClusterAvilable(cp.N-1, healthy-1)', 'isClusterAvilable(cp.N-1, nHealthy-1)'), True)
run('init_form', src.replace('if !isClusterAvilable(cp.N-1, healthy-1) {', 'if ok := isClusterAvilable(cp.N-1, healthy-1); !ok {'), True)
run('positive_form', src.replace(G, """		if isClusterAvilable(cp.N-1, healthy-1) {
			return nil
		}
		return ErrRemoveHealthyNode"""), True)
run('positive_with_logging', src.replace(G, """		if isClusterAvilable(cp.N-1, healthy-1) {
			logger.Debug().Msg("fine")
			return nil
		}

		logger.Error().Msg("can't remove healthy node.")
		metrics.Inc("refused")
		return ErrRemoveHealthyNode"""), True)
run('tagged_switch', src.replace('	switch {\n	case cc.Type == raftpb.ConfChangeAddNode:', '	switch cc.Type {\n	case raftpb.ConfChangeAddNode:').replace('	case cc.Type == raftpb.ConfChangeRemoveNode:', '	case raftpb.ConfChangeRemoveNode:'), True)
run('tagged_switch+inverted', src.replace('	switch {\n	case cc.Type == raftpb.ConfChangeAddNode:', '	switch cc.Type {\n	case raftpb.ConfChangeAddNode:').replace('	case cc.Type == raftpb.ConfChangeRemoveNode:', '	case raftpb.ConfChangeRemoveNode:').replace(G, """		if isClusterAvilable(cp.N-1, healthy-1) {
			return nil
		}

		logger.Error().Msg("can't remove healthy node. If you remove this node, cluster can be stop.")
		return ErrRemoveHealthyNode"""), True)
run('wrapped_sentinel', src.replace('			return ErrRemoveHealthyNode', '			return fmt.Errorf("%w", ErrRemoveHealthyNode)'), True)
run('metrics_in_closure', src.replace('		quorum := total/2 + 1\n', '		quorum := total/2 + 1\n		metrics.Observe("quorum", quorum)\n'), True)
run('formula_changed', src.replace('		quorum := total/2 + 1\n', '		quorum := (total + 1) / 2\n'), False)
run('guard_changed', src.replace('isClusterAvilable(cp.N-1, healthy-1)', 'isClusterAvilable(cp.N-1, healthy)'), False)
run('inverted_wrongly', src.replace(G, """		if !isClusterAvilable(cp.N-1, healthy-1) {
			return nil
		}
		return ErrRemoveHealthyNode"""), False)
run('inverted_args_changed', src.replace(G, """		if isClusterAvilable(cp.N, healthy-1) {
			return nil
		}
		logger.Error().Msg("no")
		return ErrRemoveHealthyNode"""), False)
run('positive_then_assign', src.replace(G, """		if isClusterAvilable(cp.N-1, healthy-1) {
			return nil
		}
		healthy = 0
		return ErrRemoveHealthyNode"""), False)
run('panic_in_closure', src.replace('		quorum := total/2 + 1\n', '		quorum := total/2 + 1\n		panic("x")\n'), False)
sys.exit(1 if bad else 0)
