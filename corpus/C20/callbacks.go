//go:build ignore

// Synthetic host callbacks with known verdicts: the self-test of the C20 extractor + checker.
// Never compiled; `goext hostapi -corpus` and harness/c20 parse this file with the same extractor and the
// same tables as /repo/contract and compare the verdict of every `//export`ed function with its
// `// verdict:` annotation:
//
//	guarded    a mutating sink is reachable syntactically, but not in a read-only context
//	unguarded  some path reaches a mutating sink with isQuery or nestedView > 0 set
//	pure       no mutating sink reachable at all
package contract

import (
	"database/sql"
	"math/big"

	"github.com/aergoio/aergo/v2/state"
	"github.com/aergoio/aergo/v2/state/statedb"
	"github.com/aergoio/aergo/v2/types"
)

type vmContext struct {
	curContract *contractInfo
	bs          *state.BlockState
	isQuery     bool
	nestedView  int32
	events      []*types.Event
	eventCount  int32
	callState   map[types.AccountID]*callState
}

type contractInfo struct {
	callState  *callState
	contractId []byte
	rp         uint64
}

type callState struct {
	ctrState *statedb.ContractState
	accState *state.AccountState
	tx       sqlTx
}

var contexts []*vmContext
var zeroBig *big.Int

// verdict: guarded
//
//export c20GuardedSet
func c20GuardedSet(service int, key, value []byte) string {
	ctx := contexts[service]
	if ctx == nil {
		return "no ctx"
	}
	if ctx.isQuery == true || ctx.nestedView > 0 {
		return "not permitted in query"
	}
	if err := ctx.curContract.callState.ctrState.SetData(key, value); err != nil {
		return err.Error()
	}
	return ""
}

// the guard was deleted
//
// verdict: unguarded
//
//export c20NoGuard
func c20NoGuard(service int, key, value []byte) string {
	ctx := contexts[service]
	if err := ctx.curContract.callState.ctrState.SetData(key, value); err != nil {
		return err.Error()
	}
	return ""
}

// the guard was moved below the mutation
//
// verdict: unguarded
//
//export c20GuardAfterSink
func c20GuardAfterSink(service int, key []byte) string {
	ctx := contexts[service]
	if err := ctx.curContract.callState.ctrState.DeleteData(key); err != nil {
		return err.Error()
	}
	if ctx.isQuery == true || ctx.nestedView > 0 {
		return "not permitted in query"
	}
	return ""
}

// verdict: unguarded
//
//export c20GuardOneBranch
func c20GuardOneBranch(service int, key []byte, flag bool) string {
	ctx := contexts[service]
	if flag {
		if ctx.isQuery == true || ctx.nestedView > 0 {
			return "not permitted in query"
		}
	}
	ctx.curContract.callState.ctrState.DeleteData(key)
	return ""
}

// verdict: guarded
//
//export c20GuardBothBranches
func c20GuardBothBranches(service int, key []byte, flag bool) string {
	ctx := contexts[service]
	if flag {
		if ctx.isQuery == true || ctx.nestedView > 0 {
			return "a"
		}
	} else {
		if ctx.nestedView > 0 || ctx.isQuery {
			return "b"
		}
	}
	ctx.curContract.callState.ctrState.DeleteData(key)
	return ""
}

func c20helperStore(ctx *vmContext, key, value []byte) {
	ctx.curContract.callState.ctrState.SetData(key, value)
}

// verdict: unguarded
//
//export c20SinkInHelper
func c20SinkInHelper(service int, key, value []byte) {
	ctx := contexts[service]
	c20helperStore(ctx, key, value)
}

// verdict: guarded
//
//export c20SinkInHelperGuarded
func c20SinkInHelperGuarded(service int, key, value []byte) {
	ctx := contexts[service]
	if ctx.isQuery == true || ctx.nestedView > 0 {
		return
	}
	c20helperStore(ctx, key, value)
}

func c20isRO(ctx *vmContext) bool {
	if ctx.isQuery == true || ctx.nestedView > 0 {
		return true
	}
	return false
}

// A guard hidden behind a helper's return value is outside the extractor's subset: reported as
// unguarded (conservative), so such a rewrite of a real callback is flagged for review.
//
// verdict: unguarded
//
//export c20GuardViaHelperResult
func c20GuardViaHelperResult(service int, key, value []byte) {
	ctx := contexts[service]
	if c20isRO(ctx) {
		return
	}
	c20helperStore(ctx, key, value)
}

// Same for a guard stored in a variable first.
//
// verdict: unguarded
//
//export c20GuardViaVariable
func c20GuardViaVariable(service int, key, value []byte) {
	ctx := contexts[service]
	ro := ctx.isQuery == true || ctx.nestedView > 0
	if ro {
		return
	}
	c20helperStore(ctx, key, value)
}

// verdict: unguarded
//
//export c20SinkInLoop
func c20SinkInLoop(service int, keys [][]byte) {
	ctx := contexts[service]
	for _, k := range keys {
		if len(k) == 0 {
			continue
		}
		ctx.curContract.callState.ctrState.DeleteData(k)
	}
}

// verdict: guarded
//
//export c20SinkInLoopGuarded
func c20SinkInLoopGuarded(service int, keys [][]byte) {
	ctx := contexts[service]
	for i := 0; i < len(keys); i++ {
		if ctx.isQuery == true || ctx.nestedView > 0 {
			return
		}
		ctx.curContract.callState.ctrState.DeleteData(keys[i])
	}
}

// `break` leaves only the loop: the mutation after it is still reached
//
// verdict: unguarded
//
//export c20GuardBreaksLoop
func c20GuardBreaksLoop(service int, key []byte) {
	ctx := contexts[service]
	for {
		if ctx.isQuery == true || ctx.nestedView > 0 {
			break
		}
		break
	}
	ctx.curContract.callState.ctrState.DeleteData(key)
}

// a method of a state-bearing type that is in no table
//
// verdict: unguarded
//
//export c20NewUnknownMutator
func c20NewUnknownMutator(service int, key []byte) {
	ctx := contexts[service]
	ctx.curContract.callState.ctrState.FrobnicateStorage(key)
}

// verdict: guarded
//
//export c20NewUnknownMutatorGuarded
func c20NewUnknownMutatorGuarded(service int, key []byte) {
	ctx := contexts[service]
	if ctx.isQuery == true || ctx.nestedView > 0 {
		return
	}
	ctx.curContract.callState.ctrState.FrobnicateStorage(key)
}

// a function of a state-bearing package that is in no table
//
// verdict: unguarded
//
//export c20NewUnknownPackageFunc
func c20NewUnknownPackageFunc(service int, id []byte) {
	ctx := contexts[service]
	statedb.PurgeEverything(ctx.bs.StateDB, id)
}

// a package nobody classified
//
// verdict: unguarded
//
//export c20NewUnknownPackage
func c20NewUnknownPackage(service int, id []byte) {
	mystery.Do(id)
}

// receiver type cannot be inferred, method name is a known mutator
//
// verdict: unguarded
//
//export c20UntypedReceiver
func c20UntypedReceiver(service int, key []byte) {
	obj := lookupSomething(service)
	obj.SetData(key, key)
}

// verdict: unguarded
//
//export c20UnknownFieldWrite
func c20UnknownFieldWrite(service int) {
	ctx := contexts[service]
	ctx.someNewStateField = 1
}

// verdict: unguarded
//
//export c20EventAppend
func c20EventAppend(service int, ev *types.Event) {
	ctx := contexts[service]
	ctx.events = append(ctx.events, ev)
	ctx.eventCount++
}

// verdict: guarded
//
//export c20EventAppendGuarded
func c20EventAppendGuarded(service int, ev *types.Event) string {
	ctx := contexts[service]
	if ctx.isQuery == true || ctx.nestedView > 0 {
		return "event not permitted in query"
	}
	ctx.events = append(ctx.events, ev)
	ctx.eventCount++
	return ""
}

// verdict: unguarded
//
//export c20OnlyQueryChecked
func c20OnlyQueryChecked(service int, key []byte) {
	ctx := contexts[service]
	if ctx.isQuery == true {
		return
	}
	ctx.curContract.callState.ctrState.DeleteData(key)
}

// verdict: unguarded
//
//export c20OnlyViewChecked
func c20OnlyViewChecked(service int, key []byte) {
	ctx := contexts[service]
	if ctx.nestedView > 0 {
		return
	}
	ctx.curContract.callState.ctrState.DeleteData(key)
}

// `&&` instead of `||`
//
// verdict: unguarded
//
//export c20GuardConjunction
func c20GuardConjunction(service int, key []byte) {
	ctx := contexts[service]
	if ctx.isQuery == true && ctx.nestedView > 0 {
		return
	}
	ctx.curContract.callState.ctrState.DeleteData(key)
}

// wrong polarity of one flag
//
// verdict: unguarded
//
//export c20GuardWrongPolarity
func c20GuardWrongPolarity(service int, key []byte) {
	ctx := contexts[service]
	if ctx.isQuery == false || ctx.nestedView > 0 {
		return
	}
	ctx.curContract.callState.ctrState.DeleteData(key)
}

// verdict: guarded
//
//export c20NegatedGuard
func c20NegatedGuard(service int, key []byte) {
	ctx := contexts[service]
	if !(ctx.isQuery || ctx.nestedView != 0) {
		ctx.curContract.callState.ctrState.DeleteData(key)
	}
}

// verdict: guarded
//
//export c20GuardTextVariant
func c20GuardTextVariant(service int, key []byte) {
	stateSet := contexts[service]
	if 0 < stateSet.nestedView || true == stateSet.isQuery {
		return
	}
	stateSet.curContract.callState.ctrState.DeleteData(key)
}

// the luaSendAmount shape: guard conjoined with amount > 0, mutation only under the same condition
//
// verdict: guarded
//
//export c20GuardWhenSameCondition
func c20GuardWhenSameCondition(service int, amount *big.Int, to *state.AccountState) string {
	ctx := contexts[service]
	if (ctx.isQuery == true || ctx.nestedView > 0) && amount.Cmp(zeroBig) > 0 {
		return "send not permitted in query"
	}
	if amount.Cmp(zeroBig) > 0 {
		state.SendBalance(ctx.curContract.callState.accState, to, amount)
	}
	return ""
}

// … and with a different condition at the mutation (negative amounts slip through)
//
// verdict: unguarded
//
//export c20GuardWhenOtherCondition
func c20GuardWhenOtherCondition(service int, amount *big.Int, to *state.AccountState) string {
	ctx := contexts[service]
	if (ctx.isQuery == true || ctx.nestedView > 0) && amount.Cmp(zeroBig) > 0 {
		return "send not permitted in query"
	}
	if amount.Cmp(zeroBig) != 0 {
		state.SendBalance(ctx.curContract.callState.accState, to, amount)
	}
	return ""
}

// the condition variable is reassigned between guard and use: not a stable atom
//
// verdict: unguarded
//
//export c20GuardWhenReassigned
func c20GuardWhenReassigned(service int, amount *big.Int, to *state.AccountState) string {
	ctx := contexts[service]
	if (ctx.isQuery == true || ctx.nestedView > 0) && amount.Cmp(zeroBig) > 0 {
		return "send not permitted in query"
	}
	amount = big.NewInt(5)
	if amount.Cmp(zeroBig) > 0 {
		state.SendBalance(ctx.curContract.callState.accState, to, amount)
	}
	return ""
}

// a deferred mutation registered before the guard runs when the guard returns
//
// verdict: unguarded
//
//export c20DeferBeforeGuard
func c20DeferBeforeGuard(service int, key []byte) string {
	ctx := contexts[service]
	defer func() {
		ctx.curContract.callState.ctrState.DeleteData(key)
	}()
	if ctx.isQuery == true || ctx.nestedView > 0 {
		return "no"
	}
	return ""
}

// verdict: guarded
//
//export c20DeferAfterGuard
func c20DeferAfterGuard(service int, key []byte) string {
	ctx := contexts[service]
	if ctx.isQuery == true || ctx.nestedView > 0 {
		return "no"
	}
	defer ctx.curContract.callState.ctrState.DeleteData(key)
	return ""
}

// `return` inside a function literal ends only the literal
//
// verdict: unguarded
//
//export c20GuardInsideClosure
func c20GuardInsideClosure(service int, key []byte) {
	ctx := contexts[service]
	func() {
		if ctx.isQuery == true || ctx.nestedView > 0 {
			return
		}
	}()
	ctx.curContract.callState.ctrState.DeleteData(key)
}

// verdict: unguarded
//
//export c20SwitchCase
func c20SwitchCase(service int, key []byte, op byte) string {
	ctx := contexts[service]
	switch op {
	case 'S':
		if ctx.isQuery == true || ctx.nestedView > 0 {
			return "no"
		}
		ctx.curContract.callState.ctrState.SetData(key, key)
	case 'D':
		ctx.curContract.callState.ctrState.DeleteData(key)
	}
	return ""
}

// verdict: guarded
//
//export c20SwitchCaseGuarded
func c20SwitchCaseGuarded(service int, key []byte, op byte) string {
	ctx := contexts[service]
	switch op {
	case 'S':
		if ctx.isQuery == true || ctx.nestedView > 0 {
			return "no"
		}
		ctx.curContract.callState.ctrState.SetData(key, key)
	case 'D':
		if ctx.isQuery == true || ctx.nestedView > 0 {
			break
		}
		ctx.curContract.callState.ctrState.DeleteData(key)
	default:
		return "bad op"
	}
	return ""
}

func c20recA(ctx *vmContext, n int, key []byte) {
	if n > 0 {
		c20recB(ctx, n-1, key)
	}
}

func c20recB(ctx *vmContext, n int, key []byte) {
	if n == 0 {
		ctx.curContract.callState.ctrState.DeleteData(key)
		return
	}
	c20recA(ctx, n, key)
}

// verdict: unguarded
//
//export c20MutualRecursion
func c20MutualRecursion(service int, key []byte) {
	c20recA(contexts[service], 3, key)
}

// verdict: guarded
//
//export c20MutualRecursionGuarded
func c20MutualRecursionGuarded(service int, key []byte) {
	ctx := contexts[service]
	if ctx.isQuery == true || ctx.nestedView > 0 {
		return
	}
	c20recA(ctx, 3, key)
}

// query mode must select the read-only SQL handle
//
// verdict: guarded
//
//export c20DbHandle
func c20DbHandle(service int) sqlTx {
	ctx := contexts[service]
	var tx sqlTx
	if ctx.isQuery == true {
		tx, _ = beginReadOnly("x", ctx.curContract.rp)
	} else {
		tx, _ = beginTx("x", ctx.curContract.rp)
	}
	if ctx.isQuery == false {
		tx.savepoint()
	}
	return tx
}

// verdict: unguarded
//
//export c20DbHandleAlwaysWritable
func c20DbHandleAlwaysWritable(service int) sqlTx {
	ctx := contexts[service]
	tx, _ := beginTx("x", ctx.curContract.rp)
	return tx
}

// unstructured control flow is outside the subset: flagged
//
// verdict: unguarded
//
//export c20Goto
func c20Goto(service int, key []byte) {
	ctx := contexts[service]
	if ctx.isQuery == true || ctx.nestedView > 0 {
		goto done
	}
	ctx.curContract.callState.ctrState.DeleteData(key)
done:
	return
}

// verdict: pure
//
//export c20ReadOnly
func c20ReadOnly(service int, key []byte) ([]byte, string) {
	ctx := contexts[service]
	data, err := ctx.curContract.callState.ctrState.GetData(key)
	if err != nil {
		return nil, err.Error()
	}
	bal := ctx.curContract.callState.accState.Balance()
	_ = bal.String()
	return data, ""
}

// restoring operations are not mutating sinks (see Model.HostApi.Snap)
//
// verdict: pure
//
//export c20RestoreOnly
func c20RestoreOnly(service int, rev statedb.Snapshot) {
	ctx := contexts[service]
	ctx.curContract.callState.ctrState.Rollback(rev)
}

// verdict: unguarded
//
//export c20GovernanceNoGuard
func c20GovernanceNoGuard(service int, body *types.TxBody, s, r *state.AccountState, bi *types.BlockHeaderInfo) {
	ctx := contexts[service]
	system.ExecuteSystemTx(ctx.curContract.callState.ctrState, body, s, r, bi)
}

// verdict: unguarded
//
//export c20NonceAndCode
func c20NonceAndCode(service int, code []byte) {
	ctx := contexts[service]
	cs := ctx.curContract.callState
	cs.accState.SetNonce(cs.accState.Nonce() + 1)
	cs.ctrState.SetCode(nil, code)
}

// the view counter written outside luaViewStart/luaViewEnd is a mutation of the read-only flag itself
//
// verdict: unguarded
//
//export c20ResetView
func c20ResetView(service int) {
	ctx := contexts[service]
	ctx.nestedView = 0
}

// verdict: unguarded
//
//export c20ClearQueryFlag
func c20ClearQueryFlag(service int) {
	ctx := contexts[service]
	ctx.isQuery = false
}

// ---------------------------------------------------------------------------------- round 3

type sqlTx interface {
	savepoint() error
}

func dataSrc(dbName string) string { return "file:" + dbName + ".db?branches=on" }

// the read-only SQL handle: a connection opened with the query_only pragma
func beginReadOnly(dbName string, rp uint64) (sqlTx, error) {
	db, err := sql.Open(queryDriver, dataSrc(dbName)+"&_query_only=true")
	if err != nil {
		return nil, err
	}
	_ = db
	return nil, nil
}

// the same without the pragma: a writable connection
func c20beginReadOnlyNoPragma(dbName string, rp uint64) (sqlTx, error) {
	db, err := sql.Open(queryDriver, dataSrc(dbName))
	if err != nil {
		return nil, err
	}
	_ = db
	return nil, nil
}

// falls back to the writable transaction when the read-only open fails
func c20beginReadOnlyFallback(dbName string, rp uint64) (sqlTx, error) {
	db, err := sql.Open(queryDriver, dataSrc(dbName)+"&_query_only=true")
	if err != nil {
		return beginTx(dbName, rp)
	}
	_ = db
	return nil, nil
}

// query mode opens its "read-only" handle without the query_only pragma
//
// verdict: unguarded
//
//export c20DbHandleNoPragma
func c20DbHandleNoPragma(service int) sqlTx {
	ctx := contexts[service]
	var tx sqlTx
	if ctx.isQuery == true {
		tx, _ = c20beginReadOnlyNoPragma("x", ctx.curContract.rp)
	} else {
		tx, _ = beginTx("x", ctx.curContract.rp)
	}
	return tx
}

// verdict: unguarded
//
//export c20DbHandleFallback
func c20DbHandleFallback(service int) sqlTx {
	ctx := contexts[service]
	var tx sqlTx
	if ctx.isQuery == true {
		tx, _ = c20beginReadOnlyFallback("x", ctx.curContract.rp)
	} else {
		tx, _ = beginTx("x", ctx.curContract.rp)
	}
	return tx
}

// the guard reads the flags of another context (slot 0), not of the context the callback runs for
//
// verdict: unguarded
//
//export c20GuardOnOtherSlot
func c20GuardOnOtherSlot(service int, key, value []byte) string {
	ctx := contexts[service]
	other := contexts[0]
	if other.isQuery == true || other.nestedView > 0 {
		return "not permitted in query"
	}
	ctx.curContract.callState.ctrState.SetData(key, value)
	return ""
}

// the guard reads the flags of a context that was just built
//
// verdict: unguarded
//
//export c20GuardOnFreshContext
func c20GuardOnFreshContext(service int, key, value []byte) string {
	ctx := contexts[service]
	fresh := &vmContext{}
	if fresh.isQuery || fresh.nestedView > 0 {
		return "not permitted in query"
	}
	ctx.curContract.callState.ctrState.SetData(key, value)
	return ""
}

// half of the guard is on the wrong object
//
// verdict: unguarded
//
//export c20GuardHalfForeign
func c20GuardHalfForeign(service int, prevService int, key, value []byte) string {
	ctx := contexts[service]
	prevCtx := contexts[prevService+1]
	if ctx.isQuery == true || prevCtx.nestedView > 0 {
		return "not permitted in query"
	}
	ctx.curContract.callState.ctrState.SetData(key, value)
	return ""
}

// a helper that guards with the flags of its parameter is handed another context
//
// verdict: unguarded
//
//export c20HelperGetsForeignContext
func c20HelperGetsForeignContext(service int, key, value []byte) {
	ctx := contexts[service]
	_ = ctx
	c20guardedStore(contexts[0], key, value)
}

func c20guardedStore(ctx *vmContext, key, value []byte) {
	if ctx.isQuery == true || ctx.nestedView > 0 {
		return
	}
	ctx.curContract.callState.ctrState.SetData(key, value)
}

// the same helper with the own context
//
// verdict: guarded
//
//export c20HelperGetsOwnContext
func c20HelperGetsOwnContext(service int, key, value []byte) {
	ctx := contexts[service]
	c20guardedStore(ctx, key, value)
}

// harmless rewrites of the guard: no `== true`, operands swapped, extra parentheses, context variable renamed
//
// verdict: guarded
//
//export c20GuardRewritten
func c20GuardRewritten(service int, key, value []byte) string {
	c := contexts[service]
	if (c.isQuery) || (0 < c.nestedView) {
		return "not permitted in query"
	}
	c.curContract.callState.ctrState.SetData(key, value)
	return ""
}

// the context variable is reassigned to another slot before the guard
//
// verdict: unguarded
//
//export c20ContextReassigned
func c20ContextReassigned(service int, key, value []byte) string {
	ctx := contexts[service]
	target := ctx.curContract.callState.ctrState
	ctx = contexts[0]
	if ctx.isQuery == true || ctx.nestedView > 0 {
		return "not permitted in query"
	}
	target.SetData(key, value)
	return ""
}
