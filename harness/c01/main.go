// Harness of C01 (ledger conservation): drives the real executeTx / block reward / block executor on
// generated blocks and checks the sum of all balances; the engine is package zz_verif/ledger
// (/verif/harness/ledger), shared with C03.
package main

import "github.com/aergoio/aergo/v2/zz_verif/ledger"

func main() { ledger.Main("C01") }
