// Harness c02 (property C02, deterministic execution).
//
// Part A (correspondence with the Lean model, tie C): the real VoteResult.buildVoteList, vpr.apply and the
// control skeleton of BlockGenerator.GatherTXs are driven directly on generated inputs, several times each
// (Go re-randomises map iteration on every `range`), and answer line by line like `model-c02`.
//
// Part B (oracle = the property itself): blocks are built through the REAL producer path
// (consensus/chain.BlockGenerator.GenerateBlock -> GatherTXs with a stub tx source, chain.NewTxExecutor in
// block-factory mode, SendBlockReward, BlockState.Update) and every block is re-executed through the REAL
// validator path (chain.newBlockExecutor + blockExecutor.execute on a state DB opened at the parent root:
// tx loop, reward, Update, ValidatePost) k times under GOMAXPROCS 1, 4, 16 by a "fresh node" whose in-memory
// governance state is re-loaded from the parent state, and once more by a long-running second node through
// ChainService.addBlock. State root, receipts bytes and receipts root must be byte-identical everywhere.
package main

import (
	"bytes"
	"context"
	"encoding/hex"
	"encoding/json"
	"errors"
	"fmt"
	"math/big"
	"os"
	"os/exec"
	"path/filepath"
	"runtime"
	"sort"
	"strings"
	"time"

	"github.com/aergoio/aergo-actor/actor"
	"github.com/aergoio/aergo/v2/account/key"
	crypto "github.com/aergoio/aergo/v2/account/key/crypto"
	"github.com/aergoio/aergo/v2/chain"
	"github.com/aergoio/aergo/v2/config"
	"github.com/aergoio/aergo/v2/consensus"
	cchain "github.com/aergoio/aergo/v2/consensus/chain"
	"github.com/aergoio/aergo/v2/consensus/impl/dpos"
	"github.com/aergoio/aergo/v2/contract"
	"github.com/aergoio/aergo/v2/contract/system"
	"github.com/aergoio/aergo/v2/internal/enc/base58"
	encproto "github.com/aergoio/aergo/v2/internal/enc/proto"
	"github.com/aergoio/aergo/v2/pkg/component"
	"github.com/aergoio/aergo/v2/state"
	"github.com/aergoio/aergo/v2/state/statedb"
	"github.com/aergoio/aergo/v2/types"
	"github.com/aergoio/aergo/v2/types/dbkey"
	"github.com/aergoio/aergo/v2/types/message"
	"github.com/aergoio/aergo/v2/zz_verif/vh"
	"github.com/btcsuite/btcd/btcec/v2"
	"github.com/rs/zerolog"
)

func hx(b []byte) string {
	if len(b) == 0 {
		return "-"
	}
	return hex.EncodeToString(b)
}

// ---------------------------------------------------------------- stub consensus (exported interface only)

type stubCons struct{ cs *chain.ChainService }

func (s *stubCons) SetStateDB(sdb *state.ChainStateDB)                       {}
func (s *stubCons) IsTransactionValid(tx *types.Tx) bool                     { return true }
func (s *stubCons) VerifyTimestamp(block *types.Block) bool                  { return true }
func (s *stubCons) VerifySign(block *types.Block) error                      { return nil }
func (s *stubCons) IsBlockValid(block *types.Block, best *types.Block) error { return nil }
func (s *stubCons) Update(block *types.Block)                                {}
func (s *stubCons) Save(tx consensus.TxWriter) error                         { return nil }
func (s *stubCons) NeedReorganization(rootNo types.BlockNo) bool             { return true }
func (s *stubCons) Info() string                                             { return "" }
func (s *stubCons) GetType() consensus.ConsensusType                         { return consensus.ConsensusDPOS }
func (s *stubCons) NeedNotify() bool                                         { return true }
func (s *stubCons) HasWAL() bool                                             { return false }
func (s *stubCons) IsForkEnable() bool                                       { return true }
func (s *stubCons) IsConnectedBlock(block *types.Block) bool {
	_, err := s.cs.GetBlock(block.BlockHash())
	return err == nil
}
func (s *stubCons) MakeConfChangeProposal(req *types.MembershipChange) (*consensus.ConfChangePropose, error) {
	return nil, consensus.ErrNotSupportedMethod
}

// sink stands for mempool, rpc, p2p, syncer: swallows every message
type sink struct {
	name string
	hub  *component.ComponentHub
}

func (r *sink) GetName() string                          { return r.name }
func (r *sink) Start()                                   {}
func (r *sink) Stop()                                    {}
func (r *sink) Status() component.Status                 { return component.StartedStatus }
func (r *sink) SetHub(hub *component.ComponentHub)       { r.hub = hub }
func (r *sink) Hub() *component.ComponentHub             { return r.hub }
func (r *sink) MsgQueueLen() int32                       { return 0 }
func (r *sink) Receive(actor.Context)                    {}
func (r *sink) Tell(m interface{})                       {}
func (r *sink) Request(m interface{}, sender *actor.PID) {}
func (r *sink) RequestFuture(m interface{}, timeout time.Duration, tip string) *actor.Future {
	f := actor.NewFuturePrefix("verif", timeout)
	f.PID().Tell(component.ErrHubUnregistered)
	return f
}

// mempoolSink is a node's mempool as the tx signature verifier sees it: the answer to "is this tx in your pool"
// (MemPoolExist). A hit makes the verifier skip the signature check of that tx (the pool has verified it). Which
// txs a node's pool happens to hold is a node-local input: the nodes of one session get different pools.
type mempoolSink struct {
	sink
	hit func(hash []byte) bool
}

func (r *mempoolSink) RequestFuture(m interface{}, timeout time.Duration, tip string) *actor.Future {
	f := actor.NewFuturePrefix("verif", timeout)
	if q, ok := m.(*message.MemPoolExist); ok && r.hit != nil {
		rsp := &message.MemPoolExistRsp{}
		if r.hit(q.Hash) {
			rsp.Tx = &types.Tx{Hash: q.Hash}
		}
		f.PID().Tell(rsp)
		return f
	}
	f.PID().Tell(component.ErrHubUnregistered)
	return f
}

// ---------------------------------------------------------------- world, nodes

type acct struct {
	key  *btcec.PrivateKey
	addr []byte
}

type world struct {
	run   *vh.Run
	rng   *vh.Rng
	root  string
	nnode int
	accts []*acct
	bps   []string // genesis BP ids (base58 peer ids)
	cands [][]byte // BP candidates (39-byte peer ids)
	hf    *config.HardforkConfig
	ts    int64
	label string
	// flip: a session of scripted parameter votes (see flipTxs); account k starts with 3*10^(5+k) aergo so that
	// every account can out-stake all the ones before it
	flip bool
}

func peerID(par byte, x []byte) []byte {
	b := []byte{0, 0x25, 8, 2, 0x12, 0x21, par}
	return append(b, x...)
}

func fill(b byte) []byte { return bytes.Repeat([]byte{b}, 32) }

func newWorld(run *vh.Run, rng *vh.Rng, hf *config.HardforkConfig, label string) *world {
	w := &world{run: run, rng: rng, root: filepath.Join(run.Out, "nodes", label), hf: hf, label: label, ts: 1_600_000_000_000_000_000,
		flip: strings.Contains(label, "flip")}
	seed := vh.NewRng(77)
	for i := 0; i < 10; i++ {
		k, _ := btcec.PrivKeyFromBytes(seed.Bytes(32))
		w.accts = append(w.accts, &acct{key: k, addr: crypto.GenerateAddress(k.PubKey().ToECDSA())})
	}
	// candidates: three unrelated keys, and two pairs sharing the X coordinate (a key and its negation differ only in
	// the parity byte at index 6 - the shape on which VoteList.Less used to tie, class C15-less-tie-candidate-prefix)
	w.cands = [][]byte{peerID(2, fill(0x11)), peerID(3, fill(0x22)), peerID(2, fill(0x33)),
		peerID(2, fill(0x44)), peerID(3, fill(0x44)), peerID(2, fill(0x55)), peerID(3, fill(0x55))}
	for _, c := range w.cands[:3] {
		w.bps = append(w.bps, base58.Encode(c))
	}
	return w
}

const coin = "000000000000000000" // 10^18

func (w *world) genesis() *types.Genesis {
	g := &types.Genesis{
		ID:        types.ChainID{Version: 0, Magic: "c02.verif", PublicNet: true, MainNet: false, Consensus: "dpos"},
		Timestamp: 1_600_000_000_000_000_000,
		Balance:   map[string]string{},
		BPs:       append([]string{}, w.bps...),
	}
	for k, a := range w.accts {
		g.Balance[types.EncodeAddress(a.addr)] = "1000000" + coin
		if w.flip {
			g.Balance[types.EncodeAddress(a.addr)] = "3" + strings.Repeat("0", 5+k) + coin
		}
	}
	g.Balance[types.AergoVault] = "5000" + coin
	return g
}

type node struct {
	name string
	cs   *chain.ChainService
	g    system.VerifC02Globals
	dir  string
	// node-local configuration that lives in package-level variables of /repo (set by chain.Init from the node's
	// config file): parked here and installed whenever this node runs, like the governance state
	cb []byte // chain.CoinbaseAccount
}

// nodeConf is the node-local part of a node's configuration: none of it may influence what a block executes to.
type nodeConf struct {
	coinbase   []byte // nil: not a block producer
	verifiers  int    // cfg.Blockchain.VerifierCount (signature verifier goroutines)
	workers    int    // cfg.Blockchain.NumWorkers
	logOps     bool   // cfg.RPC.LogInternalOperations
	poolHits   func(hash []byte) bool
	useMempool bool
}

func cbAccount(b byte) []byte { return append([]byte{2}, bytes.Repeat([]byte{b}, 32)...) }

func (w *world) initDir(dir string) {
	os.RemoveAll(dir)
	os.MkdirAll(dir, 0o755)
	core, err := chain.NewCore("memorydb", dir, false, 0, &config.DBConfig{})
	if err != nil {
		panic(err)
	}
	if err := core.InitGenesisBlock(w.genesis(), false); err != nil {
		panic(err)
	}
	core.Close()
}

// newNode boots a real ChainService on a fresh memory DB holding the genesis block; its in-memory governance
// state (parameter table, voting-power rank) is loaded from the genesis state as a booting DPoS node does.
func (w *world) newNode(name string, nc nodeConf) *node {
	w.nnode++
	dir := filepath.Join(w.root, fmt.Sprintf("%s%d", name, w.nnode))
	w.initDir(dir)
	return w.openNode(name, dir, nc)
}

// openNode starts a node on an existing data directory (a node that boots, or boots again after a stop).
func (w *world) openNode(name, dir string, nc nodeConf) *node {
	n := &node{name: name, dir: dir}
	system.VerifC02BlankGlobals()
	cfg := config.NewServerContext("", "").GetDefaultConfig().(*config.Config)
	cfg.DbType = "memorydb"
	cfg.DataDir = n.dir
	hf := *w.hf
	cfg.Hardfork = &hf
	// the node-local settings go in through the node's configuration, as on a real node (chain.Init)
	chain.CoinbaseAccount = nil // a fresh process
	if nc.coinbase != nil {
		cfg.Consensus.EnableBp = true
		cfg.Blockchain.CoinbaseAccount = types.EncodeAddress(nc.coinbase)
	}
	if nc.verifiers > 0 {
		cfg.Blockchain.VerifierCount = nc.verifiers
	}
	if nc.workers > 0 {
		cfg.Blockchain.NumWorkers = nc.workers
	}
	cfg.RPC.LogInternalOperations = nc.logOps
	n.cs = chain.NewChainService(cfg)
	n.cb = chain.CoinbaseAccount
	if !bytes.Equal(n.cb, nc.coinbase) {
		panic("chain.Init did not install the configured coinbase account")
	}
	n.cs.SetChainConsensus(&stubCons{cs: n.cs})
	hub := component.NewComponentHub()
	hub.Register(&mempoolSink{sink: sink{name: message.MemPoolSvc}, hit: nc.poolHits})
	for _, nm := range []string{message.RPCSvc, message.P2PSvc, message.SyncerSvc} {
		hub.Register(&sink{name: nm})
	}
	n.cs.SetHub(hub)
	chain.VerifC02SetSkipMempool(n.cs, !nc.useMempool)
	if err := dpos.VerifC02InitVPR(n.cs.SDB().GetStateDB()); err != nil {
		panic(err)
	}
	n.g = system.VerifC02TakeGlobals()
	return n
}

func (n *node) close() {
	n.cs.BeforeStop()
	os.RemoveAll(n.dir)
}

// on runs f with node n's in-memory governance state and node-local configuration installed.
func (n *node) on(f func()) {
	system.VerifC02InstallGlobals(n.g)
	chain.CoinbaseAccount = n.cb
	defer func() { n.g = system.VerifC02TakeGlobals() }()
	f()
}

// bootFresh installs the in-memory governance state a node has right after booting on the state `root`.
func (n *node) bootFresh(root []byte, bps int) {
	system.VerifC02BlankGlobals()
	sdb := n.cs.SDB().OpenNewStateDB(root)
	scs, err := statedb.GetSystemAccountState(sdb)
	if err != nil {
		panic(err)
	}
	if err := system.VerifC02BootGlobals(scs, bps); err != nil {
		panic(err)
	}
}

// ---------------------------------------------------------------- producer path

type stubCcc struct{}

func (stubCcc) MakeConfChangeProposal(req *types.MembershipChange) (*consensus.ConfChangePropose, error) {
	return nil, consensus.ErrNotSupportedMethod
}

// deadlineCtx is a block-generation context whose expiry the harness triggers at a chosen moment (the real one
// is a context.WithDeadline of the slot: "the deadline passes while candidate i executes" is pure timing there).
type deadlineCtx struct {
	done chan struct{}
	err  error
}

func (c *deadlineCtx) Deadline() (time.Time, bool)       { return time.Time{}, false }
func (c *deadlineCtx) Done() <-chan struct{}             { return c.done }
func (c *deadlineCtx) Value(key interface{}) interface{} { return nil }
func (c *deadlineCtx) Err() error {
	select {
	case <-c.done:
		return c.err
	default:
		return nil
	}
}
func (c *deadlineCtx) fire(err error) {
	select {
	case <-c.done:
	default:
		c.err = err
		close(c.done)
	}
}

// produced is one block as the producer built it
type produced struct {
	blk      *types.Block
	bs       *state.BlockState
	outcomes []string // per candidate: ok | err | tmo | vmtmo | - (not reached)
	picked   []int    // indexes of the candidates in the block
	err      error
}

// produce = what dpos.BlockFactory.generateBlock / sbp do: block header info from the parent, a block state at the
// parent root, gas price, receipts fork flag, a BlockGenerator whose tx source is `cands`, GenerateBlock.
// stops[i] scripts the block factory's own checks for candidate i ("" = none, "tmo" = block timeout,
// "vmtmo" = contract timeout): they are TxOps composed in front of the executor exactly like checkBpTimeout;
// "dl" / "cancel" make the block-generation context expire (DeadlineExceeded) / be cancelled (shutdown) right
// after candidate i executed, "dlpre" / "cancelpre" after checkBGTimeout let it pass and BEFORE it executes (the
// executor then runs with execCtx.Err() != nil): GatherTXs' own checkBGTimeout sees it at the next candidate
// (outcome tokens "ok!" / "err!" and "ok^" / "err^"). "xtmo": the executor returned a *contract.VmTimeoutError
// that came out of the VM after the call had started.
func (n *node) produce(w *world, parent *types.Block, no types.BlockNo, cands []types.Transaction, stops []string) *produced {
	w.ts += 1_000_000_000
	bi := types.NewBlockHeaderInfoFromPrevBlock(parent, w.ts, w.hf)
	if no != 0 { // time-warp session: the block number jumps (staking/voting delays are 86400 blocks)
		bi = &types.BlockHeaderInfo{No: no, Ts: w.ts, PrevBlockHash: parent.BlockHash(),
			ChainId: types.MakeChainId(parent.GetHeader().GetChainID(), w.hf.Version(no)), ForkVersion: w.hf.Version(no)}
	}
	bs := n.cs.SDB().NewBlockState(parent.GetHeader().GetBlocksRootHash(), state.SetPrevBlockHash(parent.BlockHash()))
	bs.SetGasPrice(system.GetGasPrice())
	bs.Receipts().SetHardFork(w.hf, bi.No)
	p := &produced{bs: bs, outcomes: make([]string, len(cands))}
	for i := range p.outcomes {
		p.outcomes[i] = "-"
	}
	idx := map[string]int{}
	for i, c := range cands {
		idx[string(c.GetHash())] = i
	}
	bgCtx := &deadlineCtx{done: make(chan struct{})}
	exec := chain.NewTxExecutor(bgCtx, stubCcc{}, nil, bi, contract.BlockFactory)
	txOp := cchain.NewCompTxOp(
		cchain.TxOpFn(func(bState *state.BlockState, tx types.Transaction) error {
			i := idx[string(tx.GetHash())]
			switch stops[i] {
			case "tmo":
				p.outcomes[i] = "tmo"
				return cchain.ErrTimeout{Kind: "block"}
			case "vmtmo":
				p.outcomes[i] = "vmtmo"
				return &contract.VmTimeoutError{}
			case "dlpre": // checkBGTimeout has let the candidate pass; the deadline passes before it executes
				bgCtx.fire(context.DeadlineExceeded)
			case "cancelpre":
				bgCtx.fire(context.Canceled)
			}
			return nil
		}),
		cchain.TxOpFn(func(bState *state.BlockState, tx types.Transaction) error {
			i := idx[string(tx.GetHash())]
			err := exec(bState, tx)
			var vmt *contract.VmTimeoutError
			switch {
			case err == nil:
				p.outcomes[i] = "ok"
			case errors.As(err, &vmt): // a timeout raised inside the VM, after the call has started (and written)
				p.outcomes[i] = "xtmo"
			default:
				p.outcomes[i] = "err"
			}
			switch stops[i] {
			case "dl":
				bgCtx.fire(context.DeadlineExceeded)
				p.outcomes[i] += "!"
			case "cancel":
				bgCtx.fire(context.Canceled)
				p.outcomes[i] += "!"
			case "dlpre", "cancelpre":
				p.outcomes[i] += "^"
			}
			return err
		}),
	)
	gen := cchain.NewBlockGenerator(nil, bgCtx, bi, bs, txOp, false).
		WithDeco(func(cchain.FetchFn) cchain.FetchFn {
			return func(component.ICompSyncRequester, uint32) []types.Transaction { return cands }
		})
	p.blk, p.err = gen.GenerateBlock()
	if p.err == nil {
		p.blk.BlockHash()
		for _, tx := range p.blk.GetBody().GetTxs() {
			p.picked = append(p.picked, idx[string(tx.GetHash())])
		}
	}
	return p
}

// ---------------------------------------------------------------- transactions

func (w *world) sign(a *acct, body *types.TxBody) types.Transaction {
	tx := &types.Tx{Body: body}
	body.Account = a.addr
	if err := key.SignTx(tx, a.key); err != nil {
		panic(err)
	}
	return types.NewTransaction(tx)
}

func amt(n int64, zeros int) []byte {
	v := new(big.Int).Mul(big.NewInt(n), new(big.Int).Exp(big.NewInt(10), big.NewInt(int64(zeros)), nil))
	return v.Bytes()
}

// ================================================================ Part A1: VoteResult.buildVoteList

type tallyEntry struct {
	cand []byte
	amt  *big.Int
}

func showVotes(vs []*types.Vote) string {
	if len(vs) == 0 {
		return "-"
	}
	out := make([]string, len(vs))
	for i, v := range vs {
		out[i] = hx(v.Candidate) + ":" + new(big.Int).SetBytes(v.Amount).String()
	}
	return strings.Join(out, " ")
}

// tieShaped: two entries with equal amounts whose Less-keys coincide (BP ids equal from byte 7 on; numbers equal as
// integers) - the input shape of class C15-less-tie-candidate-prefix.
func tieShaped(es []tallyEntry, ex bool) bool {
	for i := range es {
		for j := i + 1; j < len(es); j++ {
			if es[i].amt.Cmp(es[j].amt) != 0 {
				continue
			}
			a, b := es[i].cand, es[j].cand
			if !ex && len(a) == 39 && len(b) == 39 {
				a, b = a[7:], b[7:]
			}
			if new(big.Int).SetBytes(a).Cmp(new(big.Int).SetBytes(b)) == 0 {
				return true
			}
		}
	}
	return false
}

func partVoteSort(run *vh.Run) {
	rng := run.Rng.Fork()
	n := run.Pick(400, 4000)
	reps := run.Pick(6, 25)
	tails := [][]byte{fill(0x11), fill(0x22), fill(0x33), append([]byte{0}, fill(0x44)[1:]...), append([]byte{0, 0}, fill(0x55)[2:]...)}
	nums := []string{"1", "3", "5", "05", "005", "13", "23", "100", "50000000000", "050000000000", "60000000000",
		"10000000000000000000000", "20000000000000000000000", "9", "90"}
	for c := 0; c < n; c++ {
		ex := rng.Chance(2, 5)
		k := rng.Intn(8)
		if c < 3 {
			k = c // empty, singleton, pair
		}
		seen := map[string]bool{}
		var es []tallyEntry
		for len(es) < k {
			var cand []byte
			if ex {
				cand = []byte(nums[rng.Intn(len(nums))])
			} else {
				t := tails[rng.Intn(len(tails))]
				if rng.Chance(1, 4) {
					t = rng.Bytes(32)
				}
				cand = peerID(2+byte(rng.Intn(2)), t)
			}
			if seen[string(cand)] {
				continue
			}
			seen[string(cand)] = true
			es = append(es, tallyEntry{cand, big.NewInt(int64(1 + rng.Intn(3)))})
		}
		if rng.Chance(1, 3) { // all amounts equal: the order rests on the candidate comparison alone
			for i := range es {
				es[i].amt = big.NewInt(7)
			}
		}
		if rng.Chance(1, 6) && len(es) > 0 {
			es[0].amt = big.NewInt(0)
		}
		sort.Slice(es, func(i, j int) bool { return bytes.Compare(es[i].cand, es[j].cand) < 0 })
		keys := make([]string, len(es))
		amts := make([]*big.Int, len(es))
		words := []string{"votesort"}
		for i, e := range es {
			if ex {
				keys[i] = string(e.cand)
			} else {
				keys[i] = base58.Encode(e.cand)
			}
			amts[i] = e.amt
			words = append(words, hx(e.cand)+":"+e.amt.String())
		}
		op := strings.Join(words, " ")
		run.Pending(op)
		first := ""
		for r := 0; r < reps; r++ {
			out, panicked := vh.Guard(func() string { return showVotes(system.VerifC02BuildVoteList(keys, amts, ex)) })
			if panicked {
				run.Fail("buildVoteList panics: "+out, map[string]interface{}{"op": op})
				first = out
				break
			}
			if r == 0 {
				first = out
			} else if out != first {
				class := ""
				if tieShaped(es, ex) {
					class = "C15-less-tie-candidate-prefix"
				}
				run.FailKnown("VoteResult.buildVoteList returns different vote lists for one tally (map iteration order leaks into the ranking bytes)",
					class, map[string]interface{}{"op": op, "run0": first, fmt.Sprintf("run%d", r): out})
				break
			}
		}
		run.Count(fmt.Sprintf("votesort ex=%v n=%d", ex, min(len(es), 4)))
		if tieShaped(es, ex) {
			run.Count("votesort tie-shaped")
		}
		run.Op(op, first, len(es) >= 2)
	}
}

// ================================================================ Part A2: vpr.apply

type vprReplica struct {
	h   *system.VerifC02Vpr
	sdb *statedb.StateDB
	scs *statedb.ContractState
}

func newVprReplica(dir string) *vprReplica {
	csdb := state.NewChainStateDB()
	if err := csdb.Init("memorydb", dir, nil, false, nil); err != nil {
		panic(err)
	}
	sdb := csdb.GetStateDB()
	scs, err := statedb.GetSystemAccountState(sdb)
	if err != nil {
		panic(err)
	}
	return &vprReplica{h: system.VerifC02NewVpr(), sdb: sdb, scs: scs}
}

func (r *vprReplica) show() string {
	var ps []string
	powers := r.h.VerifC02Powers()
	ids := make([]types.AccountID, 0, len(powers))
	for id := range powers {
		ids = append(ids, id)
	}
	sort.Slice(ids, func(i, j int) bool { return bytes.Compare(ids[i][:], ids[j][:]) > 0 })
	for _, id := range ids {
		ps = append(ps, hex.EncodeToString(id[:])+":"+powers[id].String())
	}
	bk := r.h.VerifC02Buckets()
	var idx []int
	for i, l := range bk {
		if len(l) > 0 {
			idx = append(idx, int(i))
		}
	}
	sort.Ints(idx)
	var bs []string
	for _, i := range idx {
		var xs []string
		for _, e := range bk[uint8(i)] {
			xs = append(xs, hex.EncodeToString(e[0])+":"+new(big.Int).SetBytes(e[1]).String())
		}
		bs = append(bs, fmt.Sprintf("%d=[%s]", i, strings.Join(xs, ",")))
	}
	return fmt.Sprintf("total=%s powers=[%s] buckets={%s} pending=%d", r.h.VerifC02Total().String(), strings.Join(ps, ","),
		strings.Join(bs, " "), r.h.VerifC02PendingChanges())
}

// rows: the persisted bucket rows as stored by store.write
func (r *vprReplica) rows() string {
	var b strings.Builder
	for i := 0; i < 71; i++ {
		d, _ := r.scs.GetData(dbkey.SystemVpr(uint8(i)))
		if len(d) > 0 {
			fmt.Fprintf(&b, "%d:%s ", i, hx(d))
		}
	}
	return b.String()
}

func partVprApply(run *vh.Run) {
	rng := run.Rng.Fork()
	nsess := run.Pick(60, 600)
	reps := run.Pick(5, 20)
	// ids whose first byte puts several of them into one bucket (idx = id[0] % 71)
	firsts := []byte{0, 71, 142, 1, 72, 5, 0, 71}
	for s := 0; s < nsess; s++ {
		var ids []types.AccountID
		for i := 0; i < 8; i++ {
			var id types.AccountID
			copy(id[:], rng.Bytes(32))
			id[0] = firsts[i]
			ids = append(ids, id)
		}
		reps_ := make([]*vprReplica, reps)
		for i := range reps_ {
			reps_[i] = newVprReplica(filepath.Join(run.Out, "vpr", fmt.Sprintf("%d-%d", s, i)))
		}
		run.Op("vnew", "ok", false)
		power := map[types.AccountID]int64{} // applied power, to keep sub within it
		pend := map[types.AccountID]int64{}
		var script []string
		rounds := 2 + rng.Intn(5)
		for rd := 0; rd < rounds; rd++ {
			nops := 1 + rng.Intn(7)
			for o := 0; o < nops; o++ {
				id := ids[rng.Intn(len(ids))]
				a := int64(1 + rng.Intn(9))
				addr := append([]byte{2}, id[:]...)
				if rng.Chance(2, 5) && power[id]+pend[id] > 0 {
					if a > power[id]+pend[id] || rng.Chance(1, 3) {
						a = power[id] + pend[id] // leave: power back to zero
					}
					op := fmt.Sprintf("vsub %s %d", hex.EncodeToString(id[:]), a)
					script = append(script, op)
					for _, r := range reps_ {
						r.h.VerifC02Sub(id, addr, big.NewInt(a))
					}
					if power[id] > 0 { // vpr.sub ignores a voter that is not (yet) in the rank
						pend[id] -= a
					}
					run.Op(op, "ok", false)
					run.Count("vpr sub")
				} else {
					if rng.Chance(1, 12) {
						a = 0
					}
					op := fmt.Sprintf("vadd %s %d", hex.EncodeToString(id[:]), a)
					script = append(script, op)
					for _, r := range reps_ {
						r.h.VerifC02Add(id, addr, big.NewInt(a))
					}
					pend[id] += a
					run.Op(op, "ok", false)
					run.Count("vpr add")
				}
			}
			script = append(script, "vapply")
			run.Pending("vapply")
			var first, firstRows string
			for i, r := range reps_ {
				out, panicked := vh.Guard(func() string {
					if _, err := r.h.VerifC02Apply(r.scs); err != nil {
						return "error: " + err.Error()
					}
					return r.show()
				})
				rows := r.rows()
				if panicked {
					run.Fail("vpr.apply panics: "+out, map[string]interface{}{"ops": script})
				}
				if i == 0 {
					first, firstRows = out, rows
				} else if out != first || rows != firstRows {
					run.Fail("vpr.apply leaves different ranks / bucket rows for one set of changes (map iteration order leaks into state)",
						map[string]interface{}{"ops": script, "replica0": first + " rows " + firstRows, fmt.Sprintf("replica%d", i): out + " rows " + rows})
					break
				}
			}
			nch := 0
			for id, d := range pend {
				if d != 0 {
					nch++
				}
				power[id] += d
				delete(pend, id)
			}
			run.Count(fmt.Sprintf("vpr apply changes=%d", min(nch, 5)))
			run.Op("vapply", first, nch >= 2)
		}
	}
	os.RemoveAll(filepath.Join(run.Out, "vpr"))
}

// ================================================================ Part B: producer path vs validator path

type contractInfo struct {
	addr []byte
	keys map[string]bool
}

type nameInfo struct {
	name  string
	owner int
}

type session struct {
	w         *world
	run       *vh.Run
	rng       *vh.Rng
	P, V      *node
	warp      bool
	parent    *types.Block
	no        types.BlockNo
	contracts []*contractInfo
	names     []nameInfo
	history   []string // per block: compact description (for the replay)
	last      *produced
	stopPos   int
	reps      int
	blocks    []*types.Block // the blocks of the session, for the validator in another process
	nblock    int            // blocks produced so far
	flipK     int            // flip sessions: number of the next flip (account flipK out-stakes 0..flipK-1)
}

var daoValues = map[string][]string{
	"BPCOUNT":    {"3", "5", "23"},
	"STAKINGMIN": {"10000000000000000000000", "20000000000000000000000"},
	"GASPRICE":   {"50000000000", "60000000000", "1000000000"},
	"NAMEPRICE":  {"1000000000000000000", "2000000000000000000"},
}
var daoIDs = []string{"BPCOUNT", "STAKINGMIN", "GASPRICE", "NAMEPRICE"}

// paramsNow renders the system parameters in force on the installed node.
func paramsNow() string {
	var b strings.Builder
	for _, id := range daoIDs {
		fmt.Fprintf(&b, "%s=%s ", id, system.GetParam(id).String())
	}
	return b.String()
}

const defaultParams = "BPCOUNT=3 STAKINGMIN=10000000000000000000000 GASPRICE=50000000000 NAMEPRICE=1000000000000000000 "

func (s *session) stateOf(addr []byte) *types.State {
	st, err := s.P.cs.SDB().GetStateDB().GetAccountState(types.ToAccountID(addr))
	if err != nil || st == nil {
		return &types.State{}
	}
	return st
}

type cand struct {
	tx   types.Transaction
	kind string
}

func script(rng *vh.Rng, ci *contractInfo, accts []*acct, others []*contractInfo) string {
	sc := map[string]interface{}{"fee": fmt.Sprint(rng.Intn(3) * 1000)}
	var sets []map[string]string
	for i, n := 0, rng.Intn(5); i < n; i++ {
		k := fmt.Sprintf("k%d", rng.Intn(8))
		sets = append(sets, map[string]string{"k": k, "v": fmt.Sprint(rng.Intn(100))})
	}
	if len(sets) > 0 {
		sc["sets"] = sets
	}
	var dels []string
	for i, n := 0, rng.Intn(3); i < n; i++ {
		dels = append(dels, fmt.Sprintf("k%d", rng.Intn(8)))
	}
	if len(dels) > 0 {
		sc["dels"] = dels
	}
	if rng.Chance(1, 4) {
		var xs []map[string]string
		for i, n := 0, 1+rng.Intn(2); i < n; i++ {
			to := accts[rng.Intn(len(accts))].addr
			if len(others) > 0 && rng.Chance(1, 3) {
				to = others[rng.Intn(len(others))].addr
			}
			xs = append(xs, map[string]string{"to": hex.EncodeToString(to), "amt": fmt.Sprint(rng.Intn(5))})
		}
		sc["xfers"] = xs
	}
	if rng.Chance(1, 5) {
		sc["events"] = 1 + rng.Intn(2)
	}
	if rng.Chance(1, 4) {
		sc["ret"] = fmt.Sprintf("r%d", rng.Intn(10))
	}
	switch rng.Intn(12) {
	case 0:
		sc["err"] = "vm" // runtime error: the tx stays in the block with an ERROR receipt
	case 1, 2:
		// system error: the tx fails AFTER the VM has charged a fee; the producer must skip it and keep nothing of it
		sc["err"] = "system"
		sc["fee"] = fmt.Sprint(1000 + rng.Intn(5)*123456789)
	case 3:
		// the contract times out inside the VM AFTER its transfers and storage writes were made: the producer stops
		// collecting, keeps the block built so far, and nothing of the timed-out call may stay in its state
		sc["err"] = "timeout"
		sc["fee"] = fmt.Sprint(1000 + rng.Intn(5)*123456789)
		if len(sets) == 0 {
			sc["sets"] = []map[string]string{{"k": "k1", "v": "99"}}
		}
		if _, ok := sc["xfers"]; !ok {
			fresh := append([]byte{3}, rng.Bytes(32)...)
			sc["xfers"] = []map[string]string{{"to": hex.EncodeToString(fresh), "amt": "0"}}
		}
	}
	b, _ := json.Marshal(sc)
	return string(b)
}

// candidates generates the tx candidates of the next block (mostly valid; the invalid ones must be skipped)
func (s *session) candidates(bi *types.BlockHeaderInfo) ([]cand, []string) {
	rng, w := s.rng, s.w
	cid := bi.ChainIdHash()
	n := rng.Intn(14)
	if rng.Chance(1, 12) {
		n = 0
	}
	next := map[int]uint64{}
	nonce := func(i int) uint64 {
		if _, ok := next[i]; !ok {
			next[i] = s.stateOf(w.accts[i].addr).GetNonce() + 1
		}
		v := next[i]
		next[i]++
		return v
	}
	gp := system.GetGasPrice().Bytes()
	// what the producer's state says about every account's stake and votes (to aim at transactions that succeed)
	scs, err := statedb.GetSystemAccountState(s.P.cs.SDB().GetStateDB())
	if err != nil {
		panic(err)
	}
	type gov struct {
		staked *big.Int
		when   uint64
		voted  map[string]bool
	}
	govs := make([]gov, len(w.accts))
	for i, a := range w.accts {
		st, _ := system.GetStaking(scs, a.addr)
		g := gov{staked: st.GetAmountBigInt(), when: st.GetWhen(), voted: map[string]bool{}}
		for _, issue := range append([]string{types.OpvoteBP.ID()}, daoIDs...) {
			if v, err := system.GetVote(scs, a.addr, []byte(issue)); err == nil && v.Amount != nil {
				g.voted[issue] = true
			}
		}
		govs[i] = g
	}
	touched := map[int]bool{} // one governance action per account and block (the delays are counted in blocks)
	rested := func(i int) bool { return govs[i].when+86400 <= uint64(bi.No) }
	pick := func(ok func(i int) bool) int {
		if rng.Chance(5, 6) {
			var el []int
			for i := range w.accts {
				if !touched[i] && ok(i) {
					el = append(el, i)
				}
			}
			if len(el) > 0 {
				return el[rng.Intn(len(el))]
			}
		}
		return rng.Intn(len(w.accts))
	}
	var out []cand
	// flip sessions: the governance txs are scripted (flipTxs), created first (lowest nonces of their senders); the
	// random candidates are the fee-paying filler and do not use the scripted senders
	var scripted []cand
	busy := map[int]bool{}
	if w.flip {
		scripted, busy = s.flipTxs(cid, gp, nonce)
	}
	for tries := 0; len(out) < n && tries < 200; tries++ {
		i := rng.Intn(len(w.accts))
		if busy[i] {
			continue
		}
		body := &types.TxBody{ChainIdHash: cid, GasPrice: gp}
		kind := ""
		k := rng.Intn(100)
		if w.flip && k >= 48 && k < 91 { // no random stake / voteBP / voteDAO / unstake here
			k = rng.Intn(48)
		}
		switch {
		case k < 14:
			kind = "transfer"
			body.Type, body.Recipient, body.Amount = types.TxType_TRANSFER, w.accts[rng.Intn(len(w.accts))].addr, amt(int64(rng.Intn(10)), 18)
			if len(s.names) > 0 && rng.Chance(1, 4) {
				body.Recipient = []byte(s.names[rng.Intn(len(s.names))].name)
				kind = "transfer-to-name"
			}
		case k < 17:
			kind = "bad-balance"
			body.Type, body.Recipient, body.Amount = types.TxType_TRANSFER, w.accts[rng.Intn(len(w.accts))].addr, amt(2_000_000, 18)
		case k < 20:
			kind = "bad-nonce"
			body.Type, body.Recipient, body.Amount = types.TxType_TRANSFER, w.accts[rng.Intn(len(w.accts))].addr, amt(1, 18)
			body.Nonce = s.stateOf(w.accts[i].addr).GetNonce() + uint64(rng.Intn(2))*7 // too low (equal to the state nonce) or a gap
			if body.Nonce == 0 {
				body.Nonce = 99
			}
		case k < 26:
			kind = "deploy"
			body.Type = types.TxType_DEPLOY
			body.Payload = []byte(script(rng, nil, w.accts, s.contracts))
			if strings.Contains(string(body.Payload), `"err":"system"`) {
				kind = "deploy-syserr"
			} else if strings.Contains(string(body.Payload), `"err":"timeout"`) {
				kind = "deploy-vmtimeout"
			}
		case k < 48:
			if len(s.contracts) == 0 {
				continue
			}
			kind = "call"
			c := s.contracts[rng.Intn(len(s.contracts))]
			body.Type, body.Recipient = types.TxType_CALL, c.addr
			body.Payload = []byte(script(rng, c, w.accts, s.contracts))
			if rng.Chance(1, 3) {
				body.Amount = amt(int64(rng.Intn(4)), 18)
			}
			if rng.Chance(1, 8) {
				// the VM hands out balance to a brand-new account, then reports a negative fee: contract.Execute returns
				// ErrVmStart (not a runtime error), the tx fails and everything it wrote must be rolled back
				fresh := append([]byte{3}, rng.Bytes(32)...)
				body.Payload = []byte(fmt.Sprintf(`{"fee":"-5","xfers":[{"to":"%s","amt":"0"}],"sets":[{"k":"k1","v":"77"}]}`, hex.EncodeToString(fresh)))
				kind = "call-negfee"
			} else if strings.Contains(string(body.Payload), `"err":"system"`) {
				kind = "call-syserr"
			} else if strings.Contains(string(body.Payload), `"err":"timeout"`) {
				kind = "call-vmtimeout"
			} else if strings.Contains(string(body.Payload), `"err":"vm"`) {
				kind = "call-vmerr"
			}
		case k < 58:
			kind = "stake"
			i = pick(func(i int) bool { return govs[i].staked.Sign() == 0 || rested(i) })
			body.Type, body.Recipient = types.TxType_GOVERNANCE, []byte(types.AergoSystem)
			body.Amount = amt(int64(10000*(1+rng.Intn(2))), 18) // equal stakes are common: tied tallies
			body.Payload = []byte(`{"Name":"v1stake"}`)
		case k < 72:
			kind = "voteBP"
			i = pick(func(i int) bool {
				return govs[i].staked.Sign() > 0 && (!govs[i].voted[types.OpvoteBP.ID()] || rested(i))
			})
			body.Type, body.Recipient = types.TxType_GOVERNANCE, []byte(types.AergoSystem)
			var args []string
			seen := map[int]bool{}
			for j, m := 0, 1+rng.Intn(3); j < m; j++ {
				c := rng.Intn(len(w.cands))
				if rng.Chance(1, 2) {
					c = 3 + rng.Intn(4) // the pairs sharing bytes 7..
				}
				if !seen[c] {
					seen[c] = true
					args = append(args, `"`+base58.Encode(w.cands[c])+`"`)
				}
			}
			body.Payload = []byte(`{"Name":"v1voteBP","Args":[` + strings.Join(args, ",") + `]}`)
		case k < 86:
			kind = "voteDAO"
			id := daoIDs[rng.Intn(len(daoIDs))]
			i = pick(func(i int) bool { return govs[i].staked.Sign() > 0 && (!govs[i].voted[id] || rested(i)) })
			body.Type, body.Recipient = types.TxType_GOVERNANCE, []byte(types.AergoSystem)
			vals := daoValues[id]
			v := vals[len(vals)-1] // most voters agree: the 2/3 threshold is reached and the parameter changes
			if rng.Chance(1, 3) {
				v = vals[rng.Intn(len(vals))]
			}
			body.Payload = []byte(`{"Name":"v1voteDAO","Args":["` + id + `","` + v + `"]}`)
		case k < 91:
			kind = "unstake"
			i = pick(func(i int) bool { return govs[i].staked.Sign() > 0 && rested(i) })
			body.Type, body.Recipient = types.TxType_GOVERNANCE, []byte(types.AergoSystem)
			body.Amount = govs[i].staked.Bytes()
			if rng.Chance(1, 3) {
				body.Amount = amt(10000, 18)
			}
			body.Payload = []byte(`{"Name":"v1unstake"}`)
		case k < 96:
			kind = "createName"
			body.Type, body.Recipient = types.TxType_GOVERNANCE, []byte(types.AergoName)
			body.Amount = system.GetNamePrice().Bytes()
			nm := fmt.Sprintf("name%08d", rng.Intn(8))
			body.Payload = []byte(`{"Name":"v1createName","Args":["` + nm + `"]}`)
		default:
			if len(s.names) == 0 {
				continue
			}
			kind = "updateName"
			nm := s.names[rng.Intn(len(s.names))]
			if rng.Chance(4, 5) {
				i = nm.owner
			}
			body.Type, body.Recipient = types.TxType_GOVERNANCE, []byte(types.AergoName)
			body.Amount = system.GetNamePrice().Bytes()
			body.Payload = []byte(`{"Name":"v1updateName","Args":["` + nm.name + `","` +
				types.EncodeAddress(w.accts[rng.Intn(len(w.accts))].addr) + `"]}`)
		}
		if body.Type == types.TxType_GOVERNANCE && string(body.Recipient) == types.AergoSystem {
			touched[i] = true
		}
		a := w.accts[i]
		if body.Nonce == 0 {
			body.Nonce = nonce(i)
		}
		out = append(out, cand{w.sign(a, body), kind})
	}
	if len(scripted) > 0 { // merge, keeping the order of each list
		var merged []cand
		for len(scripted) > 0 || len(out) > 0 {
			if len(out) == 0 || (len(scripted) > 0 && rng.Chance(1, 2)) {
				merged, scripted = append(merged, scripted[0]), scripted[1:]
			} else {
				merged, out = append(merged, out[0]), out[1:]
			}
		}
		out = merged
	}
	stops := make([]string, len(out))
	if len(out) > 0 && rng.Chance(1, 3) {
		// the position sweeps over the candidates from block to block, so that every position (first, last, on a
		// failing candidate, on a succeeding one) is hit
		s.stopPos++
		stops[s.stopPos%len(out)] = []string{"dl", "dl", "dlpre", "dlpre", "tmo", "vmtmo", "cancel", "cancelpre"}[rng.Intn(8)]
	}
	return out, stops
}

// flipTxs scripts the parameter votes of a flip session. Account 0 stakes in the first block. Then every other
// block is a *flip*: the account that holds more than 10/11 of all stake (account k-1) votes a new value X of one
// parameter - X wins and is scheduled for the next block - and, later in the SAME block, account k stakes ten
// times the total and votes the value currently in force, which wins again: the block's state says "unchanged", and
// so must the memory of every node that executed it. In the blocks between, the dominant account votes another
// parameter to a new value (a plain change: in force from the next block on), so that later flips return to values
// that are not the defaults. Each account votes once per parameter: no waiting period is involved.
func (s *session) flipTxs(cid []byte, gp []byte, nonce func(int) uint64) ([]cand, map[int]bool) {
	w := s.w
	busy := map[int]bool{}
	var out []cand
	gov := func(i int, kind string, amount *big.Int, payload string) {
		body := &types.TxBody{ChainIdHash: cid, GasPrice: gp, Type: types.TxType_GOVERNANCE, Recipient: []byte(types.AergoSystem),
			Payload: []byte(payload), Nonce: nonce(i)}
		if amount != nil {
			body.Amount = amount.Bytes()
		}
		busy[i] = true
		out = append(out, cand{w.sign(w.accts[i], body), kind})
	}
	stakeOf := func(k int) *big.Int { // 2*10^(5+k) aergo: more than ten times everything staked before
		v, _ := new(big.Int).SetString("2"+strings.Repeat("0", 5+k)+coin, 10)
		return v
	}
	other := func(id string, not ...string) string {
		for _, v := range daoValues[id] {
			ok := true
			for _, x := range not {
				if v == x {
					ok = false
				}
			}
			if ok {
				return v
			}
		}
		return daoValues[id][0]
	}
	vote := func(i int, id, v string) {
		gov(i, "flip-voteDAO", nil, `{"Name":"v1voteDAO","Args":["`+id+`","`+v+`"]}`)
	}
	b := s.nblock
	switch {
	case b == 0:
		gov(0, "flip-stake", stakeOf(0), `{"Name":"v1stake"}`)
		s.flipK = 1
	case b%2 == 1 && s.flipK < len(w.accts):
		k := s.flipK
		id := daoIDs[k%len(daoIDs)]
		cur := system.GetParam(id).String()
		vote(k-1, id, other(id, cur)) // X wins: scheduled for the next block
		gov(k, "flip-stake", stakeOf(k), `{"Name":"v1stake"}`)
		vote(k, id, cur) // the value in force wins again
		s.run.Count("flip block: a parameter vote makes a new value win and a later tx of the block returns to the value in force")
		s.flipK++
	case b%2 == 0 && s.flipK < len(w.accts):
		k := s.flipK - 1 // the dominant account; it has voted daoIDs[k%4] only, and will vote daoIDs[(k+1)%4] in the next flip
		id := daoIDs[(k+2)%len(daoIDs)]
		vote(k, id, other(id, system.GetParam(id).String()))
		s.run.Count("flip session: plain parameter change (in force from the next block)")
	}
	return out, busy
}

type execResult struct {
	root, rroot string
	rbytes      string
	err         string
}

func (r execResult) String() string {
	return fmt.Sprintf("err=%q root=%s receiptsRoot=%s receipts=%s", r.err, r.root, r.rroot, r.rbytes)
}

func receiptsBytes(rs *types.Receipts) string {
	if rs == nil {
		return "nil"
	}
	var parts []string
	for _, r := range rs.Get() {
		b, err := r.MarshalMerkleBinaryV2()
		if err != nil {
			return "marshal error: " + err.Error()
		}
		b1, _ := r.MarshalMerkleBinary()
		parts = append(parts, hx(b)+"/"+hx(b1)+"/"+r.Status)
	}
	st, err := rs.MarshalBinary()
	if err != nil {
		return "marshal error: " + err.Error()
	}
	return strings.Join(parts, ",") + "|" + hx(st)
}

// tieInState: the BP tally of the state under test holds two candidates with equal votes that agree from byte 7 on
// AND the real buildVoteList, run repeatedly on that very tally, returns different lists. Only then a block-level
// mismatch is attributed to class C15-less-tie-candidate-prefix; any other cause stays unclassified.
func (s *session) tieInState() bool {
	sdb := s.P.cs.SDB().GetStateDB()
	if s.last != nil && s.last.bs != nil {
		sdb = s.last.bs.StateDB // the state the producer reached with the block under test
	}
	scs, err := statedb.GetSystemAccountState(sdb)
	if err != nil {
		return false
	}
	vl, err := system.GetVoteResult(scs, []byte(types.OpvoteBP.ID()), 1000)
	if err != nil || vl == nil {
		return false
	}
	var es []tallyEntry
	var keys []string
	var amts []*big.Int
	for _, v := range vl.Votes {
		es = append(es, tallyEntry{v.Candidate, new(big.Int).SetBytes(v.Amount)})
		keys = append(keys, base58.Encode(v.Candidate))
		amts = append(amts, new(big.Int).SetBytes(v.Amount))
	}
	if !tieShaped(es, false) {
		return false
	}
	first := ""
	for r := 0; r < 40; r++ {
		out, _ := vh.Guard(func() string { return showVotes(system.VerifC02BuildVoteList(keys, amts, false)) })
		if r == 0 {
			first = out
		} else if out != first {
			return true
		}
	}
	return false
}

func (s *session) fail(what string, extra map[string]interface{}) {
	class := ""
	if s.tieInState() {
		class = "C15-less-tie-candidate-prefix"
	}
	rep := map[string]interface{}{"session": s.w.label, "warp": s.warp, "hardfork": fmt.Sprintf("%+v", *s.w.hf), "blocks": s.history}
	for k, v := range extra {
		rep[k] = v
	}
	s.run.FailKnown(what, class, rep)
}

// step produces one block and checks it; false = the session cannot go on
func (s *session) step() bool {
	w, run := s.w, s.run
	var no types.BlockNo // 0 = parent+1
	if s.warp && s.rng.Chance(1, 2) {
		s.no += 86400 + types.BlockNo(s.rng.Intn(3))
	} else {
		s.no++
	}
	if s.warp {
		no = s.no
	}
	vno := s.parent.BlockNo() + 1
	if no != 0 {
		vno = no
	}
	bi := &types.BlockHeaderInfo{No: vno, ChainId: types.MakeChainId(s.parent.GetHeader().GetChainID(), w.hf.Version(vno)), ForkVersion: w.hf.Version(vno)}
	var cands []cand
	var stops []string
	s.P.on(func() { cands, stops = s.candidates(bi) })
	txs := make([]types.Transaction, len(cands))
	kinds := make([]string, len(cands))
	for i, c := range cands {
		txs[i], kinds[i] = c.tx, c.kind
	}
	var p *produced
	out, panicked := vh.Guard(func() string {
		s.P.on(func() { p = s.P.produce(w, s.parent, no, txs, stops) })
		return ""
	})
	desc := fmt.Sprintf("#%d v%d [%s]", vno, bi.ForkVersion, strings.Join(kinds, " "))
	if panicked {
		s.history = append(s.history, desc)
		s.fail("the producer path panics: "+out, nil)
		return false
	}
	s.last = p
	if p.err != nil {
		s.history = append(s.history, desc+" producer error "+p.err.Error())
		s.fail("the producer path failed to build a block: "+p.err.Error(), nil)
		return false
	}
	s.history = append(s.history, desc+" outcomes "+strings.Join(p.outcomes, ","))
	for i, o := range p.outcomes {
		run.Count("tx " + kinds[i] + " " + o)
	}
	run.Count(fmt.Sprintf("block v%d txs=%d", bi.ForkVersion, min(len(p.picked), 6)/2*2))
	if p.bs.BpReward.Sign() > 0 && len(p.blk.GetHeader().GetCoinbaseAccount()) > 0 {
		run.Count("block credits fees to the coinbase account")
	}
	if len(p.blk.GetHeader().GetConsensus()) > 0 {
		run.Count("block pays a voting reward (winner picked from the voting-power rank)")
	}
	if gpNow := p.bs.GasPrice.String(); gpNow != "50000000000" {
		run.Count("block executed under a voted gas price " + gpNow)
	}
	ref := execResult{root: hx(p.blk.GetHeader().GetBlocksRootHash()), rroot: hx(p.blk.GetHeader().GetReceiptsRootHash()), rbytes: receiptsBytes(p.bs.Receipts())}
	if hx(p.bs.Receipts().MerkleRoot()) != ref.rroot {
		s.fail("the producer's header receipts root is not the root of its receipts", nil)
	}

	// --- the validator path, k times per GOMAXPROCS setting, on a freshly booted node each time. Every run is
	// another node: its own coinbase account (none / the second node's / a random one / the producer's), the second
	// node's mempool and worker counts. None of that may show in what the block executes to.
	parentRoot := s.parent.GetHeader().GetBlocksRootHash()
	old := runtime.GOMAXPROCS(0)
	ok := true
	verdict := "accept"
	hdrCb := p.blk.GetHeader().GetCoinbaseAccount()
	balAt := func(sdb *statedb.StateDB, addr []byte) *big.Int {
		if len(addr) == 0 || sdb == nil {
			return new(big.Int)
		}
		st, err := sdb.GetAccountState(types.ToAccountID(addr))
		if err != nil || st == nil {
			return new(big.Int)
		}
		return new(big.Int).SetBytes(st.GetBalance())
	}
	parentSdb := s.V.cs.SDB().OpenNewStateDB(parentRoot)
	rewardOp := false
	nrun := 0
	for _, gmp := range []int{1, 4, 16} {
		runtime.GOMAXPROCS(gmp)
		for r := 0; r < s.reps && ok; r++ {
			var local []byte
			switch nrun % 4 {
			case 0:
				local = append([]byte{3}, s.rng.Bytes(32)...) // some other producer's account
			case 1:
				local = nil // not a block producer
			case 2:
				local = s.V.cb
			case 3:
				local = s.P.cb
			}
			nrun++
			var got execResult
			var vbs *state.BlockState
			out, panicked := vh.Guard(func() string {
				s.V.bootFresh(parentRoot, len(w.bps))
				chain.CoinbaseAccount = local
				var err error
				vbs, err = chain.VerifC02VerifyExecState(s.V.cs, p.blk)
				if vbs != nil {
					got = execResult{root: hx(vbs.GetRoot()), rbytes: receiptsBytes(vbs.Receipts())}
					if vbs.Receipts() != nil {
						got.rroot = hx(vbs.Receipts().MerkleRoot())
					}
				} else {
					got = execResult{root: hx(nil), rbytes: receiptsBytes(nil)}
				}
				if err != nil {
					got.err = err.Error()
				}
				return ""
			})
			run.Eval("", false)
			if panicked {
				got.err = out
			}
			if !bytes.Equal(local, hdrCb) {
				run.Count("fresh validator configured with another coinbase account than the block's")
			}
			if !rewardOp && !panicked && got.err == "" && vbs != nil && !bytes.Equal(local, hdrCb) && len(local) > 0 {
				// who was paid: the header's account, not the validating node's own (model: validateBlock)
				rewardOp = true
				name := func(a []byte) string {
					if len(a) == 0 {
						return "-"
					}
					return hx(a)
				}
				d := func(a []byte) string {
					return new(big.Int).Sub(balAt(vbs.StateDB, a), balAt(parentSdb, a)).String()
				}
				fee := new(big.Int).Set(&p.bs.BpReward)
				run.Op(fmt.Sprintf("reward %s %s %s", name(hdrCb), name(local), fee.String()),
					fmt.Sprintf("hdr+%s local+%s", d(hdrCb), d(local)), fee.Sign() > 0 && len(hdrCb) > 0)
			}
			if got != ref {
				verdict = "reject"
				what := "a fresh node re-executing a produced block from the parent state computes different roots/receipts than the producer"
				if got.err != "" {
					what = "the validation path of a fresh node rejects a block the production path built: " + got.err
				}
				s.fail(what, map[string]interface{}{"gomaxprocs": gmp, "repetition": r, "producer": ref.String(), "validator": got.String(),
					"candidates": kinds, "outcomes": p.outcomes, "validator_local_coinbase": hx(local), "header_coinbase": hx(hdrCb)})
				ok = false
			}
		}
	}
	runtime.GOMAXPROCS(old)
	toks := strings.Join(p.outcomes, " ")
	picked := "-"
	if len(p.picked) > 0 {
		ss := make([]string, len(p.picked))
		for i, x := range p.picked {
			ss[i] = fmt.Sprint(x)
		}
		picked = strings.Join(ss, " ")
	}
	run.Op(strings.TrimSpace("gather "+toks), picked+" "+verdict, len(p.picked) > 0)
	if !ok {
		return false
	}

	// --- connect: the producer commits its own block state; the long-running second node validates and commits
	var errP, errV error
	out, panicked = vh.Guard(func() string {
		s.P.on(func() {
			if s.warp {
				errP = chain.VerifC02CommitProduced(s.P.cs, p.blk, p.bs)
			} else {
				errP = chain.VerifC02AddBlock(s.P.cs, p.blk, p.bs, "")
			}
			system.CommitParams(errP == nil)
		})
		s.V.on(func() {
			if s.warp {
				errV = chain.VerifC02ExecCommit(s.V.cs, p.blk)
			} else {
				errV = chain.VerifC02AddBlock(s.V.cs, p.blk, nil, "peer")
			}
			system.CommitParams(errV == nil)
		})
		return ""
	})
	if panicked || errP != nil || errV != nil {
		s.fail(fmt.Sprintf("connecting a produced block fails: producer=%v second node=%v %s", errP, errV, out), nil)
		return false
	}
	// --- every node that executed the block holds, in memory, the parameters the block's state holds: a node that
	// loads them from the state (restart, reorganisation, a validator booted later) must not get other values
	var memP, memV, fromState string
	s.P.on(func() { memP = paramsNow() })
	s.V.on(func() { memV = paramsNow() })
	if out, panicked := vh.Guard(func() string {
		s.V.bootFresh(p.blk.GetHeader().GetBlocksRootHash(), len(w.bps))
		fromState = paramsNow()
		return ""
	}); panicked {
		fromState = "panic: " + out
	}
	run.Eval("", false)
	if memP != fromState || memV != fromState {
		s.fail("after connecting a block the in-memory system parameters of a node that executed it differ from the parameters loaded from the block's state",
			map[string]interface{}{"producer_memory": memP, "second_node_memory": memV, "loaded_from_state": fromState, "candidates": kinds, "outcomes": p.outcomes})
		return false
	}
	if fromState != defaultParams {
		run.Count("block end with non-default parameters in force: memory = state checked")
	}
	rp, rv := hx(s.P.cs.SDB().GetRoot()), hx(s.V.cs.SDB().GetRoot())
	if rp != ref.root || rv != ref.root {
		s.fail("after connecting the block the nodes' state roots differ from the header", map[string]interface{}{"header": ref.root, "producer": rp, "second": rv})
		return false
	}
	if !s.warp {
		r1, e1 := chain.VerifC02GetReceipts(s.P.cs, p.blk.BlockHash())
		r2, e2 := chain.VerifC02GetReceipts(s.V.cs, p.blk.BlockHash())
		if len(p.picked) > 0 && (e1 != nil || e2 != nil || receiptsBytes(r1) != receiptsBytes(r2)) {
			s.fail("stored receipts differ between the producer and the second node", map[string]interface{}{"producer": receiptsBytes(r1), "second": receiptsBytes(r2)})
			return false
		}
	}
	run.Eval(ref.root+ref.rroot, len(p.picked) > 0)

	// bookkeeping for the generator
	for _, i := range p.picked {
		body := txs[i].GetBody()
		switch kinds[i] {
		case "deploy":
			s.contracts = append(s.contracts, &contractInfo{addr: contract.CreateContractID(body.Account, body.Nonce)})
		case "createName":
			var ci types.CallInfo
			json.Unmarshal(body.Payload, &ci)
			owner := 0
			for j, a := range w.accts {
				if bytes.Equal(a.addr, body.Account) {
					owner = j
				}
			}
			s.names = append(s.names, nameInfo{ci.Args[0].(string), owner})
		}
	}
	s.parent = p.blk
	s.blocks = append(s.blocks, p.blk)
	s.nblock++
	return true
}

// ---------------------------------------------------------------- a validator in ANOTHER PROCESS
//
// The nodes of a session live in one process and share /repo's package-level variables (the harness parks and
// installs the ones it knows about). A validator in a process of its own shares nothing: its own globals, its own
// map hash seeds and addresses, its own GOMAXPROCS, time zone, coinbase account, worker counts. After a session
// the harness starts itself again (`-c02child file`), hands over the session's blocks and compares the state root
// the child reaches after every block with the header.

type childJob struct {
	Label  string    `json:"label"`
	Warp   bool      `json:"warp"`
	HF     [4]uint64 `json:"hf"`
	Blocks []string  `json:"blocks"` // hex of the protobuf encoding
	Dir    string    `json:"dir"`
}

type childAnswer struct {
	I    int    `json:"i"`
	Err  string `json:"err"`
	Root string `json:"root"`
}

func childMain(jobFile string) {
	zerolog.SetGlobalLevel(zerolog.Disabled)
	raw, err := os.ReadFile(jobFile)
	if err != nil {
		panic(err)
	}
	var job childJob
	if err := json.Unmarshal(raw, &job); err != nil {
		panic(err)
	}
	dpos.VerifC02DecorateVotingReward()
	hf := config.HardforkConfig{V2: job.HF[0], V3: job.HF[1], V4: job.HF[2], V5: job.HF[3]}
	w := newWorld(&vh.Run{Out: job.Dir}, vh.NewRng(1), &hf, job.Label+"-child")
	n := w.newNode("C", nodeConf{coinbase: cbAccount(0xCD), verifiers: 3, workers: 1})
	system.VerifC02InstallGlobals(n.g)
	enc := json.NewEncoder(os.Stdout)
	for i, hexBlk := range job.Blocks {
		if !job.Warp && i > 0 && i == len(job.Blocks)/2 {
			// the node is stopped and started again on its data directory: everything it keeps in memory
			// (parameter table, voting-power rank) is rebuilt by the real boot sequence from the stored state
			n.cs.BeforeStop()
			n = w.openNode("C", n.dir, nodeConf{coinbase: cbAccount(0xCE), verifiers: 2, workers: 2})
			system.VerifC02InstallGlobals(n.g)
			if best, err := n.cs.GetBestBlock(); err != nil || best.BlockNo() != uint64(i) {
				enc.Encode(childAnswer{I: i, Err: fmt.Sprintf("after a restart the node's best block is not block %d (%v)", i, err)})
				break
			}
		}
		b, _ := hex.DecodeString(hexBlk)
		blk := &types.Block{}
		ans := childAnswer{I: i}
		if err := encproto.Decode(b, blk); err != nil {
			ans.Err = "decode: " + err.Error()
			enc.Encode(ans)
			break
		}
		out, panicked := vh.Guard(func() string {
			var err error
			if job.Warp {
				err = chain.VerifC02ExecCommit(n.cs, blk)
			} else {
				err = chain.VerifC02AddBlock(n.cs, blk, nil, "peer")
			}
			system.CommitParams(err == nil)
			if err != nil {
				return err.Error()
			}
			return ""
		})
		if panicked {
			out = "panic: " + out
		}
		ans.Err = out
		ans.Root = hx(n.cs.SDB().GetRoot())
		enc.Encode(ans)
		if out != "" {
			break
		}
	}
	os.RemoveAll(filepath.Join(job.Dir, "nodes", job.Label+"-child"))
	os.Exit(0)
}

var childEnvs = [][]string{
	{"TZ=Asia/Seoul", "GOMAXPROCS=1"},
	{"TZ=America/New_York", "GOMAXPROCS=3"},
	{"TZ=UTC", "GOMAXPROCS=8"},
}

// otherProcess re-validates the whole session in a child process.
func (s *session) otherProcess(k int) {
	if len(s.blocks) == 0 {
		return
	}
	job := childJob{Label: s.w.label, Warp: s.warp, HF: [4]uint64{s.w.hf.V2, s.w.hf.V3, s.w.hf.V4, s.w.hf.V5}, Dir: s.run.Out}
	for _, b := range s.blocks {
		raw, err := encproto.Encode(b)
		if err != nil {
			panic(err)
		}
		job.Blocks = append(job.Blocks, hex.EncodeToString(raw))
	}
	jf := filepath.Join(s.run.Out, "child-"+s.w.label+".json")
	raw, _ := json.Marshal(job)
	if err := os.WriteFile(jf, raw, 0o644); err != nil {
		panic(err)
	}
	defer os.Remove(jf)
	self, err := os.Executable()
	if err != nil {
		panic(err)
	}
	cmd := exec.Command(self, "-c02child", jf)
	cmd.Env = append(os.Environ(), childEnvs[k%len(childEnvs)]...)
	var stderr bytes.Buffer
	cmd.Stderr = &stderr
	outb, err := cmd.Output()
	var answers []childAnswer
	dec := json.NewDecoder(bytes.NewReader(outb))
	for {
		var a childAnswer
		if dec.Decode(&a) != nil {
			break
		}
		answers = append(answers, a)
	}
	if ee, isExit := err.(*exec.ExitError); err != nil && (!isExit || !ee.Exited()) {
		// the child could not be started, or was killed from outside (signal): not a statement about /repo -
		// counted, not judged. (A child that exits by itself - a Go panic in the real code - is judged below.)
		s.run.Count("validator in another process could not be started or was killed")
		return
	}
	for i, b := range s.blocks {
		want := hx(b.GetHeader().GetBlocksRootHash())
		if i >= len(answers) {
			tail := stderr.String()
			if len(tail) > 1500 {
				tail = tail[len(tail)-1500:]
			}
			s.fail("a validator in another process stopped while re-executing the session's blocks", map[string]interface{}{"block": i, "stderr": tail})
			return
		}
		a := answers[i]
		s.run.Eval("", false)
		if a.Err != "" || a.Root != want {
			s.fail("a validator in another process (own globals, map seeds, GOMAXPROCS, time zone, coinbase account) does not reach the producer's state root",
				map[string]interface{}{"block": i, "block_no": b.BlockNo(), "header_root": want, "child_root": a.Root, "child_error": a.Err, "child_env": childEnvs[k%len(childEnvs)]})
			return
		}
	}
	s.run.Count("session re-validated block by block in another process")
}

func runSession(run *vh.Run, label string, hf *config.HardforkConfig, warp bool, nblocks int) {
	w := newWorld(run, run.Rng.Fork(), hf, label)
	s := &session{w: w, run: run, rng: w.rng, warp: warp, reps: run.Pick(3, 25)}
	// two nodes, configured differently in everything that is node-local: coinbase account (the second node is a
	// producer too, with its own account), number of signature verifiers and workers, logging of internal
	// operations, and what their mempools hold (the second node's pool knows about half of the transactions, so
	// its signature verifier skips those; the first never asks its pool)
	salt := byte(s.rng.Intn(256))
	s.P = w.newNode("P", nodeConf{coinbase: cbAccount(0xCB), verifiers: 2, workers: 2})
	s.V = w.newNode("V", nodeConf{coinbase: cbAccount(0xCC), verifiers: 1 + s.rng.Intn(5), workers: 1 + s.rng.Intn(4), logOps: true,
		useMempool: true, poolHits: func(h []byte) bool { return len(h) > 0 && (h[0]^salt)&1 == 1 }})
	clean := false
	defer func() {
		// after a failure the nodes are abandoned, not stopped: a validator that rejected a block may still have
		// signature-verification goroutines in flight, and stopping the service under them would kill the process
		if clean {
			s.P.close()
			s.V.close()
		}
	}()
	s.parent, _ = s.P.cs.GetBestBlock()
	if hx(s.parent.BlockHash()) != hx(must2(s.V.cs.GetBestBlock()).BlockHash()) {
		s.fail("two nodes booted from one genesis disagree on the genesis block", nil)
		return
	}
	for b := 0; b < nblocks; b++ {
		if !s.step() {
			return
		}
	}
	s.otherProcess(int(run.Seed) + len(label))
	clean = true
	run.Count("session " + label + " completed")
}

func main() {
	if len(os.Args) == 3 && os.Args[1] == "-c02child" {
		childMain(os.Args[2])
		return
	}
	zerolog.SetGlobalLevel(zerolog.Disabled)
	run := vh.Start("c02", "nontrivial = a tally of >= 2 candidates / >= 2 pending power changes / a block with >= 1 tx; distinct by (operation, answer) or by block roots")
	dpos.VerifC02DecorateVotingReward()
	// every node has its own coinbase account (nodeConf): the fees of a block (BlockState.BpReward) are credited by
	// SendBlockReward to the producer's on the producer path and to the HEADER's on the validator path

	far := types.BlockNo(1) << 40
	forks := []struct {
		name string
		hf   config.HardforkConfig
	}{
		{"all", *config.AllEnabledHardforkConfig},
		{"stag", config.HardforkConfig{V2: 3, V3: 6, V4: 9, V5: 12}},
		{"v4", config.HardforkConfig{V2: 0, V3: 0, V4: 0, V5: far}},
		{"v3", config.HardforkConfig{V2: 0, V3: 0, V4: far, V5: far}},
		{"v2", config.HardforkConfig{V2: 0, V3: far, V4: far, V5: far}},
		{"v0", config.HardforkConfig{V2: far, V3: far, V4: far, V5: far}},
	}
	nblocks := run.Pick(16, 40)
	rounds := run.Pick(1, 3)
	for rd := 0; rd < rounds; rd++ {
		for fi, f := range forks {
			hf := f.hf
			runSession(run, fmt.Sprintf("%s-chain-%d", f.name, rd), &hf, false, nblocks)
			hf2 := f.hf
			runSession(run, fmt.Sprintf("%s-warp-%d", f.name, rd), &hf2, true, nblocks)
			if f.name == "all" || f.name == "stag" || f.name == "v3" {
				// scripted parameter votes that flip the winner back and forth within one block and across blocks
				hf3 := f.hf
				runSession(run, fmt.Sprintf("%s-flip-%d", f.name, rd), &hf3, f.name == "stag", nblocks)
			}
			if rd == 0 && fi == 0 {
				partVprApply(run)
				partVoteSort(run)
			}
		}
	}
	os.RemoveAll(filepath.Join(run.Out, "nodes"))
	run.Finish()
}

func must2[T any](v T, err error) T {
	if err != nil {
		panic(err)
	}
	return v
}
