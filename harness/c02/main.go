// Harness c02 (property C02, deterministic execution).
//
// Part A (correspondence with the Lean model, tie C): the real VoteResult.buildVoteList, vpr.apply and the
// control skeleton of BlockGenerator.GatherTXs are driven directly on generated inputs, several times each
// (Go re-randomises map iteration on every `range`), and answer line by line like `model-c02`.
//
// Part B (oracle = the property itself): blocks are built through the REAL producer path
// (consensus/chain.BlockGenerator.GenerateBlock -> GatherTXs with a stub tx source, chain.NewTxExecutor in
// block-factory mode, SendBlockReward, BlockState.Update) and every block is re-executed through the REAL
// validator path (chain.newBlockExecutor + blockExecutor.execute on a state DB opened at the parent root:
// tx loop, reward, Update, ValidatePost) k times under GOMAXPROCS 1, 4, 16 by a "fresh node" whose in-memory
// governance state is re-loaded from the parent state, and once more by a long-running second node through
// ChainService.addBlock. State root, receipts bytes and receipts root must be byte-identical everywhere.
package main

import (
	"bytes"
	"context"
	"encoding/hex"
	"encoding/json"
	"fmt"
	"math/big"
	"os"
	"path/filepath"
	"runtime"
	"sort"
	"strings"
	"time"

	"github.com/aergoio/aergo-actor/actor"
	"github.com/aergoio/aergo/v2/account/key"
	crypto "github.com/aergoio/aergo/v2/account/key/crypto"
	"github.com/aergoio/aergo/v2/chain"
	"github.com/aergoio/aergo/v2/config"
	"github.com/aergoio/aergo/v2/consensus"
	cchain "github.com/aergoio/aergo/v2/consensus/chain"
	"github.com/aergoio/aergo/v2/consensus/impl/dpos"
	"github.com/aergoio/aergo/v2/contract"
	"github.com/aergoio/aergo/v2/contract/system"
	"github.com/aergoio/aergo/v2/internal/enc/base58"
	"github.com/aergoio/aergo/v2/pkg/component"
	"github.com/aergoio/aergo/v2/state"
	"github.com/aergoio/aergo/v2/state/statedb"
	"github.com/aergoio/aergo/v2/types"
	"github.com/aergoio/aergo/v2/types/message"
	"github.com/aergoio/aergo/v2/zz_verif/vh"
	"github.com/btcsuite/btcd/btcec/v2"
	"github.com/rs/zerolog"
)

func hx(b []byte) string {
	if len(b) == 0 {
		return "-"
	}
	return hex.EncodeToString(b)
}

// ---------------------------------------------------------------- stub consensus (exported interface only)

type stubCons struct{ cs *chain.ChainService }

func (s *stubCons) SetStateDB(sdb *state.ChainStateDB)                      {}
func (s *stubCons) IsTransactionValid(tx *types.Tx) bool                    { return true }
func (s *stubCons) VerifyTimestamp(block *types.Block) bool                 { return true }
func (s *stubCons) VerifySign(block *types.Block) error                     { return nil }
func (s *stubCons) IsBlockValid(block *types.Block, best *types.Block) error { return nil }
func (s *stubCons) Update(block *types.Block)                               {}
func (s *stubCons) Save(tx consensus.TxWriter) error                        { return nil }
func (s *stubCons) NeedReorganization(rootNo types.BlockNo) bool            { return true }
func (s *stubCons) Info() string                                            { return "" }
func (s *stubCons) GetType() consensus.ConsensusType                        { return consensus.ConsensusDPOS }
func (s *stubCons) NeedNotify() bool                                        { return true }
func (s *stubCons) HasWAL() bool                                            { return false }
func (s *stubCons) IsForkEnable() bool                                      { return true }
func (s *stubCons) IsConnectedBlock(block *types.Block) bool {
	_, err := s.cs.GetBlock(block.BlockHash())
	return err == nil
}
func (s *stubCons) MakeConfChangeProposal(req *types.MembershipChange) (*consensus.ConfChangePropose, error) {
	return nil, consensus.ErrNotSupportedMethod
}

// sink stands for mempool, rpc, p2p, syncer: swallows every message
type sink struct {
	name string
	hub  *component.ComponentHub
}

func (r *sink) GetName() string                            { return r.name }
func (r *sink) Start()                                     {}
func (r *sink) Stop()                                      {}
func (r *sink) Status() component.Status                   { return component.StartedStatus }
func (r *sink) SetHub(hub *component.ComponentHub)         { r.hub = hub }
func (r *sink) Hub() *component.ComponentHub               { return r.hub }
func (r *sink) MsgQueueLen() int32                         { return 0 }
func (r *sink) Receive(actor.Context)                      {}
func (r *sink) Tell(m interface{})                         {}
func (r *sink) Request(m interface{}, sender *actor.PID)   {}
func (r *sink) RequestFuture(m interface{}, timeout time.Duration, tip string) *actor.Future {
	f := actor.NewFuturePrefix("verif", timeout)
	f.PID().Tell(component.ErrHubUnregistered)
	return f
}

// ---------------------------------------------------------------- world, nodes

type acct struct {
	key   *btcec.PrivateKey
	addr  []byte
	nonce uint64 // next nonce the harness believes valid - 1 (confirmed by produced blocks)
}

type world struct {
	run   *vh.Run
	rng   *vh.Rng
	root  string
	nnode int
	accts []*acct
	bps   []string // genesis BP ids (base58 peer ids)
	cands [][]byte // BP candidates (39-byte peer ids)
	hf    *config.HardforkConfig
	ts    int64
	label string
}

func peerID(par byte, x []byte) []byte {
	b := []byte{0, 0x25, 8, 2, 0x12, 0x21, par}
	return append(b, x...)
}

func fill(b byte) []byte { return bytes.Repeat([]byte{b}, 32) }

func newWorld(run *vh.Run, rng *vh.Rng, hf *config.HardforkConfig, label string) *world {
	w := &world{run: run, rng: rng, root: filepath.Join(run.Out, "nodes", label), hf: hf, label: label, ts: 1_600_000_000_000_000_000}
	seed := vh.NewRng(77)
	for i := 0; i < 10; i++ {
		k, _ := btcec.PrivKeyFromBytes(seed.Bytes(32))
		w.accts = append(w.accts, &acct{key: k, addr: crypto.GenerateAddress(k.PubKey().ToECDSA())})
	}
	// candidates: three unrelated keys, and two pairs sharing the X coordinate (a key and its negation differ only in
	// the parity byte at index 6 - the shape on which VoteList.Less used to tie, class C15-less-tie-candidate-prefix)
	w.cands = [][]byte{peerID(2, fill(0x11)), peerID(3, fill(0x22)), peerID(2, fill(0x33)),
		peerID(2, fill(0x44)), peerID(3, fill(0x44)), peerID(2, fill(0x55)), peerID(3, fill(0x55))}
	for _, c := range w.cands[:3] {
		w.bps = append(w.bps, base58.Encode(c))
	}
	return w
}

const coin = "000000000000000000" // 10^18

func (w *world) genesis() *types.Genesis {
	g := &types.Genesis{
		ID:        types.ChainID{Version: 0, Magic: "c02.verif", PublicNet: true, MainNet: false, Consensus: "dpos"},
		Timestamp: 1_600_000_000_000_000_000,
		Balance:   map[string]string{},
		BPs:       append([]string{}, w.bps...),
	}
	for _, a := range w.accts {
		g.Balance[types.EncodeAddress(a.addr)] = "1000000" + coin
	}
	g.Balance[types.AergoVault] = "5000" + coin
	return g
}

type node struct {
	name string
	cs   *chain.ChainService
	g    system.VerifC02Globals
	dir  string
}

func (w *world) initDir(dir string) {
	os.RemoveAll(dir)
	os.MkdirAll(dir, 0o755)
	core, err := chain.NewCore("memorydb", dir, false, 0, &config.DBConfig{})
	if err != nil {
		panic(err)
	}
	if err := core.InitGenesisBlock(w.genesis(), false); err != nil {
		panic(err)
	}
	core.Close()
}

// newNode boots a real ChainService on a fresh memory DB holding the genesis block; its in-memory governance
// state (parameter table, voting-power rank) is loaded from the genesis state as a booting DPoS node does.
func (w *world) newNode(name string) *node {
	w.nnode++
	n := &node{name: name, dir: filepath.Join(w.root, fmt.Sprintf("%s%d", name, w.nnode))}
	w.initDir(n.dir)
	system.VerifC02BlankGlobals()
	cfg := config.NewServerContext("", "").GetDefaultConfig().(*config.Config)
	cfg.DbType = "memorydb"
	cfg.DataDir = n.dir
	hf := *w.hf
	cfg.Hardfork = &hf
	n.cs = chain.NewChainService(cfg)
	n.cs.SetChainConsensus(&stubCons{cs: n.cs})
	hub := component.NewComponentHub()
	for _, nm := range []string{message.MemPoolSvc, message.RPCSvc, message.P2PSvc, message.SyncerSvc} {
		hub.Register(&sink{name: nm})
	}
	n.cs.SetHub(hub)
	chain.VerifC02SetSkipMempool(n.cs, true)
	if err := dpos.VerifC02InitVPR(n.cs.SDB().GetStateDB()); err != nil {
		panic(err)
	}
	n.g = system.VerifC02TakeGlobals()
	return n
}

func (n *node) close() {
	n.cs.BeforeStop()
	os.RemoveAll(n.dir)
}

// on runs f with node n's in-memory governance state installed.
func (n *node) on(f func()) {
	system.VerifC02InstallGlobals(n.g)
	defer func() { n.g = system.VerifC02TakeGlobals() }()
	f()
}

// bootFresh installs the in-memory governance state a node has right after booting on the state `root`.
func (n *node) bootFresh(root []byte, bps int) {
	system.VerifC02BlankGlobals()
	sdb := n.cs.SDB().OpenNewStateDB(root)
	scs, err := statedb.GetSystemAccountState(sdb)
	if err != nil {
		panic(err)
	}
	if err := system.VerifC02BootGlobals(scs, bps); err != nil {
		panic(err)
	}
}

// ---------------------------------------------------------------- producer path

type stubCcc struct{}

func (stubCcc) MakeConfChangeProposal(req *types.MembershipChange) (*consensus.ConfChangePropose, error) {
	return nil, consensus.ErrNotSupportedMethod
}

// produced is one block as the producer built it
type produced struct {
	blk      *types.Block
	bs       *state.BlockState
	outcomes []string // per candidate: ok | err | tmo | vmtmo | - (not reached)
	picked   []int    // indexes of the candidates in the block
	err      error
}

// produce = what dpos.BlockFactory.generateBlock / sbp do: block header info from the parent, a block state at the
// parent root, gas price, receipts fork flag, a BlockGenerator whose tx source is `cands`, GenerateBlock.
// stops[i] scripts the block factory's own checks for candidate i ("" = none, "tmo" = block timeout,
// "vmtmo" = contract timeout): they are TxOps composed in front of the executor exactly like checkBpTimeout.
func (n *node) produce(w *world, parent *types.Block, no types.BlockNo, cands []types.Transaction, stops []string) *produced {
	w.ts += 1_000_000_000
	bi := types.NewBlockHeaderInfoFromPrevBlock(parent, w.ts, w.hf)
	if no != 0 { // time-warp session: the block number jumps (staking/voting delays are 86400 blocks)
		bi = &types.BlockHeaderInfo{No: no, Ts: w.ts, PrevBlockHash: parent.BlockHash(),
			ChainId: types.MakeChainId(parent.GetHeader().GetChainID(), w.hf.Version(no)), ForkVersion: w.hf.Version(no)}
	}
	bs := n.cs.SDB().NewBlockState(parent.GetHeader().GetBlocksRootHash(), state.SetPrevBlockHash(parent.BlockHash()))
	bs.SetGasPrice(system.GetGasPrice())
	bs.Receipts().SetHardFork(w.hf, bi.No)
	p := &produced{bs: bs, outcomes: make([]string, len(cands))}
	for i := range p.outcomes {
		p.outcomes[i] = "-"
	}
	idx := map[string]int{}
	for i, c := range cands {
		idx[string(c.GetHash())] = i
	}
	exec := chain.NewTxExecutor(context.Background(), stubCcc{}, nil, bi, contract.BlockFactory)
	txOp := cchain.NewCompTxOp(
		cchain.TxOpFn(func(bState *state.BlockState, tx types.Transaction) error {
			i := idx[string(tx.GetHash())]
			switch stops[i] {
			case "tmo":
				p.outcomes[i] = "tmo"
				return cchain.ErrTimeout{Kind: "block"}
			case "vmtmo":
				p.outcomes[i] = "vmtmo"
				return &contract.VmTimeoutError{}
			}
			return nil
		}),
		cchain.TxOpFn(func(bState *state.BlockState, tx types.Transaction) error {
			i := idx[string(tx.GetHash())]
			err := exec(bState, tx)
			if err != nil {
				p.outcomes[i] = "err"
			} else {
				p.outcomes[i] = "ok"
			}
			return err
		}),
	)
	gen := cchain.NewBlockGenerator(nil, context.Background(), bi, bs, txOp, false).
		WithDeco(func(cchain.FetchFn) cchain.FetchFn {
			return func(component.ICompSyncRequester, uint32) []types.Transaction { return cands }
		})
	p.blk, p.err = gen.GenerateBlock()
	if p.err == nil {
		p.blk.BlockHash()
		for _, tx := range p.blk.GetBody().GetTxs() {
			p.picked = append(p.picked, idx[string(tx.GetHash())])
		}
	}
	return p
}

// ---------------------------------------------------------------- transactions

func (w *world) sign(a *acct, body *types.TxBody) types.Transaction {
	tx := &types.Tx{Body: body}
	body.Account = a.addr
	if err := key.SignTx(tx, a.key); err != nil {
		panic(err)
	}
	return types.NewTransaction(tx)
}

func amt(n int64, zeros int) []byte {
	v := new(big.Int).Mul(big.NewInt(n), new(big.Int).Exp(big.NewInt(10), big.NewInt(int64(zeros)), nil))
	return v.Bytes()
}

func must(b []byte, err error) []byte {
	if err != nil {
		panic(err)
	}
	return b
}

func main() {
	zerolog.SetGlobalLevel(zerolog.Disabled)
	run := vh.Start("c02", "probe")
	dpos.VerifC02DecorateVotingReward()
	w := newWorld(run, run.Rng, config.AllEnabledHardforkConfig, "p")
	t0 := time.Now()
	P := w.newNode("P")
	V := w.newNode("V")
	fmt.Println("nodes", time.Since(t0))
	gen, _ := P.cs.GetBestBlock()
	bi := types.NewBlockHeaderInfoFromPrevBlock(gen, w.ts, w.hf)
	cid := bi.ChainIdHash()
	a0, a1 := w.accts[0], w.accts[1]
	var cands []types.Transaction
	cands = append(cands, w.sign(a0, &types.TxBody{Nonce: 1, Recipient: a1.addr, Amount: amt(5, 18), GasPrice: amt(50, 9), Type: types.TxType_TRANSFER, ChainIdHash: cid}))
	cands = append(cands, w.sign(a0, &types.TxBody{Nonce: 5, Recipient: a1.addr, Amount: amt(5, 18), GasPrice: amt(50, 9), Type: types.TxType_TRANSFER, ChainIdHash: cid}))
	cands = append(cands, w.sign(a1, &types.TxBody{Nonce: 1, Recipient: []byte(types.AergoSystem), Amount: amt(20000, 18), Type: types.TxType_GOVERNANCE, ChainIdHash: cid, Payload: []byte(`{"Name":"v1stake"}`)}))
	cands = append(cands, w.sign(a1, &types.TxBody{Nonce: 2, Recipient: []byte(types.AergoSystem), Type: types.TxType_GOVERNANCE, ChainIdHash: cid,
		Payload: []byte(`{"Name":"v1voteBP","Args":["` + base58.Encode(w.cands[3]) + `","` + base58.Encode(w.cands[4]) + `"]}`)}))
	cands = append(cands, w.sign(a0, &types.TxBody{Nonce: 2, Amount: nil, GasLimit: 0, GasPrice: amt(50, 9), Type: types.TxType_DEPLOY, ChainIdHash: cid,
		Payload: []byte(`{"fee":"1000","sets":[{"k":"a","v":"1"},{"k":"b","v":"2"}]}`)}))
	var p *produced
	P.on(func() { p = P.produce(w, gen, 0, cands, make([]string, len(cands))) })
	fmt.Println("produce", p.err, p.outcomes, p.picked)
	if p.err != nil {
		run.Finish()
		return
	}
	fmt.Println("root", hx(p.blk.GetHeader().GetBlocksRootHash()), "rr", hx(p.blk.GetHeader().GetReceiptsRootHash()))
	for i := 0; i < 3; i++ {
		V.bootFresh(gen.GetHeader().GetBlocksRootHash(), len(w.bps))
		root, rc, err := chain.VerifC02VerifyExec(V.cs, p.blk)
		fmt.Println("verify", err, hx(root), hx(rc.MerkleRoot()))
	}
	var err error
	P.on(func() { err = chain.VerifC02AddBlock(P.cs, p.blk, p.bs, "") })
	fmt.Println("P connect", err)
	V.on(func() { err = chain.VerifC02AddBlock(V.cs, p.blk, nil, "peer") })
	fmt.Println("V add", err)
	bb, _ := V.cs.GetBestBlock()
	fmt.Println("V best", bb.BlockNo(), hx(V.cs.SDB().GetRoot()))
	r1, e1 := chain.VerifC02GetReceipts(P.cs, p.blk.BlockHash())
	r2, e2 := chain.VerifC02GetReceipts(V.cs, p.blk.BlockHash())
	fmt.Println(e1, e2)
	for i, r := range r1.Get() {
		fmt.Println(i, r.Status, r.Ret, hx(r.FeeUsed), string(must(r.MarshalMerkleBinaryV2())) == string(must(r2.Get()[i].MarshalMerkleBinaryV2())))
	}
	_ = json.Marshal
	_ = sort.Strings
	_ = strings.Join
	_ = runtime.GOMAXPROCS
	P.close()
	V.close()
	run.Finish()
}
