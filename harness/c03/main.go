// Harness of C03 (transaction atomicity): drives the real tx executor and block executor on generated
// blocks and classifies the full-state diff of every transaction / refused block; the engine is package
// zz_verif/ledger (/verif/harness/ledger), shared with C01.
package main

import "github.com/aergoio/aergo/v2/zz_verif/ledger"

func main() { ledger.Main("C03") }
