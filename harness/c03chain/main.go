// Harness c03chain: the node-level half of property C03 ("a block that fails validation at any point leaves the node's
// state, indexes and best block exactly as they were"). Machinery shared with C05 (harness/c05lib): a real ChainService on
// memorydb, block trees with an invalid block at every position, the chain-database oracle after every arrival.
package main

import "github.com/aergoio/aergo/v2/zz_verif/c05lib"

func main() { c05lib.Main("C03") }
