// Harness c03node (extra run of C03): the node-level half of "a block that fails validation at any point leaves
// the node's state ... exactly as they were" for the part of the node's state that is NOT in the state DB: the
// in-memory voting-power rank and the in-memory system parameters (those in force and those voted for the next
// block). A REAL chain.ChainService with the REAL DPoS consensus object (dpos.New: Status, block factory) on a DPoS
// genesis; blocks of another producer are built by the real block factory and arrive through the real
// ChainService.addBlock as network blocks. Scenario per session: two blocks that stake and vote connect; then a
// network block carrying a stake, a BP vote and winning parameter votes is made invalid at one position (wrong
// state root, wrong receipts root, a rejected transaction first / in the middle / last) and must be refused with
// best block, state DB root, voting-power rank and parameters (current and pending) exactly as before and equal to
// what the real loaders rebuild from the best block's state; then a valid block connects and the parameters in
// force are still the old ones.
//
// Oracle-only: no model operations are emitted (the op stream is empty, which every driver answers identically).
// The node plumbing (cnode) is a copy of the minimum of harness/c15/node.go (by deepen3-C15); the shims it calls
// (VerifC15...) are exported accessors in the overlay, add-only. Network blocks only: the "own block that has
// become stale" shape (C15's known finding) is never generated here.
package main

import (
	"bytes"
	"fmt"
	"math/big"
	"os"
	"path/filepath"
	"sort"
	"strings"
	"time"

	"github.com/aergoio/aergo-actor/actor"
	"github.com/aergoio/aergo-lib/log"
	"github.com/aergoio/aergo/v2/account/key"
	crypto "github.com/aergoio/aergo/v2/account/key/crypto"
	"github.com/aergoio/aergo/v2/chain"
	"github.com/aergoio/aergo/v2/config"
	"github.com/aergoio/aergo/v2/consensus"
	"github.com/aergoio/aergo/v2/consensus/impl/dpos"
	"github.com/aergoio/aergo/v2/consensus/impl/dpos/bp"
	"github.com/aergoio/aergo/v2/consensus/impl/dpos/slot"
	"github.com/aergoio/aergo/v2/contract/system"
	"github.com/aergoio/aergo/v2/internal/enc/proto"
	"github.com/aergoio/aergo/v2/p2p/p2pkey"
	"github.com/aergoio/aergo/v2/p2p/p2putil"
	"github.com/aergoio/aergo/v2/pkg/component"
	"github.com/aergoio/aergo/v2/state"
	"github.com/aergoio/aergo/v2/state/statedb"
	"github.com/aergoio/aergo/v2/types"
	"github.com/aergoio/aergo/v2/types/message"
	"github.com/aergoio/aergo/v2/zz_verif/vh"
	"github.com/btcsuite/btcd/btcec/v2"
	lcrypto "github.com/libp2p/go-libp2p/core/crypto"
)

// ---------------------------------------------------------------- stub components (mempool hands out the queued txs)

type stubComp struct {
	name string
	hub  *component.ComponentHub
	txs  func() []types.Transaction
}

func (r *stubComp) GetName() string                          { return r.name }
func (r *stubComp) Start()                                   {}
func (r *stubComp) Stop()                                    {}
func (r *stubComp) Status() component.Status                 { return component.StartedStatus }
func (r *stubComp) SetHub(hub *component.ComponentHub)       { r.hub = hub }
func (r *stubComp) Hub() *component.ComponentHub             { return r.hub }
func (r *stubComp) MsgQueueLen() int32                       { return 0 }
func (r *stubComp) Receive(actor.Context)                    {}
func (r *stubComp) Tell(m interface{})                       {}
func (r *stubComp) Request(m interface{}, sender *actor.PID) {}
func (r *stubComp) RequestFuture(m interface{}, timeout time.Duration, tip string) *actor.Future {
	f := actor.NewFuturePrefix("verif", timeout)
	if _, ok := m.(*message.MemPoolGet); ok && r.txs != nil {
		f.PID().Tell(&message.MemPoolGetRsp{Txs: r.txs()})
		return f
	}
	f.PID().Tell(component.ErrHubUnregistered)
	return f
}

// ---------------------------------------------------------------- node

type cnode struct {
	run    *vh.Run
	dir    string
	cs     *chain.ChainService
	cons   consensus.Consensus
	keys   []*btcec.PrivateKey
	addrs  [][]byte
	queue  []types.Transaction // what the stub mempool hands to the block factory
	ts     int64               // time of the last produced block (ns)
	lpb    types.BlockNo
	chainH []byte
	bpSize uint16
	bpIdx  uint16
	gbps   []string // genesis producers (base58 peer ids)
	cfg    *config.Config
}

var nodeSeq int

const cAccts = 5
const genesisCoins = 100000000

func newCNode(run *vh.Run) *cnode {
	nodeSeq++
	n := &cnode{run: run, dir: filepath.Join(run.Out, "cnode", fmt.Sprint(nodeSeq))}
	os.RemoveAll(n.dir)
	os.MkdirAll(n.dir, 0o755)
	seed := vh.NewRng(77) // fixed keys: the same accounts and producers in every run
	// the node key (block producer identity): a key file read by the real InitNodeInfo
	nodeKey, _ := btcec.PrivKeyFromBytes(seed.Bytes(32))
	if p2pkey.NodeSID() == "" {
		kf := filepath.Join(run.Out, "cnode", "node.key")
		raw, err := lcrypto.MarshalPrivateKey(p2putil.ConvertPKToLibP2P(nodeKey))
		if err != nil {
			panic(err)
		}
		if err := os.WriteFile(kf, raw, 0o600); err != nil {
			panic(err)
		}
		p2pkey.InitNodeInfo(&config.BaseConfig{}, &config.P2PConfig{NPKey: kf}, "v2.0.0", log.NewLogger("c03node"))
	}
	bal := map[string]string{}
	for i := 0; i < cAccts; i++ {
		k, _ := btcec.PrivKeyFromBytes(seed.Bytes(32))
		n.keys = append(n.keys, k)
		a := crypto.GenerateAddress(k.PubKey().ToECDSA())
		n.addrs = append(n.addrs, a)
		// (chain.initChainParams sets types.MaxAER to the total genesis balance of a private chain: 5 x 10^8 aergo keeps it
		// at the default 500,000,000 aergo, the bound of the parameter votes, for the whole process)
		bal[types.EncodeAddress(a)] = coins(genesisCoins).String()
	}
	// two more genesis producers that never produce: the last irreversible block stays at genesis, so every
	// reorganisation of the scenarios is permitted by the real Status.NeedReorganization
	bps := []string{p2pkey.NodeSID()}
	for i := 0; i < 2; i++ {
		k, _ := btcec.PrivKeyFromBytes(seed.Bytes(32))
		pid, _ := types.IDFromPublicKey(p2putil.ConvertPKToLibP2P(k).GetPublic())
		bps = append(bps, types.IDB58Encode(pid))
	}
	n.gbps = bps
	g := &types.Genesis{
		ID:        types.ChainID{Version: 0, Magic: "c03node.verif", PublicNet: false, MainNet: false, Consensus: "dpos"},
		Timestamp: 1_600_000_000_000_000_000,
		Balance:   bal,
		BPs:       bps,
	}
	core, err := chain.NewCore("memorydb", n.dir, false, 0, &config.DBConfig{})
	if err != nil {
		panic(err)
	}
	if err := core.InitGenesisBlock(g, false); err != nil {
		panic(err)
	}
	core.Close()
	cfg := config.NewServerContext("", "").GetDefaultConfig().(*config.Config)
	cfg.DbType = "memorydb"
	cfg.DataDir = n.dir
	cfg.Blockchain.NumWorkers = 1
	cfg.Blockchain.VerifierCount = 2
	cfg.Hardfork = config.AllEnabledHardforkConfig
	n.cfg = cfg
	n.open()
	return n
}

// open starts the chain service and the consensus object on the node's data directory (first start and restart).
func (n *cnode) open() {
	cfg := n.cfg
	var err error
	n.cs = chain.NewChainService(cfg)
	hub := component.NewComponentHub()
	for _, nm := range []string{message.MemPoolSvc, message.RPCSvc, message.P2PSvc, message.SyncerSvc} {
		c := &stubComp{name: nm}
		if nm == message.MemPoolSvc {
			c.txs = func() []types.Transaction { return n.queue }
		}
		hub.Register(c)
	}
	n.cs.SetHub(hub)
	// what consensus/impl.New does for a DPoS chain: the real dpos.New on the chain service's stores
	n.cons, err = dpos.New(cfg, hub, n.cs.CDB(), n.cs.SDB())
	if err != nil {
		panic(err)
	}
	n.cs.SetChainConsensus(n.cons)
	chain.VerifC15SetSkipMempool(n.cs, true)
	gb, _ := n.cs.GetBestBlock()
	if gb.GetHeader().GetTimestamp() > n.ts {
		n.ts = gb.GetHeader().GetTimestamp()
	}
	n.bpSize = uint16(len(n.gbps))
	for i, id := range dpos.VerifC15BPs(n.cons) {
		if id == p2pkey.NodeSID() {
			n.bpIdx = uint16(i)
		}
	}
}

// restart: the process stops (stores closed) and starts again on the same data directory.
func (n *cnode) restart() {
	n.close()
	n.open()
}

func (n *cnode) close() {
	n.cs.BeforeStop() // closes the stores too
}

func (n *cnode) best() *types.Block {
	b, err := n.cs.GetBestBlock()
	if err != nil {
		panic(err)
	}
	return b
}

// nextSlot: the next time after n.ts whose slot belongs to this node's producer index.
func (n *cnode) nextSlot() int64 {
	t := n.ts
	for i := 0; i < 1000; i++ {
		t += int64(consensus.BlockInterval)
		if slot.NewFromUnixNano(t).IsFor(bp.Index(n.bpIdx), n.bpSize) {
			n.ts = t
			return t
		}
	}
	panic("no slot for this producer")
}

func (n *cnode) sysStateAt(root []byte) *statedb.ContractState {
	sdb := n.cs.SDB().OpenNewStateDB(root)
	scs, err := statedb.GetSystemAccountState(sdb)
	if err != nil {
		panic(err)
	}
	return scs
}

func (n *cnode) nonceAt(root []byte, a []byte) uint64 {
	sdb := n.cs.SDB().OpenNewStateDB(root)
	as, err := state.GetAccountState(a, sdb)
	if err != nil {
		panic(err)
	}
	return as.Nonce()
}

// mkTx: a signed transaction of account i.
func (n *cnode) mkTx(i int, nonce uint64, rcpt []byte, amount *big.Int, typ types.TxType, payload string) types.Transaction {
	bi := types.NewBlockHeaderInfoFromPrevBlock(n.best(), n.ts, config.AllEnabledHardforkConfig)
	tx := &types.Tx{Body: &types.TxBody{Account: n.addrs[i], Recipient: rcpt, Amount: amount.Bytes(), Nonce: nonce,
		GasPrice: big.NewInt(0).Bytes(), Type: typ, Payload: []byte(payload), ChainIdHash: bi.ChainIdHash()}}

	if err := key.SignTx(tx, n.keys[i]); err != nil {
		panic(err)
	}
	if b, err := proto.Encode(tx); err == nil {
		t2 := &types.Tx{}
		if proto.Decode(b, t2) == nil {
			tx = t2
		}
	}
	if err := types.NewTransaction(tx).Validate(bi.ChainIdHash(), false); err != nil {
		panic(fmt.Sprintf("generator: transaction not admitted: %v (%s)", err, payload))
	}
	return types.NewTransaction(tx)
}

// produce runs the real block factory on parent with the given transactions. coherent=false: with the node's
// live in-memory governance state (what the node's own block factory does). coherent=true: as another honest
// producer would: the package-level rank and parameters are swapped for ones loaded from the parent's state for
// the duration of the call and swapped back afterwards (the process holds one copy of these globals).
func (n *cnode) produce(parent *types.Block, txs []types.Transaction, coherent bool) (*types.Block, *state.BlockState, error) {
	n.queue = txs
	defer func() { n.queue = nil }()
	var h *system.VerifC15Globals
	if coherent {
		h = system.VerifC15SwapInFresh(n.sysStateAt(parent.GetHeader().GetBlocksRootHash()))
		defer system.VerifC15SwapBack(h)
	}
	lpb := n.lpb
	if coherent {
		// another producer: its previous block is not known here; "confirms 1" (its last block was the parent)
		lpb = parent.BlockNo()
	}
	blk, bs, err := dpos.VerifC15Generate(n.cons, parent, n.nextSlot(), lpb)
	if err != nil {
		return nil, nil, err
	}
	if coherent {
		// the other producer has the resulting state: its trie nodes are put into the (content-addressed) store so that
		// it can build the next block of its branch; the node's own root pointer is not touched
		if err := bs.Commit(); err != nil {
			panic(err)
		}
	}
	return blk, bs, nil
}

func wire(b *types.Block) *types.Block {
	raw, err := proto.Encode(b)
	if err != nil {
		panic(err)
	}
	out := &types.Block{}
	if err := proto.Decode(raw, out); err != nil {
		panic(err)
	}
	return out
}

func (n *cnode) connectOwn(b *types.Block, bs *state.BlockState) error {
	err := chain.VerifC15AddBlock(n.cs, b, bs, "")
	if err == nil {
		n.lpb = b.BlockNo()
	}
	return err
}

func (n *cnode) receive(b *types.Block) error {
	return chain.VerifC15AddBlock(n.cs, wire(b), nil, "peer")
}

// ---------------------------------------------------------------- observation: memory against the best block's state

type memObs struct {
	vprMem, vprLoad string
	parMem, parLoad string
	next            string
}

func (n *cnode) observe() memObs {
	scs := n.sysStateAt(n.best().GetHeader().GetBlocksRootHash())
	ld, err := system.VerifC15VprLoad(scs)
	if err != nil {
		panic(err)
	}
	o := memObs{vprMem: system.VerifC15VprMemory().String(true), vprLoad: ld.String(true)}
	cur, next := system.VerifC15ParamsMemory()
	o.parMem = showParams(cur)
	o.next = showParams(next)
	o.parLoad = showParams(system.VerifC15ParamsLoad(scs))
	return o
}

func showParams(m map[string]*big.Int) string {
	var xs []string
	for k, v := range m {
		xs = append(xs, k+":"+v.String())
	}
	sort.Strings(xs)
	return strings.Join(xs, ",")
}

func (o memObs) coherent() (bool, string) {
	var bad []string
	if o.vprMem != o.vprLoad {
		bad = append(bad, "voting-power rank in memory "+o.vprMem+" differs from the rank rebuilt from the best block's state "+o.vprLoad)
	}
	if o.parMem != o.parLoad {
		bad = append(bad, "system parameters in memory ["+o.parMem+"] differ from the ones loaded from the best block's state ["+o.parLoad+"]")
	}
	if o.next != "" {
		bad = append(bad, "next-block parameter values are pending at a block boundary: ["+o.next+"]")
	}
	return len(bad) == 0, strings.Join(bad, "; ")
}

var _ = bytes.Equal

// ---------------------------------------------------------------- scenario

var (
	aergo   = new(big.Int).Exp(big.NewInt(10), big.NewInt(18), nil)
	sysAddr = []byte(types.AergoSystem)
)

func coins(n int64) *big.Int { return new(big.Int).Mul(big.NewInt(n), aergo) }

type ntx struct {
	acct int
	op   string
	mk   func(nonce uint64) types.Transaction
}

func (n *cnode) gov(i int, op string, amt *big.Int, payload string) ntx {
	return ntx{i, op, func(nn uint64) types.Transaction {
		return n.mkTx(i, nn, sysAddr, amt, types.TxType_GOVERNANCE, payload)
	}}
}

func (n *cnode) stake(i int, c int64) ntx {
	return n.gov(i, fmt.Sprintf("stake %d %d", i, c), coins(c), `{"Name":"v1stake"}`)
}

func (n *cnode) voteBP(i int, cand string) ntx {
	return n.gov(i, fmt.Sprintf("votebp %d", i), new(big.Int), `{"Name":"v1voteBP","Args":["`+cand+`"]}`)
}

func (n *cnode) voteDAO(i int, id, arg string) ntx {
	return n.gov(i, fmt.Sprintf("votedao %d %s %s", i, id, arg), new(big.Int), `{"Name":"v1voteDAO","Args":["`+id+`","`+arg+`"]}`)
}

func (n *cnode) transfer(i, to int, amt int64) ntx {
	return ntx{i, fmt.Sprintf("transfer %d %d %d", i, to, amt), func(nn uint64) types.Transaction {
		return n.mkTx(i, nn, n.addrs[to], big.NewInt(amt), types.TxType_TRANSFER, "")
	}}
}

// build: signed transactions with consecutive nonces per account on top of the parent's state.
func (n *cnode) build(parent *types.Block, txs []ntx) []types.Transaction {
	root := parent.GetHeader().GetBlocksRootHash()
	next := map[int]uint64{}
	var out []types.Transaction
	for _, t := range txs {
		if _, ok := next[t.acct]; !ok {
			next[t.acct] = n.nonceAt(root, n.addrs[t.acct]) + 1
		}
		out = append(out, t.mk(next[t.acct]))
		next[t.acct]++
	}
	return out
}

func resign(b *types.Block) {
	b.Hash = nil
	if err := b.Sign(p2pkey.NodePrivKey()); err != nil {
		panic(err)
	}
}

type nodeState struct {
	best string
	root string
	mem  memObs
}

func (n *cnode) look() nodeState {
	b := n.best()
	return nodeState{best: fmt.Sprintf("%x/%d", b.BlockHash()[:6], b.BlockNo()), root: fmt.Sprintf("%x", n.cs.SDB().GetRoot()), mem: n.observe()}
}

// diff: which parts of the node's state differ (short), and the values (for the replay).
func (a nodeState) diff(b nodeState) (string, []string) {
	var bad, det []string
	add := func(what, x, y string) {
		if x != y {
			bad = append(bad, what)
			det = append(det, what+": "+x+"  ->  "+y)
		}
	}
	add("best block", a.best, b.best)
	add("state DB root", a.root, b.root)
	add("in-memory voting-power rank", a.mem.vprMem, b.mem.vprMem)
	add("in-memory system parameters", "["+a.mem.parMem+"]", "["+b.mem.parMem+"]")
	add("parameters pending for the next block", "["+a.mem.next+"]", "["+b.mem.next+"]")
	return strings.Join(bad, ", "), det
}

type scen struct {
	run  *vh.Run
	n    *cnode
	hist []string
	dead bool
}

func (s *scen) fail(what string, detail ...string) {
	s.run.Fail("C03 node memory: "+what, map[string]interface{}{"session": s.hist, "detail": detail})
	s.dead = true
}

// netOK: a valid block of another producer with those of txs that execute; must connect.
func (s *scen) netOK(txs []ntx) {
	if s.dead {
		return
	}
	cand := s.n.build(s.n.best(), txs)
	blk, _, err := s.n.produce(s.n.best(), cand, true)
	if err != nil {
		s.fail(fmt.Sprintf("a producer with coherent memory failed on admitted transactions: %v", err))
		return
	}
	var ops []string
	for _, t := range txs {
		ops = append(ops, t.op)
	}
	s.hist = append(s.hist, fmt.Sprintf("net block %d [%s] (%d txs included)", blk.BlockNo(), strings.Join(ops, " ; "), len(blk.GetBody().GetTxs())))
	if err := s.n.receive(blk); err != nil {
		s.fail(fmt.Sprintf("a valid block of another producer on the best block was refused: %v", err))
		return
	}
	if ok, why := s.n.observe().coherent(); !ok {
		s.fail("after a connected block: " + why)
	}
	s.run.Eval(fmt.Sprintf("net %d %d", blk.BlockNo(), len(blk.GetBody().GetTxs())), true)
}

// netBad: a block of another producer carrying txs, made invalid in the given way; it must be refused and leave the
// node exactly as it was.
func (s *scen) netBad(txs []ntx, kind string, rng *vh.Rng) {
	if s.dead {
		return
	}
	before := s.n.look()
	parent := s.n.best()
	cand := s.n.build(parent, txs)
	blk, _, err := s.n.produce(parent, cand, true)
	if err != nil {
		s.fail(fmt.Sprintf("a producer with coherent memory failed on admitted transactions: %v", err))
		return
	}
	nIn := len(blk.GetBody().GetTxs())
	switch kind {
	case "badroot":
		blk.Header.BlocksRootHash = rng.Bytes(32)
	case "badreceipts":
		blk.Header.ReceiptsRootHash = rng.Bytes(32)
	case "badtx-first", "badtx-middle", "badtx-last":
		// a transaction the executor rejects (nonce far too high), signed by an account the block does not use
		bad := s.n.mkTx(4, 1<<40, s.n.addrs[3], big.NewInt(1), types.TxType_TRANSFER, "").GetTx()
		pos := map[string]int{"badtx-first": 0, "badtx-middle": nIn / 2, "badtx-last": nIn}[kind]
		body := blk.GetBody().GetTxs()
		nb := append(append(append([]*types.Tx{}, body[:pos]...), bad), body[pos:]...)
		blk.Body.Txs = nb
		blk.Header.TxsRootHash = types.CalculateTxsRootHash(nb)
	default:
		panic(kind)
	}
	resign(blk)
	var ops []string
	for _, t := range txs {
		ops = append(ops, t.op)
	}
	s.hist = append(s.hist, fmt.Sprintf("net block %d made invalid (%s) [%s] (%d of them included)", blk.BlockNo(), kind, strings.Join(ops, " ; "), nIn))
	if err := s.n.receive(blk); err == nil {
		s.fail("an invalid block (" + kind + ") was connected")
		return
	}
	after := s.n.look()
	s.run.Count("refused-" + kind)
	if d, det := before.diff(after); d != "" {
		s.fail("a refused block ("+kind+") did not leave the node as it was: changed: "+d, det...)
		return
	}
	if ok, why := after.mem.coherent(); !ok {
		s.fail("after a refused block (" + kind + "): " + why)
		return
	}
	s.run.Eval(fmt.Sprintf("netbad %s %d %d", kind, blk.BlockNo(), nIn), nIn > 0)
}

func session(run *vh.Run, rng *vh.Rng, kind string, variant int) {
	n := newCNode(run)
	defer n.close()
	s := &scen{run: run, n: n}
	c0 := n.gbps[0]
	c1 := n.gbps[1+variant%2]
	// two blocks that stake and vote connect
	s.netOK([]ntx{n.stake(0, 90000), n.voteBP(0, c0)})
	s.netOK([]ntx{n.stake(1, 20000), n.voteBP(1, c1)})
	if s.dead {
		return
	}
	inForce := n.observe().parMem
	// the block that fails: a stake and a BP vote (voting-power rank) and winning parameter votes (account 0 holds
	// more than two thirds of the staked coins)
	id, arg := "STAKINGMIN", coins(5000).String()
	switch variant % 3 {
	case 1:
		id, arg = "NAMEPRICE", coins(3).String()
	case 2:
		id, arg = "GASPRICE", "7"
	}
	txs := []ntx{n.stake(2, 10000), n.voteBP(2, c0), n.voteDAO(0, id, arg), n.transfer(3, 4, 5)}
	if variant%2 == 1 {
		txs = append(txs, n.voteDAO(1, "BPCOUNT", "3"))
	}
	s.netBad(txs, kind, rng)
	// a second refusal in a row (the status is "already at the best block" both times)
	if variant%2 == 0 {
		s.netBad([]ntx{n.stake(3, 15000), n.voteBP(3, c1), n.voteDAO(0, "NAMEPRICE", coins(4).String())}, kind, rng)
	}
	// then a valid block connects: the parameters in force are still the old ones
	s.netOK([]ntx{n.transfer(3, 4, 7)})
	if s.dead {
		return
	}
	o := n.observe()
	if o.parMem != inForce {
		s.fail("after a refused block (" + kind + ") and one valid block the system parameters in force changed: [" + inForce + "] -> [" + o.parMem + "]")
		return
	}
	s.netOK([]ntx{n.stake(4, 10000), n.voteBP(4, c1)})
	run.Count("session-" + kind)
}

func main() {
	run := vh.Start("c03node", "nontrivial = a block event on the real chain service + DPoS status (a connected block with transactions, a refused block that carried executed governance transactions)")
	kinds := []string{"badroot", "badreceipts", "badtx-first", "badtx-middle", "badtx-last"}
	reps := run.Pick(4, 40)
	v := 0
	for r := 0; r < reps; r++ {
		for _, k := range kinds {
			session(run, run.Rng.Fork(), k, v)
			v++
		}
	}
	run.Finish()
}
