// probe
package main

import (
	"context"
	"encoding/hex"
	"errors"
	"fmt"
	"math/big"
	"os"
	"path/filepath"
	"time"

	"github.com/aergoio/aergo-actor/actor"
	"github.com/aergoio/aergo/v2/account/key"
	crypto "github.com/aergoio/aergo/v2/account/key/crypto"
	"github.com/aergoio/aergo/v2/chain"
	"github.com/aergoio/aergo/v2/config"
	"github.com/aergoio/aergo/v2/consensus"
	"github.com/aergoio/aergo/v2/contract"
	"github.com/aergoio/aergo/v2/contract/system"
	"github.com/aergoio/aergo/v2/mempool"
	"github.com/aergoio/aergo/v2/pkg/component"
	"github.com/aergoio/aergo/v2/state"
	"github.com/aergoio/aergo/v2/types"
	"github.com/aergoio/aergo/v2/types/message"
	"github.com/aergoio/aergo/v2/zz_verif/vh"
	"github.com/btcsuite/btcd/btcec/v2"
	"github.com/rs/zerolog"
)

func hx(b []byte) string {
	if len(b) == 0 {
		return "-"
	}
	return hex.EncodeToString(b)
}

type stubCons struct {
	cs *chain.ChainService
}

func (s *stubCons) SetStateDB(sdb *state.ChainStateDB)                       {}
func (s *stubCons) IsTransactionValid(tx *types.Tx) bool                     { return true }
func (s *stubCons) VerifyTimestamp(block *types.Block) bool                  { return true }
func (s *stubCons) VerifySign(block *types.Block) error                      { return nil }
func (s *stubCons) IsBlockValid(block *types.Block, best *types.Block) error { return nil }
func (s *stubCons) Update(block *types.Block)                                {}
func (s *stubCons) Save(tx consensus.TxWriter) error                         { return nil }
func (s *stubCons) NeedReorganization(rootNo types.BlockNo) bool             { return true }
func (s *stubCons) Info() string                                             { return "" }
func (s *stubCons) GetType() consensus.ConsensusType                         { return consensus.ConsensusSBP }
func (s *stubCons) NeedNotify() bool                                         { return true }
func (s *stubCons) HasWAL() bool                                             { return false }
func (s *stubCons) IsForkEnable() bool                                       { return true }
func (s *stubCons) IsConnectedBlock(block *types.Block) bool {
	_, err := s.cs.GetBlock(block.BlockHash())
	return err == nil
}
func (s *stubCons) MakeConfChangeProposal(req *types.MembershipChange) (*consensus.ConfChangePropose, error) {
	return nil, consensus.ErrNotSupportedMethod
}

type stubCcc struct{}

func (stubCcc) MakeConfChangeProposal(req *types.MembershipChange) (*consensus.ConfChangePropose, error) {
	return nil, consensus.ErrNotSupportedMethod
}

// fakeCtx: the part of actor.Context MemPool.Receive / TxVerifier.Receive use (Message, Respond, Sender).
type fakeCtx struct {
	actor.Context
	msg  interface{}
	resp interface{}
}

func (c *fakeCtx) Message() interface{}        { return c.msg }
func (c *fakeCtx) Respond(r interface{})        { c.resp = r }
func (c *fakeCtx) Sender() *actor.PID           { return nil }

// poolComp stands where the mempool actor stands in the hub: it hands every message to the real
// MemPool.Receive / TxVerifier.Receive synchronously.
type poolComp struct {
	hub *component.ComponentHub
	n   *node
}

func (r *poolComp) GetName() string                          { return message.MemPoolSvc }
func (r *poolComp) Start()                                   {}
func (r *poolComp) Stop()                                    {}
func (r *poolComp) Status() component.Status                 { return component.StartedStatus }
func (r *poolComp) SetHub(hub *component.ComponentHub)       { r.hub = hub }
func (r *poolComp) Hub() *component.ComponentHub             { return r.hub }
func (r *poolComp) MsgQueueLen() int32                       { return 0 }
func (r *poolComp) Receive(actor.Context)                    {}
func (r *poolComp) Tell(m interface{})                       { r.handle(m) }
func (r *poolComp) Request(m interface{}, sender *actor.PID) { r.handle(m) }
func (r *poolComp) RequestFuture(m interface{}, timeout time.Duration, tip string) *actor.Future {
	resp := r.handle(m)
	f := actor.NewFuturePrefix("verif", timeout)
	f.PID().Tell(resp)
	return f
}
func (r *poolComp) handle(m interface{}) interface{} {
	switch x := m.(type) {
	case *message.MemPoolPut:
		// MemPool.Receive hands the tx to its verifier actor; that actor's Receive is called directly
		c := &fakeCtx{msg: x.Tx}
		r.n.txv.Receive(c)
		if rsp, ok := c.resp.(*message.MemPoolPutRsp); ok {
			r.n.reoffer = append(r.n.reoffer, fmt.Sprintf("%s:%v", hx(x.Tx.GetHash())[:8], rsp.Err))
		}
		return c.resp
	default:
		c := &fakeCtx{msg: m}
		r.n.mp.Receive(c)
		return c.resp
	}
}

type recorder struct {
	name string
	hub  *component.ComponentHub
}

func (r *recorder) GetName() string                          { return r.name }
func (r *recorder) Start()                                   {}
func (r *recorder) Stop()                                    {}
func (r *recorder) Status() component.Status                 { return component.StartedStatus }
func (r *recorder) SetHub(hub *component.ComponentHub)       { r.hub = hub }
func (r *recorder) Hub() *component.ComponentHub             { return r.hub }
func (r *recorder) MsgQueueLen() int32                       { return 0 }
func (r *recorder) Receive(actor.Context)                    {}
func (r *recorder) Tell(m interface{})                       {}
func (r *recorder) Request(m interface{}, sender *actor.PID) {}
func (r *recorder) RequestFuture(m interface{}, timeout time.Duration, tip string) *actor.Future {
	f := actor.NewFuturePrefix("verif", timeout)
	f.PID().Tell(component.ErrHubUnregistered)
	return f
}

const nAcct = 4

type world struct {
	keys  []*btcec.PrivateKey
	addrs [][]byte
	root  string
	nnode int
	tmpl  string
}

func newWorld(root string) *world {
	w := &world{root: root}
	seed := vh.NewRng(4)
	for i := 0; i < nAcct; i++ {
		k, _ := btcec.PrivKeyFromBytes(seed.Bytes(32))
		w.keys = append(w.keys, k)
		w.addrs = append(w.addrs, crypto.GenerateAddress(k.PubKey().ToECDSA()))
	}
	os.RemoveAll(root)
	os.MkdirAll(root, 0o755)
	w.tmpl = filepath.Join(root, "tmpl")
	core, err := chain.NewCore("memorydb", w.tmpl, false, 0, &config.DBConfig{})
	if err != nil {
		panic(err)
	}
	if err := core.InitGenesisBlock(w.genesis(), false); err != nil {
		panic(err)
	}
	core.Close()
	return w
}

func (w *world) genesis() *types.Genesis {
	g := &types.Genesis{
		ID:        types.ChainID{Version: 0, Magic: "c04.verif", PublicNet: false, MainNet: false, Consensus: "sbp"},
		Timestamp: 1_600_000_000_000_000_000,
		Balance:   map[string]string{},
	}
	for _, a := range w.addrs {
		g.Balance[types.EncodeAddress(a)] = "1000000000000000000000"
	}
	return g
}

func copyFile(src, dst string) {
	b, err := os.ReadFile(src)
	if err != nil {
		panic(err)
	}
	os.MkdirAll(filepath.Dir(dst), 0o755)
	if err := os.WriteFile(dst, b, 0o644); err != nil {
		panic(err)
	}
}

func (w *world) initDir(dir string) {
	os.RemoveAll(dir)
	for _, sub := range []string{"chain", "state"} {
		copyFile(filepath.Join(w.tmpl, sub, "database"), filepath.Join(dir, sub, "database"))
	}
}

type node struct {
	w       *world
	cs      *chain.ChainService
	mp      *mempool.MemPool
	txv     *mempool.TxVerifier
	dir     string
	reoffer []string
}

func (w *world) newNode() *node {
	w.nnode++
	n := &node{w: w, dir: filepath.Join(w.root, fmt.Sprintf("n%d", w.nnode))}
	w.initDir(n.dir)
	cfg := config.NewServerContext("", "").GetDefaultConfig().(*config.Config)
	cfg.DbType = "memorydb"
	cfg.DataDir = n.dir
	cfg.Blockchain.NumWorkers = 1
	cfg.Blockchain.VerifierCount = 2
	cfg.Mempool.EnableFadeout = false
	cfg.Mempool.DumpFilePath = filepath.Join(n.dir, "mempool.dump")
	n.cs = chain.NewChainService(cfg)
	n.cs.SetChainConsensus(&stubCons{cs: n.cs})
	hub := component.NewComponentHub()
	n.mp = mempool.NewMemPoolService(cfg, n.cs)
	n.txv = mempool.NewTxVerifier(n.mp)
	hub.Register(&poolComp{n: n})
	for _, nm := range []string{message.RPCSvc, message.P2PSvc, message.SyncerSvc} {
		hub.Register(&recorder{name: nm})
	}
	n.cs.SetHub(hub)
	n.mp.SetHub(hub)
	best, err := n.cs.GetBestBlock()
	if err != nil {
		panic(err)
	}
	n.mp.VerifC04Init(best)
	return n
}

func (n *node) add(b *types.Block) error {
	err := chain.VerifC04AddBlock(n.cs, b, "peer")
	for i := 0; i < 2000; i++ {
		need, pending := chain.VerifC04VerifyState(n.cs)
		if !need || pending == 1 {
			break
		}
		time.Sleep(50 * time.Microsecond)
	}
	return err
}

// admit: what the mempool's verifier actor does with a tx received from RPC/P2P.
func (n *node) admit(tx *types.Tx) error {
	c := &fakeCtx{msg: tx}
	n.txv.Receive(c)
	return c.resp.(*message.MemPoolPutRsp).Err
}

type producer struct {
	w    *world
	core *chain.Core
	gen  *types.Block
	ts   int64
}

func (w *world) newProducer() *producer {
	dir := filepath.Join(w.root, "producer")
	w.initDir(dir)
	core, err := chain.NewCore("memorydb", dir, false, 0, &config.DBConfig{})
	if err != nil {
		panic(err)
	}
	g := core.GetGenesisInfo()
	return &producer{w: w, core: core, gen: g.Block(), ts: g.Timestamp}
}

func (p *producer) bi(parent *types.Block) *types.BlockHeaderInfo {
	return types.NewBlockHeaderInfoFromPrevBlock(parent, p.ts+1000, config.AllEnabledHardforkConfig)
}

func (p *producer) build(parent *types.Block, txs []*types.Tx) (*types.Block, []error) {
	p.ts += 1000
	bi := types.NewBlockHeaderInfoFromPrevBlock(parent, p.ts, config.AllEnabledHardforkConfig)
	sdb := p.core.VerifC04SDB()
	bs := state.NewBlockState(sdb.OpenNewStateDB(parent.GetHeader().GetBlocksRootHash()), state.SetPrevBlockHash(parent.BlockHash()))
	bs.SetGasPrice(system.GetGasPrice())
	bs.Receipts().SetHardFork(config.AllEnabledHardforkConfig, bi.No)
	exec := chain.NewTxExecutor(context.Background(), stubCcc{}, nil, bi, contract.ChainService)
	var errs []error
	for _, tx := range txs {
		errs = append(errs, exec(bs, types.NewTransaction(tx)))
	}
	if err := bs.Update(); err != nil {
		panic(err)
	}
	if err := bs.Commit(); err != nil {
		panic(err)
	}
	blk := types.NewBlock(bi, append([]byte{}, bs.GetRoot()...), bs.Receipts(), txs, nil, nil)
	blk.BlockHash()
	return blk, errs
}

func (w *world) tx(signer int, body *types.TxBody) *types.Tx {
	tx := &types.Tx{Body: body}
	if body.GasPrice == nil {
		body.GasPrice = big.NewInt(0).Bytes()
	}
	key.SignTx(tx, w.keys[signer])
	return tx
}

var aergo1 = new(big.Int).Exp(big.NewInt(10), big.NewInt(18), nil)

func main() {
	zerolog.SetGlobalLevel(zerolog.Disabled)
	run := vh.Start("c04", "probe")
	defer run.Finish()
	w := newWorld(filepath.Join(run.Out, "nodes"))
	p := w.newProducer()
	n := w.newNode()
	A, B, C := 0, 1, 2
	name := []byte("verifname001")
	cid := func(parent *types.Block) []byte { return p.bi(parent).ChainIdHash() }

	// block 1: A creates the name
	t1 := w.tx(A, &types.TxBody{Nonce: 1, Account: w.addrs[A], Recipient: []byte(types.AergoName), Amount: aergo1.Bytes(),
		Payload: []byte(`{"Name":"v1createName","Args":["verifname001"]}`), Type: types.TxType_GOVERNANCE, ChainIdHash: cid(p.gen)})
	b1, errs := p.build(p.gen, []*types.Tx{t1})
	fmt.Println("b1 build", errs, "add:", n.add(b1))
	// pool: T = named-sender transfer of 500 aergo to C, signed by A, nonce 3
	amt := new(big.Int).Mul(aergo1, big.NewInt(500))
	T := w.tx(A, &types.TxBody{Nonce: 3, Account: name, Recipient: w.addrs[C], Amount: amt.Bytes(), Type: types.TxType_TRANSFER, ChainIdHash: cid(b1)})
	fmt.Println("admit T:", n.admit(T))
	// block 2: A hands the name to B; B sends two txs
	t2 := w.tx(A, &types.TxBody{Nonce: 2, Account: w.addrs[A], Recipient: []byte(types.AergoName), Amount: aergo1.Bytes(),
		Payload: []byte(fmt.Sprintf(`{"Name":"v1updateName","Args":["verifname001","%s"]}`, types.EncodeAddress(w.addrs[B]))), Type: types.TxType_GOVERNANCE, ChainIdHash: cid(b1)})
	t3 := w.tx(B, &types.TxBody{Nonce: 1, Account: w.addrs[B], Recipient: w.addrs[C], Amount: big.NewInt(1).Bytes(), Type: types.TxType_TRANSFER, ChainIdHash: cid(b1)})
	t4 := w.tx(B, &types.TxBody{Nonce: 2, Account: w.addrs[B], Recipient: w.addrs[C], Amount: big.NewInt(1).Bytes(), Type: types.TxType_TRANSFER, ChainIdHash: cid(b1)})
	b2, errs := p.build(b1, []*types.Tx{t2, t3, t4})
	fmt.Println("b2 build", errs, "add:", n.add(b2))
	fmt.Println("T still in pool:", n.mp.VerifC04Exist(T.Hash) != nil)
	// block 3 (byzantine producer): includes T
	b3, errs := p.build(b2, []*types.Tx{T})
	fmt.Println("b3 build", errs)
	bal := func(n *node, i int) string {
		st, _ := n.cs.SDB().GetStateDB().GetAccountState(types.ToAccountID(w.addrs[i]))
		return fmt.Sprintf("nonce=%d bal=%s", st.GetNonce(), new(big.Int).SetBytes(st.GetBalance()))
	}
	n2 := w.newNode()
	for _, b := range []*types.Block{b1, b2} {
		if err := n2.add(b); err != nil {
			panic(err)
		}
	}
	fmt.Println("node without T in its pool: add b3:", n2.add(b3), " B:", bal(n2, B))
	fmt.Println("node with T in its pool:    add b3:", n.add(b3), " B:", bal(n, B))
	var e *chain.ErrBlock
	_ = errors.As(nil, &e)
}
