// Harness c04: property C04 (authorisation and replay protection for executed transactions).
//
// Drives, in one process and on transactions signed with real secp256k1 keys:
//   - the real types.Tx.Validate, key.VerifyTx / VerifyTxWithAddress,
//   - the real MemPool admission (TxVerifier.Receive = verifyTx + put) of a pool attached to
//   - a real chain.ChainService (memorydb stores, stub consensus), whose MemPoolSvc slot in the component hub hands
//     every message synchronously to the real MemPool.Receive / TxVerifier.Receive (MemPoolExist lookups of the block
//     signature verifier, MemPoolDel after every connected block, MemPoolPut of transactions a reorganisation returns),
//   - the real block path: ChainService.addBlock -> ValidateBody (parallel signVerifier) -> blockExecutor.execute ->
//     executeTx ... -> WaitVerifyDone, including side branches and reorganisations with the same tx on both branches,
//   - the bare executeTx with and without a pool-verified account,
//   - blocks whose HEADER carries another fork version of the chain id / another chain's id / a short or no chain id,
//   - MemPool.loadTxs on a dump file (start-up of a node with a pool dump),
//   - the node's own block production: the real sbp.SimpleBlockFactory loop (BlockGenerator.GatherTXs -> MemPoolGet ->
//     executeTx with the pool's verified accounts -> ConnectBlock -> addBlock with the factory's block state),
//   - blocks with many more transactions than the signature verifier has workers.
//
// Every operation is also given to the Lean model (model-c04) as one line; the model answers with the identity as hash
// and an ideal signature scheme, the harness tells it who signed which fields and from which fields a hash was computed.
// Oracle = the property itself, evaluated on the real node after every block: see oracle().
package main

import (
	"bytes"
	"context"
	"encoding/binary"
	"encoding/hex"
	"errors"
	"fmt"
	"math/big"
	"os"
	"path/filepath"
	"sort"
	"strings"
	"sync"
	"time"

	"github.com/aergoio/aergo-actor/actor"
	"github.com/aergoio/aergo/v2/account/key"
	crypto "github.com/aergoio/aergo/v2/account/key/crypto"
	"github.com/aergoio/aergo/v2/chain"
	"github.com/aergoio/aergo/v2/config"
	"github.com/aergoio/aergo/v2/consensus"
	"github.com/aergoio/aergo/v2/consensus/impl/sbp"
	"github.com/aergoio/aergo/v2/contract"
	"github.com/aergoio/aergo/v2/contract/name"
	"github.com/aergoio/aergo/v2/contract/system"
	"github.com/aergoio/aergo/v2/internal/common"
	"github.com/aergoio/aergo/v2/internal/enc/proto"
	"github.com/aergoio/aergo/v2/mempool"
	"github.com/aergoio/aergo/v2/pkg/component"
	"github.com/aergoio/aergo/v2/state"
	"github.com/aergoio/aergo/v2/state/statedb"
	"github.com/aergoio/aergo/v2/types"
	"github.com/aergoio/aergo/v2/types/message"
	"github.com/aergoio/aergo/v2/zz_verif/vh"
	"github.com/btcsuite/btcd/btcec/v2"
	"github.com/rs/zerolog"
)

func hx(b []byte) string {
	if len(b) == 0 {
		return "-"
	}
	return hex.EncodeToString(b)
}

func short(b []byte) string {
	if len(b) > 4 {
		b = b[:4]
	}
	return hx(b)
}

// ---------------------------------------------------------------- stub consensus (exported interface only)

type stubCons struct{ cs *chain.ChainService }

func (s *stubCons) SetStateDB(sdb *state.ChainStateDB)                       {}
func (s *stubCons) IsTransactionValid(tx *types.Tx) bool                     { return true }
func (s *stubCons) VerifyTimestamp(block *types.Block) bool                  { return true }
func (s *stubCons) VerifySign(block *types.Block) error                      { return nil }
func (s *stubCons) IsBlockValid(block *types.Block, best *types.Block) error { return nil }
func (s *stubCons) Update(block *types.Block)                                {}
func (s *stubCons) Save(tx consensus.TxWriter) error                         { return nil }
func (s *stubCons) NeedReorganization(rootNo types.BlockNo) bool             { return true }
func (s *stubCons) Info() string                                             { return "" }
func (s *stubCons) GetType() consensus.ConsensusType                         { return consensus.ConsensusSBP }
func (s *stubCons) NeedNotify() bool                                         { return true }
func (s *stubCons) HasWAL() bool                                             { return false }
func (s *stubCons) IsForkEnable() bool                                       { return true }
func (s *stubCons) IsConnectedBlock(block *types.Block) bool {
	_, err := s.cs.GetBlock(block.BlockHash())
	return err == nil
}
func (s *stubCons) MakeConfChangeProposal(req *types.MembershipChange) (*consensus.ConfChangePropose, error) {
	return nil, consensus.ErrNotSupportedMethod
}

type stubCcc struct{}

func (stubCcc) MakeConfChangeProposal(req *types.MembershipChange) (*consensus.ConfChangePropose, error) {
	return nil, consensus.ErrNotSupportedMethod
}

// fakeCtx: the part of actor.Context that MemPool.Receive / TxVerifier.Receive use (Message, Respond, Sender).
type fakeCtx struct {
	actor.Context
	msg  interface{}
	resp interface{}
}

func (c *fakeCtx) Message() interface{} { return c.msg }
func (c *fakeCtx) Respond(r interface{}) { c.resp = r }
func (c *fakeCtx) Sender() *actor.PID    { return nil }

// poolComp stands where the mempool actor stands in the hub: every message goes synchronously to the real
// MemPool.Receive; a MemPoolPut goes to the real TxVerifier.Receive (MemPool.Receive would only forward it to that actor).
type poolComp struct {
	hub *component.ComponentHub
	n   *node
}

func (r *poolComp) GetName() string                          { return message.MemPoolSvc }
func (r *poolComp) Start()                                   {}
func (r *poolComp) Stop()                                    {}
func (r *poolComp) Status() component.Status                 { return component.StartedStatus }
func (r *poolComp) SetHub(hub *component.ComponentHub)       { r.hub = hub }
func (r *poolComp) Hub() *component.ComponentHub             { return r.hub }
func (r *poolComp) MsgQueueLen() int32                       { return 0 }
func (r *poolComp) Receive(actor.Context)                    {}
func (r *poolComp) Tell(m interface{})                       { r.handle(m) }
func (r *poolComp) Request(m interface{}, sender *actor.PID) { r.handle(m) }
func (r *poolComp) RequestFuture(m interface{}, timeout time.Duration, tip string) *actor.Future {
	resp := r.handle(m)
	f := actor.NewFuturePrefix("verif", timeout)
	f.PID().Tell(resp)
	return f
}
func (r *poolComp) handle(m interface{}) interface{} {
	switch x := m.(type) {
	case *message.MemPoolPut:
		err := r.n.admit(x.Tx)
		r.n.mu.Lock()
		r.n.reoffer = append(r.n.reoffer, reoffered{x.Tx, err})
		r.n.mu.Unlock()
		return &message.MemPoolPutRsp{Err: nil}
	default:
		c := &fakeCtx{msg: m}
		r.n.mp.Receive(c)
		return c.resp
	}
}

type recorder struct {
	name   string
	hub    *component.ComponentHub
	answer func(m interface{}) interface{}
}

func (r *recorder) GetName() string                          { return r.name }
func (r *recorder) Start()                                   {}
func (r *recorder) Stop()                                    {}
func (r *recorder) Status() component.Status                 { return component.StartedStatus }
func (r *recorder) SetHub(hub *component.ComponentHub)       { r.hub = hub }
func (r *recorder) Hub() *component.ComponentHub             { return r.hub }
func (r *recorder) MsgQueueLen() int32                       { return 0 }
func (r *recorder) Receive(actor.Context)                    {}
func (r *recorder) Tell(m interface{})                       {}
func (r *recorder) Request(m interface{}, sender *actor.PID) {}
func (r *recorder) RequestFuture(m interface{}, timeout time.Duration, tip string) *actor.Future {
	f := actor.NewFuturePrefix("verif", timeout)
	if r.answer != nil {
		f.PID().Tell(r.answer(m))
	} else {
		f.PID().Tell(component.ErrHubUnregistered)
	}
	return f
}

// ---------------------------------------------------------------- world: keys, genesis, nodes, producer

const nAcct = 5 // funded accounts; keys[nAcct] is an outsider (valid key, no funds)

var genesisBalance, _ = new(big.Int).SetString("1000000000000000000000", 10)
var aergo1 = new(big.Int).Exp(big.NewInt(10), big.NewInt(18), nil)

type world struct {
	keys  []*btcec.PrivateKey
	addrs [][]byte
	root  string
	nnode int
	tmpl  string
}

func newWorld(root string) *world {
	w := &world{root: root}
	seed := vh.NewRng(4) // fixed accounts: the same in every run
	for i := 0; i < nAcct+1; i++ {
		k, _ := btcec.PrivKeyFromBytes(seed.Bytes(32))
		w.keys = append(w.keys, k)
		w.addrs = append(w.addrs, crypto.GenerateAddress(k.PubKey().ToECDSA()))
	}
	os.RemoveAll(root)
	os.MkdirAll(root, 0o755)
	// what `aergosvr init --genesis` does: a Core on the data directory, InitGenesisBlock, Close
	w.tmpl = filepath.Join(root, "tmpl")
	core, err := chain.NewCore("memorydb", w.tmpl, false, 0, &config.DBConfig{})
	if err != nil {
		panic(err)
	}
	if err := core.InitGenesisBlock(w.genesis(), false); err != nil {
		panic(err)
	}
	core.Close()
	return w
}

func (w *world) genesis() *types.Genesis {
	g := &types.Genesis{
		ID:        types.ChainID{Version: 0, Magic: "c04.verif", PublicNet: false, MainNet: false, Consensus: "sbp"},
		Timestamp: 1_600_000_000_000_000_000,
		Balance:   map[string]string{},
	}
	for _, a := range w.addrs[:nAcct] {
		g.Balance[types.EncodeAddress(a)] = genesisBalance.String()
	}
	return g
}

func copyFile(src, dst string) {
	b, err := os.ReadFile(src)
	if err != nil {
		panic(err)
	}
	os.MkdirAll(filepath.Dir(dst), 0o755)
	if err := os.WriteFile(dst, b, 0o644); err != nil {
		panic(err)
	}
}

func (w *world) initDir(dir string) {
	os.RemoveAll(dir)
	for _, sub := range []string{"chain", "state"} {
		copyFile(filepath.Join(w.tmpl, sub, "database"), filepath.Join(dir, sub, "database"))
	}
}

type reoffered struct {
	tx  *types.Tx
	err error
}

type ownResult struct {
	blk *types.Block
	err error
}

type node struct {
	w       *world
	cs      *chain.ChainService
	mp      *mempool.MemPool
	txv     *mempool.TxVerifier
	dir     string
	mu      sync.Mutex
	reoffer []reoffered
	hub     *component.ComponentHub
	hf      *config.HardforkConfig
	bf      *sbp.SimpleBlockFactory // the node's own block factory (started on first use)
	own     chan ownResult          // blocks the factory handed to the chain service, and what addBlock said
}

// produce: the node produces a block itself, the way a block-producing node does — the real SimpleBlockFactory loop:
// NewBlockHeaderInfoFromPrevBlock, BlockGenerator.GatherTXs (MemPoolGet -> the real MemPool.get with the verified
// accounts the pool attached, executeTx on the block state), ConnectBlock (message.AddBlock with the block state ->
// the real addBlock: the node's own block is committed as executed by the factory, without block-level signature check).
func (n *node) produce() (*types.Block, error, bool) {
	if n.bf == nil {
		bf, err := sbp.New(n.hf, n.hub, n.cs.CDB(), n.cs.SDB())
		if err != nil {
			panic(err)
		}
		n.bf = bf
		go bf.Start()
	}
	best, err := n.cs.GetBestBlock()
	if err != nil {
		panic(err)
	}
	n.bf.JobQueue() <- best
	select {
	case r := <-n.own:
		n.settle()
		return r.blk, r.err, true
	case <-time.After(watchdog):
		return nil, nil, false
	}
}

func (w *world) newNode(hf *config.HardforkConfig) *node {
	w.nnode++
	n := &node{w: w, dir: filepath.Join(w.root, fmt.Sprintf("n%d", w.nnode))}
	w.initDir(n.dir)
	cfg := config.NewServerContext("", "").GetDefaultConfig().(*config.Config)
	cfg.DbType = "memorydb"
	cfg.DataDir = n.dir
	cfg.Blockchain.NumWorkers = 1
	cfg.Blockchain.VerifierCount = 2
	cfg.Mempool.EnableFadeout = false
	cfg.Mempool.DumpFilePath = filepath.Join(n.dir, "mempool.dump")
	hfCopy := *hf
	cfg.Hardfork = &hfCopy
	n.cs = chain.NewChainService(cfg)
	n.cs.SetChainConsensus(&stubCons{cs: n.cs})
	hub := component.NewComponentHub()
	n.mp = mempool.NewMemPoolService(cfg, n.cs)
	n.txv = mempool.NewTxVerifier(n.mp)
	hub.Register(&poolComp{n: n})
	for _, nm := range []string{message.RPCSvc, message.P2PSvc, message.SyncerSvc} {
		hub.Register(&recorder{name: nm})
	}
	// the pool asks the chain service whether a contract accepts a delegated fee (the chain worker would ask the VM:
	// the stub VM allows it unless scripted otherwise, and no such script is generated)
	hub.Register(&recorder{name: message.ChainSvc, answer: func(m interface{}) interface{} {
		switch x := m.(type) {
		case *message.CheckFeeDelegation:
			return message.CheckFeeDelegationRsp{Err: nil}
		case *message.AddBlock:
			// what ChainManager.Receive does with the block its own factory sends (consensus/chain.ConnectBlock)
			var bs *state.BlockState
			if x.Bstate != nil {
				bs = x.Bstate.(*state.BlockState)
			}
			err := chain.VerifC04AddOwnBlock(n.cs, x.Block, bs)
			n.own <- ownResult{x.Block, err}
			return &message.AddBlockRsp{BlockNo: x.Block.GetHeader().GetBlockNo(), BlockHash: x.Block.BlockHash(), Err: err}
		}
		return component.ErrHubUnregistered
	}})
	n.hub = hub
	n.hf = &hfCopy
	n.own = make(chan ownResult, 4)
	n.cs.SetHub(hub)
	n.mp.SetHub(hub)
	best, err := n.cs.GetBestBlock()
	if err != nil {
		panic(err)
	}
	n.mp.VerifC04Init(best) // AfterStart: setStateDB(best block)
	return n
}

func (n *node) settle() {
	for i := 0; i < 100000; i++ {
		need, pending := chain.VerifC04VerifyState(n.cs)
		if !need || pending == 1 {
			return
		}
		time.Sleep(50 * time.Microsecond)
	}
}

func (n *node) close() {
	n.settle()
	if n.bf != nil {
		close(n.bf.QuitChan())
	}
	// a verification that was started and never awaited (last block failed in execution) leaves goroutines parked on the
	// verifier's channels; BeforeStop closes those channels under them. Such a node is abandoned instead of stopped.
	if need, _ := chain.VerifC04VerifyState(n.cs); !need {
		n.cs.BeforeStop()
	}
	os.RemoveAll(n.dir)
}

var errHung = errors.New("addBlock did not return")

// watchdog: how long the real addBlock / block factory may take before the harness reports a hang. Generous: on a
// loaded machine a block of a few hundred transactions may take seconds; a verification result that is never delivered
// takes for ever.
const watchdog = 180 * time.Second

// add: watchdog around the real addBlock — a signature verification that never completes (result channel never
// served) would otherwise hang the harness instead of being reported.
func (n *node) add(b *types.Block, useMempool bool) error {
	chain.VerifC04SetSkipMempool(n.cs, !useMempool)
	done := make(chan error, 1)
	go func() { done <- chain.VerifC04AddBlock(n.cs, b, "peer") }()
	select {
	case err := <-done:
		n.settle()
		return err
	case <-time.After(watchdog):
		return errHung
	}
}

// admit: what the mempool's verifier actor does with a tx received from RPC / P2P / a reorganisation.
func (n *node) admit(tx *types.Tx) error {
	c := &fakeCtx{msg: tx}
	n.txv.Receive(c)
	return c.resp.(*message.MemPoolPutRsp).Err
}

type producer struct {
	w    *world
	core *chain.Core
	gen  *types.Block
	ts   int64
	hf   *config.HardforkConfig // the session's hard-fork heights (the node under test is configured with the same)
}

func (w *world) newProducer() *producer {
	dir := filepath.Join(w.root, "producer")
	w.initDir(dir)
	core, err := chain.NewCore("memorydb", dir, false, 0, &config.DBConfig{})
	if err != nil {
		panic(err)
	}
	g := core.GetGenesisInfo()
	return &producer{w: w, core: core, gen: g.Block(), ts: g.Timestamp, hf: config.AllEnabledHardforkConfig}
}

func (p *producer) sdbAt(root []byte) *statedb.StateDB { return p.core.VerifC04SDB().OpenNewStateDB(root) }

// build: a block on parent with these transactions, whatever the executor says about each of them (a failing one
// stays in the body; the header carries the state the others reach), as a Byzantine producer could send it.
//
// hdr == nil: the header carries this chain's id in the hard-fork version configured for the block's height (what an
// honest producer does). Otherwise the header carries hdr as its chain id, and — like the validating node, which takes
// ChainId and ForkVersion from the header it receives — the producer executes the transactions under it.
func (p *producer) build(parent *types.Block, txs []*types.Tx, hdr []byte) (*types.Block, []error) {
	p.ts += 1000
	bi := types.NewBlockHeaderInfoFromPrevBlock(parent, p.ts, p.hf)
	if hdr != nil {
		bi.ChainId = hdr
		bi.ForkVersion = types.DecodeChainIdVersion(hdr)
	}
	sdb := p.core.VerifC04SDB()
	bs := state.NewBlockState(sdb.OpenNewStateDB(parent.GetHeader().GetBlocksRootHash()), state.SetPrevBlockHash(parent.BlockHash()))
	bs.SetGasPrice(system.GetGasPrice())
	bs.Receipts().SetHardFork(p.hf, bi.No)
	exec := chain.NewTxExecutor(context.Background(), stubCcc{}, nil, bi, contract.ChainService)
	var errs []error
	for _, tx := range txs {
		errs = append(errs, exec(bs, types.NewTransaction(tx)))
	}
	if err := bs.Update(); err != nil {
		panic(err)
	}
	if err := bs.Commit(); err != nil {
		panic(err)
	}
	blk := types.NewBlock(bi, append([]byte{}, bs.GetRoot()...), bs.Receipts(), txs, nil, nil)
	// what a peer sends is the protobuf encoding
	raw, err := proto.Encode(blk)
	if err != nil {
		panic(err)
	}
	blk = &types.Block{}
	if err := proto.Decode(raw, blk); err != nil {
		panic(err)
	}
	blk.BlockHash()
	return blk, errs
}

// adopt: a block the node under test produced itself is replayed into the producer's state DB (as any other node
// receiving it would execute it), so that the harness can build on it. false: the replay does not reach the state
// root the block's header claims, or one of its transactions does not execute.
func (p *producer) adopt(parent, blk *types.Block) bool {
	bi := types.NewBlockHeaderInfo(blk)
	sdb := p.core.VerifC04SDB()
	bs := state.NewBlockState(sdb.OpenNewStateDB(parent.GetHeader().GetBlocksRootHash()), state.SetPrevBlockHash(parent.BlockHash()))
	bs.SetGasPrice(system.GetGasPrice())
	bs.Receipts().SetHardFork(p.hf, bi.No)
	exec := chain.NewTxExecutor(context.Background(), stubCcc{}, nil, bi, contract.ChainService)
	ok := true
	for _, tx := range blk.GetBody().GetTxs() {
		if exec(bs, types.NewTransaction(tx)) != nil {
			ok = false
		}
	}
	if err := bs.Update(); err != nil {
		panic(err)
	}
	if err := bs.Commit(); err != nil {
		panic(err)
	}
	if blk.GetHeader().GetTimestamp() > p.ts {
		p.ts = blk.GetHeader().GetTimestamp()
	}
	return ok && bytes.Equal(bs.GetRoot(), blk.GetHeader().GetBlocksRootHash())
}

// ---------------------------------------------------------------- error classes (never strings)

var classOf = map[error]string{
	types.ErrTxFormatInvalid:           "format",
	types.ErrTxInvalidChainIdHash:      "chainid",
	types.ErrTxInvalidSize:             "size",
	types.ErrTxHasInvalidHash:          "hash",
	types.ErrTxInvalidAmount:           "amount",
	types.ErrTxInvalidPrice:            "price",
	types.ErrTxInvalidAccount:          "account",
	types.ErrTxInvalidRecipient:        "recipient",
	types.ErrTxInvalidType:             "type",
	types.ErrTxInvalidPayload:          "payload",
	types.ErrTxNonceTooLow:             "noncelow",
	types.ErrTxNonceToohigh:            "noncehigh",
	types.ErrInsufficientBalance:       "balance",
	types.ErrTxAlreadyInMempool:        "exists",
	types.ErrSameNonceAlreadyInMempool: "same",
	chain.ErrorBlockVerifySign:         "sig",
}

func class(err error) string {
	if err == nil {
		return "ok"
	}
	if c, ok := classOf[err]; ok {
		return c
	}
	// a sentinel wrapped with %w (or joined) is still that sentinel
	for sentinel, c := range classOf {
		if errors.Is(err, sentinel) {
			return c
		}
	}
	return "x"
}

// ---------------------------------------------------------------- session

type mtx struct {
	tid  int
	tx   *types.Tx
	kind string
	// stateless: a transaction whose body the model's `stdBody` does not cover (aergo.system calls): only given to the
	// stateless operations (Validate, VerifyTx, ValidateWithSenderState), never to the pool, a block or executeTx
	stateless bool
}

type mblk struct {
	bid    int
	parent *mblk
	height uint64
	blk    *types.Block
	tids   []int
	dead   bool // refused by the node: never built on
}

type session struct {
	run     *vh.Run
	rng     *vh.Rng
	w       *world
	p       *producer
	n       *node
	txs     []*mtx
	blks    []*mblk
	byHash  map[string]*mblk
	ops     []string
	hf      *config.HardforkConfig
	forkAt  uint64 // height from which blocks carry chain-id version 5 (below: version 4); 0 = version 5 from block 1 on
	names   []string
	pooled  map[string]int // carried hash -> tid of the transaction admitted under it
	nameSeq int
	// carried hashes of the transactions this session's node read from its pool dump file at start-up
	loaded map[string]bool
	// addresses of the stub contracts deployed in this session
	contracts map[string]bool
	sessNo    int
	// hashes of the blocks the node produced itself
	own map[string]bool
	// the session cannot go on (the node is in a state the harness' block producer cannot follow)
	broken bool
}

// cidAt: the chain-id hash a transaction must carry to execute in a block of height h: the hash of the chain id with
// the hard-fork version of that height (computed with the hasher directly, not through BlockHeaderInfo).
func (s *session) cidAt(h uint64) []byte {
	return common.Hasher(types.MakeChainId(s.p.gen.GetHeader().GetChainID(), s.hf.Version(h)))
}

// cidNext: for the block after the node's best block.
func (s *session) cidNext() []byte { return s.cidAt(s.bestBlk().height + 1) }

func (s *session) op(line, out string, nontrivial bool) {
	s.ops = append(s.ops, line+" => "+out)
	s.run.Op(line, out, nontrivial)
}

func (s *session) fail(what string) {
	ops := s.ops
	if len(ops) > 400 {
		ops = ops[len(ops)-400:]
	}
	s.run.Fail(what, map[string]interface{}{"session": ops})
}

type sigSpec struct {
	mode string // "k" key index, "t" copy from tid, "x" raw, "-" none
	key  int
	tid  int
	raw  []byte
}
type hashSpec struct {
	mode string // "self", "t", "x"
	tid  int
	raw  []byte
}

type txSpec struct {
	body *types.TxBody
	sig  sigSpec
	hash hashSpec
	gov  string // class the governance payload validator answers ("-" = nil / not a governance tx)
	cmd  string // "-", "c:<namehex>", "u:<namehex>:<tohex>"
	kind string
}

// mk builds the real transaction, tells the model how it was made, and registers it.
func (s *session) mk(sp txSpec) *mtx {
	tx := &types.Tx{Body: sp.body}
	sigRef := "-"
	switch sp.sig.mode {
	case "k":
		if err := key.SignTx(tx, s.w.keys[sp.sig.key]); err != nil {
			panic(err)
		}
		sigRef = "k:" + hx(s.w.addrs[sp.sig.key])
	case "t":
		tx.Body.Sign = append([]byte{}, s.txs[sp.sig.tid].tx.Body.Sign...)
		sigRef = fmt.Sprintf("t:%d", sp.sig.tid)
	case "x":
		tx.Body.Sign = sp.sig.raw
		sigRef = "x:" + hx(sp.sig.raw)
	}
	hashRef := "self"
	switch sp.hash.mode {
	case "self":
		tx.Hash = tx.CalculateTxHash()
	case "t":
		tx.Hash = append([]byte{}, s.txs[sp.hash.tid].tx.Hash...)
		hashRef = fmt.Sprintf("t:%d", sp.hash.tid)
	case "x":
		tx.Hash = sp.hash.raw
		hashRef = "x:" + hx(sp.hash.raw)
	}
	// what a peer / client sends is the protobuf encoding (empty byte fields come back as nil)
	if raw, err := proto.Encode(tx); err == nil {
		t2 := &types.Tx{}
		if proto.Decode(raw, t2) == nil && t2.Body != nil {
			tx = t2
		}
	}
	m := &mtx{tid: len(s.txs), tx: tx, kind: sp.kind}
	s.txs = append(s.txs, m)
	b := tx.Body
	gov, cmd := sp.gov, sp.cmd
	if gov == "" {
		gov = "-"
	}
	if cmd == "" {
		cmd = "-"
	}
	if strings.HasPrefix(cmd, "c:") {
		nm, _ := hex.DecodeString(cmd[2:])
		known := false
		for _, x := range s.names {
			if x == string(nm) {
				known = true
			}
		}
		if !known {
			s.names = append(s.names, string(nm))
		}
	}
	line := fmt.Sprintf("tx %d %d %s %s %s %s %d %s %d %s %s %s %d %s %s", m.tid, b.Nonce, hx(b.Account), hx(b.Recipient), hx(b.Amount),
		hx(b.Payload), b.GasLimit, hx(b.GasPrice), int32(b.Type), hx(b.ChainIdHash), sigRef, hashRef, proto.Size(tx), gov, cmd)
	s.op(line, "ok", false)
	s.run.Count("tx-kind:" + sp.kind)
	return m
}

func (s *session) bestBlk() *mblk {
	best, err := s.n.cs.GetBestBlock()
	if err != nil {
		panic(err)
	}
	return s.byHash[string(best.BlockHash())]
}

// generation-time knowledge, read from the producer's state at a block (not used by the oracle)
func (s *session) nonceAt(b *mblk, acct []byte) uint64 {
	st, err := s.p.sdbAt(b.blk.GetHeader().GetBlocksRootHash()).GetAccountState(types.ToAccountID(acct))
	if err != nil {
		panic(err)
	}
	return st.GetNonce()
}

func nameInfo(sdb *statedb.StateDB, nm []byte) (owner, dest []byte) {
	scs, err := statedb.GetNameAccountState(sdb)
	if err != nil {
		panic(err)
	}
	return name.GetOwner(scs, nm), name.GetAddress(scs, nm)
}

func (s *session) acctIdx(a []byte) int {
	for i, x := range s.w.addrs {
		if bytes.Equal(x, a) {
			return i
		}
	}
	return -1
}

func otherCid(magic string, version int32) []byte {
	cid := types.NewChainID()
	cid.Magic = magic
	cid.Consensus = "sbp"
	cid.Version = version
	b, err := cid.Bytes()
	if err != nil {
		panic(err)
	}
	return common.Hasher(b)
}

func (s *session) amount() []byte {
	switch s.rng.Intn(6) {
	case 0:
		return nil
	case 1:
		return big.NewInt(int64(1 + s.rng.Intn(255))).Bytes()
	default:
		return big.NewInt(int64(256 + s.rng.Intn(1000000))).Bytes()
	}
}

// genTx: one transaction aimed at being included on top of block tip (or admitted to the pool while tip is best).
func (s *session) genTx(tip *mblk) *mtx {
	rng := s.rng
	w := s.w
	from := rng.Intn(nAcct)
	to := (from + 1 + rng.Intn(nAcct-1)) % nAcct
	next := s.nonceAt(tip, w.addrs[from]) + 1
	base := func() *types.TxBody {
		return &types.TxBody{Nonce: next, Account: w.addrs[from], Recipient: w.addrs[to], Amount: s.amount(),
			Type: types.TxType_TRANSFER, ChainIdHash: s.cidAt(tip.height + 1)}
	}
	self := hashSpec{mode: "self"}
	own := sigSpec{mode: "k", key: from}
	sdb := s.p.sdbAt(tip.blk.GetHeader().GetBlocksRootHash())
	// a registered name (if any) as seen at tip
	var regName []byte
	var regOwner []byte
	for _, nm := range s.names {
		if o, _ := nameInfo(sdb, []byte(nm)); len(o) > 0 && (regName == nil || rng.Chance(1, 2)) {
			regName, regOwner = []byte(nm), o
		}
	}
	k := rng.Intn(100)
	switch {
	case k < 30:
		b := base()
		if rng.Chance(1, 5) {
			b.Type = types.TxType_NORMAL
		}
		if rng.Chance(1, 6) {
			b.Recipient = w.addrs[from] // self transfer
		}
		return s.mk(txSpec{body: b, sig: own, hash: self, kind: "valid-transfer"})
	case k < 35:
		b := base()
		b.Type = types.TxType_CALL // no code at the recipient: run-time failure, nonce still consumed
		return s.mk(txSpec{body: b, sig: own, hash: self, kind: "call-no-code"})
	case k < 40:
		b := base()
		b.Nonce = next + 1 + uint64(rng.Intn(3))
		return s.mk(txSpec{body: b, sig: own, hash: self, kind: "nonce-gap"})
	case k < 45:
		b := base()
		if next >= 2 && rng.Chance(2, 3) {
			b.Nonce = next - 1 - uint64(rng.Intn(int(next-1)))
		} else {
			b.Nonce = next - 1
		}
		return s.mk(txSpec{body: b, sig: own, hash: self, kind: "nonce-duplicate-or-zero"})
	case k < 51:
		other := (from + 1 + rng.Intn(nAcct)) % (nAcct + 1) // may be the outsider key
		if other == from {
			other = nAcct
		}
		return s.mk(txSpec{body: base(), sig: sigSpec{mode: "k", key: other}, hash: self, kind: "wrong-key"})
	case k < 57:
		// a signature moved from another transaction of the same sender
		donor := s.mk(txSpec{body: base(), sig: own, hash: self, kind: "valid-transfer"})
		b := base()
		b.Recipient = w.addrs[(to+1)%nAcct]
		b.Amount = new(big.Int).Mul(aergo1, big.NewInt(int64(1+rng.Intn(900)))).Bytes()
		return s.mk(txSpec{body: b, sig: sigSpec{mode: "t", tid: donor.tid}, hash: self, kind: "moved-signature"})
	case k < 61:
		b := base()
		b.ChainIdHash = otherCid("other.chain", types.DecodeChainIdVersion(tip.blk.GetHeader().GetChainID()))
		return s.mk(txSpec{body: b, sig: own, hash: self, kind: "foreign-chain-id"})
	case k < 65:
		b := base()
		v := []int32{0, 2, 3, 4, 5, 9}[rng.Intn(6)]
		kind := "other-fork-version-chain-id"
		if s.forkAt > 0 && rng.Chance(2, 3) {
			// this chain's id in its version on the other side of the hard-fork height
			v = 9 - s.hf.Version(tip.height+1)
			kind = "chain-id-of-the-other-side-of-the-hard-fork"
		}
		b.ChainIdHash = common.Hasher(types.MakeChainId(tip.blk.GetHeader().GetChainID(), v))
		if bytes.Equal(b.ChainIdHash, s.cidAt(tip.height+1)) {
			b.ChainIdHash = common.Hasher(types.MakeChainId(tip.blk.GetHeader().GetChainID(), 1))
		}
		return s.mk(txSpec{body: b, sig: own, hash: self, kind: kind})
	case k < 70:
		b := base()
		switch rng.Intn(3) {
		case 0:
			return s.mk(txSpec{body: b, sig: own, hash: hashSpec{mode: "x", raw: rng.Bytes(32)}, kind: "garbage-hash"})
		case 1:
			donor := s.mk(txSpec{body: base(), sig: own, hash: self, kind: "valid-transfer"})
			b.Amount = big.NewInt(int64(7 + rng.Intn(100000))).Bytes()
			if bytes.Equal(b.Amount, donor.tx.Body.Amount) {
				b.Amount = append(b.Amount, 1)
			}
			// fields altered after signing and hashing: both the signature and the hash are those of the donor
			return s.mk(txSpec{body: b, sig: sigSpec{mode: "t", tid: donor.tid}, hash: hashSpec{mode: "t", tid: donor.tid}, kind: "altered-after-hash"})
		default:
			return s.mk(txSpec{body: b, sig: sigSpec{mode: "x", raw: rng.Bytes(70)}, hash: self, kind: "garbage-signature"})
		}
	case k < 73:
		b := base()
		b.Amount = new(big.Int).Add(genesisBalance, new(big.Int).Mul(genesisBalance, big.NewInt(int64(5+rng.Intn(5))))).Bytes()
		return s.mk(txSpec{body: b, sig: own, hash: self, kind: "overspend"})
	case k < 77:
		// same bytes, other field split: Amount=[a,b] Payload=p  ->  Amount=[a] Payload=b‖p  (same hash, same signed digest)
		b := base()
		b.Amount = []byte{byte(1 + rng.Intn(200)), byte(rng.Intn(256))}
		b.Payload = rng.Bytes(1 + rng.Intn(3))
		donor := s.mk(txSpec{body: b, sig: own, hash: self, kind: "valid-transfer"})
		c := base()
		c.Amount = b.Amount[:1]
		c.Payload = append([]byte{b.Amount[1]}, b.Payload...)
		return s.mk(txSpec{body: c, sig: sigSpec{mode: "t", tid: donor.tid}, hash: hashSpec{mode: "t", tid: donor.tid}, kind: "field-boundary-shift"})
	case k < 83:
		// governance: create a name
		s.nameSeq++
		nm := fmt.Sprintf("verifname%03d", s.nameSeq%1000)
		if len(s.names) > 0 && rng.Chance(1, 4) {
			nm = s.names[rng.Intn(len(s.names))] // maybe occupied
		}
		b := base()
		b.Type = types.TxType_GOVERNANCE
		b.Recipient = []byte(types.AergoName)
		b.Amount = aergo1.Bytes()
		if rng.Chance(1, 8) {
			b.Amount = big.NewInt(5).Bytes() // below the name price
		}
		b.Payload = []byte(fmt.Sprintf(`{"Name":"v1createName","Args":["%s"]}`, nm))
		return s.mk(txSpec{body: b, sig: own, hash: self, cmd: "c:" + hx([]byte(nm)), kind: "name-create"})
	case k < 88:
		if regName == nil {
			return s.mk(txSpec{body: base(), sig: own, hash: self, kind: "valid-transfer"})
		}
		// governance: hand a name to another account (by its owner, or — refused — by somebody else)
		oi := s.acctIdx(regOwner)
		if oi < 0 || rng.Chance(1, 5) {
			oi = from
		}
		b := base()
		b.Account = w.addrs[oi]
		b.Nonce = s.nonceAt(tip, w.addrs[oi]) + 1
		b.Type = types.TxType_GOVERNANCE
		b.Recipient = []byte(types.AergoName)
		b.Amount = aergo1.Bytes()
		newOwner := w.addrs[(oi+1+rng.Intn(nAcct-1))%nAcct]
		b.Payload = []byte(fmt.Sprintf(`{"Name":"v1updateName","Args":["%s","%s"]}`, regName, types.EncodeAddress(newOwner)))
		return s.mk(txSpec{body: b, sig: sigSpec{mode: "k", key: oi}, hash: self, cmd: "u:" + hx(regName) + ":" + hx(newOwner), kind: "name-update"})
	case k < 96:
		// name sender
		nm := regName
		kind := "named-sender-owner"
		var signer int
		b := base()
		if nm == nil || rng.Chance(1, 6) {
			nm = []byte(fmt.Sprintf("nosuchname%02d", rng.Intn(100)))
			signer = from
			b.Nonce = 1
			b.Amount = nil
			kind = "named-sender-unregistered"
		} else {
			_, dest := nameInfo(sdb, nm)
			signer = s.acctIdx(regOwner)
			b.Nonce = s.nonceAt(tip, dest) + 1
			if signer < 0 {
				signer = from
			}
			if rng.Chance(1, 3) {
				signer = (signer + 1 + rng.Intn(nAcct)) % (nAcct + 1)
				kind = "named-sender-not-owner"
			}
		}
		b.Account = nm
		return s.mk(txSpec{body: b, sig: sigSpec{mode: "k", key: signer}, hash: self, kind: kind})
	case k < 98:
		b := base()
		if regName != nil && rng.Chance(1, 2) {
			b.Recipient = regName
			return s.mk(txSpec{body: b, sig: own, hash: self, kind: "recipient-name"})
		}
		b.Recipient = []byte("nobodyhere01")
		return s.mk(txSpec{body: b, sig: own, hash: self, kind: "recipient-unknown-name"})
	default:
		b := base()
		switch rng.Intn(3) {
		case 0:
			b.Account = nil
			return s.mk(txSpec{body: b, sig: own, hash: self, kind: "nil-account"})
		case 1:
			b.Type = types.TxType(8 + rng.Intn(3))
			return s.mk(txSpec{body: b, sig: own, hash: self, kind: "unknown-type"})
		default:
			b.Type = types.TxType_GOVERNANCE
			b.Recipient = []byte(types.AergoName)
			b.Payload = []byte(`{"Name":"v1nothing","Args":[]}`)
			return s.mk(txSpec{body: b, sig: own, hash: self, gov: "payload", kind: "bad-governance-payload"})
		}
	}
}

func (s *session) opValidate(m *mtx) {
	cid := s.cidNext()
	switch s.rng.Intn(5) {
	case 0:
		cid = otherCid("other.chain", 0)
	case 1:
		cid = m.tx.Body.ChainIdHash
	}
	pub := s.rng.Chance(1, 4)
	err := types.NewTransaction(m.tx).Validate(cid, pub)
	p := "0"
	if pub {
		p = "1"
	}
	s.op(fmt.Sprintf("validate %d %s %s", m.tid, hx(cid), p), class(err), err == nil)
	s.run.Count("validate=" + class(err))
	// oracle: accepted => bound to the chain id hash asked for, and the carried hash is the hash of the body
	if err == nil && (!bytes.Equal(m.tx.Body.ChainIdHash, cid) || !bytes.Equal(m.tx.Hash, m.tx.CalculateTxHash())) {
		s.fail("Validate accepted a transaction bound to another chain id hash or carrying a hash that is not its own")
	}
}

func (s *session) opVerify(m *mtx) {
	if m.tx.Body == nil {
		return
	}
	okStr := func(e error) string {
		if e == nil {
			return "ok"
		}
		return "fail"
	}
	if s.rng.Chance(1, 2) {
		err := key.VerifyTx(m.tx)
		s.op(fmt.Sprintf("vtx %d", m.tid), okStr(err), err == nil)
		s.run.Count("vtx=" + okStr(err))
	} else {
		a := s.w.addrs[s.rng.Intn(nAcct+1)]
		err := key.VerifyTxWithAddress(m.tx, a)
		s.op(fmt.Sprintf("vaddr %d %s", m.tid, hx(a)), okStr(err), err == nil)
		s.run.Count("vaddr=" + okStr(err))
	}
}

func (s *session) opBVerify(m *mtx) {
	use := s.rng.Chance(1, 2)
	hit, err := chain.VerifC04VerifyTx(s.n.cs, m.tx, use)
	out := "ok"
	if err != nil {
		out = "fail"
	} else if hit {
		out = "hit"
	}
	u := "0"
	if use {
		u = "1"
	}
	s.op(fmt.Sprintf("bverify %d %s", m.tid, u), out, err == nil)
	s.run.Count("bverify=" + out)
}

// admitClass: the class of TxVerifier.Receive's answer. The signature stage is told apart from the rest by asking
// the real verifyTx alone (it has no side effect on the pool).
func (s *session) admitClass(tx *types.Tx, err error) string {
	if err == nil {
		return "ok"
	}
	if c := class(err); c != "x" {
		return c
	}
	if verr := s.n.mp.VerifC04VerifyTx(types.NewTransaction(tx)); verr != nil {
		return "sig"
	}
	return "x"
}

func (s *session) opAdmit(m *mtx) {
	best := s.bestBlk()
	err := s.n.admit(m.tx)
	out := s.admitClass(m.tx, err)
	s.op(fmt.Sprintf("offer %d", m.tid), out, err == nil)
	s.run.Count("admit=" + out)
	if err == nil {
		s.pooled[string(m.tx.Hash)] = m.tid
		s.oracleAdmitted(m.tx, best, "admitted")
	}
}

// oracleAdmitted: a transaction the pool took must be authorised for the state the pool looks at.
func (s *session) oracleAdmitted(tx *types.Tx, best *mblk, how string) {
	// the state the pool looks at: normally the best block's; after a reorganisation that failed half-way it is still
	// the state of the last side-branch block that executed (the pool is only told about executed blocks) — C13/C07's
	// business, not C04's: admission is judged against the pool's own view
	root := s.n.mp.VerifC04StateRoot()
	sdb := s.n.cs.SDB().OpenNewStateDB(root)
	_, accept := s.n.mp.VerifC04ChainIdHashes()
	if !bytes.Equal(tx.Body.ChainIdHash, accept) || !bytes.Equal(accept, s.cidAt(s.n.mp.VerifC04BestNo()+1)) {
		s.fail("pool " + how + " a transaction bound to another chain id hash")
	}
	if !bytes.Equal(tx.Hash, tx.CalculateTxHash()) {
		s.fail("pool " + how + " a transaction whose carried hash is not the hash of its body")
	}
	acct := tx.Body.Account
	var verr error
	if len(acct) <= types.NameLength {
		_, dest := nameInfo(sdb, acct)
		acct = dest
		verr = key.VerifyTxWithAddress(tx, dest)
	} else {
		verr = key.VerifyTx(tx)
	}
	if verr != nil {
		s.fail("pool " + how + " a transaction without a valid signature of its sender")
	}
	st, err := sdb.GetAccountState(types.ToAccountID(acct))
	if err != nil {
		panic(err)
	}
	if tx.Body.Nonce <= st.GetNonce() {
		s.fail("pool " + how + " a transaction whose nonce is not above the sender's state nonce")
	}
}

func (s *session) execOn(m *mtx, verified []byte) (string, bool) {
	best, err := s.n.cs.GetBestBlock()
	if err != nil {
		panic(err)
	}
	sdb := s.n.cs.SDB()
	bs := state.NewBlockState(sdb.OpenNewStateDB(best.GetHeader().GetBlocksRootHash()), state.SetPrevBlockHash(best.BlockHash()))
	bs.SetGasPrice(system.GetGasPrice())
	bi := types.NewBlockHeaderInfoFromPrevBlock(best, s.p.ts+1, s.hf)
	bs.Receipts().SetHardFork(s.hf, bi.No)
	before := map[int]uint64{}
	for i, a := range s.w.addrs {
		st, _ := state.GetAccountState(a, bs.StateDB)
		before[i] = st.Nonce()
	}
	t := types.NewTransaction(m.tx)
	if len(verified) > 0 {
		t.SetVerifedAccount(verified)
	}
	xerr := chain.VerifC04ExecuteTx(stubCcc{}, bs, t, bi, contract.ChainService)
	if xerr != nil {
		if xerr == types.ErrSignNotMatch {
			return "rej:sigmismatch", false
		}
		return "rej:" + class(xerr), false
	}
	if len(verified) > 0 {
		// oracle (producer path): the account the pool verified the signature against must be the account charged
		resolved := m.tx.Body.Account
		if len(resolved) <= types.NameLength {
			_, resolved = nameInfo(sdb.OpenNewStateDB(best.GetHeader().GetBlocksRootHash()), resolved)
		}
		if !bytes.Equal(resolved, verified) {
			s.fail("executeTx executed a transaction whose pool-verified account is not the account its sender resolves to")
		}
	}
	who := "????"
	for i, a := range s.w.addrs {
		st, _ := state.GetAccountState(a, bs.StateDB)
		if st.Nonce() != before[i] {
			who = short(a)
			// oracle: the consumed nonce is exactly the previous one plus one
			if st.Nonce() != before[i]+1 || st.Nonce() != m.tx.Body.Nonce {
				s.fail("executeTx moved an account's nonce by something else than +1 to the transaction's nonce")
			}
		}
	}
	if who == "????" {
		// sender outside the key accounts: a name pointing to a contract, or an unregistered name (the empty account)
		resolved := m.tx.Body.Account
		if len(resolved) <= types.NameLength {
			_, resolved = nameInfo(sdb.OpenNewStateDB(best.GetHeader().GetBlocksRootHash()), resolved)
		}
		st, _ := state.GetAccountState(resolved, bs.StateDB)
		if st.Nonce() == m.tx.Body.Nonce {
			who = short(resolved)
		}
	}
	status := "S"
	rs := bs.Receipts().Get()
	if len(rs) == 1 && rs[0].Status == "ERROR" {
		status = "F"
	}
	return fmt.Sprintf("ok %s %d %s", who, m.tx.Body.Nonce, status), true
}

func (s *session) opExec(m *mtx) {
	var verified []byte
	switch s.rng.Intn(4) {
	case 0:
		verified = s.w.addrs[s.rng.Intn(nAcct)]
	case 1:
		// what the pool would have attached: the address the sender field resolves to now
		best := s.bestBlk()
		if len(m.tx.Body.Account) <= types.NameLength {
			_, verified = nameInfo(s.n.cs.SDB().OpenNewStateDB(best.blk.GetHeader().GetBlocksRootHash()), m.tx.Body.Account)
		}
	}
	out, ok := s.execOn(m, verified)
	s.op(fmt.Sprintf("exec %d %s", m.tid, hx(verified)), out, ok)
	s.run.Count("exec=" + strings.SplitN(out, " ", 2)[0])
}

func (s *session) stateLine() string {
	best := s.bestBlk()
	sdb := s.n.cs.SDB().OpenNewStateDB(best.blk.GetHeader().GetBlocksRootHash())
	var parts []string
	accts := append([][]byte{}, s.w.addrs[:nAcct]...)
	accts = append(accts, []byte(types.AergoName))
	for _, a := range accts {
		st, err := sdb.GetAccountState(types.ToAccountID(a))
		if err != nil {
			panic(err)
		}
		parts = append(parts, fmt.Sprintf("%s:%d:%s", short(a), st.GetNonce(), new(big.Int).SetBytes(st.GetBalance()).String()))
	}
	var nms []string
	for _, nm := range s.names {
		o, d := nameInfo(sdb, []byte(nm))
		if len(o) == 0 && len(d) == 0 {
			nms = append(nms, hx([]byte(nm))+"=-")
		} else {
			nms = append(nms, fmt.Sprintf("%s=%s/%s", hx([]byte(nm)), short(o), short(d)))
		}
	}
	return fmt.Sprintf("best=%d %s | %s", best.bid, strings.Join(parts, " "), strings.Join(nms, " "))
}

// poolLine: which of the transactions this session offered the pool holds (by carried hash) — what the block-level
// short-cut and the block factory see. The pool's internal counters are C13's business and not compared here.
func (s *session) poolLine() string {
	var tids []int
	for h, tid := range s.pooled {
		if s.n.mp.VerifC04Exist([]byte(h)) != nil {
			tids = append(tids, tid)
		}
	}
	sort.Ints(tids)
	var ss []string
	for _, t := range tids {
		ss = append(ss, fmt.Sprint(t))
	}
	if len(ss) == 0 {
		return "holds -"
	}
	return "holds " + strings.Join(ss, ",")
}

func (s *session) opState() {
	s.op("state", s.stateLine(), true)
	s.op("pool", s.poolLine(), true)
}

// opBlock: build a block on parent with the given transactions, submit it, answer what the node did.
func (s *session) opBlock(parent *mblk, txs []*mtx, useMempool bool, shape string) *mblk {
	return s.opBlockH(parent, txs, useMempool, shape, nil, true)
}

// opBlockH: the same with an explicit chain id in the block header (hdr != nil). sameChain: whether hdr is this chain's
// id in some version (known from how the harness made it, not asked of the code under test).
func (s *session) opBlockH(parent *mblk, txs []*mtx, useMempool bool, shape string, hdr []byte, sameChain bool) *mblk {
	var raw []*types.Tx
	var tids []string
	b := &mblk{bid: len(s.blks), parent: parent, height: parent.height + 1}
	for _, m := range txs {
		raw = append(raw, m.tx)
		tids = append(tids, fmt.Sprint(m.tid))
		b.tids = append(b.tids, m.tid)
	}
	blk, _ := s.p.build(parent.blk, raw, hdr)
	b.blk = blk
	s.blks = append(s.blks, b)
	s.byHash[string(blk.BlockHash())] = b

	bestBefore := s.bestBlk()
	rootBefore := append([]byte{}, s.n.cs.SDB().GetRoot()...)
	s.n.reoffer = nil
	u := "0"
	if useMempool {
		u = "1"
	}
	line := strings.TrimSpace(fmt.Sprintf("block %d %d %s %s", b.bid, parent.bid, u, strings.Join(tids, " ")))
	if hdr != nil {
		// header chain id: its version field (0 when there is none), its hash (what the block's transactions get validated
		// against: bi.ChainIdHash()), and whether it is this chain's id up to the version
		same := "0"
		if sameChain {
			same = "1"
		}
		ver := types.DecodeChainIdVersion(hdr)
		if ver < 0 {
			ver = 0
		}
		line = strings.TrimSpace(fmt.Sprintf("blockh %d %d %s %d %s %s %s", b.bid, parent.bid, u, ver, hx(common.Hasher(hdr)), same, strings.Join(tids, " ")))
	}
	s.run.Pending(line)
	err := s.n.add(blk, useMempool)
	if err == errHung {
		s.ops = append(s.ops, line+" => (never returned)")
		s.fail("the node never finished processing a block (signature verification result never delivered)")
		s.run.Finish()
		os.Exit(0)
	}
	bestAfter := s.bestBlk()
	out := ""
	switch {
	case err != nil:
		cause := err
		if c := chain.VerifC04ReorgCause(err); c != nil {
			cause = c
		}
		out = "rej:" + class(cause)
		if class(cause) == "x" && os.Getenv("VERIF_C04_DEBUG") != "" {
			fmt.Fprintf(os.Stderr, "c04 debug: %s => %v\n", line, cause)
		}
		b.dead = true
		// a dead side branch: everything on it above the main chain is abandoned too
		for x := parent; x != nil && !s.onMain(x, bestAfter); x = x.parent {
			x.dead = true
		}
		// oracle: a refused block changes nothing
		if bestAfter != bestBefore || !bytes.Equal(rootBefore, s.n.cs.SDB().GetRoot()) {
			s.fail("a refused block changed the best block or the state root")
		}
	case bestAfter == b && parent == bestBefore:
		out = "ok"
	case bestAfter == b:
		var rs []string
		type rv struct {
			tid int
			s   string
		}
		var l []rv
		for _, r := range s.n.reoffer {
			tid := s.tidOfReoffered(r.tx, bestBefore, bestAfter)
			c := s.admitClass(r.tx, r.err)
			l = append(l, rv{tid, c})
			if r.err == nil {
				s.pooled[string(r.tx.Hash)] = tid
				s.oracleAdmitted(r.tx, bestAfter, "took back (after a reorganisation)")
				s.run.Count("reoffer=taken")
			} else {
				s.run.Count("reoffer=" + c)
			}
		}
		sort.Slice(l, func(i, j int) bool { return l[i].tid < l[j].tid })
		for _, x := range l {
			rs = append(rs, fmt.Sprintf("%d=%s", x.tid, x.s))
		}
		if len(rs) == 0 {
			rs = []string{"-"}
		}
		out = "ok reorg " + strings.Join(rs, ",")
		s.run.Count("reorg")
	default:
		out = "stored"
	}
	s.op(line, out, err == nil)
	s.run.Count("block:" + shape + "=" + strings.SplitN(out, " ", 2)[0])
	s.oracle()
	s.opState()
	return b
}

func (s *session) onMain(b *mblk, best *mblk) bool {
	for x := best; x != nil; x = x.parent {
		if x == b {
			return true
		}
	}
	return false
}

// tidOfReoffered: which transaction of the abandoned branch this is (by pointer-independent content: the carried hash).
func (s *session) tidOfReoffered(tx *types.Tx, oldBest, newBest *mblk) int {
	for x := oldBest; x != nil && !s.onMain(x, newBest); x = x.parent {
		for _, tid := range x.tids {
			if bytes.Equal(s.txs[tid].tx.Hash, tx.Hash) {
				return tid
			}
		}
	}
	return -1
}

// oracle: the property, on the node's main chain as the node itself reports it.
func (s *session) oracle() {
	cs := s.n.cs
	best, err := cs.GetBestBlock()
	if err != nil {
		panic(err)
	}
	var chainBlocks []*types.Block
	for b := best; b.BlockNo() > 0; {
		chainBlocks = append(chainBlocks, b)
		p, err := cs.GetBlock(b.GetHeader().GetPrevBlockHash())
		if err != nil {
			s.fail("main chain is not linked back to genesis")
			return
		}
		b = p
	}
	if len(chainBlocks) == 0 {
		return
	}
	gen, _ := cs.GetBlock(chainBlocks[len(chainBlocks)-1].GetHeader().GetPrevBlockHash())
	genCid := gen.GetHeader().GetChainID()
	nonces := map[string]uint64{}
	seen := map[string]bool{}
	parent := gen
	ntx := 0
	for i := len(chainBlocks) - 1; i >= 0; i-- {
		b := chainBlocks[i]
		sdb := cs.SDB().OpenNewStateDB(parent.GetHeader().GetBlocksRootHash())
		// this chain's identifier at this height: the genesis chain id in the hard-fork version the NODE IS CONFIGURED WITH
		// for that height (not what the block's header says about itself)
		want := append(binary.LittleEndian.AppendUint32(nil, uint32(s.hf.Version(b.BlockNo()))), genCid[4:]...)
		hdr := b.GetHeader().GetChainID()
		hdrOtherVersion := false
		if !bytes.Equal(hdr, want) {
			if len(hdr) >= 4 && bytes.Equal(hdr[4:], want[4:]) {
				hdrOtherVersion = true
				s.fail(fmt.Sprintf("block %d on the main chain carries this chain's id in version %d; the node is configured with version %d for that height",
					b.BlockNo(), types.DecodeChainIdVersion(hdr), s.hf.Version(b.BlockNo())))
			} else {
				s.fail(fmt.Sprintf("a block carrying another chain's id is on the main chain (block %d)", b.BlockNo()))
			}
		}
		cidHash := common.Hasher(want)
		for _, tx := range b.GetBody().GetTxs() {
			ntx++
			acct := tx.Body.Account
			var verr error
			if len(acct) <= types.NameLength {
				owner, dest := nameInfo(sdb, acct)
				verr = key.VerifyTxWithAddress(tx, owner)
				acct = dest
			} else {
				verr = key.VerifyTx(tx)
			}
			if verr != nil {
				what := fmt.Sprintf("a transaction without a valid signature of its sender (or of the owner of the sender name) is on the main chain (block %d)", b.BlockNo())
				if s.loaded[string(tx.Hash)] {
					what += ": it came into the pool from the dump file"
				}
				if s.own[string(b.BlockHash())] {
					what += ": in a block the node produced itself"
				}
				s.fail(what)
			}
			if !bytes.Equal(tx.Body.ChainIdHash, cidHash) {
				what := fmt.Sprintf("a transaction bound to another chain id hash is on the main chain (block %d)", b.BlockNo())
				if hdrOtherVersion && bytes.Equal(tx.Body.ChainIdHash, common.Hasher(hdr)) {
					what += ": bound to the version the block header carries"
				}
				s.fail(what)
			}
			if !bytes.Equal(tx.Hash, tx.CalculateTxHash()) {
				s.fail("a transaction whose carried hash is not the hash of its body is on the main chain")
			}
			if seen[string(tx.Hash)] {
				s.fail(fmt.Sprintf("transaction hash %s executed twice along the main chain", short(tx.Hash)))
			}
			seen[string(tx.Hash)] = true
			k := string(acct)
			if tx.Body.Nonce != nonces[k]+1 {
				s.fail(fmt.Sprintf("account %s executed nonce %d after %d on the main chain (block %d): gap or repeat", short(acct), tx.Body.Nonce, nonces[k], b.BlockNo()))
			}
			nonces[k] = tx.Body.Nonce
		}
		parent = b
	}
	// the state agrees: every account's nonce is the number of transactions it executed; nobody else's nonce moved
	// (the key accounts, every account that executed something, every contract deployed in this session, the name contract)
	sdb := cs.SDB().OpenNewStateDB(best.GetHeader().GetBlocksRootHash())
	accts := map[string]bool{types.AergoName: true}
	for _, a := range s.w.addrs {
		accts[string(a)] = true
	}
	for a := range nonces {
		accts[a] = true
	}
	for a := range s.contracts {
		accts[a] = true
	}
	for a := range accts {
		st, err := sdb.GetAccountState(types.ToAccountID([]byte(a)))
		if err != nil {
			panic(err)
		}
		if st.GetNonce() != nonces[a] {
			s.fail(fmt.Sprintf("state nonce of %s is %d but it executed %d transactions on the main chain", short([]byte(a)), st.GetNonce(), nonces[a]))
		}
	}
	s.run.Eval(fmt.Sprintf("oracle %d %d %d", s.sessNo, s.bestBlk().bid, ntx), ntx > 0)
}

func (s *session) pickTip() (*mblk, string) {
	best := s.bestBlk()
	if s.rng.Chance(3, 4) || len(s.blks) < 3 {
		return best, "on-best"
	}
	var cands []*mblk
	for _, b := range s.blks {
		if !b.dead && b != best && b.height+4 > best.height {
			cands = append(cands, b)
		}
	}
	if len(cands) == 0 {
		return best, "on-best"
	}
	return cands[s.rng.Intn(len(cands))], "on-side"
}

// fitting: already made transactions that would execute next on tip (used to put the same tx on two branches)
func (s *session) fitting(tip *mblk) []*mtx {
	var out []*mtx
	for _, m := range s.txs {
		if m.tx.Body == nil || len(m.tx.Body.Account) != types.AddressLength || !strings.HasPrefix(m.kind, "valid") && m.kind != "call-no-code" {
			continue
		}
		if m.tx.Body.Nonce == s.nonceAt(tip, m.tx.Body.Account)+1 {
			out = append(out, m)
		}
	}
	return out
}

func (s *session) genBlock() {
	tip, shape := s.pickTip()
	rng := s.rng
	var txs []*mtx
	n := rng.Intn(5)
	if rng.Chance(1, 10) {
		n = 0
	}
	used := map[string]uint64{} // extra nonces consumed inside this block per sender, so that valid txs chain up
	for i := 0; i < n; i++ {
		switch {
		case rng.Chance(1, 4):
			if f := s.fitting(tip); len(f) > 0 {
				m := f[rng.Intn(len(f))]
				dup := false
				for _, x := range txs {
					if x == m {
						dup = true
					}
				}
				if !dup || rng.Chance(1, 6) { // rarely: the same tx twice in one block
					txs = append(txs, m)
				}
				continue
			}
			fallthrough
		case rng.Chance(1, 8):
			// replay: any transaction made so far, typically already included below tip
			if len(s.txs) > 0 {
				if m := s.txs[rng.Intn(len(s.txs))]; !m.stateless {
					txs = append(txs, m)
				}
			}
		default:
			m := s.genTx(tip)
			// let a second valid tx of the same sender in this block take the following nonce
			if strings.HasPrefix(m.kind, "valid") && used[string(m.tx.Body.Account)] > 0 && rng.Chance(3, 4) {
				o := m.tx.Body
				b := &types.TxBody{Nonce: o.Nonce + used[string(o.Account)], Account: o.Account, Recipient: o.Recipient, Amount: o.Amount,
					Type: o.Type, ChainIdHash: o.ChainIdHash}
				m = s.mk(txSpec{body: b, sig: sigSpec{mode: "k", key: s.acctIdx(b.Account)}, hash: hashSpec{mode: "self"}, kind: "valid-transfer"})
			}
			if strings.HasPrefix(m.kind, "valid") || m.kind == "call-no-code" {
				used[string(m.tx.Body.Account)]++
			}
			txs = append(txs, m)
		}
	}
	use := rng.Chance(1, 2)
	// sometimes the pool already holds some of the block's transactions
	if use {
		for _, m := range txs {
			if rng.Chance(1, 2) && tip == s.bestBlk() {
				s.opAdmit(m)
			}
		}
	}
	s.opBlock(tip, txs, use, shape)
}

// failing block, then a block with a forged signature (and, other times, an empty block): the verdict the node uses
// for a block must be the one computed for that block (4499f0c6).
func (s *session) genAfterFailing() {
	tip := s.bestBlk()
	from := s.rng.Intn(nAcct)
	to := (from + 1) % nAcct
	next := s.nonceAt(tip, s.w.addrs[from]) + 1
	mkT := func(nonce uint64, signer int, kind string) *mtx {
		return s.mk(txSpec{body: &types.TxBody{Nonce: nonce, Account: s.w.addrs[from], Recipient: s.w.addrs[to], Amount: s.amount(),
			Type: types.TxType_TRANSFER, ChainIdHash: s.cidAt(tip.height + 1)}, sig: sigSpec{mode: "k", key: signer}, hash: hashSpec{mode: "self"}, kind: kind})
	}
	good := mkT(next, from, "valid-transfer")
	bad := mkT(next+1+uint64(s.rng.Intn(3)), from, "nonce-gap")
	x := []*mtx{bad}
	if s.rng.Chance(1, 2) {
		x = []*mtx{good, bad}
	}
	s.opBlock(tip, x, false, "failing")
	switch s.rng.Intn(3) {
	case 0:
		forged := mkT(next, (from+1+s.rng.Intn(nAcct))%(nAcct+1), "wrong-key")
		if bytes.Equal(forged.tx.Body.Sign, good.tx.Body.Sign) {
			return
		}
		s.opBlock(tip, []*mtx{forged}, false, "forged-after-failing")
	case 1:
		s.opBlock(tip, nil, false, "empty-after-failing")
	default:
		s.opBlock(tip, []*mtx{good}, false, "valid-after-failing")
	}
	// and once more a valid one: it must not inherit a stale "failed" verdict either
	tip = s.bestBlk()
	f := s.fitting(tip)
	if len(f) > 0 {
		s.opBlock(tip, f[:1], false, "valid-after-that")
	}
}

// a name moves to another account while a transaction signed by the old owner waits in the pool.
func (s *session) genNameMove() {
	w := s.w
	tip := s.bestBlk()
	A := s.rng.Intn(nAcct)
	B := (A + 1 + s.rng.Intn(nAcct-1)) % nAcct
	C := (B + 1) % nAcct
	s.nameSeq++
	nm := []byte(fmt.Sprintf("verifmove%03d", s.nameSeq%1000))
	gov := func(acct int, nonce uint64, payload, cmd, kind string) *mtx {
		return s.mk(txSpec{body: &types.TxBody{Nonce: nonce, Account: w.addrs[acct], Recipient: []byte(types.AergoName), Amount: aergo1.Bytes(),
			Payload: []byte(payload), Type: types.TxType_GOVERNANCE, ChainIdHash: s.cidNext()}, sig: sigSpec{mode: "k", key: acct}, hash: hashSpec{mode: "self"}, cmd: cmd, kind: kind})
	}
	xfer := func(acct []byte, signer int, nonce uint64, to int, amt *big.Int, kind string) *mtx {
		return s.mk(txSpec{body: &types.TxBody{Nonce: nonce, Account: acct, Recipient: w.addrs[to], Amount: amt.Bytes(),
			Type: types.TxType_TRANSFER, ChainIdHash: s.cidNext()}, sig: sigSpec{mode: "k", key: signer}, hash: hashSpec{mode: "self"}, kind: kind})
	}
	na := s.nonceAt(tip, w.addrs[A])
	nb := s.nonceAt(tip, w.addrs[B])
	create := gov(A, na+1, fmt.Sprintf(`{"Name":"v1createName","Args":["%s"]}`, nm), "c:"+hx(nm), "name-create")
	b1 := s.opBlock(tip, []*mtx{create}, false, "name-create")
	if s.bestBlk() != b1 {
		return
	}
	// the name is usable from the next block on: a transfer in its name signed by A, and one signed by B (refused)
	okT := xfer(nm, A, na+2, C, big.NewInt(int64(1+s.rng.Intn(1000))), "named-sender-owner")
	s.opExec(okT)
	s.opBVerify(okT)
	notOwner := xfer(nm, B, na+2, C, big.NewInt(3), "named-sender-not-owner")
	s.opBVerify(notOwner)
	s.opAdmit(notOwner)
	// T: in the name, signed by A, nonce fitting B's account after the hand-over (B.nonce+1 then) and above A's
	// nonce after it (so it survives in A's pool list)
	want := nb + 3
	if want < na+3 {
		want = na + 3
	}
	T := xfer(nm, A, want, C, new(big.Int).Mul(aergo1, big.NewInt(int64(100+s.rng.Intn(400)))), "named-sender-former-owner")
	s.opAdmit(T)
	move := gov(A, na+2, fmt.Sprintf(`{"Name":"v1updateName","Args":["%s","%s"]}`, nm, types.EncodeAddress(w.addrs[B])), "u:"+hx(nm)+":"+hx(w.addrs[B]), "name-update")
	txs := []*mtx{move}
	for n := nb + 1; n < want; n++ {
		txs = append(txs, xfer(w.addrs[B], B, n, C, big.NewInt(1), "valid-transfer"))
	}
	b2 := s.opBlock(b1, txs, s.rng.Chance(1, 2), "name-move")
	if s.bestBlk() != b2 {
		return
	}
	// the pool still holds T (verified against A); a block carrying T must be refused whether or not the pool is asked
	s.opBVerify(T)
	s.opExec(T)
	out, ok := s.execOn(T, w.addrs[A]) // producer path: verified account A no longer is what the name resolves to
	s.op(fmt.Sprintf("exec %d %s", T.tid, hx(w.addrs[A])), out, ok)
	if s.rng.Chance(1, 2) {
		// the node is a block producer: its pool offers T with the verified account A; executeTx must refuse it
		if pb := s.opProduce("former-owner-tx-pooled"); pb != nil {
			b2 = pb
		}
		if s.broken {
			return
		}
	}
	s.opBlock(b2, []*mtx{T}, true, "former-owner-tx-pool-hit")
	if s.rng.Chance(1, 2) {
		// the new owner uses the name
		okB := xfer(nm, B, s.nonceAt(s.bestBlk(), w.addrs[B])+1, C, big.NewInt(9), "named-sender-owner")
		s.opAdmit(okB)
		s.opBlock(s.bestBlk(), []*mtx{okB}, true, "new-owner-tx")
	}
}

func (s *session) validTx(tip *mblk, extra map[string]uint64) *mtx {
	from := s.rng.Intn(nAcct)
	to := (from + 1 + s.rng.Intn(nAcct-1)) % nAcct
	a := s.w.addrs[from]
	b := &types.TxBody{Nonce: s.nonceAt(tip, a) + 1 + extra[string(a)], Account: a, Recipient: s.w.addrs[to], Amount: s.amount(),
		Type: types.TxType_TRANSFER, ChainIdHash: s.cidAt(tip.height + 1)}
	kind := "valid-transfer"
	if s.rng.Chance(1, 6) {
		b.Type = types.TxType_CALL
		kind = "call-no-code"
	}
	extra[string(a)]++
	return s.mk(txSpec{body: b, sig: sigSpec{mode: "k", key: from}, hash: hashSpec{mode: "self"}, kind: kind})
}

// genFork: a side branch from 1..3 blocks below the best block, one block longer than the main branch, sharing
// transactions with it where the nonces fit (the same tx on both branches); sometimes with a forged / mis-nonced
// transaction somewhere on it (the reorganisation must then fail and change nothing).
func (s *session) genFork() {
	rng := s.rng
	best := s.bestBlk()
	fp := best
	for i := 1 + rng.Intn(3); i > 0 && fp.parent != nil; i-- {
		fp = fp.parent
	}
	if fp == best {
		return
	}
	need := int(best.height-fp.height) + 1
	failAt := -1
	if rng.Chance(1, 4) {
		failAt = rng.Intn(need)
	}
	use := rng.Chance(1, 2)
	tip := fp
	for i := 0; i < need; i++ {
		var txs []*mtx
		extra := map[string]uint64{}
		for k := rng.Intn(4); k > 0; k-- {
			if f := s.fitting(tip); len(f) > 0 && rng.Chance(1, 2) {
				m := f[rng.Intn(len(f))]
				if extra[string(m.tx.Body.Account)] == 0 {
					extra[string(m.tx.Body.Account)]++
					txs = append(txs, m)
					continue
				}
			}
			txs = append(txs, s.validTx(tip, extra))
		}
		shape := "fork"
		if i == failAt {
			bad := s.validTx(tip, extra)
			b := bad.tx.Body
			nb := &types.TxBody{Nonce: b.Nonce, Account: b.Account, Recipient: b.Recipient, Amount: b.Amount, Type: b.Type, ChainIdHash: b.ChainIdHash}
			if rng.Chance(1, 2) {
				wrong := (s.acctIdx(b.Account) + 1 + rng.Intn(nAcct)) % (nAcct + 1)
				txs = append(txs, s.mk(txSpec{body: nb, sig: sigSpec{mode: "k", key: wrong}, hash: hashSpec{mode: "self"}, kind: "wrong-key"}))
			} else {
				nb.Nonce += 2
				txs = append(txs, s.mk(txSpec{body: nb, sig: sigSpec{mode: "k", key: s.acctIdx(b.Account)}, hash: hashSpec{mode: "self"}, kind: "nonce-gap"}))
			}
			shape = "fork-bad"
		}
		if i == need-1 {
			shape += "-top"
		}
		if use && rng.Chance(1, 3) && len(txs) > 0 {
			s.opAdmit(txs[rng.Intn(len(txs))])
		}
		b := s.opBlock(tip, txs, use, shape)
		if b.dead {
			return
		}
		tip = b
	}
}

// genPoolHit: a valid transaction is admitted, looked up by the block-level verifier, and then included in a block.
func (s *session) genPoolHit() {
	tip := s.bestBlk()
	m := s.validTx(tip, map[string]uint64{})
	s.opAdmit(m)
	use := s.rng.Chance(2, 3)
	hit, err := chain.VerifC04VerifyTx(s.n.cs, m.tx, use)
	out := "ok"
	if err != nil {
		out = "fail"
	} else if hit {
		out = "hit"
	}
	u := "0"
	if use {
		u = "1"
	}
	s.op(fmt.Sprintf("bverify %d %s", m.tid, u), out, err == nil)
	s.run.Count("bverify=" + out)
	txs := []*mtx{m}
	if s.rng.Chance(1, 3) {
		// the same hash with another field split: the pool knows the hash, the body differs
		b := m.tx.Body
		if len(b.Amount) >= 2 {
			c := &types.TxBody{Nonce: b.Nonce, Account: b.Account, Recipient: b.Recipient, Amount: b.Amount[:1],
				Payload: append([]byte{}, b.Amount[1:]...), Type: b.Type, ChainIdHash: b.ChainIdHash}
			txs = []*mtx{s.mk(txSpec{body: c, sig: sigSpec{mode: "t", tid: m.tid}, hash: hashSpec{mode: "t", tid: m.tid}, kind: "field-boundary-shift"})}
		}
	}
	s.opBlock(tip, txs, use, "pool-hit")
}

// genContractName: a name handed to a (stub) contract: its registered OWNER is then the contract's creator while its
// destination — the account whose nonce and balance a transaction sent in that name uses — is the contract.
func (s *session) genContractName() {
	w := s.w
	rng := s.rng
	tip := s.bestBlk()
	D := rng.Intn(nAcct)
	A := (D + 1 + rng.Intn(nAcct-1)) % nAcct
	C := (A + 1) % nAcct
	s.nameSeq++
	nm := []byte(fmt.Sprintf("verifctrt%03d", s.nameSeq%1000))
	tx := func(acct []byte, signer int, nonce uint64, rcpt []byte, amt *big.Int, typ types.TxType, payload, cmd, kind string) *mtx {
		b := &types.TxBody{Nonce: nonce, Account: acct, Recipient: rcpt, Type: typ, ChainIdHash: s.cidNext()}
		if amt != nil && amt.Sign() > 0 {
			b.Amount = amt.Bytes()
		}
		if payload != "" {
			b.Payload = []byte(payload)
		}
		return s.mk(txSpec{body: b, sig: sigSpec{mode: "k", key: signer}, hash: hashSpec{mode: "self"}, cmd: cmd, kind: kind})
	}
	nd := s.nonceAt(tip, w.addrs[D])
	na := s.nonceAt(tip, w.addrs[A])
	cAddr := contract.CreateContractID(w.addrs[D], nd+1)
	s.contracts[string(cAddr)] = true
	dep := tx(w.addrs[D], D, nd+1, nil, nil, types.TxType_DEPLOY, "{}", "d:"+hx(cAddr), "deploy-stub-contract")
	create := tx(w.addrs[A], A, na+1, []byte(types.AergoName), aergo1, types.TxType_GOVERNANCE,
		fmt.Sprintf(`{"Name":"v1createName","Args":["%s"]}`, nm), "c:"+hx(nm), "name-create")
	b1 := s.opBlock(tip, []*mtx{dep, create}, false, "deploy+name-create")
	if s.bestBlk() != b1 {
		return
	}
	fund := tx(w.addrs[A], A, na+2, cAddr, new(big.Int).Mul(aergo1, big.NewInt(int64(2+rng.Intn(5)))), types.TxType_TRANSFER, "", "", "fund-contract")
	move := tx(w.addrs[A], A, na+3, []byte(types.AergoName), aergo1, types.TxType_GOVERNANCE,
		fmt.Sprintf(`{"Name":"v1updateName","Args":["%s","%s"]}`, nm, types.EncodeAddress(cAddr)), "u:"+hx(nm)+":"+hx(cAddr), "name-update-to-contract")
	b2 := s.opBlock(b1, []*mtx{fund, move}, false, "name-to-contract")
	if s.bestBlk() != b2 {
		return
	}
	// in the name: signed by the creator D (the registered owner) / by A (who registered the name, owner no more)
	tD := tx(nm, D, 1, w.addrs[C], big.NewInt(int64(1+rng.Intn(1000))), types.TxType_TRANSFER, "", "", "named-sender-contract-owner")
	tA := tx(nm, A, 1, w.addrs[C], big.NewInt(7), types.TxType_TRANSFER, "", "", "named-sender-not-owner")
	s.opAdmit(tD) // the pool verifies against the destination (a contract address is no key): refused
	s.opBVerify(tD)
	s.opBVerify(tA)
	s.opExec(tD)
	use := rng.Chance(1, 2)
	s.opBlock(b2, []*mtx{tA}, use, "contract-name-not-owner")
	b3 := s.opBlock(s.bestBlk(), []*mtx{tD}, use, "contract-name-owner")
	if s.bestBlk() == b3 && rng.Chance(1, 2) {
		t2 := tx(nm, D, 2, cAddr, big.NewInt(int64(rng.Intn(50))), types.TxType_CALL, "", "", "named-sender-contract-owner")
		s.opBlock(b3, []*mtx{t2, dep}, use, "contract-name-owner-again+replayed-deploy")
	}
}

// genFeeDelegation: fee-delegated calls of a stub contract — one that fails inside the VM (receipt ERROR: the SENDER's
// nonce is consumed all the same), its replay in a later block and in the same block, and successful ones.
func (s *session) genFeeDelegation() {
	w := s.w
	rng := s.rng
	tip := s.bestBlk()
	D := rng.Intn(nAcct)
	S := (D + 1 + rng.Intn(nAcct-1)) % nAcct
	tx := func(signer int, nonce uint64, rcpt []byte, amt int64, typ types.TxType, payload, cmd, kind string) *mtx {
		b := &types.TxBody{Nonce: nonce, Account: w.addrs[signer], Recipient: rcpt, Type: typ, ChainIdHash: s.cidNext()}
		if amt > 0 {
			b.Amount = big.NewInt(amt).Bytes()
		}
		if payload != "" {
			b.Payload = []byte(payload)
		}
		return s.mk(txSpec{body: b, sig: sigSpec{mode: "k", key: signer}, hash: hashSpec{mode: "self"}, cmd: cmd, kind: kind})
	}
	nd := s.nonceAt(tip, w.addrs[D])
	cAddr := contract.CreateContractID(w.addrs[D], nd+1)
	s.contracts[string(cAddr)] = true
	dep := tx(D, nd+1, nil, int64(rng.Intn(1000)), types.TxType_DEPLOY, "{}", "d:"+hx(cAddr), "deploy-stub-contract")
	b1 := s.opBlock(tip, []*mtx{dep}, false, "deploy")
	if s.bestBlk() != b1 {
		return
	}
	ns := s.nonceAt(b1, w.addrs[S])
	failing := tx(S, ns+1, cAddr, int64(rng.Intn(500)), types.TxType_FEEDELEGATION, `{"err":"vm"}`, "s:vm", "fee-delegated-call-vm-error")
	use := rng.Chance(1, 2)
	if use && rng.Chance(1, 2) {
		s.opAdmit(failing)
	}
	s.opExec(failing)
	txs := []*mtx{failing}
	if rng.Chance(1, 3) {
		txs = []*mtx{failing, failing} // the replay in the very same block
	}
	b2 := s.opBlock(b1, txs, use, "fee-delegated-vm-error")
	if s.bestBlk() != b2 {
		if len(txs) == 2 {
			b2 = s.opBlock(b1, txs[:1], use, "fee-delegated-vm-error")
		}
		if s.bestBlk() != b2 {
			return
		}
	}
	// the identical transaction again, alone and behind the sender's real next transaction
	s.opBlock(b2, []*mtx{failing}, use, "fee-delegated-replay")
	var next *mtx
	switch rng.Intn(3) {
	case 0:
		next = tx(S, ns+2, cAddr, int64(rng.Intn(500)), types.TxType_FEEDELEGATION, "{}", "s:ok", "fee-delegated-call-ok")
	case 1:
		next = tx(S, ns+2, cAddr, int64(rng.Intn(500)), types.TxType_CALL, `{"err":"vm"}`, "s:vm", "call-vm-error")
	default:
		next = tx(S, ns+2, w.addrs[D], int64(1+rng.Intn(500)), types.TxType_TRANSFER, "", "", "valid-transfer")
	}
	s.opBlock(s.bestBlk(), []*mtx{next, failing}, use, "fee-delegated-replay-behind-next")
	s.opBlock(s.bestBlk(), []*mtx{next}, use, "after-fee-delegated")
}


// genHeader: a block whose HEADER carries a chain id the node is not configured with for that height: this chain's id
// in another hard-fork version, another chain's id (other magic), a chain id too short to hold a version, none at all.
// Its transactions are bound to the hash of the chain id the header carries (they execute if the node takes the
// header's word) or to this chain's real identifier for that height.
func (s *session) genHeader() {
	rng := s.rng
	tip, shape := s.pickTip()
	h := tip.height + 1
	cfgV := s.hf.Version(h)
	genCid := s.p.gen.GetHeader().GetChainID()
	var hdr []byte
	same := true
	kind := ""
	switch k := rng.Intn(10); {
	case k < 6:
		v := []int32{2, 3, 4, 5, 6, 9}[rng.Intn(6)]
		if s.forkAt > 0 && rng.Chance(2, 3) {
			v = 9 - cfgV // the version of the other side of the hard-fork height
		}
		if v < 4 || v == cfgV { // versions the stub VM and the model's bodies do not cover / the configured one
			v = cfgV + 1
		}
		hdr = append(binary.LittleEndian.AppendUint32(nil, uint32(v)), genCid[4:]...)
		kind = "hdr-other-version"
	case k < 8:
		cid := types.NewChainID()
		if err := cid.Read(genCid); err != nil {
			panic(err)
		}
		cid.Magic = "other.chain"
		cid.Version = cfgV
		hdr, _ = cid.Bytes()
		same = false
		kind = "hdr-other-chain"
	case k < 9:
		hdr = []byte{}
		same = false
		kind = "hdr-no-chain-id"
	default:
		hdr = append([]byte{}, genCid[:1+rng.Intn(3)]...)
		same = false
		kind = "hdr-short-chain-id"
	}
	var txs []*mtx
	extra := map[string]uint64{}
	for n := rng.Intn(3); n > 0; n-- {
		m := s.validTx(tip, extra) // bound to this chain's identifier for height h
		if rng.Chance(2, 3) {
			o := m.tx.Body
			b := &types.TxBody{Nonce: o.Nonce, Account: o.Account, Recipient: o.Recipient, Amount: o.Amount, Type: o.Type, ChainIdHash: common.Hasher(hdr)}
			m = s.mk(txSpec{body: b, sig: sigSpec{mode: "k", key: s.acctIdx(b.Account)}, hash: hashSpec{mode: "self"}, kind: "bound-to-the-header's-chain-id"})
		}
		txs = append(txs, m)
	}
	use := rng.Chance(1, 2)
	if use && len(txs) > 0 && tip == s.bestBlk() && rng.Chance(1, 2) {
		s.opAdmit(txs[0])
	}
	b := s.opBlockH(tip, txs, use, shape+"-"+kind, hdr, same)
	if !b.dead && s.bestBlk() == b && rng.Chance(1, 2) {
		// an honest block on top of it
		s.opBlock(b, []*mtx{s.validTx(b, map[string]uint64{})}, use, "after-"+kind)
	}
}

// genLoad: the node starts with a pool dump file (what BeforeStop wrote in the previous run — or what somebody with
// access to the data directory put there): MemPool.loadTxs on a fresh node. Afterwards a block carrying one of the
// records arrives while the node consults its pool.
func (s *session) genLoad() {
	rng := s.rng
	w := s.w
	gen := s.blks[0]
	var recs []*mtx
	var forged *mtx
	for from := 0; from < nAcct; from++ {
		if rng.Chance(1, 4) {
			continue
		}
		to := (from + 1 + rng.Intn(nAcct-1)) % nAcct
		b := &types.TxBody{Nonce: 1, Account: w.addrs[from], Recipient: w.addrs[to], Amount: s.amount(), Type: types.TxType_TRANSFER, ChainIdHash: s.cidAt(1)}
		sp := txSpec{body: b, sig: sigSpec{mode: "k", key: from}, hash: hashSpec{mode: "self"}, kind: "dumped-valid"}
		switch k := rng.Intn(10); {
		case k < 3:
		case k < 4:
			b.Nonce = 2 + uint64(rng.Intn(3))
			sp.kind = "dumped-orphan"
		case k < 7 || forged == nil && from == nAcct-1:
			sp.sig = sigSpec{mode: "k", key: (from + 1 + rng.Intn(nAcct)) % (nAcct + 1)}
			sp.kind = "dumped-wrong-key"
		case k < 8:
			b.ChainIdHash = otherCid("other.chain", s.hf.Version(1))
			sp.kind = "dumped-foreign-chain-id"
		case k < 9:
			sp.hash = hashSpec{mode: "x", raw: rng.Bytes(32)}
			sp.kind = "dumped-garbage-hash"
		default:
			b.Nonce = 0
			sp.kind = "dumped-nonce-zero"
		}
		m := s.mk(sp)
		if sp.kind == "dumped-wrong-key" && forged == nil {
			forged = m
		}
		recs = append(recs, m)
	}
	// the dump file format of dumpTxsToFile: 4-byte little-endian length, protobuf encoding of the types.Tx
	var buf []byte
	var tids []string
	for _, m := range recs {
		raw, err := proto.Encode(m.tx)
		if err != nil {
			panic(err)
		}
		buf = binary.LittleEndian.AppendUint32(buf, uint32(len(raw)))
		buf = append(buf, raw...)
		tids = append(tids, fmt.Sprint(m.tid))
	}
	if err := os.WriteFile(filepath.Join(s.n.dir, "mempool.dump"), buf, 0o644); err != nil {
		panic(err)
	}
	s.n.mp.VerifC04LoadTxs()
	for _, m := range recs {
		if s.n.mp.VerifC04Exist(m.tx.Hash) != nil {
			s.pooled[string(m.tx.Hash)] = m.tid
			s.loaded[string(m.tx.Hash)] = true
			s.oracleLoaded(m)
		}
	}
	s.op(strings.TrimSpace("load "+strings.Join(tids, " ")), s.poolLine(), true)
	s.run.Count("load")
	if forged != nil {
		s.opBVerify(forged)
		s.opBlock(gen, []*mtx{forged}, true, "dumped-wrong-key-pool-hit")
	} else if len(recs) > 0 {
		s.opBlock(gen, recs[:1], true, "dumped-pool-hit")
	}
}

// oracleLoaded: what the pool holds must be authorised, however it came in.
func (s *session) oracleLoaded(m *mtx) {
	tx := m.tx
	_, accept := s.n.mp.VerifC04ChainIdHashes()
	bad := ""
	switch {
	case !bytes.Equal(tx.Body.ChainIdHash, accept):
		bad = "bound to another chain id hash"
	case !bytes.Equal(tx.Hash, tx.CalculateTxHash()):
		bad = "whose carried hash is not the hash of its body"
	case key.VerifyTx(tx) != nil:
		bad = "without a valid signature of its sender"
	}
	if bad != "" {
		s.fail("the pool took a transaction " + bad + " from its dump file (" + m.kind + ")")
	}
}


// opProduce: the node produces a block itself from what its pool offers (real block factory, see node.produce).
func (s *session) opProduce(shape string) *mblk {
	parent := s.bestBlk()
	s.n.reoffer = nil
	blk, err, done := s.n.produce()
	if !done {
		s.fail("the node's block factory never handed a block to the chain service")
		return nil
	}
	b := &mblk{bid: len(s.blks), parent: parent, height: parent.height + 1, blk: blk}
	var tids []string
	for _, tx := range blk.GetBody().GetTxs() {
		tid, ok := s.pooled[string(tx.Hash)]
		if !ok {
			s.fail("the block factory put a transaction into its block that the pool never admitted")
			tid = 0
		}
		tids = append(tids, fmt.Sprint(tid))
		b.tids = append(b.tids, tid)
		s.run.Count("produced-tx-kind:" + s.txs[tid].kind)
	}
	line := strings.TrimSpace(fmt.Sprintf("produce %d %s", b.bid, strings.Join(tids, " ")))
	out := "ok"
	if err != nil {
		out = "rej:" + class(err)
		s.op(line, out, false)
		s.run.Count("produce:" + shape + "=" + out)
		return nil
	}
	blk.BlockHash()
	s.blks = append(s.blks, b)
	s.byHash[string(blk.BlockHash())] = b
	s.own[string(blk.BlockHash())] = true
	if s.bestBlk() != b {
		s.fail("the node's own block is not its best block after ConnectBlock succeeded")
	}
	// any other node receiving this block must be able to execute it to the same state
	if !s.p.adopt(parent.blk, blk) {
		// nothing can be built on this block: the session ends here
		s.op(line, out, true)
		s.fail("the node committed an own block that another node cannot execute to the state root its header claims")
		s.broken = true
		return nil
	}
	s.op(line, out, true)
	s.run.Count("produce:" + shape + "=" + out)
	s.run.Count(fmt.Sprintf("produced-txs=%d", len(b.tids)))
	s.oracle()
	s.opState()
	return b
}

// genProduce: transactions of all kinds are offered to the pool, then the node produces a block from its pool.
func (s *session) genProduce() {
	rng := s.rng
	tip := s.bestBlk()
	extra := map[string]uint64{}
	for n := 1 + rng.Intn(4); n > 0; n-- {
		if rng.Chance(2, 3) {
			s.opAdmit(s.validTx(tip, extra))
		} else {
			s.opAdmit(s.genTx(tip))
		}
	}
	b := s.opProduce("pool")
	if b != nil && rng.Chance(1, 3) {
		// and once more: nothing of the previous block may be offered again
		s.opProduce("pool-again")
	}
}


// genBigBlock: a block with many more transactions than the verifier has workers and channel slots (VerifierCount 2),
// all valid, or all valid but one — the last, the first, or any — signed with a wrong key.
func (s *session) genBigBlock() {
	rng := s.rng
	tip := s.bestBlk()
	n := []int{6, 9, 17, 33, 64}[rng.Intn(5)]
	if s.run.Thorough() && rng.Chance(1, 5) {
		n = 150 + rng.Intn(100)
	}
	extra := map[string]uint64{}
	var txs []*mtx
	for i := 0; i < n; i++ {
		txs = append(txs, s.validTx(tip, extra))
	}
	shape := fmt.Sprintf("big%d", n)
	if rng.Chance(1, 2) {
		pos := []int{n - 1, 0, rng.Intn(n)}[rng.Intn(3)]
		o := txs[pos].tx.Body
		wrong := (s.acctIdx(o.Account) + 1 + rng.Intn(nAcct)) % (nAcct + 1)
		nb := &types.TxBody{Nonce: o.Nonce, Account: o.Account, Recipient: o.Recipient, Amount: o.Amount, Type: o.Type, ChainIdHash: o.ChainIdHash}
		txs[pos] = s.mk(txSpec{body: nb, sig: sigSpec{mode: "k", key: wrong}, hash: hashSpec{mode: "self"}, kind: "wrong-key"})
		shape += "-one-forged"
	}
	use := rng.Chance(1, 2)
	if use {
		for _, m := range txs {
			if rng.Chance(1, 8) {
				s.opAdmit(m)
			}
		}
	}
	s.opBlock(tip, txs, use, shape)
}


// genForkBoundary: transactions bound to the chain id of the OLD fork version wait in the pool (admitted while the next
// block was still an old-version one) when the node produces the FIRST block of the new version: the pool is only reset
// once a block of the new version has arrived, so the factory is offered them and executeTx must refuse them.
func (s *session) genForkBoundary() {
	if s.forkAt < 2 {
		return
	}
	rng := s.rng
	best := s.bestBlk()
	if best.height > s.forkAt-2 {
		return
	}
	for best.height < s.forkAt-2 {
		best = s.opBlock(best, nil, false, "filler")
		if best.dead || s.bestBlk() != best {
			return
		}
	}
	mkT := func(from int, cid []byte, kind string) *mtx {
		to := (from + 1 + rng.Intn(nAcct-1)) % nAcct
		b := &types.TxBody{Nonce: s.nonceAt(s.bestBlk(), s.w.addrs[from]) + 1, Account: s.w.addrs[from], Recipient: s.w.addrs[to], Amount: s.amount(),
			Type: types.TxType_TRANSFER, ChainIdHash: cid}
		return s.mk(txSpec{body: b, sig: sigSpec{mode: "k", key: from}, hash: hashSpec{mode: "self"}, kind: kind})
	}
	a := rng.Intn(nAcct)
	old1 := mkT(a, s.cidNext(), "valid-transfer-old-version")
	s.opAdmit(old1)
	if rng.Chance(1, 2) {
		s.opAdmit(mkT((a+1)%nAcct, s.cidNext(), "valid-transfer-old-version"))
	}
	// the last block of the old version arrives without them
	var txs []*mtx
	if rng.Chance(1, 2) {
		txs = []*mtx{mkT((a+2)%nAcct, s.cidNext(), "valid-transfer")}
	}
	b := s.opBlock(best, txs, rng.Chance(1, 2), "last-of-old-version")
	if b.dead || s.bestBlk() != b {
		return
	}
	if rng.Chance(1, 2) {
		s.opAdmit(mkT((a+3)%nAcct, s.cidNext(), "valid-transfer")) // bound to the new version
	}
	if rng.Chance(1, 3) {
		// validator path: a block of the new version carrying the old-version transaction the pool holds
		s.opBlock(b, []*mtx{old1}, true, "first-of-new-version-with-old-tx")
	}
	s.opProduce("first-of-new-version")
}


// genSystemTx: a call of aergo.system (stake / unstake / votes / an undecodable payload). Only the stateless checks
// are driven on these (the system contract's execution is C15's).
func (s *session) genSystemTx(tip *mblk) *mtx {
	rng := s.rng
	from := rng.Intn(nAcct)
	b := &types.TxBody{Nonce: s.nonceAt(tip, s.w.addrs[from]) + 1, Account: s.w.addrs[from], Recipient: []byte(types.AergoSystem),
		Type: types.TxType_GOVERNANCE, ChainIdHash: s.cidAt(tip.height + 1)}
	sp := txSpec{body: b, sig: sigSpec{mode: "k", key: from}, hash: hashSpec{mode: "self"}}
	switch rng.Intn(6) {
	case 0, 1:
		b.Payload = []byte(`{"Name":"v1stake","Args":[]}`)
		b.Amount = new(big.Int).Mul(aergo1, big.NewInt(int64(1+rng.Intn(3000)))).Bytes() // the accounts hold about 1000 aergo
		sp.cmd, sp.kind = "y:stake", "system-stake"
	case 2:
		b.Payload = []byte(`{"Name":"v1unstake","Args":[]}`)
		b.Amount = new(big.Int).Mul(aergo1, big.NewInt(int64(1+rng.Intn(3000)))).Bytes()
		sp.cmd, sp.kind = "y:other", "system-unstake"
	case 3:
		b.Payload = []byte(`{"Name":"v1voteBP","Args":[]}`)
		sp.cmd, sp.kind = "y:other", "system-vote-bp"
	case 4:
		b.Payload = []byte(`{"Name":"v1voteDAO","Args":["BPCOUNT","3"]}`)
		sp.cmd, sp.kind = "y:other", "system-vote-dao"
	default:
		b.Payload = []byte(`{{not json`)
		b.Amount = big.NewInt(int64(rng.Intn(1000))).Bytes()
		sp.cmd, sp.kind = "y:bad", "system-bad-payload"
	}
	// on a chain whose consensus is not dpos (this one: sbp) types.InitGovernance installs a validator for aergo.system
	// that answers ErrTxInvalidType to every payload: Validate refuses these transactions, ValidateWithSenderState
	// (driven directly) is the same code on every chain
	sp.gov = "type"
	m := s.mk(sp)
	m.stateless = true
	return m
}

// opVSender: the real ValidateWithSenderState of one transaction against a sender state chosen around the
// transaction's nonce and amount (also at the uint64 limit of the nonce).
func (s *session) opVSender(m *mtx) {
	if m.tx.Body == nil {
		return
	}
	rng := s.rng
	txn := m.tx.Body.Nonce
	var stNonce uint64
	switch rng.Intn(8) {
	case 0, 1, 2:
		stNonce = txn - 1 // exactly one below (wraps to 2^64-1 for nonce 0)
	case 3:
		stNonce = txn
	case 4:
		stNonce = txn - 2 - uint64(rng.Intn(5))
	case 5:
		stNonce = txn + 1 + uint64(rng.Intn(3))
	case 6:
		stNonce = ^uint64(0) - uint64(rng.Intn(2))
	default:
		stNonce = uint64(rng.Intn(10))
	}
	amount := m.tx.Body.GetAmountBigInt()
	bal := new(big.Int).Set(genesisBalance)
	switch rng.Intn(6) {
	case 0:
		bal = big.NewInt(0)
	case 1:
		bal = new(big.Int).Set(amount)
	case 2:
		if amount.Sign() > 0 {
			bal = new(big.Int).Sub(amount, big.NewInt(1))
		}
	case 3:
		bal = new(big.Int).Add(amount, big.NewInt(1))
	}
	version := s.hf.Version(s.bestBlk().height + 1)
	err := types.NewTransaction(m.tx).ValidateWithSenderState(&types.State{Nonce: stNonce, Balance: bal.Bytes()}, system.GetGasPrice(), version)
	s.op(fmt.Sprintf("vsender %d %d %s", m.tid, stNonce, bal.String()), class(err), err == nil)
	s.run.Count("vsender=" + class(err))
	// oracle: accepted => the nonce is exactly the state nonce plus one (as the code computes it: uint64)
	if err == nil {
		if txn != stNonce+1 {
			s.fail(fmt.Sprintf("ValidateWithSenderState accepted nonce %d for a sender whose state nonce is %d (%s)", txn, stNonce, m.kind))
		}
		if stNonce == ^uint64(0) {
			s.run.Count("vsender-accepted-at-uint64-wrap")
		}
	}
}


// genNameMoveSameBlock: a name is handed over and used in the SAME block. Names are resolved as of the state the block
// started from, for the signature check and for the account charged alike: a transaction in the name behind the
// hand-over still is the old owner's (his key, his nonce, his balance), never a mix of the two views.
func (s *session) genNameMoveSameBlock() {
	w := s.w
	tip := s.bestBlk()
	A := s.rng.Intn(nAcct)
	B := (A + 1 + s.rng.Intn(nAcct-1)) % nAcct
	C := (B + 1) % nAcct
	s.nameSeq++
	nm := []byte(fmt.Sprintf("verifsame%03d", s.nameSeq%1000))
	gov := func(acct int, nonce uint64, payload, cmd, kind string) *mtx {
		return s.mk(txSpec{body: &types.TxBody{Nonce: nonce, Account: w.addrs[acct], Recipient: []byte(types.AergoName), Amount: aergo1.Bytes(),
			Payload: []byte(payload), Type: types.TxType_GOVERNANCE, ChainIdHash: s.cidNext()}, sig: sigSpec{mode: "k", key: acct}, hash: hashSpec{mode: "self"}, cmd: cmd, kind: kind})
	}
	inName := func(signer int, nonce uint64, kind string) *mtx {
		return s.mk(txSpec{body: &types.TxBody{Nonce: nonce, Account: nm, Recipient: w.addrs[C], Amount: big.NewInt(int64(1 + s.rng.Intn(1000))).Bytes(),
			Type: types.TxType_TRANSFER, ChainIdHash: s.cidNext()}, sig: sigSpec{mode: "k", key: signer}, hash: hashSpec{mode: "self"}, kind: kind})
	}
	na := s.nonceAt(tip, w.addrs[A])
	nb := s.nonceAt(tip, w.addrs[B])
	create := gov(A, na+1, fmt.Sprintf(`{"Name":"v1createName","Args":["%s"]}`, nm), "c:"+hx(nm), "name-create")
	b1 := s.opBlock(tip, []*mtx{create}, false, "name-create")
	if s.bestBlk() != b1 {
		return
	}
	move := gov(A, na+2, fmt.Sprintf(`{"Name":"v1updateName","Args":["%s","%s"]}`, nm, types.EncodeAddress(w.addrs[B])), "u:"+hx(nm)+":"+hx(w.addrs[B]), "name-update")
	use := s.rng.Chance(1, 2)
	// signed by the old owner, carrying the NEW destination's next nonce
	s.opBlock(b1, []*mtx{move, inName(A, nb+1, "named-sender-old-owner-new-account-nonce")}, use, "name-move+use-new-nonce")
	// signed by the new owner already
	s.opBlock(b1, []*mtx{move, inName(B, nb+1, "named-sender-new-owner-too-early")}, use, "name-move+use-by-new-owner")
	// signed by the old owner with his own next nonce: still his name in this block
	s.opBlock(b1, []*mtx{move, inName(A, na+3, "named-sender-owner")}, use, "name-move+use-old-nonce")
}

func (s *session) runSession(nops int) {
	// hard-fork heights of this session: version 5 from block 1 on, or version 4 up to a small height and 5 from there
	s.forkAt = 0
	if s.rng.Chance(3, 5) {
		s.forkAt = uint64(2 + s.rng.Intn(5))
	}
	s.hf = &config.HardforkConfig{V2: 0, V3: 0, V4: 0, V5: types.BlockNo(s.forkAt)}
	s.p.hf = s.hf
	s.n = s.w.newNode(s.hf)
	defer s.n.close()
	gen := &mblk{bid: 0, blk: s.p.gen}
	s.blks = []*mblk{gen}
	s.byHash = map[string]*mblk{string(s.p.gen.BlockHash()): gen}
	s.txs, s.ops, s.names = nil, nil, nil
	s.pooled = map[string]int{}
	s.loaded = map[string]bool{}
	s.contracts = map[string]bool{}
	s.own = map[string]bool{}
	s.broken = false
	s.sessNo++
	_, accept := s.n.mp.VerifC04ChainIdHashes()
	if !bytes.Equal(accept, s.cidAt(1)) {
		s.fail("the pool of a fresh node does not accept the chain id hash of block 1")
	}
	var addrs []string
	for _, a := range s.w.addrs[:nAcct] {
		addrs = append(addrs, hx(a))
	}
	// types.MaxAER: on a net that is not the main net NewChainService sets it to the genesis total
	s.op(fmt.Sprintf("new %s %s %d 0 %s %s %s", hx(s.cidAt(1)), hx(s.cidAt(1<<40)), s.forkAt, types.MaxAER.String(), genesisBalance.String(), strings.Join(addrs, " ")), "ok", false)
	verA := s.hf.Version(1)
	if s.forkAt >= 2 {
		verA = s.hf.Version(s.forkAt - 1)
	}
	s.op(fmt.Sprintf("cfgver %d %d", verA, s.hf.Version(1<<40)), "ok", false)
	s.opState()
	// a start-up with a pool dump file costs a second of wall time (loadTxs sleeps): in few sessions only
	if s.sessNo%s.run.Pick(40, 100) == 3 {
		s.genLoad()
	}
	if s.forkAt >= 2 && s.rng.Chance(1, 3) {
		s.genForkBoundary()
	}
	for i := 0; i < nops && !s.broken; i++ {
		k := s.rng.Intn(100)
		switch {
		case k < 27:
			s.genBlock()
		case k < 30:
			s.genHeader()
		case k < 35:
			s.genProduce()
		case k < 37:
			s.genBigBlock()
		case k < 39:
			s.genAfterFailing()
		case k < 42:
			s.genNameMove()
		case k < 43:
			s.genNameMoveSameBlock()
		case k < 46:
			s.genContractName()
		case k < 49:
			s.genFeeDelegation()
		case k < 54:
			s.genFork()
		case k < 58:
			s.genPoolHit()
		case k < 67:
			s.opAdmit(s.genTx(s.bestBlk()))
		default:
			var m *mtx
			if len(s.txs) > 0 && s.rng.Chance(1, 2) {
				m = s.txs[s.rng.Intn(len(s.txs))]
			} else {
				m = s.genTx(s.bestBlk())
			}
			if s.rng.Chance(1, 6) {
				m = s.genSystemTx(s.bestBlk())
			}
			switch k := s.rng.Intn(5); {
			case k == 0:
				s.opValidate(m)
			case k == 1:
				s.opVerify(m)
			case k == 2 || m.stateless:
				s.opVSender(m)
			case k == 3:
				s.opBVerify(m)
			default:
				s.opExec(m)
			}
		}
	}
}

func main() {
	zerolog.SetGlobalLevel(zerolog.Disabled)
	run := vh.Start("c04", "sessions on a real ChainService + MemPool (5 funded accounts with real secp256k1 keys, 1 outsider key): blocks on the best "+
		"block and on side branches (reorganisations, same tx on both branches), built from valid transfers / calls / name create+update, replays of "+
		"included txs, wrong-key and moved signatures, foreign chain id / other fork version, nonce gaps / duplicates / zero, name senders (owner, "+
		"not owner, unregistered, former owner after a hand-over), altered-after-hash, field-boundary shifts, failing block followed by forged / empty "+
		"/ valid block; block headers with another fork version / another chain's id; start-up load of a pool dump file; the node's own block production "+
		"(real block factory from the real pool); blocks of 6..250 txs with one forged; pool admissions; Validate / VerifyTx / block-level verifyTx / bare executeTx on the same txs. non-trivial = accepted / "+
		"executed; distinct by (op, answer). Oracle after every block on the node's own main chain.")
	defer run.Finish()
	w := newWorld(filepath.Join(run.Out, "nodes"))
	s := &session{run: run, rng: run.Rng, w: w, p: w.newProducer()}
	nsess := run.Pick(100, 1500)
	for i := 0; i < nsess; i++ {
		s.runSession(run.Pick(24, 40))
	}
	os.RemoveAll(w.root)
}
