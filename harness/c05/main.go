// Harness c05: property C05 (chain database consistency after any history of block arrivals).
// The machinery is shared with C07 in harness/c05lib (real ChainService, block-tree generators, oracles).
package main

import "github.com/aergoio/aergo/v2/zz_verif/c05lib"

func main() { c05lib.Main("C05") }
