// Harness c05 (serves C05 and C07): probe version.
package main

import (
	"context"
	"encoding/hex"
	"fmt"
	"math/big"
	"os"
	"path/filepath"
	"time"

	"github.com/aergoio/aergo-actor/actor"
	"github.com/aergoio/aergo/v2/account/key"
	crypto "github.com/aergoio/aergo/v2/account/key/crypto"
	"github.com/aergoio/aergo/v2/chain"
	"github.com/aergoio/aergo/v2/config"
	"github.com/aergoio/aergo/v2/consensus"
	"github.com/aergoio/aergo/v2/contract"
	"github.com/aergoio/aergo/v2/contract/system"
	"github.com/aergoio/aergo/v2/pkg/component"
	"github.com/golang/protobuf/proto"
	"github.com/aergoio/aergo/v2/state"
	"github.com/aergoio/aergo/v2/types"
	"github.com/aergoio/aergo/v2/types/message"
	"github.com/aergoio/aergo/v2/zz_verif/vh"
	"github.com/btcsuite/btcd/btcec/v2"
	"github.com/rs/zerolog"
)

func hx(b []byte) string {
	if len(b) == 0 {
		return "-"
	}
	return hex.EncodeToString(b)
}

// ---------------------------------------------------------------- stub consensus (exported interface only)

type stubCons struct {
	cs       *chain.ChainService
	lib      uint64            // NeedReorganization(rootNo) = rootNo >= lib   (dpos.Status.NeedReorganization)
	badBlock map[string]bool   // IsBlockValid fails for these block hashes
	updates  []string
}

func (s *stubCons) SetStateDB(sdb *state.ChainStateDB)        {}
func (s *stubCons) IsTransactionValid(tx *types.Tx) bool      { return true }
func (s *stubCons) VerifyTimestamp(block *types.Block) bool   { return true }
func (s *stubCons) VerifySign(block *types.Block) error       { return nil }
func (s *stubCons) IsBlockValid(block *types.Block, best *types.Block) error {
	if s.badBlock[string(block.BlockHash())] {
		return fmt.Errorf("scripted: block refused by consensus")
	}
	return nil
}
func (s *stubCons) Update(block *types.Block)                 { s.updates = append(s.updates, hx(block.BlockHash())) }
func (s *stubCons) Save(tx consensus.TxWriter) error          { return nil }
func (s *stubCons) NeedReorganization(rootNo types.BlockNo) bool { return rootNo >= s.lib }
func (s *stubCons) Info() string                              { return "" }
func (s *stubCons) GetType() consensus.ConsensusType          { return consensus.ConsensusSBP }
func (s *stubCons) NeedNotify() bool                          { return true }
func (s *stubCons) HasWAL() bool                              { return false }
func (s *stubCons) IsForkEnable() bool                        { return true }
// as dpos.DPoS.IsConnectedBlock / sbp: the block is in the chain DB
func (s *stubCons) IsConnectedBlock(block *types.Block) bool {
	_, err := s.cs.GetBlock(block.BlockHash())
	return err == nil
}
func (s *stubCons) MakeConfChangeProposal(req *types.MembershipChange) (*consensus.ConfChangePropose, error) {
	return nil, consensus.ErrNotSupportedMethod
}

// ---------------------------------------------------------------- recording component (stands for mempool, rpc, p2p, syncer)

type recorder struct {
	name string
	hub  *component.ComponentHub
	log  *[]string
}

func (r *recorder) GetName() string                   { return r.name }
func (r *recorder) Start()                            {}
func (r *recorder) Stop()                             {}
func (r *recorder) Status() component.Status          { return component.StartedStatus }
func (r *recorder) SetHub(hub *component.ComponentHub) { r.hub = hub }
func (r *recorder) Hub() *component.ComponentHub      { return r.hub }
func (r *recorder) MsgQueueLen() int32                { return 0 }
func (r *recorder) Receive(actor.Context)             {}
func (r *recorder) Tell(m interface{})                { r.rec(m) }
func (r *recorder) Request(m interface{}, sender *actor.PID) { r.rec(m) }
func (r *recorder) RequestFuture(m interface{}, timeout time.Duration, tip string) *actor.Future {
	r.rec(m)
	f := actor.NewFuturePrefix("verif", timeout)
	f.PID().Tell(component.ErrHubUnregistered)
	return f
}
func (r *recorder) rec(m interface{}) {
	switch x := m.(type) {
	case *message.MemPoolPut:
		*r.log = append(*r.log, "put:"+hx(x.Tx.GetHash()))
	case *message.MemPoolDel:
		*r.log = append(*r.log, "del:"+hx(x.Block.BlockHash()))
	case *message.SyncStart:
		*r.log = append(*r.log, fmt.Sprintf("sync:%d", x.TargetNo))
	case *message.NotifyNewBlock:
		*r.log = append(*r.log, "notify:"+hx(x.Block.BlockHash()))
	}
}

// ---------------------------------------------------------------- world

type world struct {
	keys  []*btcec.PrivateKey
	addrs [][]byte
	root  string // scratch root
	nnode int
}

func newWorld(root string) *world {
	w := &world{root: root}
	seed := vh.NewRng(5)
	for i := 0; i < 4; i++ {
		k, _ := btcec.PrivKeyFromBytes(seed.Bytes(32))
		w.keys = append(w.keys, k)
		w.addrs = append(w.addrs, crypto.GenerateAddress(k.PubKey().ToECDSA()))
	}
	return w
}

func (w *world) genesis() *types.Genesis {
	g := &types.Genesis{
		ID:        types.ChainID{Version: 0, Magic: "c05.verif", PublicNet: false, MainNet: false, Consensus: "sbp"},
		Timestamp: 1_600_000_000_000_000_000,
		Balance:   map[string]string{},
	}
	for _, a := range w.addrs {
		g.Balance[types.EncodeAddress(a)] = "1000000000000000000000"
	}
	return g
}

type node struct {
	cs   *chain.ChainService
	cons *stubCons
	msgs []string
	dir  string
}

func (w *world) initDir(dir string) {
	os.RemoveAll(dir)
	os.MkdirAll(dir, 0o755)
	core, err := chain.NewCore("memorydb", dir, false, 0, &config.DBConfig{})
	if err != nil {
		panic(err)
	}
	if err := core.InitGenesisBlock(w.genesis(), false); err != nil {
		panic(err)
	}
	core.Close()
}

func (w *world) newNode() *node {
	w.nnode++
	n := &node{dir: filepath.Join(w.root, fmt.Sprintf("n%d", w.nnode))}
	w.initDir(n.dir)
	cfg := config.NewServerContext("", "").GetDefaultConfig().(*config.Config)
	cfg.DbType = "memorydb"
	cfg.DataDir = n.dir
	n.cs = chain.NewChainService(cfg)
	n.cons = &stubCons{cs: n.cs, badBlock: map[string]bool{}}
	n.cs.SetChainConsensus(n.cons)
	hub := component.NewComponentHub()
	for _, nm := range []string{message.MemPoolSvc, message.RPCSvc, message.P2PSvc, message.SyncerSvc} {
		hub.Register(&recorder{name: nm, log: &n.msgs})
	}
	n.cs.SetHub(hub)
	chain.VerifC05SetSkipMempool(n.cs, true)
	return n
}

func (n *node) close() {
	n.cs.BeforeStop()
	os.RemoveAll(n.dir)
}

// producer: a Core (chain DB + state DB) with the same genesis; every produced block's state is committed into its
// state store so that children can be built on any block
type producer struct {
	w    *world
	core *chain.Core
	sdb  *state.ChainStateDB
	gen  *types.Block
	ts   int64
	bv   types.BlockVersionner
}

func (w *world) newProducer() *producer {
	dir := filepath.Join(w.root, "producer")
	w.initDir(dir)
	p := &producer{w: w}
	p.sdb = state.NewChainStateDB()
	// reopen the state store written by initDir
	core, err := chain.NewCore("memorydb", dir, false, 0, &config.DBConfig{})
	if err != nil {
		panic(err)
	}
	p.core = core
	g := core.GetGenesisInfo()
	p.gen = g.Block()
	p.ts = g.Timestamp
	p.bv = config.AllEnabledHardforkConfig
	return p
}

type stubCcc struct{}

func (stubCcc) MakeConfChangeProposal(req *types.MembershipChange) (*consensus.ConfChangePropose, error) {
	return nil, consensus.ErrNotSupportedMethod
}

func (p *producer) transfer(from, to int, nonce uint64, amount int64, bi *types.BlockHeaderInfo) *types.Tx {
	tx := &types.Tx{Body: &types.TxBody{
		Nonce: nonce, Account: p.w.addrs[from], Recipient: p.w.addrs[to], Amount: big.NewInt(amount).Bytes(),
		GasPrice: big.NewInt(0).Bytes(), Type: types.TxType_TRANSFER, ChainIdHash: bi.ChainIdHash(),
	}}
	key.SignTx(tx, p.w.keys[from])
	return tx
}

// build a block on parent with these txs; returns the block and the error of the first failing tx (block then
// carries the root reached so far)
func (p *producer) build(parent *types.Block, mk func(bi *types.BlockHeaderInfo) []*types.Tx) (*types.Block, error) {
	p.ts += 1000
	bi := types.NewBlockHeaderInfoFromPrevBlock(parent, p.ts, p.bv)
	sdb := p.core.VerifC05SDB()
	bs := state.NewBlockState(sdb.OpenNewStateDB(parent.GetHeader().GetBlocksRootHash()), state.SetPrevBlockHash(parent.BlockHash()))
	bs.SetGasPrice(system.GetGasPrice())
	bs.Receipts().SetHardFork(config.AllEnabledHardforkConfig, bi.No)
	txs := mk(bi)
	exec := chain.NewTxExecutor(context.Background(), stubCcc{}, nil, bi, contract.ChainService)
	var ferr error
	for _, tx := range txs {
		if err := exec(bs, types.NewTransaction(tx)); err != nil && ferr == nil {
			ferr = err
		}
	}
	if err := bs.Update(); err != nil {
		panic(err)
	}
	if err := bs.Commit(); err != nil {
		panic(err)
	}
	blk := types.NewBlock(bi, bs.GetRoot(), bs.Receipts(), txs, nil, nil)
	blk.BlockHash()
	return blk, ferr
}

func main() {
	zerolog.SetGlobalLevel(zerolog.Disabled)
	run := vh.Start("c05", "probe")
	w := newWorld(filepath.Join(run.Out, "nodes"))
	p := w.newProducer()
	t0 := time.Now()
	n := w.newNode()
	fmt.Println("newNode", time.Since(t0))
	// main chain a1 a2; side b1 b2 b3 from genesis
	nonce := map[int]uint64{}
	mk := func(from, to int, k uint64) func(bi *types.BlockHeaderInfo) []*types.Tx {
		return func(bi *types.BlockHeaderInfo) []*types.Tx { return []*types.Tx{p.transfer(from, to, k, 5, bi)} }
	}
	_ = nonce
	a1, e := p.build(p.gen, mk(0, 1, 1))
	fmt.Println("a1", e)
	a2, e := p.build(a1, mk(0, 1, 2))
	fmt.Println("a2", e)
	b1, e := p.build(p.gen, mk(1, 2, 1))
	b2, e := p.build(b1, mk(1, 2, 2))
	// b2bad: same content, wrong claimed state root
	b2bad := proto.Clone(b2).(*types.Block)
	b2bad.Header.BlocksRootHash = append([]byte{}, a1.Header.BlocksRootHash...)
	b2bad.Hash = nil
	b2bad.BlockHash()
	// b3 on b2bad (state = b2's real state)
	fake := proto.Clone(b2).(*types.Block)
	fake.Hash = b2bad.BlockHash()
	b3, e := p.build(fake, mk(1, 2, 3))
	a3, e := p.build(a2, mk(0, 1, 3))
	for _, b := range []*types.Block{a1, a2, b1, b2bad, b3, a3, a3} {
		t0 = time.Now()
		err := chain.VerifC05AddBlock(n.cs, b, "peer")
		best, _ := n.cs.GetBestBlock()
		fmt.Println("add", b.BlockNo(), err, "best", best.BlockNo(), hx(best.BlockHash())[:8], "root", hx(n.cs.SDB().GetRoot())[:8], "bestroot", hx(best.GetHeader().GetBlocksRootHash())[:8])
	}
	fmt.Println("b1 root", hx(b1.Header.BlocksRootHash)[:8])
	{
		n2 := w.newNode()
		x, e := p.build(p.gen, mk(0, 1, 7)) // nonce too high
		fmt.Println("x build err", e)
		y, e := p.build(p.gen, func(bi *types.BlockHeaderInfo) []*types.Tx {
			tx := p.transfer(0, 1, 1, 5, bi)
			tx.Body.Sign[9] ^= 0x40
			tx.Hash = tx.CalculateTxHash()
			return []*types.Tx{tx}
		})
		fmt.Println("y build err", e)
		n3 := w.newNode()
		fmt.Println("fresh node: add y (bad signature):", chain.VerifC05AddBlock(n3.cs, y, "peer"))
		fmt.Println("n2: add x (bad nonce):", chain.VerifC05AddBlock(n2.cs, x, "peer"))
		fmt.Println("n2: add y (bad signature):", chain.VerifC05AddBlock(n2.cs, y, "peer"))
		best, _ := n2.cs.GetBestBlock()
		fmt.Println("n2 best", best.BlockNo())
		z, _ := p.build(y, mk(2, 1, 1))
		fmt.Println("n2: add z (valid child of y):", chain.VerifC05AddBlock(n2.cs, z, "peer"))
	}
	t0 = time.Now()
	n.close()
	fmt.Println("close", time.Since(t0))
	t0 = time.Now()
	for i := 0; i < 200; i++ {
		n := w.newNode()
		chain.VerifC05AddBlock(n.cs, a1, "peer")
		n.close()
	}
	fmt.Println("200 nodes", time.Since(t0))
	run.Finish()
}
