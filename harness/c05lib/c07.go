package c05lib

import (
	"bytes"
	"fmt"
	"sort"
	"strings"

	"github.com/aergoio/aergo/v2/state"
)

// ---------------------------------------------------------------- C07: fork choice on the real node

func (s *session) oracleC07(before, after *snap, b *mblock, cls string) {
	g := s.e.p.gen
	s.e.run.Eval("c07:"+tk(after.best.BlockHash())+fmt.Sprint(len(s.ops)), !bytes.Equal(before.best.BlockHash(), after.best.BlockHash()))
	// which scenario blocks does the node hold (by content)
	var stored []*mblock
	seen := map[*mblock]bool{}
	for _, m := range s.sc.blocks {
		if st := s.storedBlock(m.hash); st != nil && !seen[st] {
			seen[st] = true
			stored = append(stored, st)
		}
	}
	// (a) no strictly longer valid available branch above the LIB is left unadopted
	for _, x := range stored {
		if x.no <= after.best.BlockNo() {
			continue
		}
		br, ok := s.branchOf(x)
		if !ok || !branchValid(br) {
			continue
		}
		fno, ok := forkNo(br, after)
		if !ok || fno < s.libNow {
			continue
		}
		known := ""
		what := fmt.Sprintf("branch to %s (%s) at height %d is fully stored and valid and forks at height %d (LIB %d), but the best block is %s/%d",
			x.name, x.id(), x.no, fno, s.libNow, tk(after.best.BlockHash()), after.best.BlockNo())
		switch {
		case s.anyErr && s.hasInvalidDescendant(x):
			known = knownC07Prefix
			what += "; the arrival that completed it also resolved an invalid orphan above it and failed as a whole: the valid prefix was not adopted"
		}
		s.fail("no-better-branch", what, known)
		break
	}
	// (b) what may displace the best block
	if !bytes.Equal(before.best.BlockHash(), after.best.BlockHash()) {
		nb := s.storedBlock(after.best.BlockHash())
		if after.onMain[string(before.best.BlockHash())] != nil {
			// extension of the old main chain: fine
		} else {
			// reorganisation
			ok := nb != nil && after.best.BlockNo() > before.best.BlockNo()
			var br []*mblock
			if ok {
				var whole bool
				br, whole = s.branchOf(nb)
				ok = whole && branchValid(br)
			}
			if !ok {
				s.fail("never-displaced", fmt.Sprintf("the best block %s/%d was displaced by %s/%d, which is not the tip of a strictly longer valid branch",
					tk(before.best.BlockHash()), before.best.BlockNo(), tk(after.best.BlockHash()), after.best.BlockNo()), "")
			} else {
				if fno, okf := forkNo(br, before); !okf || fno < s.libNow {
					s.fail("never-displaced-lib", fmt.Sprintf("reorganisation to %s/%d forks at height %d below the LIB %d", tk(after.best.BlockHash()), after.best.BlockNo(), fno, s.libNow), "")
				}
				// (c) abandoned transactions are offered back to the pool, exactly those
				oldOnly := map[string]bool{}
				for _, ob := range before.path {
					if after.onMain[string(ob.BlockHash())] != nil {
						break
					}
					for _, t := range ob.GetBody().GetTxs() {
						oldOnly[tk(t.Hash)] = true
					}
				}
				for _, nbk := range after.path {
					if before.onMain[string(nbk.BlockHash())] != nil {
						break
					}
					for _, t := range nbk.GetBody().GetTxs() {
						delete(oldOnly, tk(t.Hash))
					}
				}
				var want []string
				for t := range oldOnly {
					want = append(want, t)
				}
				sort.Strings(want)
				got := append([]string{}, s.n.puts...)
				sort.Strings(got)
				if strings.Join(want, ",") != strings.Join(got, ",") {
					s.fail("reoffered", fmt.Sprintf("transactions only on the abandoned branch: [%s]; offered back to the pool: [%s]", strings.Join(want, ","), strings.Join(got, ",")), "")
				}
				// (c') the real transaction pool was fed the chain service's MemPoolDel / MemPoolPut messages in the order they
				// were sent: every transaction offered back that can still execute on the new branch (its nonce is above its
				// sender's in the new best state) must now be in the pool, none that cannot
				if s.n.mp != nil && bytes.Equal(after.root, after.best.GetHeader().GetBlocksRootHash()) {
					sdb := s.n.cs.SDB().OpenNewStateDB(after.root)
					for _, ob := range before.path {
						if after.onMain[string(ob.BlockHash())] != nil {
							break
						}
						for _, t := range ob.GetBody().GetTxs() {
							if !oldOnly[tk(t.Hash)] {
								continue
							}
							acc, err := state.GetAccountState(t.GetBody().GetAccount(), sdb)
							if err != nil {
								continue
							}
							alive := t.GetBody().GetNonce() > acc.Nonce()
							in := s.n.mp.VerifExist(t.Hash) != nil
							switch {
							case alive && in:
								s.e.run.Count("pool:reoffered-transaction-accepted")
							case alive && !in:
								s.fail("reoffered-pool", fmt.Sprintf("transaction %s (nonce %d, sender nonce %d on the new branch) was only on the abandoned branch and can still execute, but the transaction pool does not hold it (pool's answer to MemPoolPut: %v)",
									tk(t.Hash), t.GetBody().GetNonce(), acc.Nonce(), s.n.putErr[tk(t.Hash)]), "")
							case !alive && in:
								s.fail("reoffered-pool", fmt.Sprintf("transaction %s (nonce %d <= sender nonce %d on the new branch) can never execute again but sits in the transaction pool", tk(t.Hash), t.GetBody().GetNonce(), acc.Nonce()), "")
							default:
								s.e.run.Count("pool:reoffered-transaction-obsolete-refused")
							}
						}
					}
				}
				// (d) the state is exactly the execution of the new branch
				s.referenceCheck("after the reorganisation")
			}
		}
	} else if len(s.n.puts) > 0 {
		s.fail("reoffered", "transactions were offered back to the pool although the best block did not change", "")
	}
	_ = g
}

// hasInvalidDescendant: some block that was offered to the node descends from x through an invalid block (itself or a
// block between): the history shape of the known finding (the invalid block was resolved as an orphan while x's branch
// was being connected, the whole arrival failed, x's branch was not adopted).
func (s *session) hasInvalidDescendant(x *mblock) bool {
	for d := range s.offered {
		inv := false
		for a := d; a != nil && a != x; a = a.parent {
			if a.kind != kValid || a.altered {
				inv = true
			}
			if a.parent == x && inv {
				return true
			}
		}
	}
	return false
}

// referenceCheck: a node that only ever sees the main chain of the node under test, in order, must end with the same
// best block, the same state root and the same account states.
func (s *session) referenceCheck(when string) {
	sn := s.snapshot()
	if !sn.whole || len(sn.path) < 2 {
		return
	}
	s.e.run.Count("reference-node-runs")
	ref := s.e.w.newNode(100, 128)
	defer ref.close()
	for i := len(sn.path) - 2; i >= 0; i-- {
		if cls, _ := ref.add(sn.path[i]); cls != "ok" {
			s.fail("reorg-exact-ref", fmt.Sprintf("%s: a fresh node that is offered only the main chain refuses its block at height %d (%s)", when, sn.path[i].BlockNo(), cls), "")
			return
		}
	}
	rb, _ := ref.cs.GetBestBlock()
	if !bytes.Equal(rb.BlockHash(), sn.best.BlockHash()) {
		s.fail("reorg-exact-best", fmt.Sprintf("%s: reference node's best %s/%d != node's best %s/%d", when, tk(rb.BlockHash()), rb.BlockNo(), tk(sn.best.BlockHash()), sn.best.BlockNo()), "")
		return
	}
	if !bytes.Equal(ref.cs.SDB().GetRoot(), sn.root) {
		s.fail("reorg-exact-root", fmt.Sprintf("%s: state root %s != state root %s of a node that executed only the winning branch", when, tk(sn.root), tk(ref.cs.SDB().GetRoot())), "")
		return
	}
	a := s.n.cs.SDB().OpenNewStateDB(sn.root)
	r := ref.cs.SDB().OpenNewStateDB(ref.cs.SDB().GetRoot())
	for i, addr := range s.e.w.addrs {
		x, e1 := state.GetAccountState(addr, a)
		y, e2 := state.GetAccountState(addr, r)
		if e1 != nil || e2 != nil || x.Nonce() != y.Nonce() || x.Balance().Cmp(y.Balance()) != 0 {
			s.fail("reorg-exact-state", fmt.Sprintf("%s: account %d differs from the reference node (errors %v %v)", when, i, e1, e2), "")
			return
		}
	}
}
