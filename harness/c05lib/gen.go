package c05lib

import (
	"fmt"
	"path/filepath"
	"sort"
	"strings"

	"github.com/aergoio/aergo/v2/config"
	"github.com/aergoio/aergo/v2/zz_verif/vh"
	"github.com/rs/zerolog"
)

// spec: one block of a tree: parent index (-1 = genesis), kind, number of transactions
type spec struct {
	parent int
	kind   kind
	ntx    int
}

// specOpt: optional placement of transactions for one block of a tree
type specOpt struct {
	senders []int // senders of the fresh transactions (nil: any)
	reuse   []int // earlier blocks (indices) whose transactions this block takes over as far as the nonces fit
}

func (e *env) build(prefix string, specs []spec) []*mblock { return e.buildOpt(prefix, specs, nil) }

func (e *env) buildOpt(prefix string, specs []spec, opts map[int]specOpt) []*mblock {
	out := make([]*mblock, len(specs))
	for i, sp0 := range specs {
		sp := struct {
			spec
			specOpt
		}{sp0, opts[i]}
		par := e.p.gen
		if sp.parent >= 0 {
			par = out[sp.parent]
		}
		e.p.senders, e.p.want = sp.senders, nil
		for _, r := range sp.reuse {
			e.p.want = append(e.p.want, out[r].txs...)
		}
		out[i] = e.p.make(fmt.Sprintf("%s%d", prefix, i), par, sp.ntx, sp.kind)
		e.p.senders, e.p.want = nil, nil
	}
	return out
}

func (e *env) ntx() int {
	// mostly 1..3 transactions (blocks without transactions all share their parent's state root)
	switch e.rng.Intn(10) {
	case 0:
		return 0
	case 1, 2, 3, 4:
		return 1
	case 5, 6, 7:
		return 2
	default:
		return 3
	}
}

func perms(n int) [][]int {
	if n == 0 {
		return [][]int{{}}
	}
	var out [][]int
	for _, p := range perms(n - 1) {
		for i := 0; i <= len(p); i++ {
			q := append(append(append([]int{}, p[:i]...), n-1), p[i:]...)
			out = append(out, q)
		}
	}
	return out
}

// canon: canonical form of the rooted tree given by parent indices (AHU encoding)
func canon(par []int) string {
	kids := make([][]int, len(par)+1)
	for i, p := range par {
		kids[p+1] = append(kids[p+1], i+1)
	}
	var enc func(v int) string
	enc = func(v int) string {
		var cs []string
		for _, c := range kids[v] {
			cs = append(cs, enc(c))
		}
		sort.Strings(cs)
		return "(" + strings.Join(cs, "") + ")"
	}
	return enc(0)
}

// shapes: one parent array per unordered rooted tree with n non-root nodes (parent[i] < i)
func shapes(n int) [][]int {
	seen := map[string]bool{}
	var out [][]int
	var rec func(par []int)
	rec = func(par []int) {
		if len(par) == n {
			c := canon(par)
			if !seen[c] {
				seen[c] = true
				out = append(out, append([]int{}, par...))
			}
			return
		}
		for p := -1; p < len(par); p++ {
			rec(append(par, p))
		}
	}
	rec(nil)
	return out
}

var invalidKinds = []kind{kBadRoot, kBadTx, kCons, kBadTxRoot, kBadRcpt, kBadSig}

// famSmall: every tree shape with n blocks, with no invalid block or one invalid block at each position, delivered in
// every order (maxOrders < 0) or in maxOrders sampled orders.
func (e *env) famSmall(n int, maxOrders int) int {
	count := 0
	all := perms(n)
	for si, par := range shapes(n) {
		for inv := -1; inv < n; inv++ {
			specs := make([]spec, n)
			for i := range specs {
				specs[i] = spec{parent: par[i], kind: kValid, ntx: 1 + (i+si)%2}
			}
			if inv >= 0 {
				specs[inv].kind = invalidKinds[(si+inv)%len(invalidKinds)]
			}
			blocks := e.build(fmt.Sprintf("s%d.%d.", n, si), specs)
			orders := all
			if maxOrders >= 0 && len(all) > maxOrders {
				orders = nil
				for k := 0; k < maxOrders; k++ {
					orders = append(orders, all[e.rng.Intn(len(all))])
				}
			}
			for _, o := range orders {
				e.runScenario(&scenario{name: fmt.Sprintf("small%d/shape%d/inv%d", n, si, inv), blocks: blocks, arrivals: o})
				count++
			}
		}
	}
	return count
}

// order helpers
func (e *env) shuffled(n int) []int {
	o := make([]int, n)
	for i := range o {
		o[i] = i
	}
	for i := n - 1; i > 0; i-- {
		j := e.rng.Intn(i + 1)
		o[i], o[j] = o[j], o[i]
	}
	return o
}

// mostlyInOrder: creation order (parents first) with a few displacements and duplicates
func (e *env) mostlyInOrder(n int) []int {
	o := make([]int, n)
	for i := range o {
		o[i] = i
	}
	for k := e.rng.Intn(1 + n/2); k > 0; k-- {
		i, j := e.rng.Intn(n), e.rng.Intn(n)
		o[i], o[j] = o[j], o[i]
	}
	for k := e.rng.Intn(3); k > 0; k-- {
		at := e.rng.Intn(len(o) + 1)
		o = append(o[:at], append([]int{e.rng.Intn(n)}, o[at:]...)...)
	}
	return o
}

// famRandom: random trees with up to maxBlocks blocks and at most 4 branches, invalid blocks, duplicates, LIB moves,
// small orphan pool / errored-blocks cache.
func (e *env) famRandom(maxBlocks int) {
	n := 3 + e.rng.Intn(maxBlocks-2)
	specs := make([]spec, 0, n)
	tips := []int{-1} // current branch tips
	for i := 0; i < n; i++ {
		var par int
		switch {
		case len(tips) < 4 && i > 0 && e.rng.Chance(1, 5):
			par = e.rng.Intn(i+1) - 1 // fork anywhere
			tips = append(tips, i)
		default:
			t := e.rng.Intn(len(tips))
			if e.rng.Chance(2, 3) {
				t = 0
			}
			par = tips[t]
			tips[t] = i
		}
		k := kValid
		if e.rng.Chance(1, 8) {
			k = kind(1 + e.rng.Intn(int(nKinds)-1))
		}
		specs = append(specs, spec{parent: par, kind: k, ntx: e.ntx()})
	}
	blocks := e.build("r", specs)
	sc := &scenario{name: "random", blocks: blocks, lib: map[int]uint64{}}
	switch e.rng.Intn(4) {
	case 0:
		sc.arrivals = e.shuffled(n)
	default:
		sc.arrivals = e.mostlyInOrder(n)
	}
	if e.rng.Chance(1, 4) {
		sc.orphanCap = 1 + e.rng.Intn(3)
	}
	if e.rng.Chance(1, 4) {
		sc.badCap = 1 + e.rng.Intn(2)
	}
	if e.rng.Chance(1, 3) {
		sc.lib[e.rng.Intn(len(sc.arrivals))] = uint64(e.rng.Intn(4))
	}
	if e.rng.Chance(1, 3) {
		// some arrivals come from the node's own block factory (taken when the block extends the best block at that moment)
		sc.own = map[int]bool{}
		for i := range sc.arrivals {
			if e.rng.Chance(1, 3) {
				sc.own[i] = true
			}
		}
	}
	if e.rng.Chance(1, 6) {
		// an altered copy of some block (same identifier) arrives somewhere
		v := e.rng.Intn(n)
		sc.blocks = append(sc.blocks, e.p.alter(blocks[v], e.rng.Intn(nAlter)))
		at := e.rng.Intn(len(sc.arrivals) + 1)
		sc.arrivals = append(sc.arrivals[:at], append([]int{n}, sc.arrivals[at:]...)...)
	}
	e.runScenario(sc)
}

// interleavings of two sequences keeping each one's internal order
func interleavings(a, b []int) [][]int {
	if len(a) == 0 {
		return [][]int{append([]int{}, b...)}
	}
	if len(b) == 0 {
		return [][]int{append([]int{}, a...)}
	}
	var out [][]int
	for _, r := range interleavings(a[1:], b) {
		out = append(out, append([]int{a[0]}, r...))
	}
	for _, r := range interleavings(a, b[1:]) {
		out = append(out, append([]int{b[0]}, r...))
	}
	return out
}

func seq(from, n int) []int {
	o := make([]int, n)
	for i := range o {
		o[i] = from + i
	}
	return o
}

func rev(a []int) []int {
	o := make([]int, len(a))
	for i := range a {
		o[len(a)-1-i] = a[i]
	}
	return o
}

// famTwoBranches: common prefix of length depth, main branch of m blocks and side branch of s blocks above it, an invalid
// block at position inv of the side branch (-1: none), delivered in every interleaving (side branch in order and
// children-first), optionally followed by a valid child of the old main tip and by a valid extension of the side prefix.
func (e *env) famTwoBranches(depth, m, s, inv int, invKind kind, maxOrders int, lib int) {
	var specs []spec
	for i := 0; i < depth; i++ {
		specs = append(specs, spec{parent: i - 1, kind: kValid, ntx: e.ntx()})
	}
	mainFrom := len(specs)
	for i := 0; i < m; i++ {
		par := len(specs) - 1
		if i == 0 {
			par = depth - 1
		}
		specs = append(specs, spec{parent: par, kind: kValid, ntx: 1 + e.rng.Intn(2)})
	}
	sideFrom := len(specs)
	for i := 0; i < s; i++ {
		par := len(specs) - 1
		if i == 0 {
			par = depth - 1
		}
		k := kValid
		if i == inv {
			k = invKind
		}
		specs = append(specs, spec{parent: par, kind: k, ntx: 1 + e.rng.Intn(2)})
	}
	// follow-ups: a valid child of the main tip; a valid sibling replacing the invalid side block (re-opens the side branch)
	next := len(specs)
	specs = append(specs, spec{parent: sideFrom - 1, kind: kValid, ntx: 1})
	if inv >= 0 {
		par := sideFrom + inv - 1
		if inv == 0 {
			par = depth - 1
		}
		specs = append(specs, spec{parent: par, kind: kValid, ntx: 1})
		specs = append(specs, spec{parent: len(specs) - 1, kind: kValid, ntx: 1})
		specs = append(specs, spec{parent: len(specs) - 1, kind: kValid, ntx: 1})
	}
	blocks := e.build(fmt.Sprintf("t%d.%d.%d.", depth, m, s), specs)
	prefix := seq(0, depth)
	mainSeq, sideSeq := seq(mainFrom, m), seq(sideFrom, s)
	tail := seq(next, len(specs)-next)
	var orders [][]int
	for _, il := range interleavings(mainSeq, sideSeq) {
		orders = append(orders, il)
	}
	for _, il := range interleavings(mainSeq, rev(sideSeq)) {
		orders = append(orders, il)
	}
	for _, il := range interleavings(rev(mainSeq), sideSeq) {
		orders = append(orders, il)
	}
	for _, il := range interleavings(rev(mainSeq), rev(sideSeq)) {
		orders = append(orders, il)
	}
	if maxOrders > 0 && len(orders) > maxOrders {
		var pick [][]int
		for k := 0; k < maxOrders; k++ {
			pick = append(pick, orders[e.rng.Intn(len(orders))])
		}
		orders = pick
	}
	for _, o := range orders {
		arr := append(append(append([]int{}, prefix...), o...), tail...)
		sc := &scenario{name: fmt.Sprintf("two-branch/d%d-m%d-s%d-inv%d", depth, m, s, inv), blocks: blocks, arrivals: arr, lib: map[int]uint64{}}
		if lib >= 0 {
			sc.lib[depth] = uint64(lib)
		}
		e.runScenario(sc)
	}
}

// famSharedHigh: transactions that are on both branches, placed at a chosen height of the new branch — in particular
// above the old best height (the new branch is longer by `extra` >= 1): prefix of `depth` blocks, main branch of m blocks
// (senders 0,1), side branch of m+extra blocks whose block `at` takes over the transactions of the first `share` main
// blocks (the other side blocks use senders 2,3, so the nonces fit); main-branch transactions not taken over are only
// on the abandoned branch. Delivered main first then side in order, side children-first, and interleaved.
func (e *env) famSharedHigh(depth, m, extra, at, share int) {
	var specs []spec
	opts := map[int]specOpt{}
	for i := 0; i < depth; i++ {
		specs = append(specs, spec{parent: i - 1, kind: kValid, ntx: e.ntx()})
	}
	mainFrom := len(specs)
	for i := 0; i < m; i++ {
		par := len(specs) - 1
		if i == 0 {
			par = depth - 1
		}
		opts[len(specs)] = specOpt{senders: []int{0, 1}}
		specs = append(specs, spec{parent: par, kind: kValid, ntx: 1 + e.rng.Intn(2)})
	}
	sideFrom := len(specs)
	s := m + extra
	for i := 0; i < s; i++ {
		par := len(specs) - 1
		if i == 0 {
			par = depth - 1
		}
		o := specOpt{senders: []int{2, 3}}
		if i == at {
			o.reuse = seq(mainFrom, share)
		}
		opts[len(specs)] = o
		specs = append(specs, spec{parent: par, kind: kValid, ntx: e.rng.Intn(2)})
	}
	blocks := e.buildOpt(fmt.Sprintf("h%d.%d.%d.%d.", depth, m, extra, at), specs, opts)
	prefix, mainSeq, sideSeq := seq(0, depth), seq(mainFrom, m), seq(sideFrom, s)
	ils := interleavings(mainSeq, sideSeq)
	orders := [][]int{append(append([]int{}, mainSeq...), sideSeq...), append(append([]int{}, mainSeq...), rev(sideSeq)...),
		ils[e.rng.Intn(len(ils))]}
	for _, o := range orders {
		e.runScenario(&scenario{name: fmt.Sprintf("shared-high/d%d-m%d-x%d-at%d-sh%d", depth, m, extra, at, share), blocks: blocks,
			arrivals: append(append([]int{}, prefix...), o...)})
	}
}

func (e *env) famSharedHighAll(maxDepth, maxMain, maxExtra int) {
	for depth := 0; depth <= maxDepth; depth++ {
		for m := 1; m <= maxMain; m++ {
			for extra := 1; extra <= maxExtra; extra++ {
				for at := 0; at < m+extra; at++ {
					e.famSharedHigh(depth, m, extra, at, 1+e.rng.Intn(m))
				}
			}
		}
	}
}

// famThreeBranches: three branches from a common prefix (the third forks from the first or the second branch),
// random lengths, random interleaving or shuffle.
func (e *env) famThreeBranches() {
	depth := e.rng.Intn(3)
	var specs []spec
	for i := 0; i < depth; i++ {
		specs = append(specs, spec{parent: i - 1, kind: kValid, ntx: e.ntx()})
	}
	var starts, lens []int
	for b := 0; b < 3; b++ {
		l := 1 + e.rng.Intn(4)
		par := depth - 1
		if b == 2 && e.rng.Bool() {
			// fork from inside an earlier branch
			w := e.rng.Intn(2)
			par = starts[w] + e.rng.Intn(lens[w])
		}
		starts = append(starts, len(specs))
		lens = append(lens, l)
		inv := -1
		if e.rng.Chance(1, 3) {
			inv = e.rng.Intn(l)
		}
		for i := 0; i < l; i++ {
			k := kValid
			if i == inv {
				k = invalidKinds[e.rng.Intn(len(invalidKinds))]
			}
			p := len(specs) - 1
			if i == 0 {
				p = par
			}
			specs = append(specs, spec{parent: p, kind: k, ntx: 1 + e.rng.Intn(2)})
		}
	}
	blocks := e.build("y", specs)
	var arr []int
	if e.rng.Chance(1, 3) {
		arr = e.shuffled(len(specs))
	} else {
		ils := interleavings(seq(starts[0], lens[0]), seq(starts[1], lens[1]))
		a := ils[e.rng.Intn(len(ils))]
		third := seq(starts[2], lens[2])
		if e.rng.Bool() {
			third = rev(third)
		}
		// insert the third branch's blocks at random places keeping their order
		for _, t := range third {
			at := e.rng.Intn(len(a) + 1)
			a = append(a[:at], append([]int{t}, a[at:]...)...)
		}
		arr = append(seq(0, depth), a...)
	}
	sc := &scenario{name: "three-branch", blocks: blocks, arrivals: arr, lib: map[int]uint64{}}
	if e.rng.Chance(1, 4) {
		sc.lib[e.rng.Intn(len(arr))] = uint64(e.rng.Intn(depth + 2))
	}
	e.runScenario(sc)
}

// famLead5: an altered copy of a block carrying the genuine identifier, then the genuine block (DESIGN §5 lead 5);
// on the main chain, on a side branch, and parked as an orphan.
func (e *env) famLead5() {
	for how := 0; how < nAlter; how++ {
		// main chain: a0 a1 | altered a2, genuine a2, a3
		bl := e.build("m", []spec{{-1, kValid, 1}, {0, kValid, 2}, {1, kValid, 2}, {2, kValid, 1}})
		alt := e.p.alter(bl[2], how)
		blocks := append(bl, alt)
		e.runScenario(&scenario{name: "lead5/main", blocks: blocks, arrivals: []int{0, 1, 4, 2, 3}})
		e.runScenario(&scenario{name: "lead5/main-twice", blocks: blocks, arrivals: []int{0, 1, 4, 4, 2, 4, 3}})
		// side branch: main a0 a1; side b0 (altered first), b1, b2 -> the side branch would win
		bl = e.build("q", []spec{{-1, kValid, 1}, {0, kValid, 1}, {-1, kValid, 1}, {2, kValid, 1}, {3, kValid, 1}})
		alt = e.p.alter(bl[2], how)
		blocks = append(bl, alt)
		e.runScenario(&scenario{name: "lead5/side", blocks: blocks, arrivals: []int{0, 1, 5, 2, 3, 4}})
		// orphan: the altered copy is parked first, the genuine block arrives (slot taken), then the parent
		bl = e.build("o", []spec{{-1, kValid, 1}, {0, kValid, 1}, {1, kValid, 1}})
		alt = e.p.alter(bl[1], how)
		blocks = append(bl, alt)
		e.runScenario(&scenario{name: "lead5/orphan", blocks: blocks, arrivals: []int{3, 1, 0, 1, 2}})
	}
}

// famNumbers: blocks whose number is not their parent's + 1 (as child of the best block, on a side branch, as orphan)
func (e *env) famNumbers() {
	for _, k := range []kind{kNoPlus, kNoSame, kNoZero} {
		bl := e.build("n", []spec{{-1, kValid, 1}, {0, kValid, 1}, {1, k, 1}, {1, kValid, 1}, {3, kValid, 1}})
		e.runScenario(&scenario{name: "numbers/child-of-best", blocks: bl, arrivals: []int{0, 1, 2, 3, 4}})
		bl = e.build("n", []spec{{-1, kValid, 1}, {0, kValid, 1}, {-1, k, 1}, {2, kValid, 1}, {3, kValid, 1}, {4, kValid, 1}})
		e.runScenario(&scenario{name: "numbers/side", blocks: bl, arrivals: []int{0, 1, 2, 3, 4, 5}})
		e.runScenario(&scenario{name: "numbers/side-orphans", blocks: bl, arrivals: []int{0, 1, 5, 4, 3, 2}})
		bl = e.build("n", []spec{{-1, kValid, 1}, {0, k, 1}, {1, kValid, 1}})
		e.runScenario(&scenario{name: "numbers/orphan", blocks: bl, arrivals: []int{1, 2, 0, 1}})
	}
}

// famPools: the orphan pool at its capacity (oldest evicted, one slot per parent) and the errored-blocks cache at its
// capacity (eviction, re-offering an evicted block, recency refreshed by a lookup).
func (e *env) famPools() {
	// chain a0..a5 and a sibling of a3; orphans arrive top-down with capacity 2
	bl := e.build("p", []spec{{-1, kValid, 1}, {0, kValid, 1}, {1, kValid, 1}, {2, kValid, 1}, {3, kValid, 1}, {4, kValid, 1}, {2, kValid, 2}})
	for _, cap := range []int{1, 2, 3} {
		e.runScenario(&scenario{name: "pools/orphan-cap", blocks: bl, orphanCap: cap, arrivals: []int{5, 4, 3, 6, 2, 1, 0, 1, 2, 3, 4, 5}})
		e.runScenario(&scenario{name: "pools/orphan-cap", blocks: bl, orphanCap: cap, arrivals: []int{3, 6, 6, 3, 5, 0, 1, 2, 4}})
	}
	// errored-blocks cache: three invalid children of a0, capacity 1 and 2, re-offered
	bl = e.build("e", []spec{{-1, kValid, 1}, {0, kBadRoot, 1}, {0, kBadTx, 1}, {0, kCons, 1}, {0, kValid, 1}})
	for _, cap := range []int{1, 2} {
		e.runScenario(&scenario{name: "pools/bad-cap", blocks: bl, badCap: cap, arrivals: []int{0, 1, 2, 1, 3, 1, 2, 3, 4, 1}})
		e.runScenario(&scenario{name: "pools/bad-cap", blocks: bl, badCap: cap, arrivals: []int{0, 1, 2, 2, 1, 3, 2, 1}})
	}
}

// famOwn: the node's own-block path (message.AddBlock with a block state: usedBState != nil): a producing node extends
// its chain with its own blocks, receives the same block again, produces on a stale best block, produces a block the
// consensus refuses / whose header does not match the produced state, and is reorganised away from its own blocks by a
// longer branch from the network (own transactions offered back), then produces on top of the adopted branch.
func (e *env) famOwn() {
	ownAt := func(steps ...int) map[int]bool {
		m := map[int]bool{}
		for _, x := range steps {
			m[x] = true
		}
		return m
	}
	for rep := 0; rep < 2; rep++ {
		// o0 o1 o2 own; o1 again from the network; side branch b0..b3 from genesis (longer) from the network; o3 (child of o2) is
		// produced too late (stale); c0 own on top of b3
		bl := e.build("w", []spec{{-1, kValid, 1 + rep}, {0, kValid, 2}, {1, kValid, 1}, {-1, kValid, 1}, {3, kValid, 2}, {4, kValid, 1}, {5, kValid, 1},
			{2, kValid, 1}, {6, kValid, 2}})
		e.runScenario(&scenario{name: "own/chain-reorged-away", blocks: bl, arrivals: []int{0, 1, 2, 1, 3, 4, 5, 6, 7, 8, 8},
			own: ownAt(0, 1, 2, 8, 9)})
		// mixed: network block, own block on top, own block of a stale parent, network sibling wins later
		e.runScenario(&scenario{name: "own/mixed", blocks: bl, arrivals: []int{0, 1, 3, 2, 4, 5, 7, 6, 8}, own: ownAt(1, 3, 6, 8)})
		// own blocks the chain service must refuse: the consensus says no; the header's state root is not the produced one;
		// afterwards a good own block is connected
		for _, k := range []kind{kCons, kBadRoot} {
			bl = e.build("x", []spec{{-1, kValid, 1}, {0, k, 2}, {0, kValid, 1 + rep}, {2, kValid, 1}})
			e.runScenario(&scenario{name: "own/refused-" + k.String(), blocks: bl, arrivals: []int{0, 1, 1, 2, 3}, own: ownAt(0, 1, 2, 3, 4)})
		}
		// children first from the network, then the parent as own block: the orphans parked under an own block are NOT
		// connected by that arrival (the own-block run does not resolve orphans)
		bl = e.build("z", []spec{{-1, kValid, 1}, {0, kValid, 1}, {1, kValid, 1}, {2, kValid, 1}})
		e.runScenario(&scenario{name: "own/orphans-under-own-block", blocks: bl, arrivals: []int{0, 2, 3, 1, 2, 3}, own: ownAt(0, 3)})
	}
}

// famDeploys: contract deployments whose constructor emits events, fails inside the VM (ERROR receipt, still included) or
// reports internal operations, on both branches of a reorganisation that is carried out and of one that fails half-way
// (the side blocks executed before the failure keep their receipts on disk: they must not be served).
func (e *env) famDeploys(n int) {
	e.p.deploys = 2
	defer func() { e.p.deploys = 0 }()
	for i := 0; i < n; i++ {
		s := 2 + e.rng.Intn(3)
		inv := -1
		if e.rng.Chance(1, 2) {
			inv = 1 + e.rng.Intn(s-1) // not the first side block: at least one side block executes before the failure
		}
		e.famTwoBranches(e.rng.Intn(2), 1+e.rng.Intn(2), s, inv, []kind{kBadRoot, kBadTx, kBadRcpt}[e.rng.Intn(3)], 3, -1)
	}
}

// famDeep: a reorganisation deeper than the initial capacity of the reorganizer's block slices (initBlkCount = 20): main
// chain of n blocks, side branch of n+2 blocks from genesis, delivered in order and children first (one long parked chain).
func (e *env) famDeep(n int) {
	var specs []spec
	for i := 0; i < n; i++ {
		specs = append(specs, spec{parent: i - 1, kind: kValid, ntx: 1})
	}
	for i := 0; i < n+2; i++ {
		par := len(specs) - 1
		if i == 0 {
			par = -1
		}
		specs = append(specs, spec{parent: par, kind: kValid, ntx: 1})
	}
	blocks := e.build("deep", specs)
	e.runScenario(&scenario{name: "deep/in-order", blocks: blocks, arrivals: seq(0, 2*n+2)})
	e.runScenario(&scenario{name: "deep/children-first", blocks: blocks, arrivals: append(seq(0, n), rev(seq(n, n+2))...)})
}

// famSigRegression: regression case of the stale signature-verification result (recorded under C04, fixed in /repo by
// 4499f0c6): a block whose transaction fails to execute, then a block with a transaction whose signature does not
// verify: the second one must be refused (the model says so: it never executes), and a valid block after it accepted.
func (e *env) famSigRegression() {
	bl := e.build("g", []spec{{-1, kBadTx, 2}, {-1, kBadSig, 1}, {-1, kValid, 1}, {2, kValid, 1}, {3, kBadSig, 2}, {3, kValid, 1}})
	e.runScenario(&scenario{name: "sig-regression", blocks: bl, arrivals: []int{0, 1, 2, 3, 4, 5}})
	e.runScenario(&scenario{name: "sig-regression", blocks: bl, arrivals: []int{1, 0, 1, 2, 4, 3, 5}})
}

func Main(prop string) {
	zerolog.SetGlobalLevel(zerolog.Disabled)
	name := strings.ToLower(prop)
	run := vh.Start(name, "an arrival is non-trivial when the block was accepted (connected, stored on a side branch, parked, or reorganised to); an observation always is")
	rng := run.Rng
	w := newWorld(filepath.Join(run.Out, "nodes"), config.AllEnabledHardforkConfig)
	e := &env{run: run, prop: prop, w: w, rng: rng, reported: map[string]int{}}
	// NewChainService sets the process-wide execution parameters (zero fee on a private net, governance,
	// system parameters): create one node before the producer executes anything
	w.newNode(100, 128).close()
	e.p = w.newProducer(rng.Fork())

	e.famLead5()
	e.famSigRegression()
	e.famNumbers()
	e.famPools()
	if prop == "C05" || prop == "C07" {
		e.famOwn()
		e.famDeep(run.Pick(22, 30))
		e.famDeploys(run.Pick(12, 60))
		// the same on a chain whose hardforks come one after the other (receipts of the blocks below the V2 height are
		// stored in the old encoding, the chain id version changes along every branch)
		e2 := &env{run: run, prop: prop, rng: rng, reported: e.reported}
		e2.w = newWorld(filepath.Join(run.Out, "nodes-staged"), &config.HardforkConfig{V2: 2, V3: 3, V4: 4, V5: 6})
		e2.w.newNode(100, 128).close()
		e2.p = e2.w.newProducer(rng.Fork())
		e2.famOwn()
		e2.famDeploys(run.Pick(8, 40))
		for i := 0; i < run.Pick(10, 50); i++ {
			s := 1 + rng.Intn(4)
			e2.famTwoBranches(rng.Intn(3), 1+rng.Intn(3), s, rng.Intn(s+1)-1, invalidKinds[rng.Intn(len(invalidKinds))], 3, -1)
		}
		for i := 0; i < run.Pick(30, 200); i++ {
			e2.famRandom(run.Pick(10, 16))
		}
		e.sessions += e2.sessions
		run.Count(fmt.Sprintf("sessions-with-staged-hardforks=%d", e2.sessions))
		// back to the first world's parameters (NewChainService sets process-wide ones)
		e.w.newNode(100, 128).close()
	}
	if prop == "C18" {
		// C18, third clause: content that does not hash to the announced identifier is discarded without affecting what
		// the node later accepts: altered copies of a block (every kind of alteration) offered before / between / after the
		// genuine block on the main chain, on a side branch and as orphans; the errored-blocks cache at its capacities.
		for i := 0; i < run.Pick(4, 30); i++ {
			e.famLead5()
		}
	} else if prop == "C03" {
		// C03, block level: a block that fails validation at any point (bad tx, wrong state root, wrong receipts root, ...)
		// leaves the node's state, indexes and best block exactly as they were: every tree of up to 3 (4) blocks with an
		// invalid block at each position, and pairs of branches with an invalid block at each position of the longer one.
		for n := 1; n <= run.Pick(3, 4); n++ {
			e.famSmall(n, -1)
		}
		for i := 0; i < run.Pick(60, 600); i++ {
			s := 1 + rng.Intn(4)
			e.famTwoBranches(rng.Intn(3), 1+rng.Intn(3), s, rng.Intn(s), invalidKinds[rng.Intn(len(invalidKinds))], 4, -1)
		}
	} else if prop == "C05" {
		e.famSharedHighAll(run.Pick(1, 2), run.Pick(2, 3), run.Pick(3, 3))
		// small scope, exhaustively: every tree shape, every arrival order, one invalid block at every position
		for n := 1; n <= run.Pick(4, 5); n++ {
			c := e.famSmall(n, -1)
			run.Count(fmt.Sprintf("exhaustive-trees-%d-blocks-all-orders=%d", n, c))
		}
		// the space "every rooted tree with at most 4 (thorough: 5) blocks x no or one invalid block at each position x
		// every arrival order" has been enumerated completely
		run.SetExhaustive(true)
		e.famSmall(run.Pick(5, 6), run.Pick(3, 15))
		for i := 0; i < run.Pick(60, 400); i++ {
			inv := -1
			s := 1 + rng.Intn(4)
			if rng.Chance(1, 2) {
				inv = rng.Intn(s)
			}
			e.famTwoBranches(rng.Intn(3), 1+rng.Intn(3), s, inv, invalidKinds[rng.Intn(len(invalidKinds))], 4, rng.Intn(4)-2)
		}
		for i := 0; i < run.Pick(150, 1000); i++ {
			e.famThreeBranches()
		}
		for i := 0; i < run.Pick(300, 2500); i++ {
			e.famRandom(run.Pick(10, 25))
		}
	} else {
		// pairs of branches: every fork depth, every length difference -2..+3, an invalid block at every position of the
		// longer branch, every interleaving (quick: sampled)
		e.famSharedHighAll(run.Pick(1, 2), run.Pick(2, 3), run.Pick(3, 3))
		maxDepth, maxMain := run.Pick(2, 4), run.Pick(2, 3)
		for depth := 0; depth <= maxDepth; depth++ {
			for m := 1; m <= maxMain; m++ {
				for diff := -2; diff <= 3; diff++ {
					s := m + diff
					if s < 1 {
						continue
					}
					for inv := -1; inv < s; inv++ {
						k := invalidKinds[(depth+m+s+inv+5)%len(invalidKinds)]
						lib := -1
						if (depth+m+s+inv)%4 == 0 {
							lib = depth + (m+inv+3)%2 // at or just above the fork point
						}
						e.famTwoBranches(depth, m, s, inv, k, run.Pick(6, 40), lib)
					}
				}
			}
		}
		for n := 1; n <= run.Pick(3, 4); n++ {
			e.famSmall(n, -1)
		}
		for i := 0; i < run.Pick(150, 800); i++ {
			e.famThreeBranches()
		}
		for i := 0; i < run.Pick(100, 700); i++ {
			e.famRandom(run.Pick(10, 20))
		}
	}
	run.Count(fmt.Sprintf("sessions=%d", e.sessions))
	run.Finish()
}
