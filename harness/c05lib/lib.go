// Package c05lib: the chain-service harness shared by C05 (chain database consistency) and C07 (fork choice).
// harness/c05/main.go and harness/c07/main.go call Main with the property id; both drive a *real*
// chain.ChainService (memorydb stores, stub consensus, recording hub) with block trees built from real signed
// transfer transactions, print what the node did after every arrival for the Lean model `Aergo.Chain` to be
// compared with, and evaluate the property's own predicate on the node (oracles in oracle.go).
package c05lib

import (
	"context"
	"crypto/sha256"
	"encoding/hex"
	"errors"
	"fmt"
	"math/big"
	"os"
	"path/filepath"
	"sort"
	"strings"
	"time"

	"github.com/aergoio/aergo-actor/actor"
	"github.com/aergoio/aergo/v2/account/key"
	crypto "github.com/aergoio/aergo/v2/account/key/crypto"
	"github.com/aergoio/aergo/v2/chain"
	"github.com/aergoio/aergo/v2/config"
	"github.com/aergoio/aergo/v2/consensus"
	cchain "github.com/aergoio/aergo/v2/consensus/chain"
	"github.com/aergoio/aergo/v2/consensus/impl/dpos"
	"github.com/aergoio/aergo/v2/contract"
	"github.com/aergoio/aergo/v2/contract/system"
	"github.com/aergoio/aergo/v2/internal/enc/proto"
	"github.com/aergoio/aergo/v2/mempool"
	"github.com/aergoio/aergo/v2/pkg/component"
	"github.com/aergoio/aergo/v2/state"
	"github.com/aergoio/aergo/v2/types"
	"github.com/aergoio/aergo/v2/types/message"
	"github.com/aergoio/aergo/v2/zz_verif/vh"
	"github.com/btcsuite/btcd/btcec/v2"
)

// tk: the token of a hash/root in op lines: its first 6 bytes in hex ("-" for empty).
func tk(b []byte) string {
	if len(b) == 0 {
		return "-"
	}
	if len(b) > 6 {
		b = b[:6]
	}
	s := hex.EncodeToString(b)
	if strings.Trim(s, "0") == "" {
		return "-"
	}
	return s
}

func joinOr(l []string) string {
	if len(l) == 0 {
		return "-"
	}
	return strings.Join(l, ",")
}

// ---------------------------------------------------------------- stub consensus (exported interface only)

type stubCons struct {
	cs   *chain.ChainService
	n    *node
	real *dpos.DPoS      // a DPoS object on the node's chain DB: its real IsConnectedBlock answers
	lib  uint64          // NeedReorganization(rootNo) = rootNo >= lib   (dpos.Status.NeedReorganization with a LIB)
	bad  map[string]bool // IsBlockValid fails for these block hashes (shared by every node of the run)
}

func (s *stubCons) SetStateDB(sdb *state.ChainStateDB)      {}
func (s *stubCons) IsTransactionValid(tx *types.Tx) bool    { return true }
func (s *stubCons) VerifyTimestamp(block *types.Block) bool { return true }

// VerifySign: the harness' blocks are unsigned; a copy that carries a signature is one whose signature does not verify
// (alter kind 3: the copy differs from the genuine block only in Header.Sign, which the block hash does not cover).
func (s *stubCons) VerifySign(block *types.Block) error {
	if len(block.GetHeader().GetSign()) != 0 {
		return errors.New("scripted: block signature does not verify")
	}
	return nil
}
func (s *stubCons) IsBlockValid(block *types.Block, best *types.Block) error {
	if s.bad[string(block.BlockHash())] {
		return errors.New("scripted: block refused by the consensus")
	}
	return nil
}

// Update: the calls chain service -> consensus (block executed, rollback to the fork point, restore after a failed
// roll-forward) are recorded in their order among the other messages and compared with the model.
func (s *stubCons) Update(block *types.Block) {
	s.n.updates = append(s.n.updates, tk(block.BlockHash()))
	s.n.msgs = append(s.n.msgs, "u:"+tk(block.BlockHash()))
}
func (s *stubCons) Save(tx consensus.TxWriter) error             { s.n.saves++; return nil }
func (s *stubCons) NeedReorganization(rootNo types.BlockNo) bool { return rootNo >= s.lib }
func (s *stubCons) Info() string                                 { return "" }
func (s *stubCons) GetType() consensus.ConsensusType             { return consensus.ConsensusSBP }
func (s *stubCons) NeedNotify() bool                             { return true }
func (s *stubCons) HasWAL() bool                                 { return false }
func (s *stubCons) IsForkEnable() bool                           { return true }

// the real dpos.DPoS.IsConnectedBlock (dpos.go; sbp.SimpleBlockFactory's is the same function) on the node's chain DB
func (s *stubCons) IsConnectedBlock(block *types.Block) bool { return s.real.IsConnectedBlock(block) }
func (s *stubCons) MakeConfChangeProposal(req *types.MembershipChange) (*consensus.ConfChangePropose, error) {
	return nil, consensus.ErrNotSupportedMethod
}

// ---------------------------------------------------------------- recording component (mempool, rpc, p2p, syncer)

type recorder struct {
	name string
	hub  *component.ComponentHub
	n    *node
}

func (r *recorder) GetName() string                          { return r.name }
func (r *recorder) Start()                                   {}
func (r *recorder) Stop()                                    {}
func (r *recorder) Status() component.Status                 { return component.StartedStatus }
func (r *recorder) SetHub(hub *component.ComponentHub)       { r.hub = hub }
func (r *recorder) Hub() *component.ComponentHub             { return r.hub }
func (r *recorder) MsgQueueLen() int32                       { return 0 }
func (r *recorder) Receive(actor.Context)                    {}
func (r *recorder) Tell(m interface{})                       { r.rec(m) }
func (r *recorder) Request(m interface{}, sender *actor.PID) { r.rec(m) }
func (r *recorder) RequestFuture(m interface{}, timeout time.Duration, tip string) *actor.Future {
	r.rec(m)
	f := actor.NewFuturePrefix("verif", timeout)
	f.PID().Tell(component.ErrHubUnregistered)
	return f
}
func (r *recorder) rec(m interface{}) {
	n := r.n
	switch x := m.(type) {
	case *message.MemPoolPut:
		n.puts = append(n.puts, tk(x.Tx.GetHash()))
		n.msgs = append(n.msgs, "p:"+tk(x.Tx.GetHash()))
		// the real pool takes (or refuses) the transaction now, on the state the earlier messages left it on
		if n.mp != nil {
			err := n.mp.VerifPut(types.NewTransaction(x.Tx))
			n.putErr[tk(x.Tx.GetHash())] = err
		}
	case *message.MemPoolDel:
		n.dels = append(n.dels, tk(x.Block.BlockHash()))
		n.msgs = append(n.msgs, "d:"+tk(x.Block.BlockHash()))
		if n.mp != nil {
			n.mp.VerifBlockArrival(x.Block)
		}
	case *message.SyncStart:
		n.syncs = append(n.syncs, fmt.Sprint(x.TargetNo))
		n.msgs = append(n.msgs, "s:"+fmt.Sprint(x.TargetNo))
	case *message.NotifyNewBlock:
		n.notes = append(n.notes, tk(x.Block.BlockHash()))
		n.msgs = append(n.msgs, "n:"+tk(x.Block.BlockHash()))
	case []*types.Event:
		n.events += len(x)
	}
}

// ---------------------------------------------------------------- world: accounts, genesis, nodes

const nAcct = 4

type world struct {
	keys    []*btcec.PrivateKey
	addrs   [][]byte
	root    string // scratch directory
	nnode   int
	consBad map[string]bool
	tmpl    string // directory holding the two store files of a node initialised with the genesis block
	hf      *config.HardforkConfig // hardfork heights of every node and of the producer
	gblk    *types.Block
}

func newWorld(root string, hf *config.HardforkConfig) *world {
	w := &world{root: root, consBad: map[string]bool{}, hf: hf}
	seed := vh.NewRng(5) // fixed accounts: the same in every run
	for i := 0; i < nAcct; i++ {
		k, _ := btcec.PrivKeyFromBytes(seed.Bytes(32))
		w.keys = append(w.keys, k)
		w.addrs = append(w.addrs, crypto.GenerateAddress(k.PubKey().ToECDSA()))
	}
	os.RemoveAll(root)
	os.MkdirAll(root, 0o755)
	// what `aergosvr init --genesis` does: a Core on the data directory, InitGenesisBlock, Close
	w.tmpl = filepath.Join(root, "tmpl")
	core, err := chain.NewCore("memorydb", w.tmpl, false, 0, &config.DBConfig{})
	if err != nil {
		panic(err)
	}
	if err := core.InitGenesisBlock(w.genesis(), false); err != nil {
		panic(err)
	}
	w.gblk = core.GetGenesisInfo().Block()
	core.Close()
	return w
}

func (w *world) genesis() *types.Genesis {
	g := &types.Genesis{
		ID:        types.ChainID{Version: 0, Magic: "c05.verif", PublicNet: false, MainNet: false, Consensus: "sbp"},
		Timestamp: 1_600_000_000_000_000_000,
		Balance:   map[string]string{},
	}
	for _, a := range w.addrs {
		g.Balance[types.EncodeAddress(a)] = "1000000000000000000000"
	}
	return g
}

func copyFile(src, dst string) {
	b, err := os.ReadFile(src)
	if err != nil {
		panic(err)
	}
	os.MkdirAll(filepath.Dir(dst), 0o755)
	if err := os.WriteFile(dst, b, 0o644); err != nil {
		panic(err)
	}
}

// initDir: a data directory as left by the genesis initialisation (copy of the template's store files).
func (w *world) initDir(dir string) {
	os.RemoveAll(dir)
	for _, sub := range []string{"chain", "state"} {
		copyFile(filepath.Join(w.tmpl, sub, "database"), filepath.Join(dir, sub, "database"))
	}
}

type node struct {
	w       *world
	cs      *chain.ChainService
	cons    *stubCons
	hub     *component.ComponentHub
	mp      *mempool.MemPool // a real transaction pool fed with the chain service's MemPoolDel / MemPoolPut messages
	dir     string
	dels    []string
	puts    []string
	syncs   []string
	notes   []string
	updates []string         // ChainConsensus.Update calls of the current arrival
	msgs    []string         // everything above in the order it was sent
	putErr  map[string]error // what the real pool answered to each MemPoolPut of the current arrival
	saves   int
	events  int
	shifted bool // a sign verification was started and never waited for (results now lag by one block)
}

func (w *world) newNode(orphanCap, badCap int) *node {
	w.nnode++
	n := &node{w: w, dir: filepath.Join(w.root, fmt.Sprintf("n%d", w.nnode)), putErr: map[string]error{}}
	w.initDir(n.dir)
	cfg := config.NewServerContext("", "").GetDefaultConfig().(*config.Config)
	cfg.DbType = "memorydb"
	cfg.DataDir = n.dir
	cfg.Blockchain.NumWorkers = 1
	cfg.Blockchain.VerifierCount = 2
	hf := *w.hf
	cfg.Hardfork = &hf
	chain.DfltOrphanPoolSize = orphanCap
	old := chain.VerifC05SetErrBlocksCap(badCap)
	n.cs = chain.NewChainService(cfg)
	chain.VerifC05SetErrBlocksCap(old)
	chain.DfltOrphanPoolSize = 100
	n.cons = &stubCons{cs: n.cs, n: n, bad: w.consBad, real: &dpos.DPoS{ChainDB: n.cs.CDB()}}
	n.cs.SetChainConsensus(n.cons)
	hub := component.NewComponentHub()
	for _, nm := range []string{message.MemPoolSvc, message.RPCSvc, message.P2PSvc, message.SyncerSvc} {
		hub.Register(&recorder{name: nm, n: n})
	}
	n.hub = hub
	n.cs.SetHub(hub)
	chain.VerifC05SetSkipMempool(n.cs, true) // "sync" mode: signatures verified with the real key.VerifyTx, no mempool lookups
	// the pool: what mempool.AfterStart does (state of the best block); it then follows the chain service's messages
	n.mp = mempool.NewMemPoolService(cfg, n.cs)
	n.mp.SetHub(hub)
	n.mp.VerifInit(w.gblk)
	return n
}

// note remembers whether a sign verification was ever started and not waited for on this node (the execution of a
// block failed before the chain service collected the result): purely an observation of the validator's
// bookkeeping, see shim.
func (n *node) note() {
	if need, _ := chain.VerifC05VerifyState(n.cs); need {
		n.shifted = true
	}
}

// close waits until the sign-verifier goroutines are idle before the node is stopped (stopping closes their channels):
// an un-awaited verification ends by putting its result into the result channel.
func (n *node) close() {
	need, pending := chain.VerifC05VerifyState(n.cs)
	if need || n.shifted {
		limit := 40 // x 50us: on a tree that collects a pending result before the next request nothing is pending here
		if need {
			limit = 4000
		}
		for i := 0; pending != 1 && i < limit; i++ {
			time.Sleep(50 * time.Microsecond)
			_, pending = chain.VerifC05VerifyState(n.cs)
		}
	}
	n.cs.BeforeStop()
	os.RemoveAll(n.dir)
}

func (n *node) reset() {
	n.dels, n.puts, n.syncs, n.notes, n.updates, n.msgs = nil, nil, nil, nil, nil, nil
	n.putErr = map[string]error{}
	n.saves = 0
}

func (n *node) add(b *types.Block) (cls string, msgs string) {
	n.reset()
	err := chain.VerifC05AddBlock(n.cs, b, "peer")
	return n.after(b, err)
}

// addOwn: the block arrives from the node's own block factory together with the block state it was produced on.
func (n *node) addOwn(b *types.Block, bs *state.BlockState) (cls string, msgs string) {
	n.reset()
	err := chain.VerifC05AddOwnBlock(n.cs, b, bs)
	return n.after(b, err)
}

func (n *node) after(b *types.Block, err error) (cls string, msgs string) {
	if err != nil && os.Getenv("VERIF_DEBUG") != "" {
		fmt.Fprintf(os.Stderr, "add %s/%d: %v\n", tk(b.BlockHash()), b.BlockNo(), err)
	}
	n.note()
	var re *chain.ErrReorg
	switch {
	case err == nil:
		cls = "ok"
	case errors.Is(err, chain.ErrBlockCachedErrLRU):
		cls = "cached"
	case errors.As(err, &re):
		cls = "reorg"
	default:
		cls = "err"
	}
	// the messages in the order they were sent; MemPoolPuts come out of a Go map: each run of them is sorted
	seq := append([]string{}, n.msgs...)
	for i := 0; i < len(seq); {
		j := i
		for j < len(seq) && strings.HasPrefix(seq[j], "p:") {
			j++
		}
		if j > i {
			sort.Strings(seq[i:j])
			i = j
		} else {
			i++
		}
	}
	return cls, "msgs=" + joinOr(seq)
}

// ---------------------------------------------------------------- producer

type kind int

const (
	kValid     kind = iota
	kBadRoot        // header claims a state root the execution does not reach
	kBadTx          // a transaction with a nonce that is too high: execution fails
	kBadTxRoot      // TxsRootHash does not match the body
	kBadRcpt        // ReceiptsRootHash does not match
	kCons           // refused by the consensus (IsBlockValid)
	kNoPlus         // block number = parent's + 2
	kNoSame         // block number = parent's
	kNoZero         // block number 0
	nKinds
	kBadSig kind = 100 // a transaction whose signature does not verify (only in the regression family of C04's stale-result defect)
)

var kindName = []string{"valid", "badroot", "badtx", "badtxroot", "badrcpt", "cons", "no+2", "no+0", "no=0"}

func (k kind) String() string {
	if k == kBadSig {
		return "badsig"
	}
	return kindName[k]
}

// mblock: a block plus what the model is told about it
type mblock struct {
	name    string
	blk     *types.Block
	hash    []byte
	no      uint64
	parent  *mblock // nil: child of an unknown block or genesis itself
	kind    kind
	altered bool     // a copy of another block carrying that block's identifier
	pre     []byte   // the state root it was built on
	res     []byte   // the root executing it on pre reaches (nil: execution fails)
	state   []byte   // the state children are built on
	nonces  [nAcct]uint64
	txs     []*types.Tx
	valid   bool // executes on pre, reaches the claimed root, consensus agrees, number = parent's + 1
	sigBad  bool // the consensus refuses the block signature (VerifySign)
	verBad  bool // the fork version in the chain id is not the one the hardfork configuration gives for the block's number
	early   bool // refused by BlockValidator.ValidateBlock (body does not match TxsRootHash): nothing is executed
	opLine  string
	ts      int64
	events  map[string]int // contract address -> events its receipts carry (from the producer's execution)
	iops    string         // internal operations of the block (from the producer's execution)
	nerr    int            // receipts with status ERROR (a transaction that failed inside the VM but is included)
}

func (b *mblock) id() string { return tk(b.hash) }

type producer struct {
	w    *world
	core *chain.Core
	gen  *mblock
	ts   int64
	rng  *vh.Rng
	pool map[[3]uint64][]*types.Tx // (sender, nonce, fork version) -> transactions made so far (for sharing between branches)
	cid  []byte
	seq  int
	// options of the next make: senders allowed for fresh transactions (nil: all), transactions to take over
	senders []int
	want    []*types.Tx
	deploys int // one transaction in `deploys` is a contract deployment (0: transfers only)
}

type stubCcc struct{}

func (stubCcc) MakeConfChangeProposal(req *types.MembershipChange) (*consensus.ConfChangePropose, error) {
	return nil, consensus.ErrNotSupportedMethod
}

func (w *world) newProducer(rng *vh.Rng) *producer {
	dir := filepath.Join(w.root, "producer")
	w.initDir(dir)
	core, err := chain.NewCore("memorydb", dir, false, 0, &config.DBConfig{})
	if err != nil {
		panic(err)
	}
	g := core.GetGenesisInfo()
	gb := g.Block()
	p := &producer{w: w, core: core, ts: g.Timestamp, rng: rng, pool: map[[3]uint64][]*types.Tx{}}
	p.gen = &mblock{name: "G", blk: gb, hash: gb.BlockHash(), no: 0, kind: kValid, valid: true,
		res: gb.GetHeader().GetBlocksRootHash(), state: gb.GetHeader().GetBlocksRootHash()}
	return p
}

func (p *producer) newTx(from, to int, nonce uint64, amount int64, bi *types.BlockHeaderInfo) *types.Tx {
	tx := &types.Tx{Body: &types.TxBody{
		Nonce: nonce, Account: p.w.addrs[from], Recipient: p.w.addrs[to], Amount: big.NewInt(amount).Bytes(),
		GasPrice: big.NewInt(0).Bytes(), Type: types.TxType_TRANSFER, ChainIdHash: bi.ChainIdHash(),
	}}
	key.SignTx(tx, p.w.keys[from])
	// what a peer sends is the protobuf encoding
	if b, err := proto.Encode(tx); err == nil {
		t2 := &types.Tx{}
		if proto.Decode(b, t2) == nil {
			tx = t2
		}
	}
	return tx
}

// newDeploy: a contract deployment; with the scripted VM the payload is the script the constructor runs: it emits
// events, fails inside the VM (the transaction is included with an ERROR receipt), or reports internal operations.
func (p *producer) newDeploy(from int, nonce uint64, script string, bi *types.BlockHeaderInfo) *types.Tx {
	tx := &types.Tx{Body: &types.TxBody{
		Nonce: nonce, Account: p.w.addrs[from], Amount: big.NewInt(0).Bytes(), Payload: []byte(script),
		GasPrice: big.NewInt(0).Bytes(), Type: types.TxType_DEPLOY, ChainIdHash: bi.ChainIdHash(),
	}}
	key.SignTx(tx, p.w.keys[from])
	if b, err := proto.Encode(tx); err == nil {
		t2 := &types.Tx{}
		if proto.Decode(b, t2) == nil {
			tx = t2
		}
	}
	return tx
}

var deployScripts = []string{
	`{"events":2,"sets":[{"k":"a","v":"1"}]}`,
	`{"err":"vm"}`,
	`{"events":1,"iops":"{\"op\":\"call\"}"}`,
	`{"iops":"{\"op\":\"send\"}","sets":[{"k":"b","v":"2"}]}`,
}

// pickTxs: ntx transfers with the right nonces on this branch; a transaction made earlier for the same
// (sender, nonce) is reused one time in three (shared between branches), otherwise a fresh one is made
// (conflicting with the earlier ones).
func (p *producer) pickTxs(parent *mblock, ntx int, bi *types.BlockHeaderInfo, k kind) ([]*types.Tx, [nAcct]uint64) {
	nonces := parent.nonces
	var txs []*types.Tx
	// transactions of other blocks the caller wants on this block too (shared between branches at a chosen height):
	// taken in the given order as far as the sender's nonce fits on this branch
	for _, tx := range p.want {
		from := -1
		for i, a := range p.w.addrs {
			if string(a) == string(tx.Body.Account) {
				from = i
			}
		}
		if from >= 0 && tx.Body.Nonce == nonces[from]+1 {
			txs = append(txs, tx)
			nonces[from]++
		}
	}
	pickFrom := func() int {
		// one time in two prefer a sender whose next nonce already has a transaction on another branch and share it
		if p.rng.Chance(1, 2) {
			var cand []int
			for _, f := range p.sendersOrAll() {
				if len(p.pool[[3]uint64{uint64(f), nonces[f] + 1, uint64(bi.ForkVersion)}]) > 0 {
					cand = append(cand, f)
				}
			}
			if len(cand) > 0 {
				return cand[p.rng.Intn(len(cand))]
			}
		}
		all := p.sendersOrAll()
		return all[p.rng.Intn(len(all))]
	}
	badAt := -1
	if k == kBadTx {
		if ntx == 0 {
			ntx = 1
		}
		badAt = p.rng.Intn(ntx)
	}
	for i := 0; i < ntx; i++ {
		from := pickFrom()
		if i == badAt {
			to := (from + 1 + p.rng.Intn(nAcct-1)) % nAcct
			txs = append(txs, p.newTx(from, to, nonces[from]+3+uint64(p.rng.Intn(3)), 1+int64(p.rng.Intn(9)), bi))
			continue
		}
		nn := nonces[from] + 1
		key := [3]uint64{uint64(from), nn, uint64(bi.ForkVersion)}
		var tx *types.Tx
		if c := p.pool[key]; len(c) > 0 && p.rng.Chance(1, 3) {
			tx = c[p.rng.Intn(len(c))]
		} else {
			to := (from + 1 + p.rng.Intn(nAcct-1)) % nAcct
			p.seq++
			if p.deploys > 0 && p.rng.Chance(1, p.deploys) {
				tx = p.newDeploy(from, nn, deployScripts[p.rng.Intn(len(deployScripts))], bi)
			} else {
				tx = p.newTx(from, to, nn, int64(1+p.seq%997), bi)
			}
			p.pool[key] = append(p.pool[key], tx)
		}
		dup := false
		for _, t := range txs {
			if string(t.Hash) == string(tx.Hash) {
				dup = true
			}
		}
		if dup {
			continue
		}
		txs = append(txs, tx)
		nonces[from] = nn
	}
	return txs, nonces
}

func (p *producer) sendersOrAll() []int {
	if len(p.senders) > 0 {
		return p.senders
	}
	all := make([]int, nAcct)
	for i := range all {
		all[i] = i
	}
	return all
}

// make builds a child of parent of the given kind with ntx transactions, executing them through the real
// transaction executor on the parent's state and committing the resulting state into the producer's store.
func (p *producer) make(name string, parent *mblock, ntx int, k kind) *mblock {
	p.ts += 1000
	bi := types.NewBlockHeaderInfoFromPrevBlock(parent.blk, p.ts, p.w.hf)
	switch k {
	case kNoPlus:
		bi.No = parent.no + 2
	case kNoSame:
		bi.No = parent.no
	case kNoZero:
		bi.No = 0
	}
	sdb := p.core.VerifC05SDB()
	bs := state.NewBlockState(sdb.OpenNewStateDB(parent.state), state.SetPrevBlockHash(parent.hash))
	bs.SetGasPrice(system.GetGasPrice())
	bs.Receipts().SetHardFork(p.w.hf, bi.No)
	txs, nonces := p.pickTxs(parent, ntx, bi, k)
	if k == kBadSig {
		if len(txs) == 0 {
			panic("badsig block needs a transaction")
		}
		t := proto.Clone(txs[0]).(*types.Tx)
		t.Body.Sign[9] ^= 0x40
		t.Hash = t.CalculateTxHash()
		txs[0] = t
	}
	exec := chain.NewTxExecutor(context.Background(), stubCcc{}, nil, bi, contract.ChainService)
	var ferr error
	for _, tx := range txs {
		if err := exec(bs, types.NewTransaction(tx)); err != nil && ferr == nil {
			ferr = err
		}
	}
	if (ferr != nil) != (k == kBadTx) {
		panic(fmt.Sprintf("producer: block %s kind %s: unexpected execution result %v", name, k, ferr))
	}
	if err := bs.Update(); err != nil {
		panic(err)
	}
	if err := bs.Commit(); err != nil {
		panic(err)
	}
	root := append([]byte{}, bs.GetRoot()...)
	blk := types.NewBlock(bi, root, bs.Receipts(), txs, nil, nil)
	m := &mblock{name: name, parent: parent, kind: k, pre: parent.state, state: root, nonces: nonces, txs: txs, no: bi.No, ts: p.ts,
		events: map[string]int{}, iops: bs.InternalOps()}
	for _, r := range bs.Receipts().Get() {
		if r.Status == "ERROR" {
			m.nerr++
		}
		for _, ev := range r.Events {
			m.events[string(ev.ContractAddress)]++
		}
	}
	m.res = root
	switch k {
	case kBadRoot:
		blk.Header.BlocksRootHash = p.rng.Bytes(32)
	case kBadTx:
		m.res = nil
	case kBadTxRoot:
		blk.Header.TxsRootHash = p.rng.Bytes(32)
		m.res = nil
		m.early = true
	case kBadRcpt:
		blk.Header.ReceiptsRootHash = p.rng.Bytes(32)
		m.res = nil
	case kBadSig:
		m.res = nil
	}
	// what a peer sends is the protobuf encoding
	raw, err := proto.Encode(blk)
	if err != nil {
		panic(err)
	}
	blk = &types.Block{}
	if err := proto.Decode(raw, blk); err != nil {
		panic(err)
	}
	m.blk = blk
	m.hash = append([]byte{}, blk.BlockHash()...)
	if k == kCons {
		p.w.consBad[string(m.hash)] = true
	}
	m.valid = parentValid(parent) && k == kValid
	m.verBad = types.DecodeChainIdVersion(blk.GetHeader().GetChainID()) != p.w.hf.Version(blk.BlockNo())
	m.finish()
	return m
}

// produce: the block m (made by the producer in its own store as a child of the node's best block) as the node's own
// block factory produces it: the real BlockGenerator (consensus/chain) gathers m's transactions with the real transaction
// executor on a block state opened on the node's state DB at its best block, exactly as dpos/sbp do; the result must be
// the very block m (same header info, same transactions, same state). ok=false: the node's best block is not m's parent.
// The block state is what travels with the block in message.AddBlock.
func (n *node) produce(m *mblock) (bs *state.BlockState, ok bool) {
	best, err := n.cs.GetBestBlock()
	if err != nil || m.parent == nil || string(best.BlockHash()) != string(m.parent.hash) || m.altered {
		return nil, false
	}
	switch m.kind {
	case kValid, kCons, kBadRoot, kBadRcpt:
		// what a block factory can hand over: its block; a block the consensus then refuses; a header whose state root /
		// receipts root is not the one of the block state that comes with it
	default:
		return nil, false
	}
	bi := types.NewBlockHeaderInfoFromPrevBlock(best, m.ts, n.w.hf)
	bs = n.cs.SDB().NewBlockState(best.GetHeader().GetBlocksRootHash(), state.SetPrevBlockHash(best.BlockHash()))
	bs.SetGasPrice(system.GetGasPrice())
	bs.Receipts().SetHardFork(n.w.hf, bi.No)
	var txs []types.Transaction
	for _, t := range m.txs {
		txs = append(txs, types.NewTransaction(t))
		if n.mp != nil {
			n.mp.VerifPut(types.NewTransaction(t)) // the producer's transactions come out of its pool
		}
	}
	exec := chain.NewTxExecutor(context.Background(), nil, n.cs.CDB(), bi, contract.BlockFactory)
	gen := cchain.NewBlockGenerator(n.hub, context.Background(), bi, bs, cchain.TxOpFn(exec), false).
		WithDeco(func(cchain.FetchFn) cchain.FetchFn {
			return func(component.ICompSyncRequester, uint32) []types.Transaction { return txs }
		})
	blk, err := gen.GenerateBlock()
	if err != nil || blk == nil {
		return nil, false
	}
	if m.kind == kValid && string(blk.BlockHash()) != string(m.hash) {
		panic(fmt.Sprintf("own block differs from the producer's block %s: %s vs %s (%d/%d txs)", m.name, tk(blk.BlockHash()), tk(m.hash),
			len(blk.GetBody().GetTxs()), len(m.txs)))
	}
	return bs, true
}

func parentValid(b *mblock) bool { return b != nil && b.valid }

// alter: a copy of b that carries b's identifier but differs in content (lead 5). how: 0 TxsRootHash tampered,
// 1 last transaction dropped from the body (or a foreign one added), 2 claimed state root tampered, 3 only Header.Sign
// differs (not covered by the block hash; the consensus refuses the signature), 4 same number of transactions, one
// transaction differs in one byte of its body (amount), so the body no longer matches TxsRootHash.
const nAlter = 5

func (p *producer) alter(b *mblock, how int) *mblock {
	c := proto.Clone(b.blk).(*types.Block)
	m := &mblock{name: b.name + "~" + fmt.Sprint(how), parent: b.parent, kind: b.kind, altered: true, pre: b.pre, state: b.state,
		nonces: b.nonces, no: b.no, hash: b.hash, valid: false, ts: b.ts, events: b.events, iops: b.iops, verBad: b.verBad,
		early: b.early, sigBad: b.sigBad} // what is wrong with the original stays wrong with the copy
	m.txs = append([]*types.Tx{}, b.txs...)
	m.res = nil
	switch how {
	case 0:
		c.Header.TxsRootHash = p.rng.Bytes(32)
		m.early = true
	case 1:
		m.early = true
		if len(c.Body.Txs) > 0 {
			c.Body.Txs = c.Body.Txs[:len(c.Body.Txs)-1]
			m.txs = m.txs[:len(m.txs)-1]
		} else {
			c.Header.TxsRootHash = p.rng.Bytes(32)
		}
	case 2:
		c.Header.BlocksRootHash = p.rng.Bytes(32)
		m.res = b.res
	case 3:
		c.Header.Sign = p.rng.Bytes(64)
		m.res = b.res
		m.sigBad = true
	default:
		if n := len(c.Body.Txs); n > 0 {
			t := proto.Clone(c.Body.Txs[n-1]).(*types.Tx)
			amt := append([]byte{}, t.Body.Amount...)
			if len(amt) == 0 {
				amt = []byte{1}
			} else {
				amt[len(amt)-1] ^= 0x01
			}
			t.Body.Amount = amt
			t.Hash = t.CalculateTxHash()
			c.Body.Txs[n-1] = t
			m.txs[n-1] = t
			m.early = true
		} else {
			c.Header.Sign = p.rng.Bytes(64)
			m.res = b.res
			m.sigBad = true
		}
	}
	m.blk = c
	m.finish()
	return m
}

func (b *mblock) finish() {
	h := b.blk.GetHeader()
	raw, _ := proto.Encode(b.blk)
	sum := sha256.Sum256(raw)
	var txs []string
	for _, t := range b.blk.GetBody().GetTxs() {
		txs = append(txs, tk(t.GetHash()))
	}
	cons := "1"
	if b.kind == kCons {
		cons = "0"
	}
	fl := ""
	if b.early {
		fl = "e"
	}
	if b.verBad {
		fl += "v"
	}
	if b.sigBad {
		fl += "s"
	}
	if fl == "" {
		fl = "-"
	}
	b.opLine = fmt.Sprintf("add %s %s %d %s %s %s %s %s %s %s", tk(b.hash), tk(h.GetPrevBlockHash()), h.GetBlockNo(), tk(b.pre), tk(b.res),
		tk(h.GetBlocksRootHash()), cons, tk(sum[:]), joinOr(txs), fl)
}
