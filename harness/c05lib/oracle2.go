package c05lib

import (
	"bytes"
	"fmt"
	"os"
	"sort"
	"strings"

	"github.com/aergoio/aergo/v2/chain"
	"github.com/aergoio/aergo/v2/internal/enc/proto"
	"github.com/aergoio/aergo/v2/types"
)

// ---------------------------------------------------------------- the theorems' hypotheses, checked on every session

// hypotheses: the property theorems (Props/C05, Props/C07) assume (a) identifier honesty — one content per identifier
// among the blocks offered — and (b) ExecLaw for the execution table: a block executes only if its transaction hashes are
// pairwise different and none of them was executed on the way to the state root it runs on. Both are decided here for the
// blocks of the session (independently of the model driver, which decides them again on the same lines: op `law`).
func (s *session) hypotheses() {
	g := s.e.p.gen
	byID := map[string][]byte{}
	raw0, _ := proto.Encode(g.blk)
	byID[g.id()] = raw0
	forged := false
	for _, b := range s.arrived {
		raw, _ := proto.Encode(b.blk)
		if old, ok := byID[b.id()]; ok && !bytes.Equal(old, raw) {
			forged = true
		}
		if _, ok := byID[b.id()]; !ok {
			byID[b.id()] = raw
		}
	}
	s.idsForged = forged
	// ExecLaw: least ghost function over the roots of the table
	type row struct {
		pre, res string
		txs      []string
	}
	var tbl []row
	seen := map[*mblock]bool{}
	ghost := map[string]map[string]bool{}
	for _, b := range s.arrived {
		if seen[b] || b.res == nil {
			continue
		}
		seen[b] = true
		r := row{pre: tk(b.pre), res: tk(b.res)}
		for _, t := range b.blk.GetBody().GetTxs() {
			r.txs = append(r.txs, tk(t.GetHash()))
		}
		tbl = append(tbl, r)
		for _, k := range []string{r.pre, r.res} {
			if ghost[k] == nil {
				ghost[k] = map[string]bool{}
			}
		}
	}
	for changed := true; changed; {
		changed = false
		for _, r := range tbl {
			for t := range ghost[r.pre] {
				if !ghost[r.res][t] {
					ghost[r.res][t] = true
					changed = true
				}
			}
			for _, t := range r.txs {
				if !ghost[r.res][t] {
					ghost[r.res][t] = true
					changed = true
				}
			}
		}
	}
	law := true
	why := ""
	for _, r := range tbl {
		d := map[string]bool{}
		for _, t := range r.txs {
			if d[t] {
				law, why = false, fmt.Sprintf("transaction %s twice in a block that executes on %s", t, r.pre)
			}
			d[t] = true
			if ghost[r.pre][t] {
				law, why = false, fmt.Sprintf("transaction %s executes on state root %s, which was reached by executing it before", t, r.pre)
			}
		}
	}
	ans := "ok"
	switch {
	case forged:
		ans = "ids-forged"
		s.e.run.Count("hypotheses:identifier-honesty-fails(lead5-session)")
	case !law:
		ans = "execlaw-violated"
	default:
		s.e.run.Count("hypotheses:hold")
	}
	s.op("law", ans, true)
	if !law && !forged {
		s.fail("hypothesis-execlaw", "the execution table of this session violates ExecLaw (the nonce rule, C04): "+why, "")
	}
}

// ---------------------------------------------------------------- chain service <-> consensus / transaction pool

// oracleCoupling: what a reorganisation (and every other arrival) does outside the chain DB.
//   - the consensus status is at the best block: the last ChainConsensus.Update of an arrival names the best block
//     (block executed; rollback to the fork point followed by the new blocks; restore after a failed roll-forward);
//   - the consensus status is saved with every change of the best block (cc.Save in connectToChain / swapChainMapping);
//   - the transaction pool stands on the best block's state (every MemPoolDel moves it; after a failed roll-forward the
//     chain service tells it the unchanged best block again, repo commit 245caf14).
func (s *session) oracleCoupling(before, after *snap, b *mblock, cls string) {
	n := s.n
	if len(n.updates) > 0 {
		s.e.run.Eval("coupling:"+b.id()+fmt.Sprint(len(s.ops)), true)
		if last := n.updates[len(n.updates)-1]; last != tk(after.best.BlockHash()) {
			s.fail("consensus-follows-best", fmt.Sprintf("the last ChainConsensus.Update of this arrival was for %s, the best block is %s/%d (updates: %s)",
				last, tk(after.best.BlockHash()), after.best.BlockNo(), strings.Join(n.updates, ",")), "")
		}
	}
	if !bytes.Equal(before.best.BlockHash(), after.best.BlockHash()) {
		if n.saves == 0 {
			s.fail("consensus-status-saved", "the best block changed but the consensus status was not saved (ChainConsensus.Save)", "")
		}
		// a reorganisation first takes the consensus back to the fork point
		if after.onMain[string(before.best.BlockHash())] == nil {
			fork := ""
			for _, x := range after.path {
				if before.onMain[string(x.BlockHash())] != nil {
					fork = tk(x.BlockHash())
					break
				}
			}
			if len(n.updates) == 0 || n.updates[0] != fork {
				s.fail("consensus-rolled-back", fmt.Sprintf("reorganisation with fork point %s: the consensus was not first taken back to it (updates: %s)",
					fork, strings.Join(n.updates, ",")), "")
			}
		}
	}
	if n.mp != nil && bytes.Equal(after.root, after.best.GetHeader().GetBlocksRootHash()) {
		if pr := n.mp.VerifC07StateRoot(); !bytes.Equal(pr, after.root) {
			s.fail("pool-follows-best", fmt.Sprintf("the transaction pool validates against state root %s, the best block %s/%d has %s (answer %s)",
				tk(pr), tk(after.best.BlockHash()), after.best.BlockNo(), tk(after.root), cls), "")
		}
	}
}

// ---------------------------------------------------------------- C05: more of the query surface

// oracleQueries: receipts by block hash only for main-chain blocks; receipts by number = receipts by hash; ERROR
// receipts and events of main-chain blocks as executed; events of abandoned blocks not listed; internal operations.
func (s *session) oracleQueries(sn *snap) {
	if !sn.whole {
		return
	}
	cs := s.n.cs
	for _, h := range s.idHashes {
		if sn.onMain[string(h)] != nil {
			continue
		}
		if s.receiptsByHash(h) {
			s.fail("clause3-receipts-of-abandoned-block", fmt.Sprintf("block %s is not on the main chain but the query receipts-by-block-hash answers with receipts", tk(h)), "")
		}
	}
	wantEv := map[string]int{}
	for _, b := range sn.path {
		raw, _ := proto.Encode(b)
		m := s.byContent[string(raw)]
		txs := b.GetBody().GetTxs()
		if len(txs) > 0 {
			byNo, err := chain.VerifC05GetReceiptsByNo(cs, b.BlockNo())
			byHash, err2 := chain.VerifC05GetReceipts(cs, b.BlockHash())
			if err != nil || err2 != nil || byNo == nil || byHash == nil || len(byNo.Get()) != len(byHash.Get()) || len(byNo.Get()) != len(txs) {
				s.fail("clause4-receipts-by-number", fmt.Sprintf("main-chain block %s/%d: receipts by number and by hash differ or are missing (%v, %v)", tk(b.BlockHash()), b.BlockNo(), err, err2), "")
			} else {
				nerr := 0
				for i, r := range byNo.Get() {
					if !bytes.Equal(r.TxHash, txs[i].Hash) || !bytes.Equal(r.TxHash, byHash.Get()[i].TxHash) {
						s.fail("clause4-receipts-by-number", fmt.Sprintf("main-chain block %s/%d: receipt %d by number is for another transaction", tk(b.BlockHash()), b.BlockNo(), i), "")
					}
					if r.Status == "ERROR" {
						nerr++
					}
				}
				if m != nil && nerr != m.nerr {
					s.fail("clause4-receipt-status", fmt.Sprintf("main-chain block %s/%d: %d receipts with status ERROR, its execution had %d", tk(b.BlockHash()), b.BlockNo(), nerr, m.nerr), "")
				}
			}
		}
		if m == nil {
			continue
		}
		for a, c := range m.events {
			wantEv[a] += c
		}
		if got, err := chain.VerifC05InternalOps(cs, b.BlockNo()); b.BlockNo() > 0 && (err != nil || got != m.iops) {
			// candidate defect (reported to the lead): deleteOldReceipts deletes the height-keyed InternalOps record that
			// roll-forward has just written for the NEW block of that height; counted, not failed
			s.e.run.Count("observation:internal-operations-of-main-chain-block-lost-or-foreign")
			if os.Getenv("VERIF_DEBUG") != "" && !s.failed["iops"] {
				s.failed["iops"] = true
				fmt.Fprintf(os.Stderr, "internal ops of main-chain block %s/%d: want %q got %q (%v)\nreplay: %v\n", m.name, b.BlockNo(), m.iops, got, err, s.replay())
			}
		} else if m.iops != "" {
			s.e.run.Count("internal-operations-of-main-chain-block-served")
		}
	}
	// events: what the node lists for a contract = the events of its main-chain receipts
	addrs := map[string]bool{}
	for _, m := range s.sc.blocks {
		for a := range m.events {
			addrs[a] = true
		}
	}
	var keys []string
	for a := range addrs {
		keys = append(keys, a)
	}
	sort.Strings(keys)
	for _, a := range keys {
		evs, err := chain.VerifC05ListEvents(cs, &types.FilterInfo{ContractAddress: []byte(a), Blockfrom: 0, Blockto: sn.latest})
		if sn.latest == 0 {
			continue // Blockto 0 means "up to the best block" for the query
		}
		if err != nil || len(evs) != wantEv[a] {
			s.fail("clause4-events", fmt.Sprintf("contract %s: %d events listed over the main chain, its main-chain receipts carry %d (%v)", tk([]byte(a)), len(evs), wantEv[a], err), "")
		}
		if wantEv[a] > 0 {
			s.e.run.Count("events-of-main-chain-blocks-listed")
		}
		for _, ev := range evs {
			if sn.onMain[string(ev.BlockHash)] == nil {
				s.fail("clause3-event-of-abandoned-block", fmt.Sprintf("an event of block %s, which is not on the main chain, is listed", tk(ev.BlockHash)), "")
			}
		}
	}
}
