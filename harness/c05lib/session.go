package c05lib

import (
	"bytes"
	"errors"
	"fmt"
	"strings"

	"github.com/aergoio/aergo/v2/chain"
	"github.com/aergoio/aergo/v2/internal/enc/proto"
	"github.com/aergoio/aergo/v2/state"
	"github.com/aergoio/aergo/v2/types"
	"github.com/aergoio/aergo/v2/types/dbkey"
	"github.com/aergoio/aergo/v2/zz_verif/vh"
)

// class id of the known finding (known_findings.json): a reorganisation whose top is an invalid block reached through
// orphan resolution fails as a whole; the valid, longer prefix below the invalid block is not adopted and the arriving
// (valid) block is put into the errored-blocks cache.
const knownC07Prefix = "C07-valid-prefix-under-invalid-orphan-not-adopted"

type scenario struct {
	name      string
	blocks    []*mblock      // universe, genesis excluded
	arrivals  []int          // indices into blocks
	lib       map[int]uint64 // before arrival i the consensus' LIB becomes this height
	orphanCap int
	badCap    int
	own       map[int]bool // arrival steps at which the block comes from the node's own block factory (with its block state)
}

type env struct {
	run      *vh.Run
	prop     string // "C05" or "C07"
	w        *world
	p        *producer
	rng      *vh.Rng
	reported map[string]int
	sessions int
}

type session struct {
	e   *env
	sc  *scenario
	n   *node
	ops []string

	idPairs  []string // universe of (id/no) for obs
	idHashes [][]byte
	idNos    []uint64
	txToks   []string
	txHashes [][]byte
	maxH     uint64

	byContent map[string]*mblock // proto bytes -> block
	rootStale bool               // a failed roll-forward left the state root away from the best block's root
	reorgFail bool               // some arrival of this session ended in a reorg error
	anyErr    bool               // some arrival of this session ended in an error (other than "cached")
	offered   map[*mblock]bool   // blocks offered so far
	forged0   bool               // a block with number 0 other than genesis became the best block
	failed    map[string]bool    // one report per (clause) per session
	libNow    uint64
	arrived   []*mblock          // every block offered so far (for the hypotheses check)
	idsForged bool               // two different contents were offered under one identifier (the theorems' honesty hypothesis fails)
}

func (s *session) op(line, out string, nontrivial bool) {
	s.ops = append(s.ops, line+" => "+out)
	s.e.run.Op(line, out, nontrivial)
}

func (s *session) replay() interface{} {
	names := []string{}
	for _, b := range s.sc.blocks {
		par := "?"
		if b.parent != nil {
			par = b.parent.name
		}
		names = append(names, fmt.Sprintf("%s=%s(parent %s, no %d, %s, %d txs)", b.name, b.id(), par, b.no, b.kind.String(), len(b.blk.GetBody().GetTxs())))
	}
	arr := []string{}
	for _, a := range s.sc.arrivals {
		arr = append(arr, s.sc.blocks[a].name)
	}
	return map[string]interface{}{"scenario": s.sc.name, "blocks": names, "arrival-order": strings.Join(arr, " "), "lib": fmt.Sprint(s.sc.lib),
		"own-blocks-at-steps": fmt.Sprint(s.sc.own), "hardfork": fmt.Sprint(*s.e.w.hf),
		"orphanCap": s.sc.orphanCap, "badCap": s.sc.badCap, "session": append([]string{}, s.ops...)}
}

// fail reports a violation of the property's predicate on the real node: once per clause and session; a known class
// at most three times per run (so that it cannot crowd out other failures).
func (s *session) fail(clause, what, known string) {
	if s.failed[clause] {
		return
	}
	s.failed[clause] = true
	s.e.run.Count("oracle:" + clause + ":violated")
	if known != "" {
		s.e.reported[known]++
		if s.e.reported[known] > 3 {
			return
		}
	}
	s.e.run.FailKnown(s.e.prop+" "+clause+": "+what, known, s.replay())
}

func (e *env) runScenario(sc *scenario) {
	e.sessions++
	e.run.Count("family:" + strings.SplitN(sc.name, "/", 2)[0])
	if sc.orphanCap == 0 {
		sc.orphanCap = 100
	}
	if sc.badCap == 0 {
		sc.badCap = 128
	}
	s := &session{e: e, sc: sc, byContent: map[string]*mblock{}, failed: map[string]bool{}, offered: map[*mblock]bool{}}
	s.n = e.w.newNode(sc.orphanCap, sc.badCap)
	defer s.n.close()
	g := e.p.gen
	// universe
	seenID, seenTx := map[string]bool{}, map[string]bool{}
	addID := func(b *mblock) {
		k := fmt.Sprintf("%s/%d", b.id(), b.blk.GetHeader().GetBlockNo())
		if !seenID[k] {
			seenID[k] = true
			s.idPairs = append(s.idPairs, k)
			s.idHashes = append(s.idHashes, b.hash)
			s.idNos = append(s.idNos, b.blk.GetHeader().GetBlockNo())
		}
		if n := b.blk.GetHeader().GetBlockNo(); n > s.maxH {
			s.maxH = n
		}
		for _, t := range b.blk.GetBody().GetTxs() {
			if !seenTx[string(t.Hash)] {
				seenTx[string(t.Hash)] = true
				s.txToks = append(s.txToks, tk(t.Hash))
				s.txHashes = append(s.txHashes, t.Hash)
			}
		}
		raw, _ := proto.Encode(b.blk)
		s.byContent[string(raw)] = b
	}
	addID(g)
	for _, b := range sc.blocks {
		addID(b)
	}
	s.maxH++
	s.op(fmt.Sprintf("new %d %d %s %s", sc.orphanCap, sc.badCap, g.id(), tk(g.state)), "ok", false)
	for step, a := range sc.arrivals {
		if l, ok := sc.lib[step]; ok {
			s.n.cons.lib = l
			s.libNow = l
			s.op(fmt.Sprintf("lib %d", l), "ok", false)
		}
		b := sc.blocks[a]
		before := s.snapshot()
		line := b.opLine
		var cls, msgs string
		own := false
		if sc.own[step] {
			if bs, ok := s.n.produce(b); ok {
				own = true
				line = "own" + strings.TrimPrefix(b.opLine, "add")
				s.e.run.Pending(line)
				cls, msgs = s.n.addOwn(b.blk, bs)
				s.e.run.Count("own:" + cls)
			} else {
				s.e.run.Count("own:not-producible-here")
			}
		}
		if !own {
			s.e.run.Pending(line)
			cls, msgs = s.n.add(b.blk)
		}
		s.arrived = append(s.arrived, b)
		s.op(line, cls+" "+msgs, cls == "ok")
		s.e.run.Count("add:" + cls)
		s.e.run.Count("kind:" + b.kind.String())
		if cls == "reorg" {
			s.reorgFail = true
		}
		if cls == "reorg" || cls == "err" {
			s.anyErr = true
		}
		s.offered[b] = true
		obs, pan := vh.Guard(func() string { return s.observe() })
		if pan {
			s.fail("query", "a query panicked after the arrival: "+obs, "")
		}
		s.op(fmt.Sprintf("obs %d %s %s", s.maxH, joinOr(s.idPairs), joinOr(s.txToks)), obs, true)
		after := s.snapshot()
		if !bytes.Equal(after.root, after.best.GetHeader().GetBlocksRootHash()) {
			if cls == "reorg" {
				s.rootStale = true
			}
		} else {
			s.rootStale = false
		}
		if last := after.path[len(after.path)-1]; last.BlockNo() == 0 && !bytes.Equal(last.BlockHash(), g.hash) && !s.forged0 {
			s.forged0 = true
			s.e.run.Count("effect:number-0-block-connected-to-main-chain")
		}
		s.classify(before, after, b, cls)
		if _, pan := vh.Guard(func() string { s.oracleC05(after); return "" }); pan {
			s.fail("query", "the consistency oracle's queries panicked", "")
		}
		if s.e.prop == "C07" {
			s.oracleC07(before, after, b, cls)
		}
		s.oracleArrival(before, after, b, cls)
		s.oracleCoupling(before, after, b, cls)
	}
	s.hypotheses()
	if s.e.prop == "C07" {
		s.referenceCheck("end of session")
	}
}

// ---------------------------------------------------------------- observation (compared with the model)

func (s *session) observe() string {
	cs := s.n.cs
	best, _ := cs.GetBestBlock()
	latest := chain.VerifC05LatestNo(cs)
	var byno []string
	for h := uint64(0); h <= s.maxH; h++ {
		if hash, err := cs.GetHashByNo(h); err == nil {
			byno = append(byno, tk(hash))
		} else {
			byno = append(byno, "-")
		}
	}
	var blocks, rc, rq, rn strings.Builder
	for i, h := range s.idHashes {
		if _, err := cs.GetBlock(h); err == nil {
			blocks.WriteByte('1')
		} else {
			blocks.WriteByte('0')
		}
		if chain.VerifC05HasReceipts(cs, h, s.idNos[i]) {
			rc.WriteByte('1')
		} else {
			rc.WriteByte('0')
		}
		// the query "receipts of the block with this hash"
		if s.receiptsByHash(h) {
			rq.WriteByte('1')
		} else {
			rq.WriteByte('0')
		}
	}
	// the query "receipts of the block at this height"
	for h := uint64(0); h <= s.maxH; h++ {
		if r, err := chain.VerifC05GetReceiptsByNo(cs, h); err == nil && r != nil {
			rn.WriteByte('1')
		} else {
			rn.WriteByte('0')
		}
	}
	lkey := "-"
	if raw := chain.VerifC05Store(cs).Get(dbkey.LatestBlock()); len(raw) == 8 {
		lkey = fmt.Sprint(types.BlockNoFromBytes(raw))
	}
	var txs []string
	for _, h := range s.txHashes {
		txs = append(txs, s.txAnswer(h))
	}
	slots, cur, _, order := chain.VerifC05Orphans(cs)
	var orph []string
	for _, k := range order {
		if b, ok := slots[k]; ok {
			orph = append(orph, tk(k[:])+":"+tk(b.BlockHash()))
		} else {
			orph = append(orph, tk(k[:])+":!missing")
		}
	}
	if cur != len(slots) || len(order) != len(slots) {
		orph = append(orph, fmt.Sprintf("!count=%d/slots=%d/lru=%d", cur, len(slots), len(order)))
	}
	var bad []string
	for _, k := range chain.VerifC05ErrBlocks(cs) {
		bad = append(bad, tk(k[:]))
	}
	marker := "0"
	if chain.VerifC05HasMarker(cs) {
		marker = "1"
	}
	return fmt.Sprintf("best=%s/%d latest=%d lkey=%s root=%s marker=%s byno=%s blocks=%s tx=%s rcpt=%s rq=%s rn=%s orph=%s bad=%s",
		tk(best.BlockHash()), best.BlockNo(), latest, lkey, tk(cs.SDB().GetRoot()), marker, joinOr(byno), blocks.String(), joinOr(txs), rc.String(),
		rq.String(), rn.String(), joinOr(orph), joinOr(bad))
}

// receiptsByHash: does the query "receipts of the block with this hash" answer with receipts. A panic of the query
// (candidate defect reported to the lead: getReceipts dereferences the missing main-chain block when the stored block is
// numbered above the best block) is counted and read as "no receipts".
func (s *session) receiptsByHash(h []byte) bool {
	ok := false
	if _, pan := vh.Guard(func() string {
		r, err := chain.VerifC05GetReceipts(s.n.cs, h)
		ok = err == nil && r != nil
		return ""
	}); pan {
		s.e.run.Count("observation:getReceipts-panics-for-a-stored-side-block-above-the-best-height")
		return false
	}
	return ok
}

// txAnswer: the answer classes of the query "transaction by hash"
func (s *session) txAnswer(h []byte) string {
	tx, idx, err := chain.VerifC05GetTx(s.n.cs, h)
	if err == nil {
		return fmt.Sprintf("%s:%d", tk(idx.BlockHash), idx.Idx)
	}
	if tx != nil {
		return "nm"
	}
	var nb *chain.ErrNoBlock
	if errors.As(err, &nb) {
		return "noblock"
	}
	if len(chain.VerifC05Store(s.n.cs).Get(h)) == 0 {
		return "-"
	}
	return "badidx"
}

// ---------------------------------------------------------------- the node as seen through its query surface

type snap struct {
	best   *types.Block
	latest uint64
	root   []byte
	path   []*types.Block // best first, down to height 0 (or as far as the links go)
	whole  bool           // the path reaches genesis with heights decreasing by one
	onMain map[string]*types.Block
}

func (s *session) snapshot() *snap {
	cs := s.n.cs
	best, _ := cs.GetBestBlock()
	sn := &snap{best: best, latest: chain.VerifC05LatestNo(cs), root: append([]byte{}, cs.SDB().GetRoot()...), onMain: map[string]*types.Block{}}
	cur := best
	for len(sn.path) < 100000 {
		sn.path = append(sn.path, cur)
		sn.onMain[string(cur.BlockHash())] = cur
		if cur.BlockNo() == 0 {
			sn.whole = bytes.Equal(cur.BlockHash(), s.e.p.gen.hash)
			break
		}
		p, err := cs.GetBlock(cur.GetHeader().GetPrevBlockHash())
		if err != nil || p.BlockNo()+1 != cur.BlockNo() {
			break
		}
		cur = p
	}
	return sn
}

// ---------------------------------------------------------------- C05: the six clauses on the real node

func (s *session) oracleC05(sn *snap) {
	if s.e.prop == "C07" {
		// the C07 run keeps only the clause it depends on (state root) as a counter, not as a failure
		return
	}
	cs := s.n.cs
	s.e.run.Eval("c05:"+tk(sn.best.BlockHash())+fmt.Sprint(len(s.ops)), len(sn.path) > 1)
	// (1) the best block is the tip of a parent-linked path down to genesis
	if !sn.whole {
		s.fail("clause1-path", fmt.Sprintf("following parent hashes from the best block %s/%d does not reach genesis with heights decreasing by one (stops after %d blocks)",
			tk(sn.best.BlockHash()), sn.best.BlockNo(), len(sn.path)), "")
	}
	if sn.best.BlockNo() != sn.latest {
		s.fail("clause1-latest", fmt.Sprintf("cached latest height %d != best block's height %d", sn.latest, sn.best.BlockNo()), "")
	}
	if b, err := chain.VerifC05GetBlockByNo(cs, sn.latest); err != nil || !bytes.Equal(b.BlockHash(), sn.best.BlockHash()) {
		s.fail("clause1-tip", fmt.Sprintf("block by number %d is not the best block %s", sn.latest, tk(sn.best.BlockHash())), "")
	}
	// (2) the height index maps every height on the path to exactly that block, nothing above
	if sn.whole {
		for _, b := range sn.path {
			if h, err := cs.GetHashByNo(b.BlockNo()); err != nil || !bytes.Equal(h, b.BlockHash()) {
				s.fail("clause2-index", fmt.Sprintf("height %d maps to %s, the main-chain block there is %s", b.BlockNo(), tk(h), tk(b.BlockHash())), "")
				break
			}
		}
	}
	for h := sn.latest + 1; h <= s.maxH+2; h++ {
		if hash, err := cs.GetHashByNo(h); err == nil {
			s.fail("clause2-above", fmt.Sprintf("height %d above the best height %d maps to %s", h, sn.latest, tk(hash)), "")
			break
		}
	}
	s.rawScan(sn)
	// (3) every transaction of a main-chain block is found at its block and position; others are not confirmed
	inMain := map[string]bool{}
	if sn.whole {
		for _, b := range sn.path {
			for i, tx := range b.GetBody().GetTxs() {
				inMain[string(tx.Hash)] = true
				_, idx, err := chain.VerifC05GetTx(cs, tx.Hash)
				ok := err == nil && idx != nil
				if ok && !(bytes.Equal(idx.BlockHash, b.BlockHash()) && int(idx.Idx) == i) {
					// another main-chain block containing the same hash at that position is tolerated
					o := sn.onMain[string(idx.BlockHash)]
					ok = o != nil && int(idx.Idx) < len(o.GetBody().GetTxs()) && bytes.Equal(o.GetBody().GetTxs()[idx.Idx].Hash, tx.Hash)
				}
				if !ok {
					s.fail("clause3-found", fmt.Sprintf("transaction %s of main-chain block %s/%d position %d is not found there (answer: %s)",
						tk(tx.Hash), tk(b.BlockHash()), b.BlockNo(), i, s.txAnswer(tx.Hash)), "")
				}
			}
		}
		for _, h := range s.txHashes {
			if inMain[string(h)] {
				continue
			}
			if _, idx, err := chain.VerifC05GetTx(cs, h); err == nil {
				s.fail("clause3-abandoned", fmt.Sprintf("transaction %s is in no main-chain block but is reported as confirmed in %s:%d", tk(h), tk(idx.BlockHash), idx.Idx), "")
			}
			if r, err := chain.VerifC05GetReceipt(cs, h); err == nil && r != nil {
				s.fail("clause3-abandoned-receipt", fmt.Sprintf("transaction %s is in no main-chain block but a receipt is reported for it", tk(h)), "")
			}
		}
		// (4) receipts exist for every main-chain block that has transactions
		for _, b := range sn.path {
			txs := b.GetBody().GetTxs()
			if len(txs) == 0 {
				continue
			}
			rs, err := chain.VerifC05GetReceipts(cs, b.BlockHash())
			if err != nil || rs == nil || len(rs.Get()) != len(txs) {
				s.fail("clause4-receipts", fmt.Sprintf("main-chain block %s/%d has %d transactions but its receipts are not available (%v)", tk(b.BlockHash()), b.BlockNo(), len(txs), err), "")
				continue
			}
			for i, r := range rs.Get() {
				if !bytes.Equal(r.TxHash, txs[i].Hash) {
					s.fail("clause4-receipts", fmt.Sprintf("receipt %d of main-chain block %s is for another transaction", i, tk(b.BlockHash())), "")
				}
			}
			if r, err := chain.VerifC05GetReceipt(cs, txs[0].Hash); err != nil || r == nil {
				s.fail("clause4-receipt-by-tx", fmt.Sprintf("no receipt by hash for transaction %s of main-chain block %s (%v)", tk(txs[0].Hash), tk(b.BlockHash()), err), "")
			}
		}
	}
	s.oracleQueries(sn)
	// (5) the current state root is the best block's state root
	if !bytes.Equal(sn.root, sn.best.GetHeader().GetBlocksRootHash()) {
		known := ""
		s.fail("clause5-root", fmt.Sprintf("state DB root %s != state root %s of the best block %s/%d", tk(sn.root), tk(sn.best.GetHeader().GetBlocksRootHash()),
			tk(sn.best.BlockHash()), sn.best.BlockNo()), known)
	} else {
		// account state at the tip is readable
		sdb := cs.SDB().OpenNewStateDB(sn.root)
		for _, a := range s.e.w.addrs {
			if _, err := state.GetAccountState(a, sdb); err != nil {
				s.fail("clause5-state", "account state at the tip cannot be read: "+err.Error(), "")
			}
		}
	}
	// (6) no reorganisation marker left behind
	if chain.VerifC05HasMarker(cs) {
		s.fail("clause6-marker", "a reorganisation marker is still stored after the arrival was handled", "")
	}
}

// rawScan: raw key scan of the chain store: height-index keys (8 bytes) must all lie on the path; latest key; marker key.
func (s *session) rawScan(sn *snap) {
	st := chain.VerifC05Store(s.n.cs)
	it := st.Iterator(nil, nil)
	nidx := 0
	for ; it.Valid(); it.Next() {
		k := it.Key()
		switch {
		case bytes.Equal(k, dbkey.LatestBlock()):
			if types.BlockNoFromBytes(it.Value()) != sn.latest {
				s.fail("clause1-latest-key", fmt.Sprintf("stored latest key %d != cached latest %d", types.BlockNoFromBytes(it.Value()), sn.latest), "")
			}
		case bytes.Equal(k, dbkey.ReOrg()):
			s.fail("clause6-marker", "raw scan: a reorganisation marker key is stored", "")
		case len(k) == 8 && !bytes.Equal(k, dbkey.HardFork()):
			no := types.BlockNoFromBytes(k)
			nidx++
			if no > sn.latest {
				s.fail("clause2-above", fmt.Sprintf("raw scan: height-index key %d above the best height %d", no, sn.latest), "")
			}
		}
	}
	if uint64(nidx) != sn.latest+1 {
		s.fail("clause2-index", fmt.Sprintf("raw scan: %d height-index keys for best height %d", nidx, sn.latest), "")
	}
}

// ---------------------------------------------------------------- what the harness knows about the tree

// stored: which of the scenario's blocks (by content) the node holds under each id
func (s *session) storedBlock(hash []byte) *mblock {
	b, err := s.n.cs.GetBlock(hash)
	if err != nil {
		return nil
	}
	raw, _ := proto.Encode(b)
	if m, ok := s.byContent[string(raw)]; ok {
		return m
	}
	return nil
}

// branchOf: the stored ancestry of m up to genesis (m first); ok=false when a link is missing from the store
func (s *session) branchOf(m *mblock) (br []*mblock, ok bool) {
	g := s.e.p.gen
	for cur := m; ; {
		br = append(br, cur)
		if cur == g {
			return br, true
		}
		ph := cur.blk.GetHeader().GetPrevBlockHash()
		if bytes.Equal(ph, g.hash) {
			cur = g
			continue
		}
		p := s.storedBlock(ph)
		if p == nil || len(br) > 100000 {
			return br, false
		}
		cur = p
	}
}

func branchValid(br []*mblock) bool {
	for i, b := range br {
		if b.kind != kValid || b.altered {
			return false
		}
		if i+1 < len(br) && b.no != br[i+1].no+1 {
			return false
		}
	}
	return true
}

// forkNo: height of the highest block of br that is on the node's main chain
func forkNo(br []*mblock, sn *snap) (uint64, bool) {
	for _, b := range br {
		if _, ok := sn.onMain[string(b.hash)]; ok {
			return b.no, true
		}
	}
	return 0, false
}

func (s *session) classify(before, after *snap, b *mblock, cls string) {
	r := s.e.run
	switch {
	case bytes.Equal(before.best.BlockHash(), after.best.BlockHash()):
		r.Count("effect:best-unchanged")
	case after.onMain[string(before.best.BlockHash())] != nil:
		r.Count(fmt.Sprintf("effect:extended+%d", after.best.BlockNo()-before.best.BlockNo()))
	default:
		fork := uint64(0)
		for _, x := range after.path {
			if before.onMain[string(x.BlockHash())] != nil {
				fork = x.BlockNo()
				break
			}
		}
		r.Count(fmt.Sprintf("effect:reorg-depth%d-gain%d", before.best.BlockNo()-fork, after.best.BlockNo()-before.best.BlockNo()))
	}
	if len(s.n.syncs) > 0 {
		r.Count("effect:parked-as-orphan")
	}
	if len(s.n.puts) > 0 {
		r.Count("effect:txs-reoffered")
	}
	if s.rootStale {
		r.Count("effect:root-stale-after-failed-rollforward")
	}
}

// oracleArrival (both properties; the lead-5 history is an instance): a valid block whose parent is the current best
// block must be accepted and become (an ancestor of) the best block.
func (s *session) oracleArrival(before, after *snap, b *mblock, cls string) {
	// no block that is not valid (execution fails, wrong claimed root, refused by the consensus, wrong number, altered copy)
	// may become part of the main chain
	for _, nb := range after.path {
		if before.onMain[string(nb.BlockHash())] != nil {
			break
		}
		raw, _ := proto.Encode(nb)
		if m := s.byContent[string(raw)]; m != nil && !m.valid {
			s.fail("invalid-block-on-main-chain", fmt.Sprintf("block %s (%s, kind %s; not valid itself or by ancestry) is on the main chain at height %d", m.name, m.id(), m.kind, nb.BlockNo()), "")
		}
	}
	if !b.valid || b.altered || b.parent == nil || !bytes.Equal(b.parent.hash, before.best.BlockHash()) {
		return
	}
	if !bytes.Equal(before.root, before.best.GetHeader().GetBlocksRootHash()) {
		return // the node was already inconsistent (reported by clause 5 / stale-state oracle)
	}
	if st := s.storedBlock(b.hash); st != nil && st != b {
		s.e.run.Count("lead5:altered-copy-stored-under-genuine-id")
		return
	}
	s.e.run.Eval("arrival:"+b.id()+fmt.Sprint(len(s.ops)), true)
	if cls == "cached" {
		if cb := chain.VerifC05ErrBlock(s.n.cs, types.ToBlockID(b.hash)); cb != nil && proto.Equal(cb, b.blk) {
			// the block itself sits in the errored-blocks cache: it was the *arriving* block when a block resolved under it failed
			s.e.run.Count("valid-block-refused-from-errored-cache")
			if s.e.prop == "C07" {
				s.fail("valid-child-of-best", fmt.Sprintf("valid block %s (%s) extending the best block is refused from the errored-blocks cache (it was the arriving block when a later block failed)",
					b.name, b.id()), knownC07Prefix)
			}
			return
		}
		// refused because of a *different* block cached under the same identifier (DESIGN §5 lead 5)
	}
	if after.onMain[string(b.hash)] == nil {
		s.fail("valid-child-of-best", fmt.Sprintf("valid block %s (%s) extending the best block %s/%d was offered (answer %s) but is not on the main chain afterwards",
			b.name, b.id(), tk(before.best.BlockHash()), before.best.BlockNo(), cls), "")
	}
}
