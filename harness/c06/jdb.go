package main

// The journaling key/value store: a db.DB wrapper that records every *durable write unit* in program
// order, for the chain DB and the state DB in one global sequence:
//
//	set / del   a single DB.Set / DB.Delete
//	tx          a committed Transaction (atomic set of puts/deletes, in the order they were issued)
//	bulk        a flushed Bulk (one unit; the entries are kept in insertion order so that a *torn* bulk
//	            = the first j entries can be materialised)
//
// Discarded transactions/bulks leave nothing. Reads go straight to the wrapped store.

import (
	"encoding/gob"
	"os"
	"path/filepath"

	"github.com/aergoio/aergo-lib/db"
)

type wop struct {
	Del bool
	Key []byte
	Val []byte
}

type unit struct {
	DB   byte   // 'C' chain DB, 'S' state DB
	Kind string // set | del | tx | bulk
	Ops  []wop
}

type recorder struct {
	units []unit
	hook  func() // called after every recorded unit
}

func (r *recorder) add(u unit) {
	r.units = append(r.units, u)
	if r.hook != nil {
		r.hook()
	}
}

type jdb struct {
	inner db.DB
	rec   *recorder
	tag   byte
}

func cp(b []byte) []byte { return append([]byte{}, b...) }

var _ db.DB = (*jdb)(nil)

func (d *jdb) Type() string { return d.inner.Type() }
func (d *jdb) Set(k, v []byte) {
	d.inner.Set(k, v)
	d.rec.add(unit{DB: d.tag, Kind: "set", Ops: []wop{{Key: cp(k), Val: cp(v)}}})
}
func (d *jdb) Delete(k []byte) {
	d.inner.Delete(k)
	d.rec.add(unit{DB: d.tag, Kind: "del", Ops: []wop{{Del: true, Key: cp(k)}}})
}
func (d *jdb) Get(k []byte) []byte                    { return d.inner.Get(k) }
func (d *jdb) Exist(k []byte) bool                    { return d.inner.Exist(k) }
func (d *jdb) Iterator(s, e []byte) db.Iterator       { return d.inner.Iterator(s, e) }
func (d *jdb) Close()                                 { d.inner.Close() }
func (d *jdb) NewTx() db.Transaction                  { return &jtx{d: d, in: d.inner.NewTx()} }
func (d *jdb) NewBulk() db.Bulk                       { return &jbulk{d: d, in: d.inner.NewBulk()} }

type jtx struct {
	d   *jdb
	in  db.Transaction
	ops []wop
}

func (t *jtx) Set(k, v []byte) { t.in.Set(k, v); t.ops = append(t.ops, wop{Key: cp(k), Val: cp(v)}) }
func (t *jtx) Delete(k []byte) { t.in.Delete(k); t.ops = append(t.ops, wop{Del: true, Key: cp(k)}) }
func (t *jtx) Commit() {
	t.in.Commit()
	t.d.rec.add(unit{DB: t.d.tag, Kind: "tx", Ops: t.ops})
}
func (t *jtx) Discard() { t.in.Discard() }

type jbulk struct {
	d   *jdb
	in  db.Bulk
	ops []wop
}

func (t *jbulk) Set(k, v []byte) { t.in.Set(k, v); t.ops = append(t.ops, wop{Key: cp(k), Val: cp(v)}) }
func (t *jbulk) Delete(k []byte) { t.in.Delete(k); t.ops = append(t.ops, wop{Del: true, Key: cp(k)}) }
func (t *jbulk) Flush() {
	t.in.Flush()
	t.d.rec.add(unit{DB: t.d.tag, Kind: "bulk", Ops: t.ops})
}
func (t *jbulk) DiscardLast() { t.in.DiscardLast() }

// ---------------------------------------------------------------- materialised stores

// kv is the content of the two stores.
type kv struct {
	C, S map[string][]byte
}

func (s *kv) clone() *kv {
	n := &kv{C: make(map[string][]byte, len(s.C)), S: make(map[string][]byte, len(s.S))}
	for k, v := range s.C {
		n.C[k] = v
	}
	for k, v := range s.S {
		n.S[k] = v
	}
	return n
}

func (s *kv) applyOp(tag byte, o wop) {
	m := s.C
	if tag == 'S' {
		m = s.S
	}
	if o.Del {
		delete(m, string(o.Key))
	} else {
		v := o.Val
		if v == nil {
			v = []byte{}
		}
		m[string(o.Key)] = v
	}
}

func (s *kv) apply(u unit) {
	for _, o := range u.Ops {
		s.applyOp(u.DB, o)
	}
}

// applyTorn applies the first j entries of u only.
func (s *kv) applyTorn(u unit, j int) {
	for i := 0; i < j && i < len(u.Ops); i++ {
		s.applyOp(u.DB, u.Ops[i])
	}
}

func snapshotOf(d db.DB) map[string][]byte {
	m := map[string][]byte{}
	for it := d.Iterator(nil, nil); it.Valid(); it.Next() {
		m[string(it.Key())] = cp(it.Value())
	}
	return m
}

// writeDir writes the two stores as the files memorydb loads at open: <dir>/chain/database and
// <dir>/state/database (gob of map[string][]byte).
func (s *kv) writeDir(dir string) {
	for name, m := range map[string]map[string][]byte{"chain": s.C, "state": s.S} {
		p := filepath.Join(dir, name)
		os.MkdirAll(p, 0o755)
		f, err := os.Create(filepath.Join(p, "database"))
		if err != nil {
			panic(err)
		}
		if err := gob.NewEncoder(f).Encode(m); err != nil {
			panic(err)
		}
		f.Close()
	}
}

func sameMap(a, b map[string][]byte) bool {
	if len(a) != len(b) {
		return false
	}
	for k, v := range a {
		w, ok := b[k]
		if !ok || string(v) != string(w) {
			return false
		}
	}
	return true
}
