// Harness c06: property C06 (crash recovery: every crash point leaves a recoverable, consistent chain).
//
// A real ChainService (NewChainService on memorydb files, stub consensus) runs a scenario of block
// arrivals once on *journaling* stores (jdb.go), which gives the global sequence J of durable write
// units of the chain DB and the state DB. Then for every prefix k of J (optionally a torn bulk: k units
// and the first j entries of unit k) the two stores truncated at k are written to disk and a node is
// restarted on them through the real boot path (ChainDB.Init incl. recover(), ChainStateDB.Init at the
// best block's root, ChainService.Recover); the property's predicate is evaluated on the restarted
// node (C05 invariant clauses, state of the best block readable, best ∈ {old tip, new tip}); the blocks
// are fed again and the result is compared with the crash-free run. Crashes inside recovery itself are
// explored the same way on the journal of the restart.
//
// Every step is also an operation line for the Lean model driver (model-c06): the model computes the
// write units (kinds, key classes, ids, in order), the restart and the store dump; ./check diffs.
package main

import (
	"bytes"
	"fmt"
	"os"
	"path/filepath"
	"runtime/pprof"
	"sort"
	"strings"

	"github.com/aergoio/aergo-lib/db"
	"github.com/aergoio/aergo/v2/chain"
	"github.com/aergoio/aergo/v2/internal/common"
	"github.com/aergoio/aergo/v2/internal/enc/gob"
	"github.com/aergoio/aergo/v2/internal/enc/proto"
	"github.com/aergoio/aergo/v2/state/statedb"
	"github.com/aergoio/aergo/v2/types"
	"github.com/aergoio/aergo/v2/types/dbkey"
	"github.com/aergoio/aergo/v2/types/message"
	"github.com/aergoio/aergo/v2/zz_verif/vh"
	"github.com/rs/zerolog"
)

// ---------------------------------------------------------------- scenario

type sblock struct {
	id     int
	blk    *types.Block
	parent int // id of the parent (0 for genesis)
	no     uint64
	txs    []int // tx ids
	root   int   // root id (of the state root the header claims)
	nonces [naccounts]uint64
	bad    bool   // the header's state root is not the one execution reaches: executeBlock fails on this block
	real   []byte // the state root execution of this block reaches
}

type scenario struct {
	name   string
	w      *world
	blocks []*sblock // index = id (blocks[0] unused, blocks[1] = genesis)
	byHash map[string]*sblock
	roots  map[string]int // state root -> root id
	rootB  [][]byte
	order  []int // feed order (block ids)
	maxNo  uint64
	hasBad bool // some block of the scenario does not execute
}

func newScenario(w *world, name string) *scenario {
	sc := &scenario{name: name, w: w, byHash: map[string]*sblock{}, roots: map[string]int{}, rootB: [][]byte{nil}}
	sc.blocks = []*sblock{nil}
	g := w.prod.gen
	sc.add(&sblock{blk: g, parent: 0, no: 0, real: cp(g.GetHeader().GetBlocksRootHash())})
	return sc
}

func (sc *scenario) rootID(r []byte) int {
	if id, ok := sc.roots[string(r)]; ok {
		return id
	}
	sc.rootB = append(sc.rootB, cp(r))
	sc.roots[string(r)] = len(sc.rootB) - 1
	return len(sc.rootB) - 1
}

func (sc *scenario) add(b *sblock) *sblock {
	b.id = len(sc.blocks)
	b.root = sc.rootID(b.blk.GetHeader().GetBlocksRootHash())
	sc.blocks = append(sc.blocks, b)
	sc.byHash[string(b.blk.BlockHash())] = b
	if b.no > sc.maxNo {
		sc.maxNo = b.no
	}
	return b
}

// child builds a block on parent with ntx transfers; `want` lists specs to include first (shared txs).
func (sc *scenario) child(parent *sblock, specs []txSpec) *sblock { return sc.childX(parent, specs, false) }

// childX: bad = the block's header claims a state root its execution does not reach.
func (sc *scenario) childX(parent *sblock, specs []txSpec, bad bool) *sblock {
	blk, real := sc.w.prod.build(parent.blk, parent.real, specs, bad)
	b := &sblock{blk: blk, parent: parent.id, no: parent.no + 1, nonces: parent.nonces, bad: bad, real: real}
	if bad {
		sc.hasBad = true
	}
	for _, s := range specs {
		b.nonces[s.from]++
		if b.nonces[s.from] != s.nonce {
			panic("generator: bad nonce")
		}
	}
	for _, tx := range blk.GetBody().GetTxs() {
		b.txs = append(b.txs, sc.w.txID[string(tx.GetHash())])
	}
	return sc.add(b)
}

// fresh transfers on top of parent's nonces.
func (sc *scenario) freshSpecs(parent *sblock, rng *vh.Rng, n int, salt int64) []txSpec {
	var out []txSpec
	nn := parent.nonces
	for i := 0; i < n; i++ {
		f := rng.Intn(naccounts)
		t := (f + 1 + rng.Intn(naccounts-1)) % naccounts
		nn[f]++
		out = append(out, txSpec{from: f, to: t, nonce: nn[f], amount: 1 + salt*100 + int64(rng.Intn(50))})
	}
	return out
}

// specsOf returns the tx specs of an existing block that are still valid (next nonce) on top of parent.
func (sc *scenario) sharedSpecs(parent *sblock, from *sblock) []txSpec {
	var out []txSpec
	nn := parent.nonces
	for _, id := range from.txs {
		tx := sc.w.txByID[id]
		f := -1
		for i, a := range sc.w.addrs {
			if bytes.Equal(a, tx.Body.Account) {
				f = i
			}
		}
		t := 0
		for i, a := range sc.w.addrs {
			if bytes.Equal(a, tx.Body.Recipient) {
				t = i
			}
		}
		if tx.Body.Nonce == nn[f]+1 {
			nn[f]++
			amt := int64(0)
			for _, x := range tx.Body.Amount {
				amt = amt<<8 | int64(x)
			}
			out = append(out, txSpec{from: f, to: t, nonce: tx.Body.Nonce, amount: amt})
		}
	}
	return out
}

func (sc *scenario) feedLine(b *sblock) string {
	t := "-"
	if len(b.txs) > 0 {
		var s []string
		for _, x := range b.txs {
			s = append(s, fmt.Sprint(x))
		}
		t = strings.Join(s, ",")
	}
	op := "feed"
	if b.bad {
		op = "feedx"
	}
	return fmt.Sprintf("%s %d %d %d %d %s", op, b.id, b.parent, b.no, b.root, t)
}

// ---------------------------------------------------------------- journal → canonical text

type markerRec struct {
	BrStartHash []byte
	BrStartNo   types.BlockNo
	BrBestHash  []byte
	BrBestNo    types.BlockNo
	BrTopHash   []byte
	BrTopNo     types.BlockNo
}

func (sc *scenario) bid(hash []byte) string {
	if b, ok := sc.byHash[string(hash)]; ok {
		return fmt.Sprint(b.id)
	}
	return "?"
}

func (sc *scenario) markerText(val []byte) string {
	var m markerRec
	if err := gob.Decode(val, &m); err != nil {
		return "undecodable"
	}
	return fmt.Sprintf("%s.%s.%s", sc.bid(m.BrStartHash), sc.bid(m.BrBestHash), sc.bid(m.BrTopHash))
}

// opText renders one write: "+class:ids" for a set, "-class:ids" for a delete.
func (sc *scenario) opText(tag byte, o wop) string {
	sign := "+"
	if o.Del {
		sign = "-"
	}
	k := o.Key
	if tag == 'S' {
		for id := 1; id < len(sc.rootB); id++ {
			if bytes.Equal(k, common.Hasher(sc.rootB[id])) {
				if !o.Del && !bytes.Equal(o.Val, statedb.StateMarker) {
					return sign + "mark?"
				}
				return fmt.Sprintf("%smark:%d", sign, id)
			}
		}
		return sign + "data"
	}
	switch {
	case bytes.Equal(k, dbkey.LatestBlock()):
		if o.Del {
			return "-latest"
		}
		return fmt.Sprintf("+latest:%d", types.BlockNoFromBytes(o.Val))
	case bytes.Equal(k, dbkey.ReOrg()):
		if o.Del {
			return "-marker"
		}
		return "+marker:" + sc.markerText(o.Val)
	case bytes.Equal(k, dbkey.DposLibStatus()):
		if o.Del {
			return "-cons"
		}
		return "+cons:" + sc.bid(o.Val)
	case len(k) == 8:
		if o.Del {
			return fmt.Sprintf("-no:%d", types.BlockNoFromBytes(k))
		}
		return fmt.Sprintf("+no:%d>%s", types.BlockNoFromBytes(k), sc.bid(o.Val))
	case len(k) == 41 && k[0] == 'r':
		return fmt.Sprintf("%srcpt:%s.%d", sign, sc.bid(k[1:33]), types.BlockNoFromBytes(k[33:]))
	case len(k) == 9 && k[0] == 'i':
		return fmt.Sprintf("%siops:%d", sign, types.BlockNoFromBytes(k[1:]))
	case len(k) == 32:
		if b, ok := sc.byHash[string(k)]; ok {
			return fmt.Sprintf("%sblk:%d", sign, b.id)
		}
		if id, ok := sc.w.txID[string(k)]; ok {
			if o.Del {
				return fmt.Sprintf("-tx:%d", id)
			}
			var ti types.TxIdx
			if err := proto.Decode(o.Val, &ti); err != nil {
				return fmt.Sprintf("+tx:%d>undecodable", id)
			}
			return fmt.Sprintf("+tx:%d>%s.%d", id, sc.bid(ti.BlockHash), ti.Idx)
		}
	}
	return sign + "other"
}

// canon puts the unit into canonical form: the entries of a bulk that came out of a Go map iteration
// (the deletions of abandoned transactions in swapTxMapping; trie nodes in the state commit) are
// sorted/collapsed. Returns the unit with reordered ops and its text.
func (sc *scenario) canon(u unit) (unit, string) {
	txt := make([]string, len(u.Ops))
	for i, o := range u.Ops {
		txt[i] = sc.opText(u.DB, o)
	}
	if u.DB == 'C' && u.Kind == "bulk" {
		all := len(txt) > 0
		for _, t := range txt {
			if !strings.HasPrefix(t, "-tx:") {
				all = false
			}
		}
		if all {
			idx := make([]int, len(txt))
			for i := range idx {
				idx[i] = i
			}
			num := func(s string) int { var n int; fmt.Sscanf(s, "-tx:%d", &n); return n }
			sort.Slice(idx, func(a, b int) bool { return num(txt[idx[a]]) < num(txt[idx[b]]) })
			ops := make([]wop, len(txt))
			t2 := make([]string, len(txt))
			for i, j := range idx {
				ops[i], t2[i] = u.Ops[j], txt[j]
			}
			u.Ops, txt = ops, t2
		}
	}
	if u.DB == 'S' {
		// collapse runs of data entries
		var t2 []string
		for _, t := range txt {
			if t == "+data" && len(t2) > 0 && t2[len(t2)-1] == "+data" {
				continue
			}
			t2 = append(t2, t)
		}
		txt = t2
	}
	kind := u.Kind
	if kind == "set" || kind == "del" {
		// a single Set/Delete on the store and a one-entry transaction are the same durable unit
		kind = "tx"
	}
	return u, fmt.Sprintf("%c.%s[%s]", u.DB, kind, strings.Join(txt, ","))
}

// durable drops the units that write nothing (a committed transaction or flushed bulk without entries —
// deleteOldReceipts when there are no receipts, the tx-index transaction of an empty block): they are not
// durable writes, no crash point lies "between" them, and whether the code issues them is not observable.
func durable(us []unit) []unit {
	var out []unit
	for _, u := range us {
		if len(u.Ops) > 0 {
			out = append(out, u)
		}
	}
	return out
}

func (sc *scenario) unitsText(us []unit) string {
	if len(us) == 0 {
		return "-"
	}
	var s []string
	for _, u := range us {
		_, t := sc.canon(u)
		s = append(s, t)
	}
	return strings.Join(s, "|")
}

// ---------------------------------------------------------------- dump of the durable stores

func (sc *scenario) dump(s *kv) string {
	var b strings.Builder
	if v, ok := s.C[string(dbkey.LatestBlock())]; ok {
		fmt.Fprintf(&b, "latest=%d", types.BlockNoFromBytes(v))
	} else {
		b.WriteString("latest=-")
	}
	b.WriteString(" nos=")
	for h := uint64(0); h <= sc.maxNo+1; h++ {
		if h > 0 {
			b.WriteString(",")
		}
		if v, ok := s.C[string(types.BlockNoToBytes(h))]; ok {
			b.WriteString(sc.bid(v))
		} else {
			b.WriteString("-")
		}
	}
	b.WriteString(" blks=")
	first := true
	for id := 1; id < len(sc.blocks); id++ {
		if _, ok := s.C[string(sc.blocks[id].blk.BlockHash())]; ok {
			if !first {
				b.WriteString(",")
			}
			first = false
			fmt.Fprint(&b, id)
		}
	}
	b.WriteString(" txs=")
	first = true
	for id := 1; id < len(sc.w.txByID); id++ {
		if v, ok := s.C[string(sc.w.txByID[id].GetHash())]; ok {
			if !first {
				b.WriteString(",")
			}
			first = false
			var ti types.TxIdx
			if err := proto.Decode(v, &ti); err != nil {
				fmt.Fprintf(&b, "%d>undecodable", id)
			} else {
				fmt.Fprintf(&b, "%d>%s.%d", id, sc.bid(ti.BlockHash), ti.Idx)
			}
		}
	}
	b.WriteString(" rc=")
	first = true
	for id := 1; id < len(sc.blocks); id++ {
		sb := sc.blocks[id]
		if _, ok := s.C[string(dbkey.Receipts(sb.blk.BlockHash(), sb.no))]; ok {
			if !first {
				b.WriteString(",")
			}
			first = false
			fmt.Fprint(&b, id)
		}
	}
	b.WriteString(" marker=")
	if v, ok := s.C[string(dbkey.ReOrg())]; ok && len(v) > 0 {
		b.WriteString(sc.markerText(v))
	} else {
		b.WriteString("-")
	}
	b.WriteString(" cons=")
	if v, ok := s.C[string(dbkey.DposLibStatus())]; ok {
		b.WriteString(sc.bid(v))
	} else {
		b.WriteString("-")
	}
	b.WriteString(" marks=")
	first = true
	for id := 1; id < len(sc.rootB); id++ {
		if v, ok := s.S[string(common.Hasher(sc.rootB[id]))]; ok && bytes.Equal(v, statedb.StateMarker) {
			if !first {
				b.WriteString(",")
			}
			first = false
			fmt.Fprint(&b, id)
		}
	}
	return b.String()
}

// durable best: latest key → height index → block record, read straight from the store content.
func (sc *scenario) durableBest(s *kv) *sblock {
	v, ok := s.C[string(dbkey.LatestBlock())]
	if !ok {
		return nil
	}
	h, ok := s.C[string(v)]
	if !ok {
		return nil
	}
	return sc.byHash[string(h)]
}

// view is the part of the dump that the node's queries about the main chain can observe: everything but
// receipts records of blocks that are not on the main chain, state markers of roots other than the best
// block's (leftovers of executions that were abandoned; a crash-free run may or may not have produced or
// deleted them) and the records of off-chain blocks that do not execute.
func (sc *scenario) view(s *kv) string {
	t := s.clone()
	main := map[int]bool{}
	var best *sblock
	if v, ok := s.C[string(dbkey.LatestBlock())]; ok {
		n := types.BlockNoFromBytes(v)
		for h := uint64(0); h <= n; h++ {
			if hv, ok := s.C[string(types.BlockNoToBytes(h))]; ok {
				if b, ok := sc.byHash[string(hv)]; ok {
					main[b.id] = true
					best = b
				}
			}
		}
	}
	for id := 1; id < len(sc.blocks); id++ {
		if !main[id] {
			delete(t.C, string(dbkey.Receipts(sc.blocks[id].blk.BlockHash(), sc.blocks[id].no)))
			// the record of a block that does not execute: stored (unexecuted) when it arrives off the tip,
			// rejected when it arrives on the tip — which of the two depends on where the tip is at that moment
			if sc.blocks[id].bad {
				delete(t.C, string(sc.blocks[id].blk.BlockHash()))
			}
		}
	}
	for id := 1; id < len(sc.rootB); id++ {
		if best == nil || best.root != id {
			delete(t.S, string(common.Hasher(sc.rootB[id])))
		}
	}
	return sc.dump(t)
}

// ---------------------------------------------------------------- session

// Finding classes (see notes/C06.md). A failure is tagged with a class only when it has exactly the
// shape of that class; anything else is reported as a plain violation.
const (
	// crash after the block that triggers a reorganisation was stored and before the reorganisation
	// marker was written: the restart is coherent at the old tip, but the stored block is "already
	// connected" when it is fed again, so the reorganisation is not resumed until another block arrives
	classNotResumed = "C06-reorg-not-resumed-before-marker"
	// a partially flushed bulk of ReorgMarker.RecoverChainMapping (height deletions first, latest last):
	// the latest key names a height whose index entry is gone, ChainDB.Init fails (ErrorLoadBestBlock)
	classTornRecoverMapping = "C06-torn-recover-mapping-unbootable"
)

type session struct {
	run  *vh.Run
	w    *world
	sc   *scenario
	dir  string
	ops  []string
	base *kv    // both stores when the recording starts
	J    []unit // recorded journal (canonical entry order)
	// crash-free run
	finalDump string
	finalView string
	extView   string
	finalAcct string
	finalBest int
	ext       *sblock // one more block on the crash-free tip
	extDump   string
	extAcct   string
	allowedA  []int  // per prefix k: tip durably reached at or before k
	allowedB  []int  // per prefix k: next tip
	window    []bool // per prefix k: the triggering block of a reorganisation is stored, its marker is not yet
	crashes   int
	dpos      bool   // the nodes of this session carry the real DPoS status (oracle only, no model lines)
	finalLib  string // DPoS status after the crash-free run / after the extension block
	extLib    string
	restarts  int
	reorgs    []reorgSpan // the reorganising arrivals of the journal
}

// reorgSpan: units [from,to) of one arrival; m = index of its marker write, d = index of its marker deletion.
type reorgSpan struct{ from, to, m, d int }

func (s *session) op(line, out string, nontrivial bool) {
	s.ops = append(s.ops, line+" => "+out)
	if s.dpos {
		// a session with the real DPoS status is judged by the oracle only: the status record it persists is a
		// gob of the LIB bookkeeping, which the model (stub: id of the last block) does not compute
		return
	}
	s.run.Op(line, out, nontrivial)
}

func (s *session) replayObj(extra string) map[string]interface{} {
	// the recording part of the session and the tail that failed
	var rec, tail []string
	for i, l := range s.ops {
		if strings.HasPrefix(l, "crash ") {
			rec = s.ops[:i]
			break
		}
	}
	if rec == nil {
		rec = s.ops
	}
	last := -1
	for i, l := range s.ops {
		if strings.HasPrefix(l, "crash ") {
			last = i
		}
	}
	if last >= 0 {
		tail = s.ops[last:]
	}
	return map[string]interface{}{"scenario": s.sc.name, "at": extra, "recording": append([]string{}, rec...), "failing": append([]string{}, tail...)}
}

func (s *session) fail(what, at string) {
	s.run.Fail(fmt.Sprintf("[%s] %s (%s)", s.sc.name, what, at), s.replayObj(at))
}

// lib: a difference of the DPoS status between the recovered and the crash-free node (same chain). Counted and
// kept as a sample; see notes/C06.md for why it is not (yet) a failure of C06.
func (s *session) lib(what, at string) {
	if os.Getenv("C06_DEBUG") != "" {
		fmt.Fprintf(os.Stderr, "LIB %s [%s] %s\n", at, s.sc.name, what)
	}
	if os.Getenv("C06_LIB_STRICT") != "" {
		s.fail(what, at)
	}
}

func (s *session) failKnown(what, class, at string) {
	s.run.FailKnown(fmt.Sprintf("[%s] %s (%s)", s.sc.name, what, at), class, s.replayObj(at))
}

func errClass(err error) string {
	if err == nil {
		return "ok"
	}
	switch err {
	case chain.ErrorLoadBestBlock:
		return "err-load-best"
	case chain.ErrRecoInvalidBest:
		return "err-reco-best"
	case chain.ErrRecoInvalidSdbRoot:
		return "err-sdb-root"
	case chain.ErrStateNoMarker:
		return "err-no-state-marker"
	case chain.ErrInvalidReorgMarker:
		return "err-marker"
	case chain.ErrInvalidPrevHash:
		return "err-prev"
	}
	switch err.(type) {
	case *chain.ErrNoBlock:
		return "err-no-block"
	}
	return "err"
}

// feed submits a block through the real addBlock; returns the canonical answer and the units written.
func (s *session) feed(n *node, b *sblock) (string, []unit) {
	before := len(n.rec.units)
	res, _ := vh.Guard(func() string {
		err := chain.VerifC06AddBlock(n.cs, b.blk, "peer")
		if err != nil {
			if os.Getenv("C06_DEBUG") != "" {
				fmt.Fprintln(os.Stderr, "feed error:", err)
			}
			return "err"
		}
		return "ok"
	})
	us := durable(n.rec.units[before:])
	best, _ := n.cs.GetBestBlock()
	for i := range us {
		us[i], _ = s.sc.canon(us[i])
	}
	return fmt.Sprintf("%s best=%s root=%d units=%s", res, s.sc.bid(best.BlockHash()), s.sc.rootOf(n), s.sc.unitsText(us)), us
}

func (sc *scenario) rootOf(n *node) int {
	if id, ok := sc.roots[string(n.cs.SDB().GetRoot())]; ok {
		return id
	}
	return 0
}

// acct reads every account at the given root through a fresh real StateDB on the node's state store.
func (s *session) acct(n *node, root []byte) string {
	out, _ := vh.Guard(func() string {
		st := n.cs.SDB().OpenNewStateDB(root)
		var parts []string
		for i := 0; i < naccounts; i++ {
			a, err := st.GetAccountState(types.ToAccountID(s.w.addrs[i]))
			if err != nil {
				return "unreadable"
			}
			parts = append(parts, fmt.Sprintf("%d:%x", a.GetNonce(), a.GetBalance()))
		}
		return strings.Join(parts, ",")
	})
	return out
}

// libText: the real DPoS status of a node — last irreversible block (as scenario block id) and its number, number
// of the last own block; "" without a real status. A LIB that is not the main-chain block of its height is
// reported as such (C08's safety clause on the recovered node).
func (s *session) libText(n *node) string {
	if n.dp == nil {
		return ""
	}
	h, no, lpb, _ := n.dp.st.VerifC06Lib()
	id := "-"
	if h != "" {
		id = "?"
		for i := 1; i < len(s.sc.blocks); i++ {
			if s.sc.blocks[i].blk.ID() == h {
				id = fmt.Sprint(i)
			}
		}
		if mb, err := chain.VerifC06GetBlockByNo(n.cs, no); err != nil || mb.ID() != h {
			id += "(not-on-main-chain)"
		}
	}
	return fmt.Sprintf("lib=%s@%d lpb=%d", id, no, lpb)
}

// prepare runs the scenario once on a scratch node (nothing recorded): the scenario is kept only if the
// crash-free run stores every block it is fed (an arrival order in which the one-slot-per-parent orphan
// pool drops a block makes "feeding the same blocks again" a different experiment; that is C05's ground).
// It also builds the extension block on the crash-free tip.
func (s *session) prepare(rng *vh.Rng) bool {
	sc := s.sc
	d := s.dir + ".dry"
	s.w.initDir(d)
	n := s.w.bootX(d, s.dpos)
	for _, id := range sc.order {
		vh.Guard(func() string { chain.VerifC06AddBlock(n.cs, sc.blocks[id].blk, "peer"); return "" })
	}
	ok := true
	for _, id := range sc.order {
		if _, err := n.cs.GetBlock(sc.blocks[id].blk.BlockHash()); err != nil && !sc.hasBad {
			ok = false
		}
	}
	best, _ := n.cs.GetBestBlock()
	n.close()
	os.RemoveAll(d)
	if !ok {
		return false
	}
	tip := sc.byHash[string(best.BlockHash())]
	if s.dpos {
		// the extension block comes from the stub session of the same scenario; the scenario is run with the real
		// status only if no reorganisation of it is vetoed by the LIB (the crash-free run ends where the stub's does)
		return s.ext != nil && tip.id == s.ext.parent
	}
	s.ext = sc.child(tip, sc.freshSpecs(tip, rng, 1, 7))
	return true
}

// record runs the scenario once without a crash, on journaling stores.
func (s *session) record() {
	sc := s.sc
	s.w.initDir(s.dir)
	n := s.w.bootX(s.dir, s.dpos)
	s.base = n.stores()
	g := sc.blocks[1]
	s.op(fmt.Sprintf("new %d %d %d", g.id, g.root, sc.maxNo), sc.dump(s.base), true)
	type span struct{ from, to int }
	var spans []span
	for _, id := range sc.order {
		b := sc.blocks[id]
		line := sc.feedLine(b)
		s.run.Pending(line)
		ans, us := s.feed(n, b)
		spans = append(spans, span{len(s.J), len(s.J) + len(us)})
		s.J = append(s.J, us...)
		s.op(line, ans, len(us) > 0)
		if s.dpos && os.Getenv("C06_DEBUG") != "" {
			fmt.Fprintf(os.Stderr, "DPOS [%s] %s => %s | %s\n", sc.name, line, ans, s.libText(n))
		}
		s.run.Count(fmt.Sprintf("feed-units-%d", min(len(us), 9)))
	}
	fin := n.stores()
	s.finalDump = sc.dump(fin)
	s.finalView = sc.view(fin)
	s.op("dump", s.finalDump, true)
	best, _ := n.cs.GetBestBlock()
	s.finalBest = sc.byHash[string(best.BlockHash())].id
	s.finalAcct = s.acct(n, best.GetHeader().GetBlocksRootHash())
	s.finalLib = s.libText(n)
	// the crash-free run itself must satisfy the invariant
	if what := s.invariant(n, fin); what != "" {
		s.fail("crash-free run: "+what, "final")
	}
	// the journal replayed on the base must give the final stores (the journal is complete)
	chk := s.base.clone()
	for _, u := range s.J {
		chk.apply(u)
	}
	if !sameMap(chk.C, fin.C) || !sameMap(chk.S, fin.S) {
		s.fail("harness: journal replay differs from the final stores", "final")
	}
	// one more block on the tip (not part of the journal that is crashed)
	line := sc.feedLine(s.ext)
	ans, us := s.feed(n, s.ext)
	s.op(line, ans, len(us) > 0)
	s.extDump = sc.dump(n.stores())
	s.extView = sc.view(n.stores())
	s.op("dump", s.extDump, true)
	best, _ = n.cs.GetBestBlock()
	s.extAcct = s.acct(n, best.GetHeader().GetBlocksRootHash())
	s.extLib = s.libText(n)
	n.close()

	// allowed tips per prefix: A = tip at the last stable point (no marker) at or before k, B = next tip
	cur := s.base.clone()
	type pt struct {
		best   int
		stable bool
	}
	pts := make([]pt, len(s.J)+1)
	for k := 0; k <= len(s.J); k++ {
		if k > 0 {
			cur.apply(s.J[k-1])
		}
		db := sc.durableBest(cur)
		_, mk := cur.C[string(dbkey.ReOrg())]
		id := 0
		if db != nil {
			id = db.id
		}
		pts[k] = pt{id, !mk}
	}
	s.allowedA = make([]int, len(pts))
	s.allowedB = make([]int, len(pts))
	a := pts[0].best
	for k := range pts {
		if pts[k].stable {
			a = pts[k].best
		}
		s.allowedA[k] = a
	}
	for k := len(pts) - 1; k >= 0; k-- {
		b := s.allowedA[k]
		for j := k; j < len(pts); j++ {
			if pts[j].stable && pts[j].best != s.allowedA[k] {
				b = pts[j].best
				break
			}
		}
		s.allowedB[k] = b
	}
	// the window of the not-resumed class: inside a feed that writes a marker, after its last side-block record
	// (the unit [+blk] just before the roll-forward) and up to (not including) the marker unit
	s.window = make([]bool, len(pts))
	for _, sp := range spans {
		m0 := -1
		for i := sp.from; i < sp.to; i++ {
			_, t := sc.canon(s.J[i])
			if strings.HasPrefix(t, "C.tx[+marker:") {
				m0 = i
				break
			}
		}
		if m0 < 0 {
			continue
		}
		s0 := -1
		for i := sp.from; i < m0; i++ {
			_, t := sc.canon(s.J[i])
			if strings.HasPrefix(t, "C.tx[+blk:") && !strings.Contains(t, ",") {
				s0 = i
			}
		}
		d0 := -1
		for i := m0 + 1; i < sp.to; i++ {
			if _, t := sc.canon(s.J[i]); t == "C.tx[-marker]" {
				d0 = i
				break
			}
		}
		if d0 > m0 {
			s.reorgs = append(s.reorgs, reorgSpan{sp.from, sp.to, m0, d0})
		}
		if s0 < 0 {
			continue
		}
		for k := s0 + 1; k <= m0; k++ {
			s.window[k] = true
		}
		s.run.Count("reorganising-feeds")
	}
}

// invariant evaluates the C05 invariant clauses + "the state of the best block is available" on a node;
// returns "" or what is broken. st = content of the node's stores (raw scan).
func (s *session) invariant(n *node, st *kv) string {
	// a query that panics on the recovered node is a broken invariant, not a harness crash
	out, _ := vh.Guard(func() string { return s.invariant0(n, st) })
	return out
}

func (s *session) invariant0(n *node, st *kv) string {
	sc := s.sc
	cs := n.cs
	best, err := cs.GetBestBlock()
	if err != nil || best == nil {
		return "no best block"
	}
	// (1) best is the tip of a parent-hash-linked path down to genesis
	var path []*types.Block
	cur := best
	for {
		path = append(path, cur)
		if cur.BlockNo() == 0 {
			break
		}
		p, err := cs.GetBlock(cur.GetHeader().GetPrevBlockHash())
		if err != nil {
			return fmt.Sprintf("(1) parent of block no %d is not in the chain DB", cur.BlockNo())
		}
		if p.BlockNo()+1 != cur.BlockNo() {
			return fmt.Sprintf("(1) parent of block no %d has no %d", cur.BlockNo(), p.BlockNo())
		}
		cur = p
	}
	if !bytes.Equal(cur.BlockHash(), sc.blocks[1].blk.BlockHash()) {
		return "(1) path does not end at genesis"
	}
	if v, ok := st.C[string(dbkey.LatestBlock())]; !ok || types.BlockNoFromBytes(v) != best.BlockNo() {
		return "(1) stored latest number is not the best block's number"
	}
	if chain.VerifC06LatestNo(cs) != best.BlockNo() {
		return "(1) cached latest number is not the best block's number"
	}
	// (2) the height index maps each height of the path to exactly that block, nothing above
	for _, b := range path {
		got, err := chain.VerifC06GetBlockByNo(cs, b.BlockNo())
		if err != nil || !bytes.Equal(got.BlockHash(), b.BlockHash()) {
			return fmt.Sprintf("(2) height %d does not map to the block on the best path", b.BlockNo())
		}
	}
	for h := best.BlockNo() + 1; h <= sc.maxNo+2; h++ {
		if _, ok := st.C[string(types.BlockNoToBytes(h))]; ok {
			return fmt.Sprintf("(2) height %d above the best block is mapped", h)
		}
	}
	// (3) every tx of a main-chain block is found at its block and position; others are not reported
	inMain := map[string]bool{}
	for _, b := range path {
		ntx := len(b.GetBody().GetTxs())
		for i, tx := range b.GetBody().GetTxs() {
			inMain[string(tx.GetHash())] = true
			// the index record of every tx, read raw (what getTx reads first) …
			var ti types.TxIdx
			if v, ok := st.C[string(tx.GetHash())]; !ok || proto.Decode(v, &ti) != nil {
				return fmt.Sprintf("(3) tx %d of main-chain block no %d is not found", sc.w.txID[string(tx.GetHash())], b.BlockNo())
			} else if !bytes.Equal(ti.BlockHash, b.BlockHash()) || int(ti.Idx) != i {
				return fmt.Sprintf("(3) tx %d of main-chain block no %d is reported at another block/position", sc.w.txID[string(tx.GetHash())], b.BlockNo())
			}
			// … and the query itself (it decodes the whole block for every tx: in a block of more than 16 txs for the
			// first, the last and the ones around every multiple of 500)
			if ntx > 16 && i != 0 && i != ntx-1 && (i+2)%500 > 3 {
				continue
			}
			_, idx, err := chain.VerifC06GetTx(cs, tx.GetHash())
			if err != nil {
				return fmt.Sprintf("(3) tx %d of main-chain block no %d is not found", sc.w.txID[string(tx.GetHash())], b.BlockNo())
			}
			if !bytes.Equal(idx.BlockHash, b.BlockHash()) || int(idx.Idx) != i {
				return fmt.Sprintf("(3) tx %d of main-chain block no %d is reported at another block/position", sc.w.txID[string(tx.GetHash())], b.BlockNo())
			}
		}
	}
	for id := 1; id < len(sc.w.txByID); id++ {
		h := sc.w.txByID[id].GetHash()
		if inMain[string(h)] {
			continue
		}
		if _, _, err := chain.VerifC06GetTx(cs, h); err == nil {
			return fmt.Sprintf("(3) tx %d, only on an abandoned/unconnected branch, is reported as confirmed", id)
		}
	}
	// (4) receipts exist for every main-chain block that has transactions
	for _, b := range path {
		if len(b.GetBody().GetTxs()) == 0 {
			continue
		}
		r, err := chain.VerifC06GetReceipts(cs, b.BlockHash())
		if err != nil || r == nil || len(r.Get()) != len(b.GetBody().GetTxs()) {
			return fmt.Sprintf("(4) receipts of main-chain block no %d are missing", b.BlockNo())
		}
	}
	// (5) the current state root is the best block's root, it is marked complete and readable
	root := best.GetHeader().GetBlocksRootHash()
	if !bytes.Equal(cs.SDB().GetRoot(), root) {
		return "(5) state DB root is not the best block's state root"
	}
	if !cs.SDB().GetStateDB().HasMarker(root) {
		return "(5) the best block's state root has no completion marker"
	}
	if a := s.acct(n, root); a == "unreadable" || strings.HasPrefix(a, "panic") {
		return "(5) the best block's state is not readable"
	}
	// (6) no reorganisation marker
	if _, _, _, present, _ := chain.VerifC06Marker(cs); present {
		return "(6) a reorganisation marker is stored"
	}
	return ""
}

type restartResult struct {
	n     *node
	ans   string
	ok    bool
	start *kv
	units []unit // init units ++ recover units
	ninit int
}

// restart materialises st in a fresh directory and runs the real restart path on it.
func (s *session) restart(st *kv) *restartResult {
	sc := s.sc
	r := &restartResult{start: st}
	dir := filepath.Join(s.dir, "crash")
	os.RemoveAll(dir)
	st.writeDir(dir)
	// chain-DB half first, on a journaling store, with the error returned (Core.init would exit the process)
	prec := &recorder{}
	pstore := &jdb{inner: db.NewDB(db.MemoryImpl, filepath.Join(dir, "chain")), rec: prec, tag: 'C'}
	var ierr error
	out, pan := vh.Guard(func() string {
		_, ierr = chain.VerifC06ChainDBOn(pstore)
		return errClass(ierr)
	})
	if pan {
		r.ans = "boot=panic"
		return r
	}
	initUnits := durable(prec.units)
	for i := range initUnits {
		initUnits[i], _ = sc.canon(initUnits[i])
	}
	r.units = initUnits
	r.ninit = len(initUnits)
	if ierr != nil {
		r.ans = fmt.Sprintf("boot=%s init=%s", out, sc.unitsText(initUnits))
		return r
	}
	// the real boot on the same files (Init runs again, from the same content)
	var n *node
	_, pan = vh.Guard(func() string { n = s.w.bootX(dir, s.dpos); return "" })
	if pan || n == nil {
		r.ans = fmt.Sprintf("boot=panic init=%s", sc.unitsText(initUnits))
		return r
	}
	r.n = n
	var rerr error
	_, pan = vh.Guard(func() string { rerr = n.cs.Recover(); return "" })
	recUnits := durable(n.rec.units)
	for i := range recUnits {
		recUnits[i], _ = sc.canon(recUnits[i])
	}
	n.rec.units = nil
	r.units = append(r.units, recUnits...)
	best, _ := n.cs.GetBestBlock()
	rc := errClass(rerr)
	if pan {
		rc = "panic"
	}
	r.ok = rerr == nil && !pan
	if !r.ok {
		r.ans = fmt.Sprintf("boot=ok init=%s rec=%s recunits=%s", sc.unitsText(initUnits), rc, sc.unitsText(recUnits))
		return r
	}
	r.ans = fmt.Sprintf("boot=ok init=%s rec=%s recunits=%s best=%s root=%d", sc.unitsText(initUnits), rc, sc.unitsText(recUnits),
		sc.bid(best.BlockHash()), sc.rootOf(n))
	s.restarts++
	_, marked := st.C[string(dbkey.ReOrg())]
	if marked || s.restarts%4 == 0 {
		s.viaReceive(r, st, sc.unitsText(recUnits), best)
	}
	return r
}

// viaReceive: the production trigger of the recovery. Nothing in a running node calls Recover(): it is run
// lazily by ChainService.Receive on the first actor message. A second node is booted on the same crash state
// and is only sent a message (GetBestBlock, which Receive answers itself) through the real Receive; it must
// have written exactly the units of the direct Recover() and answer with the same best block. That node
// replaces the first one: everything the property demands is then judged on the node that was recovered the
// way a production node is. (Only after the direct Recover() succeeded: Receive exits the process on failure.)
func (s *session) viaReceive(r *restartResult, st *kv, recText string, best *types.Block) {
	sc := s.sc
	dir := filepath.Join(s.dir, "crashB")
	os.RemoveAll(dir)
	st.writeDir(dir)
	var n2 *node
	var resp interface{}
	_, pan := vh.Guard(func() string {
		n2 = s.w.bootX(dir, s.dpos)
		resp = chain.VerifC06Receive(n2.cs, &message.GetBestBlock{})
		return ""
	})
	s.run.Count("restarts-through-Receive")
	if pan || n2 == nil {
		s.fail("restart through ChainService.Receive panics where the direct Recover() succeeds: "+r.ans, "Receive")
		return
	}
	us := durable(n2.rec.units)
	for i := range us {
		us[i], _ = sc.canon(us[i])
	}
	n2.rec.units = nil
	got := "no-response"
	if rsp, ok := resp.(message.GetBestBlockRsp); ok && rsp.Err == nil && rsp.Block != nil {
		got = sc.bid(rsp.Block.BlockHash())
	}
	if t := sc.unitsText(us); t != recText || got != sc.bid(best.BlockHash()) {
		s.fail(fmt.Sprintf("the first message through ChainService.Receive (lazy recovery) wrote %s and answered best=%s; Recover() on the same stores wrote %s and ends at best=%s",
			t, got, recText, sc.bid(best.BlockHash())), "Receive")
	}
	r.n.close()
	r.n = n2
}

type crashCtx struct {
	at       string
	a, b     int  // allowed tips
	torn     bool // a partially flushed bulk is involved
	inWindow bool // the crash point lies in the not-resumed window
	tornInit bool // the partially flushed bulk is the one ChainDB.Init wrote (RecoverChainMapping)
}

// judge: the property's predicate on the restarted node, then feed everything again and compare with the
// crash-free run, then one more block.
func (s *session) judge(r *restartResult, c crashCtx) {
	sc := s.sc
	count := func(what string) {
		kind := what
		if i := strings.IndexAny(kind, ":0123456789"); i > 0 {
			kind = kind[:i]
		}
		t := ""
		if c.torn {
			t = "torn:"
		}
		s.run.Count("fail:" + t + strings.TrimSpace(kind))
		if os.Getenv("C06_DEBUG") != "" {
			fmt.Fprintf(os.Stderr, "FAIL %s [%s] %s :: %s\n", c.at, s.sc.name, what, r.ans)
		}
	}
	fail := func(what string) {
		count(what)
		s.fail(what, c.at)
	}
	if r.n == nil || !r.ok {
		what := "the node does not come up after the crash: " + r.ans
		if c.tornInit && strings.HasPrefix(r.ans, "boot=err-load-best") {
			count(what)
			s.failKnown(what, classTornRecoverMapping, c.at)
		} else {
			fail(what)
		}
		if r.n != nil {
			r.n.close()
		}
		return
	}
	n := r.n
	st := n.stores()
	s.op("dump", sc.dump(st), true)
	clean := true
	if what := s.invariant(n, st); what != "" {
		fail("after restart+recovery: " + what)
		clean = false
	}
	best, _ := n.cs.GetBestBlock()
	bid := 0
	if sb, ok := sc.byHash[string(best.BlockHash())]; ok {
		bid = sb.id
	}
	if bid != c.a && bid != c.b {
		fail(fmt.Sprintf("after restart+recovery the best block is %d, neither the old tip %d nor the new tip %d", bid, c.a, c.b))
		clean = false
	}
	if bid == c.a {
		s.run.Count("recovered-to-old-tip")
	} else {
		s.run.Count("recovered-to-new-tip")
	}
	// feed the same blocks again
	for _, id := range sc.order {
		blk := sc.blocks[id]
		line := sc.feedLine(blk)
		s.run.Pending(line)
		ans, us := s.feed(n, blk)
		s.op(line, ans, len(us) > 0)
	}
	fin := n.stores()
	d := sc.dump(fin)
	s.op("dump", d, true)
	best, _ = n.cs.GetBestBlock()
	refed := sc.bid(best.BlockHash())
	conv := sc.view(fin) == s.finalView && s.acct(n, best.GetHeader().GetBlocksRootHash()) == s.finalAcct
	if conv && d != s.finalDump {
		s.run.Count("refeed-converged-with-leftover-records")
	}
	if what := s.invariant(n, fin); what != "" {
		fail("after feeding the blocks again: " + what)
		clean = false
	}
	// one more block on the crash-free tip
	line := sc.feedLine(s.ext)
	s.run.Pending(line)
	ans, us := s.feed(n, s.ext)
	s.op(line, ans, len(us) > 0)
	fin2 := n.stores()
	d2 := sc.dump(fin2)
	s.op("dump", d2, true)
	best, _ = n.cs.GetBestBlock()
	convExt := sc.view(fin2) == s.extView && s.acct(n, best.GetHeader().GetBlocksRootHash()) == s.extAcct
	if s.dpos {
		// the Status loads the persisted record lazily, at its first Update: it is read after the extension block
		libExt := s.libText(n)
		switch {
		case strings.Contains(libExt, "not-on-main-chain"):
			fail(fmt.Sprintf("DPoS status after recovery: the last irreversible block is not on the main chain (%s)", libExt))
		case convExt && libExt != s.extLib:
			// a restart recomputes the LIB bookkeeping from the chain (C08's ground): the recovered node may report
			// an older LIB than the node that never stopped; counted, not a failure of C06
			s.run.Count("dpos-status-differs-after-next-block")
			s.lib(fmt.Sprintf("after crash, recovery, re-feeding and one more block the chain is the crash-free one but the DPoS status is %s, crash-free %s", libExt, s.extLib), c.at)
		case convExt:
			s.run.Count("dpos-status-converged")
		}
	}
	switch {
	case conv && convExt:
		s.run.Count("refeed-converged")
	case !conv && convExt && clean && c.inWindow && bid == c.a:
		s.run.Count("refeed-not-converged-until-next-block")
		what := fmt.Sprintf("feeding the same blocks again ends at best %s, the crash-free run at %d (one more block on that tip brings both to the same state): %s  vs  %s", refed, s.finalBest, d, s.finalDump)
		count(what)
		s.failKnown(what, classNotResumed, c.at)
	case !conv:
		s.run.Count("refeed-not-converged")
		fail(fmt.Sprintf("feeding the same blocks again ends at best %s, the crash-free run at %d: %s  vs  %s", refed, s.finalBest, d, s.finalDump))
	default:
		s.run.Count("refeed-converged-then-diverged")
		fail(fmt.Sprintf("after feeding the same blocks again and one more block the stores differ from the crash-free run: %s  vs  %s", d2, s.extDump))
	}
	n.close()
}

func (s *session) crashAll(nested bool, torn bool) {
	cur := s.base.clone()
	for k := 0; k <= len(s.J); k++ {
		if k > 0 {
			cur.apply(s.J[k-1])
		}
		s.crashAt(cur.clone(), fmt.Sprintf("crash %d", k), crashCtx{a: s.allowedA[k], b: s.allowedB[k], inWindow: s.window[k]}, nested)
		if torn && k < len(s.J) && s.J[k].Kind == "bulk" && len(s.J[k].Ops) > 1 {
			u := s.J[k]
			for j := 1; j < len(u.Ops); j++ {
				mj := j
				if u.DB == 'S' {
					// the model has one `data` entry for all trie/account records: incomplete data = none
					if j < len(u.Ops)-1 {
						if j > 1 && s.run.Rng.Intn(4) != 0 {
							continue
						}
						mj = 0
					} else {
						mj = 1
					}
				}
				t := cur.clone()
				t.applyTorn(u, j)
				// the unit being flushed may be the one that moves the tip
				bb := s.allowedB[k]
				if s.allowedA[k+1] != s.allowedA[k] {
					bb = s.allowedA[k+1]
				}
				s.crashAt(t, fmt.Sprintf("crash %d %d", k, mj), crashCtx{a: s.allowedA[k], b: bb, torn: true, inWindow: s.window[k] && s.window[k+1]}, false)
			}
		}
	}
}

// lagAll: crash points *outside* the property's quantifier — the chain DB holds the first k units of the journal,
// the state DB has lost its units from position l on (two independent stores are only ordered if every state
// flush is durable before the next chain-DB write is issued). Explored inside the swap window of every
// reorganisation (marker durable), for every state commit of its roll-forward. The recovery cannot succeed
// there; what is demanded is fail-stop: the node refuses to come up (executeBlockReco: ErrStateNoMarker), or it
// comes up coherent — never up on a best block whose state is not there (model: lagging_state_fail_stop).
func (s *session) lagAll() {
	for _, sp := range s.reorgs {
		var sIdx []int
		for i := sp.from; i < sp.m; i++ {
			if s.J[i].DB == 'S' {
				sIdx = append(sIdx, i)
			}
		}
		// first the torn variant: the state bulk at position l reached the disk but for its last entry, the
		// completion marker (the state itself is all there). A recovery that does not insist on the marker comes
		// up on it — and would walk into missing trie nodes (and take the process down) at the plain lag points
		// below, which are then skipped.
		insists := !s.w.noMarkerGuard
		if insists && len(sIdx) > 0 {
			// only the last state commit (the new top's): everything below it is complete
			l := sIdx[len(sIdx)-1]
			u := s.J[l]
			if n := len(u.Ops); n >= 2 && strings.HasPrefix(s.sc.opText('S', u.Ops[n-1]), "+mark:") {
				insists = s.lagAt(sp.m+1, l, true)
			}
		}
		if !insists {
			// for the rest of the run: the plain lag points would take the process down
			s.w.noMarkerGuard = true
			s.run.Count("lag-points-skipped(recovery does not insist on the state marker)")
			continue
		}
		ks := []int{sp.m + 1}
		if sp.d > sp.m+1 {
			ks = append(ks, sp.d)
		}
		for _, k := range ks {
			for _, l := range sIdx {
				s.lagAt(k, l, false)
			}
		}
	}
}

// lagAt restarts on: chain DB = first k units, state DB = its units before position l (torn: plus unit l without
// its last entry). Returns false when the node came up and is not coherent.
func (s *session) lagAt(k, l int, torn bool) bool {
	t := s.base.clone()
	for i := 0; i < k; i++ {
		switch {
		case s.J[i].DB == 'C' || i < l:
			t.apply(s.J[i])
		case i == l && torn:
			t.applyTorn(s.J[i], len(s.J[i].Ops)-1)
		}
	}
	line := fmt.Sprintf("lag %d %d", k, l)
	if torn {
		line += " 1" // model: the data entry of the state unit without the marker entry
	}
	s.run.Pending(line)
	r := s.restart(t)
	s.op(line, r.ans, true)
	if torn {
		s.run.Count("lag-points-torn")
	} else {
		s.run.Count("lag-points")
	}
	if r.n == nil || !r.ok {
		s.run.Count("lag-refused")
		if r.n != nil {
			r.n.close()
		}
		return true
	}
	s.run.Count("lag-came-up")
	ok := true
	if what := s.invariant(r.n, r.n.stores()); what != "" {
		s.fail("state DB lagging behind the chain DB: the node came up, and is not coherent: "+what, line)
		ok = false
	}
	r.n.close()
	return ok
}

func (s *session) crashAt(st *kv, line string, c crashCtx, nested bool) {
	s.crashes++
	s.run.Pending(line)
	r := s.restart(st)
	s.op(line, r.ans, true)
	if c.torn {
		s.run.Count("crash-points-torn")
	} else {
		s.run.Count("crash-points")
	}
	if len(r.units) > 0 {
		s.run.Count("crash-points-with-recovery-writes")
	}
	units, start, ninit := r.units, r.start, r.ninit
	c.at = line
	s.judge(r, c)
	if !nested {
		return
	}
	// crashes inside the recovery: every proper prefix of the restart's own units
	for j := 1; j < len(units); j++ {
		t := start.clone()
		for i := 0; i < j; i++ {
			t.apply(units[i])
		}
		l2 := fmt.Sprintf("rcrash %d", j)
		s.run.Pending(l2)
		r2 := s.restart(t)
		s.op(l2, r2.ans, true)
		s.run.Count("crash-points-inside-recovery")
		c2 := c
		c2.at = line + " / " + l2
		s.judge(r2, c2)
	}
	if !s.run.Thorough() {
		return
	}
	// partially flushed bulks of the recovery itself
	for j := 0; j < len(units); j++ {
		u := units[j]
		if u.Kind != "bulk" || len(u.Ops) < 2 {
			continue
		}
		t := start.clone()
		for i := 0; i < j; i++ {
			t.apply(units[i])
		}
		for e := 1; e < len(u.Ops); e++ {
			t2 := t.clone()
			t2.applyTorn(u, e)
			l2 := fmt.Sprintf("rcrash %d %d", j, e)
			s.run.Pending(l2)
			r2 := s.restart(t2)
			s.op(l2, r2.ans, true)
			s.run.Count("crash-points-inside-recovery-torn")
			c2 := c
			c2.at, c2.torn, c2.tornInit = line+" / "+l2, true, j < ninit
			s.judge(r2, c2)
		}
	}
}

func min(a, b int) int {
	if a < b {
		return a
	}
	return b
}

func main() {
	zerolog.SetGlobalLevel(zerolog.Disabled)
	if f := os.Getenv("C06_PROF"); f != "" {
		pf, _ := os.Create(f)
		pprof.StartCPUProfile(pf)
		defer pprof.StopCPUProfile()
	}
	run := vh.Start("c06", "an operation is non-trivial when it wrote at least one durable unit (feed) or is a crash/restart/dump")
	w := newWorld(filepath.Join(run.Out, "nodes"))
	w.prod = w.newProducer()
	{
		// NewChainService sets process-wide parameters (zero fee on a private net, governance mode, …): boot one
		// node before the producer executes anything, so that producer and nodes execute under the same parameters
		d := filepath.Join(w.root, "warmup")
		w.initDir(d)
		w.boot(d).close()
	}
	scs := scenarios(w, run)
	for i, sc := range scs {
		s := &session{run: run, w: w, sc: sc, dir: filepath.Join(w.root, fmt.Sprintf("s%d", i))}
		fam := strings.SplitN(sc.name, "/", 2)[0]
		if f := os.Getenv("C06_ONLY"); f != "" && !strings.HasPrefix(sc.name, f) {
			continue // debugging aid: run one scenario family
		}
		if !s.prepare(run.Rng) {
			run.Count("scenario-discarded(crash-free run drops a block):" + fam)
			continue
		}
		s.record()
		nested := run.Thorough() || i%2 == 0
		torn := run.Thorough()
		if fam == "big" {
			// thousands of entries per bulk: no partial flushes, crashes inside the recovery as in the quick tier
			nested, torn = i%2 == 0, false
		}
		s.crashAll(nested, torn)
		s.lagAll()
		run.Count("scenario:" + fam)
		os.RemoveAll(s.dir)
		// the same scenario with the real DPoS status in the consensus slot (oracle only)
		if fam != "linear" && (run.Thorough() && i%4 == 1 || !run.Thorough() && i%4 == 3) {
			s2 := &session{run: run, w: w, sc: sc, dir: filepath.Join(w.root, fmt.Sprintf("s%dd", i)), dpos: true, ext: s.ext}
			if !s2.prepare(run.Rng) {
				run.Count("dpos-scenario-skipped(LIB veto or dropped block):" + fam)
				continue
			}
			s2.record()
			s2.crashAll(run.Thorough() && i%8 == 1, false)
			run.Count("dpos-scenario:" + fam)
			os.RemoveAll(s2.dir)
		}
	}
	os.RemoveAll(w.root)
	run.Finish()
}
