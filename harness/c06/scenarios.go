package main

import (
	"fmt"

	"github.com/aergoio/aergo/v2/zz_verif/vh"
)

// Scenario families (DESIGN §4 C06): linear connection with/without transactions, orphan-resolution
// chains, reorganisations of depth 1..4 with/without shared transactions, reorganisations whose new
// branch arrives out of order, reorganisation back to the first branch, random block trees.

type txMode int

const (
	txNone   txMode = iota // empty blocks
	txFresh                // every block has its own transactions
	txShared               // the new branch repeats the old branch's transactions (and adds its own)
	txMixed                // some blocks empty, some shared
)

func (sc *scenario) chain(from *sblock, n int, rng *vh.Rng, mode txMode, salt int64, mirror []*sblock) []*sblock {
	var out []*sblock
	cur := from
	for i := 0; i < n; i++ {
		var specs []txSpec
		switch mode {
		case txNone:
		case txFresh:
			specs = sc.freshSpecs(cur, rng, 1+rng.Intn(2), salt)
		case txShared, txMixed:
			if i < len(mirror) {
				specs = sc.sharedSpecs(cur, mirror[i])
			}
			if mode == txShared || rng.Bool() {
				tmp := &sblock{nonces: cur.nonces}
				for _, s := range specs {
					tmp.nonces[s.from]++
				}
				specs = append(specs, sc.freshSpecs(tmp, rng, rng.Intn(2), salt)...)
			}
		}
		cur = sc.child(cur, specs)
		out = append(out, cur)
	}
	return out
}

func ids(bs []*sblock) []int {
	var o []int
	for _, b := range bs {
		o = append(o, b.id)
	}
	return o
}

func rev(a []int) []int {
	o := make([]int, len(a))
	for i, x := range a {
		o[len(a)-1-i] = x
	}
	return o
}

func scLinear(w *world, rng *vh.Rng, n int, mode txMode) *scenario {
	sc := newScenario(w, fmt.Sprintf("linear/n=%d,tx=%d", n, mode))
	m := mode
	var bs []*sblock
	cur := sc.blocks[1]
	for i := 0; i < n; i++ {
		mm := m
		if mode == txMixed {
			mm = txFresh
			if i%2 == 1 {
				mm = txNone
			}
		}
		b := sc.chain(cur, 1, rng, mm, 0, nil)
		bs = append(bs, b...)
		cur = b[0]
	}
	sc.order = ids(bs)
	return sc
}

// a1, then the rest in reverse order with the first missing, then the missing one: the arrival of the
// missing block connects the whole parked chain in one go.
func scOrphan(w *world, rng *vh.Rng, n int, mode txMode) *scenario {
	sc := newScenario(w, fmt.Sprintf("orphan/n=%d,tx=%d", n, mode))
	bs := sc.chain(sc.blocks[1], n, rng, mode, 0, nil)
	o := []int{bs[0].id}
	o = append(o, rev(ids(bs[2:]))...)
	o = append(o, bs[1].id)
	sc.order = o
	return sc
}

// main branch of length fork+depth, new branch of length depth+extra from the block at height fork.
// arrival: main in order, then the new branch in order (or reversed = orphans, first block last).
func scReorg(w *world, rng *vh.Rng, fork, depth, extra int, mode txMode, newReversed bool, back int) *scenario {
	sc := newScenario(w, fmt.Sprintf("reorg/fork=%d,depth=%d,extra=%d,tx=%d,rev=%v,back=%d", fork, depth, extra, mode, newReversed, back))
	mmode := mode
	if mode == txShared || mode == txMixed {
		mmode = txFresh
	}
	main := sc.chain(sc.blocks[1], fork+depth, rng, mmode, 0, nil)
	from := sc.blocks[1]
	if fork > 0 {
		from = main[fork-1]
	}
	side := sc.chain(from, depth+extra, rng, mode, 1, main[fork:])
	o := ids(main)
	if newReversed {
		o = append(o, rev(ids(side))...)
	} else {
		o = append(o, ids(side)...)
	}
	if back > 0 {
		// the first branch grows beyond the new one: reorganisation back
		more := sc.chain(main[len(main)-1], extra+back, rng, mmode, 2, nil)
		o = append(o, ids(more)...)
	}
	sc.order = o
	return sc
}

// random tree: up to 3 branches hanging off random blocks, arrival order = random shuffle that keeps
// most parents before their children.
func scRandom(w *world, rng *vh.Rng, idx int) *scenario {
	sc := newScenario(w, fmt.Sprintf("random/%d", idx))
	nbr := 2 + rng.Intn(2)
	var all []*sblock
	main := sc.chain(sc.blocks[1], 2+rng.Intn(3), rng, txMode(rng.Intn(4)%3), 0, nil)
	all = append(all, main...)
	for b := 1; b < nbr; b++ {
		pool := append([]*sblock{sc.blocks[1]}, all...)
		from := pool[rng.Intn(len(pool))]
		var mirror []*sblock
		for _, m := range main {
			if m.no > from.no {
				mirror = append(mirror, m)
			}
		}
		br := sc.chain(from, 1+rng.Intn(4), rng, txMode(rng.Intn(4)), int64(b), mirror)
		all = append(all, br...)
	}
	o := ids(all)
	// a few local swaps (children before parents → orphans)
	for i := 0; i < len(o)/3; i++ {
		j := rng.Intn(len(o) - 1)
		o[j], o[j+1] = o[j+1], o[j]
	}
	sc.order = o
	return sc
}

// A side branch with a block that does not execute (its header claims a state root execution does not reach):
// the reorganisation triggered by the branch's last block fails in the roll-forward, after the blocks below the
// bad one have been executed and committed (state bulks, receipts); one more block on the branch makes it fail
// again; then the main chain grows. badAt = position of the bad block on the branch (0 = its first block).
func scBadReorg(w *world, rng *vh.Rng, fork, depth, badAt int, mode txMode) *scenario {
	sc := newScenario(w, fmt.Sprintf("badreorg/fork=%d,depth=%d,bad=%d,tx=%d", fork, depth, badAt, mode))
	main := sc.chain(sc.blocks[1], fork+depth, rng, txFresh, 0, nil)
	from := sc.blocks[1]
	if fork > 0 {
		from = main[fork-1]
	}
	var side []*sblock
	cur := from
	for i := 0; i < depth+2; i++ {
		var specs []txSpec
		if mode != txNone {
			specs = sc.freshSpecs(cur, rng, 1+rng.Intn(2), 3)
		}
		cur = sc.childX(cur, specs, i == badAt)
		side = append(side, cur)
	}
	o := ids(main)
	o = append(o, ids(side)...)
	more := sc.chain(main[len(main)-1], 1, rng, txFresh, 4, nil)
	o = append(o, ids(more)...)
	sc.order = o
	return sc
}

// A block that does not execute arrives on the tip (rejected, nothing written), then its valid sibling; with
// orphan=true the bad block first waits in the orphan pool behind its parent.
func scBadTip(w *world, rng *vh.Rng, orphan bool) *scenario {
	sc := newScenario(w, fmt.Sprintf("badtip/orphan=%v", orphan))
	a := sc.chain(sc.blocks[1], 2, rng, txFresh, 0, nil)
	bad := sc.childX(a[1], sc.freshSpecs(a[1], rng, 1, 5), true)
	good := sc.chain(a[1], 2, rng, txFresh, 6, nil)
	if orphan {
		sc.order = []int{a[0].id, bad.id, a[1].id, good[0].id, good[1].id}
	} else {
		sc.order = []int{a[0].id, a[1].id, bad.id, good[0].id, good[1].id}
	}
	return sc
}

// Blocks with many transactions: the thresholds of the write path (a DB transaction or bulk that is committed and
// continued every N entries) only show with more than N entries. A block of n cheap transfers is connected on the
// tip (reorg=false: after one small block) or is the first block of a new branch that wins (reorg=true); the model
// predicts ONE unit for the tip transaction / for the tx-index transaction of the block, whatever n.
func scBig(w *world, rng *vh.Rng, n int, reorg bool) *scenario {
	sc := newScenario(w, fmt.Sprintf("big/n=%d,reorg=%v", n, reorg))
	g := sc.blocks[1]
	a1 := sc.child(g, sc.freshSpecs(g, rng, 1, 0))
	if !reorg {
		big := sc.child(a1, sc.freshSpecs(a1, rng, n, 8))
		sc.order = []int{a1.id, big.id}
		return sc
	}
	b1 := sc.child(g, sc.freshSpecs(g, rng, n, 9))
	b2 := sc.child(b1, sc.freshSpecs(b1, rng, 1, 9))
	sc.order = []int{a1.id, b1.id, b2.id}
	return sc
}

func scenarios(w *world, run *vh.Run) []*scenario {
	rng := run.Rng
	var out []*scenario
	// fixed families, parameters varied by the seed
	out = append(out, scLinear(w, rng, 2+rng.Intn(2), txFresh))
	out = append(out, scLinear(w, rng, 2, txNone))
	out = append(out, scOrphan(w, rng, 3+rng.Intn(2), txFresh))
	out = append(out, scReorg(w, rng, rng.Intn(2), 1, 1, txFresh, false, 0))
	out = append(out, scReorg(w, rng, rng.Intn(2), 2, 1, txShared, false, 0))
	out = append(out, scReorg(w, rng, 1, 3, 1, txMixed, false, 0))
	out = append(out, scReorg(w, rng, 0, 4, 1, txShared, false, 0))
	out = append(out, scReorg(w, rng, rng.Intn(2), 2, 1, txNone, false, 0))
	out = append(out, scReorg(w, rng, 1, 2, 1+rng.Intn(2), txFresh, true, 0))
	out = append(out, scReorg(w, rng, 0, 1+rng.Intn(2), 1, txShared, false, 1))
	out = append(out, scRandom(w, rng, 0))
	out = append(out, scBadReorg(w, rng, rng.Intn(2), 1+rng.Intn(2), 1, txFresh))
	out = append(out, scBadTip(w, rng, rng.Bool()))
	if run.Thorough() {
		out = append(out, scReorg(w, rng, 1, 7, 1, txShared, false, 0)) // a deep window
		out = append(out, scBadReorg(w, rng, 1, 2, 0, txFresh))
		out = append(out, scBadReorg(w, rng, 0, 3, 2, txNone))
		out = append(out, scBadTip(w, rng, true))
		out = append(out, scBadTip(w, rng, false))
		for _, n := range []int{999, 1000, 2500} {
			out = append(out, scBig(w, rng, n, false))
		}
		out = append(out, scBig(w, rng, 1000, true))
		out = append(out, scLinear(w, rng, 4, txMixed))
		out = append(out, scOrphan(w, rng, 5, txNone))
		for d := 1; d <= 4; d++ {
			for _, m := range []txMode{txNone, txFresh, txShared, txMixed} {
				out = append(out, scReorg(w, rng, rng.Intn(3), d, 1+rng.Intn(2), m, rng.Intn(3) == 0, rng.Intn(3)/2))
			}
		}
		for i := 1; i <= 40; i++ {
			out = append(out, scRandom(w, rng, i))
		}
	}
	// last: the oracle looks every transaction the world knows up by hash on every judged node
	out = append(out, scBig(w, rng, 1001, false))
	out = append(out, scBig(w, rng, 1001, true))
	return out
}
