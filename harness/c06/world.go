package main

// The world of the C06 harness: keys and genesis, a block producer (real tx executor on a real state DB,
// builds a block on any parent), a node under test (the real ChainService on memorydb files, booted by
// the real NewChainService, with a stub consensus that persists a status record the way DPoS does).

import (
	"context"
	"fmt"
	"math/big"
	"os"
	"path/filepath"
	"time"

	"github.com/aergoio/aergo-actor/actor"
	"github.com/aergoio/aergo-lib/db"
	"github.com/aergoio/aergo/v2/account/key"
	crypto "github.com/aergoio/aergo/v2/account/key/crypto"
	"github.com/aergoio/aergo/v2/chain"
	"github.com/aergoio/aergo/v2/config"
	"github.com/aergoio/aergo/v2/consensus"
	"github.com/aergoio/aergo/v2/consensus/impl/dpos"
	"github.com/aergoio/aergo/v2/consensus/impl/dpos/bp"
	"github.com/aergoio/aergo/v2/p2p/p2pkey"
	"github.com/aergoio/aergo/v2/contract"
	"github.com/aergoio/aergo/v2/contract/system"
	"github.com/aergoio/aergo/v2/pkg/component"
	"github.com/aergoio/aergo/v2/state"
	"github.com/aergoio/aergo/v2/types"
	"github.com/aergoio/aergo/v2/types/dbkey"
	"github.com/aergoio/aergo/v2/types/message"
	"github.com/aergoio/aergo/v2/zz_verif/vh"
	"github.com/btcsuite/btcd/btcec/v2"
	lcrypto "github.com/libp2p/go-libp2p/core/crypto"
)

// ---------------------------------------------------------------- stub consensus

// stubCons stands for the DPoS Status: Update remembers the block it was last told about, Save writes
// that into the writer it is given under dbkey.DposLibStatus() (libStatus.save writes its gob there) —
// so the journal shows in which write unit the consensus status is persisted. NeedReorganization
// vetoes below lib (dpos.Status.NeedReorganization).
type stubCons struct {
	cs   *chain.ChainService
	lib  uint64
	last []byte
}

func (s *stubCons) SetStateDB(sdb *state.ChainStateDB)                          {}
func (s *stubCons) IsTransactionValid(tx *types.Tx) bool                        { return true }
func (s *stubCons) VerifyTimestamp(block *types.Block) bool                     { return true }
func (s *stubCons) VerifySign(block *types.Block) error                         { return nil }
func (s *stubCons) IsBlockValid(block *types.Block, best *types.Block) error    { return nil }
func (s *stubCons) Update(block *types.Block)                                   { s.last = cp(block.BlockHash()) }
func (s *stubCons) Save(tx consensus.TxWriter) error {
	tx.Set(dbkey.DposLibStatus(), cp(s.last))
	return nil
}
func (s *stubCons) NeedReorganization(rootNo types.BlockNo) bool { return rootNo >= s.lib }
func (s *stubCons) Info() string                                 { return "" }
func (s *stubCons) GetType() consensus.ConsensusType             { return consensus.ConsensusSBP }
func (s *stubCons) NeedNotify() bool                             { return true }
func (s *stubCons) HasWAL() bool                                 { return false }
func (s *stubCons) IsForkEnable() bool                           { return true }

// as dpos.DPoS.IsConnectedBlock / sbp: the block is in the chain DB
func (s *stubCons) IsConnectedBlock(block *types.Block) bool {
	_, err := s.cs.GetBlock(block.BlockHash())
	return err == nil
}
func (s *stubCons) MakeConfChangeProposal(req *types.MembershipChange) (*consensus.ConfChangePropose, error) {
	return nil, consensus.ErrNotSupportedMethod
}

// dposCons: the stub with the REAL DPoS status in the three places the chain service uses it around a
// reorganisation and a restart — Update (LIB bookkeeping, both the connect and the rollback branch), Save (the
// dpos_lib_status record written in the tip transaction / the mapping bulk) and NeedReorganization (the LIB
// veto). The Status is made by the real dpos.NewStatus at boot, i.e. its boot loader reads the status record
// and replays the height index of whatever store the crash left (after ChainDB.Init, before Recover).
type dposCons struct {
	*stubCons
	st *dpos.Status
}

func (d *dposCons) Update(block *types.Block)                    { d.stubCons.Update(block); d.st.Update(block) }
func (d *dposCons) Save(tx consensus.TxWriter) error             { return d.st.Save(tx) }
func (d *dposCons) NeedReorganization(rootNo types.BlockNo) bool { return d.st.NeedReorganization(rootNo) }
func (d *dposCons) Info() string                                 { return d.st.Info() }

// ---------------------------------------------------------------- recording component (stands for mempool, rpc, p2p, syncer)

type sink struct {
	name string
	hub  *component.ComponentHub
	log  *[]string
	w    *world
}

func (r *sink) GetName() string                          { return r.name }
func (r *sink) Start()                                   {}
func (r *sink) Stop()                                    {}
func (r *sink) Status() component.Status                 { return component.StartedStatus }
func (r *sink) SetHub(hub *component.ComponentHub)       { r.hub = hub }
func (r *sink) Hub() *component.ComponentHub             { return r.hub }
func (r *sink) MsgQueueLen() int32                       { return 0 }
func (r *sink) Receive(actor.Context)                    {}
func (r *sink) Tell(m interface{})                       { r.rec(m) }
func (r *sink) Request(m interface{}, sender *actor.PID) { r.rec(m) }
func (r *sink) RequestFuture(m interface{}, timeout time.Duration, tip string) *actor.Future {
	r.rec(m)
	f := actor.NewFuturePrefix("verif", timeout)
	f.PID().Tell(component.ErrHubUnregistered)
	return f
}
func (r *sink) rec(m interface{}) {
	switch x := m.(type) {
	case *message.MemPoolPut:
		*r.log = append(*r.log, fmt.Sprintf("put:%d", r.w.txID[string(x.Tx.GetHash())]))
	}
}

// ---------------------------------------------------------------- world

const naccounts = 4
const nbps = 3

type world struct {
	keys   []*btcec.PrivateKey
	addrs  [][]byte
	root   string
	nnode  int
	txs    map[string]*types.Tx // memo: (from,to,nonce,amount) -> the one tx object (shared between branches)
	txID   map[string]int       // tx hash -> small id (1..)
	txByID []*types.Tx
	prod   *producer
	bpKeys []lcrypto.PrivKey // block producers: every block is signed by one of them (round robin by height)
	bpIDs  []string
	// a recovery was seen to come up on a state root without completion marker (lagAll): the lag points that
	// remove state data are skipped from then on
	noMarkerGuard bool
}

func newWorld(root string) *world {
	w := &world{root: root, txs: map[string]*types.Tx{}, txID: map[string]int{}, txByID: []*types.Tx{nil}}
	seed := vh.NewRng(6)
	for i := 0; i < naccounts; i++ {
		k, _ := btcec.PrivKeyFromBytes(seed.Bytes(32))
		w.keys = append(w.keys, k)
		w.addrs = append(w.addrs, crypto.GenerateAddress(k.PubKey().ToECDSA()))
	}
	for i := 0; i < nbps; i++ {
		priv, err := lcrypto.UnmarshalSecp256k1PrivateKey(seed.Bytes(32))
		if err != nil {
			panic(err)
		}
		pid, err := types.IDFromPublicKey(priv.GetPublic())
		if err != nil {
			panic(err)
		}
		w.bpKeys = append(w.bpKeys, priv)
		w.bpIDs = append(w.bpIDs, types.IDB58Encode(pid))
	}
	dpos.Init(nbps)
	p2pkey.VerifC06SetNodeSID(w.bpIDs[0])
	return w
}

func (w *world) genesis() *types.Genesis {
	g := &types.Genesis{
		ID:        types.ChainID{Version: 0, Magic: "c06.verif", PublicNet: false, MainNet: false, Consensus: "sbp"},
		Timestamp: 1_600_000_000_000_000_000,
		Balance:   map[string]string{},
		BPs:       append([]string{}, w.bpIDs...),
	}
	for _, a := range w.addrs {
		g.Balance[types.EncodeAddress(a)] = "1000000000000000000000"
	}
	return g
}

// initDir creates the genesis chain DB and state DB files in dir through the real Core.
func (w *world) initDir(dir string) {
	os.RemoveAll(dir)
	os.MkdirAll(dir, 0o755)
	core, err := chain.NewCore("memorydb", dir, false, 0, &config.DBConfig{})
	if err != nil {
		panic(err)
	}
	if err := core.InitGenesisBlock(w.genesis(), false); err != nil {
		panic(err)
	}
	core.Close()
}

func readDir(dir string) *kv {
	c := db.NewDB(db.MemoryImpl, filepath.Join(dir, "chain"))
	s := db.NewDB(db.MemoryImpl, filepath.Join(dir, "state"))
	return &kv{C: snapshotOf(c), S: snapshotOf(s)}
}

// ---------------------------------------------------------------- node under test

type node struct {
	cs   *chain.ChainService
	cons *stubCons
	dp   *dposCons // non-nil: the node runs with the real DPoS status
	msgs []string
	dir  string
	rec  *recorder
}

// boot starts a real chain service on the memorydb files in dir: NewChainService → NewCore →
// ChainDB.Init (loadChainData, recover → RecoverChainMapping), ChainStateDB.Init at the best block's
// root, initGenesis (finds the stored genesis). Then the stub consensus and the message sinks are
// attached and both stores are wrapped by the journaling store.
func (w *world) boot(dir string) *node { return w.bootX(dir, false) }

// bootX: realStatus = the consensus component carries a real dpos.Status (made by dpos.NewStatus on the chain DB
// as booted, as dpos.New does at process start).
func (w *world) bootX(dir string, realStatus bool) *node {
	n := &node{dir: dir, rec: &recorder{}}
	cfg := config.NewServerContext("", "").GetDefaultConfig().(*config.Config)
	cfg.DbType = "memorydb"
	cfg.DataDir = dir
	n.cs = chain.NewChainService(cfg)
	n.cons = &stubCons{cs: n.cs}
	if realStatus {
		cm, err := bp.NewCluster(n.cs.CDB()) // the genesis producer list, as dpos.New does
		if err != nil {
			panic(err)
		}
		n.dp = &dposCons{stubCons: n.cons, st: dpos.NewStatus(cm, n.cs.CDB(), n.cs.SDB(), 0)}
		n.cs.SetChainConsensus(n.dp)
	} else {
		n.cs.SetChainConsensus(n.cons)
	}
	hub := component.NewComponentHub()
	for _, nm := range []string{message.MemPoolSvc, message.RPCSvc, message.P2PSvc, message.SyncerSvc} {
		hub.Register(&sink{name: nm, log: &n.msgs, w: w})
	}
	n.cs.SetHub(hub)
	chain.VerifC06SetSkipMempool(n.cs, true)
	chain.VerifC06WrapStores(n.cs,
		func(d db.DB) db.DB { return &jdb{inner: d, rec: n.rec, tag: 'C'} },
		func(d db.DB) db.DB { return &jdb{inner: d, rec: n.rec, tag: 'S'} })
	return n
}

func (n *node) stores() *kv {
	return &kv{C: snapshotOf(chain.VerifC06Store(n.cs)), S: snapshotOf(n.cs.SDB().VerifC06Store())}
}

func (n *node) close() {
	n.cs.BeforeStop()
}

// ---------------------------------------------------------------- producer

// producer: a Core with the same genesis; every produced block's state is committed into its state
// store, so that children can be built on any block.
type producer struct {
	w     *world
	core  *chain.Core
	gen   *types.Block
	ts    int64
	bv    types.BlockVersionner
	built int
}

func (w *world) newProducer() *producer {
	dir := filepath.Join(w.root, "producer")
	w.initDir(dir)
	p := &producer{w: w}
	core, err := chain.NewCore("memorydb", dir, false, 0, &config.DBConfig{})
	if err != nil {
		panic(err)
	}
	p.core = core
	g := core.GetGenesisInfo()
	p.gen = g.Block()
	p.ts = g.Timestamp
	p.bv = config.AllEnabledHardforkConfig
	return p
}

type stubCcc struct{}

func (stubCcc) MakeConfChangeProposal(req *types.MembershipChange) (*consensus.ConfChangePropose, error) {
	return nil, consensus.ErrNotSupportedMethod
}

type txSpec struct {
	from, to int
	nonce    uint64
	amount   int64
}

func (w *world) tx(s txSpec, chainIDHash []byte) *types.Tx {
	k := fmt.Sprintf("%d>%d#%d:%d", s.from, s.to, s.nonce, s.amount)
	if t, ok := w.txs[k]; ok {
		return t
	}
	tx := &types.Tx{Body: &types.TxBody{
		Nonce: s.nonce, Account: w.addrs[s.from], Recipient: w.addrs[s.to], Amount: big.NewInt(s.amount).Bytes(),
		GasPrice: big.NewInt(0).Bytes(), Type: types.TxType_TRANSFER, ChainIdHash: chainIDHash,
	}}
	if err := key.SignTx(tx, w.keys[s.from]); err != nil {
		panic(err)
	}
	w.txs[k] = tx
	w.txID[string(tx.GetHash())] = len(w.txByID)
	w.txByID = append(w.txByID, tx)
	return tx
}

// build a block on parent with these txs (all must execute). parentRoot is the state root execution of the
// parent really reaches (differs from the parent's header for a parent built with badRoot). badRoot: the header
// of the new block claims a state root that its execution does not reach (ValidatePost fails on it). Returns
// the block and the root its execution reaches.
func (p *producer) build(parent *types.Block, parentRoot []byte, specs []txSpec, badRoot bool) (*types.Block, []byte) {
	p.ts += 1000
	p.built++
	bi := types.NewBlockHeaderInfoFromPrevBlock(parent, p.ts, p.bv)
	sdb := p.core.VerifC06SDB()
	bs := state.NewBlockState(sdb.OpenNewStateDB(parentRoot), state.SetPrevBlockHash(parent.BlockHash()))
	bs.SetGasPrice(system.GetGasPrice())
	bs.Receipts().SetHardFork(config.AllEnabledHardforkConfig, bi.No)
	var txs []*types.Tx
	for _, s := range specs {
		txs = append(txs, p.w.tx(s, bi.ChainIdHash()))
	}
	exec := chain.NewTxExecutor(context.Background(), stubCcc{}, nil, bi, contract.ChainService)
	for _, tx := range txs {
		if err := exec(bs, types.NewTransaction(tx)); err != nil {
			panic(fmt.Sprintf("producer: tx does not execute: %v", err))
		}
	}
	if err := bs.Update(); err != nil {
		panic(err)
	}
	if err := bs.Commit(); err != nil {
		panic(err)
	}
	root := cp(bs.GetRoot())
	hdrRoot := root
	if badRoot {
		hdrRoot = cp(root)
		hdrRoot[0] ^= 0xa5
		hdrRoot[len(hdrRoot)-1] ^= 0x5a
	}
	blk := types.NewBlock(bi, hdrRoot, bs.Receipts(), txs, nil, nil)
	// signed by the producers in turn, confirming every ancestor (so that the real DPoS status moves its LIB)
	blk.SetConfirms(bi.No)
	if err := blk.Sign(p.w.bpKeys[int(bi.No)%nbps]); err != nil {
		panic(err)
	}
	blk.BlockHash()
	return blk, root
}

