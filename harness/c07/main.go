// Harness c07: property C07 (fork choice: reorganisation reaches the longest valid branch and its exact state).
// The machinery is shared with C05 in harness/c05lib (real ChainService, block-tree generators, oracles).
package main

import "github.com/aergoio/aergo/v2/zz_verif/c05lib"

func main() { c05lib.Main("C07") }
