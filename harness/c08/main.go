package main

import (
	"fmt"
	"os"

	"github.com/aergoio/aergo-lib/db"
	"github.com/aergoio/aergo/v2/chain"
	"github.com/aergoio/aergo/v2/consensus/impl/dpos"
	"github.com/aergoio/aergo/v2/p2p/p2pkey"
	"github.com/aergoio/aergo/v2/state"
	"github.com/aergoio/aergo/v2/types"
	"github.com/libp2p/go-libp2p/core/crypto"
	"github.com/rs/zerolog"
)

type cm struct{ n uint16 }

func (c *cm) Size() uint16            { return c.n }
func (c *cm) Update(ids []string) error { fmt.Println("cm.Update", ids); return nil }

func main() {
	zerolog.SetGlobalLevel(zerolog.Disabled)
	dir := "/var/tmp/c08/probe"
	os.RemoveAll(dir)
	os.MkdirAll(dir, 0o755)
	store := db.NewDB(db.MemoryImpl, dir+"/c")
	cdb, err := chain.VerifC08ChainDBOn(store)
	if err != nil {
		panic(err)
	}
	g := &types.Genesis{ID: types.ChainID{Magic: "verif", Consensus: "dpos", PublicNet: true}, Timestamp: 1}
	if err := cdb.VerifC08AddGenesis(g); err != nil {
		panic(err)
	}
	sdb := state.NewChainStateDB()
	if err := sdb.Init("memorydb", dir+"/s", nil, false, nil); err != nil {
		panic(err)
	}
	var keys []crypto.PrivKey
	var ids []string
	for i := 0; i < 3; i++ {
		k, _, _ := crypto.GenerateKeyPair(crypto.Secp256k1, 256)
		keys = append(keys, k)
	}
	dpos.Init(3)
	mk := func(prev *types.Block, bp int, confirms uint64) *types.Block {
		b := types.NewBlock(&types.BlockHeaderInfo{No: prev.BlockNo() + 1, Ts: int64(prev.BlockNo()+1) * 1000, PrevBlockHash: prev.BlockHash(), ChainId: prev.GetHeader().GetChainID()}, nil, nil, nil, nil, nil)
		b.SetConfirms(confirms)
		if err := b.Sign(keys[bp]); err != nil {
			panic(err)
		}
		return b
	}
	gb := g.Block()
	b0 := mk(gb, 0, 1)
	ids = append(ids, b0.BPID2Str())
	p2pkey.VerifC08SetNodeSID(ids[0])
	c := &cm{3}
	st := dpos.NewStatus(c, cdb, sdb, 0)
	d := dpos.VerifC08NewDPoS(st, cdb)
	cdb.VerifC08SetConsensus(d)
	fmt.Printf("%+v\n", st.VerifC08Dump())
	prev := gb
	lpb := []uint64{0, 0, 0}
	var blocks []*types.Block
	for i := 0; i < 8; i++ {
		bp := i % 3
		b := mk(prev, bp, prev.BlockNo()+1-lpb[bp])
		lpb[bp] = b.BlockNo()
		cdb.VerifC08StoreBlock(b)
		fmt.Println("verifyts", d.VerifyTimestamp(b))
		st.Update(b)
		cdb.VerifC08Connect(b)
		fmt.Printf("%d %+v\n", b.BlockNo(), st.VerifC08Dump())
		prev = b
		blocks = append(blocks, b)
	}
	// restart
	cdb2, err := chain.VerifC08ChainDBOn(store)
	if err != nil {
		panic(err)
	}
	st2 := dpos.NewStatus(c, cdb2, sdb, 0)
	fmt.Printf("restart %+v need0=%v\n", st2.VerifC08Dump(), st2.NeedReorganization(0))
	ld, ok := dpos.VerifC08LoaderDump()
	fmt.Printf("loader %v %+v\n", ok, ld)
	// rollback to block 6
	st2.Update(blocks[5])
	fmt.Printf("rollback %+v\n", st2.VerifC08Dump())
}
