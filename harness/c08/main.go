// Harness c08: DPoS finality (LIB). Real dpos.Status objects (NewStatus, Update — both branches —,
// Save through the real ChainDB.connectToChain/swapChainMapping, restart through NewStatus/bootLoader
// on the same store, NeedReorganization, DPoS.VerifyTimestamp) are driven with generated histories and
// compared operation by operation with the Lean model `Aergo.Lib`; the property's own predicates
// (oracle.go) are evaluated on what the real code reports.
//
//	part A  scripted histories (the three known-finding classes — A1 restart veto gap, A4 stale entry, A6 two correct
//	        nodes with conflicting LIBs although no producer misbehaves —; regression histories of the three repaired ones)
//	part B  random multi-node schedules: producer slots, missed slots, partitions, delays, restarts, at most
//	        one equivocating producer (f < n/3); node 0 runs on the real chain.ChainDB and is recorded
//	part C  arbitrary single-node streams (lying Confirms, outsiders, producer-count changes, injected gc):
//	        correspondence only, no property oracle (outside the fault model)
//	part D  bounded exhaustive exploration from a warm state (SEARCH, labelled so)
package main

import (
	"crypto/sha256"
	"fmt"
	"os"
	"path/filepath"
	"runtime/debug"
	"strings"

	"github.com/aergoio/aergo-lib/db"
	"github.com/aergoio/aergo/v2/state"
	"github.com/aergoio/aergo/v2/zz_verif/vh"
	"github.com/rs/zerolog"
)

type env struct {
	run     *vh.Run
	pool    []*producer
	sdb     *state.ChainStateDB
	scratch db.DB
	nstore  int
}

func (e *env) world(rng *vh.Rng, gbps []int) *world {
	return newWorld(e.run, rng, e.pool, gbps, e.sdb, e.scratch)
}

func (e *env) realStore(w *world) chainStore {
	e.nstore++
	return newRealStore(w, filepath.Join(e.run.Out, "cdb", fmt.Sprint(e.nstore)))
}

func lightFor(w *world) func(int) chainStore {
	return func(int) chainStore {
		return &lightStore{w: w, main: []*sblk{w.gblk}, known: map[*sblk]bool{w.gblk: true}}
	}
}

func seqN(n int) []int {
	var r []int
	for i := 0; i < n; i++ {
		r = append(r, i)
	}
	return r
}

func main() {
	zerolog.SetGlobalLevel(zerolog.Disabled)
	// every rollback runs the real InitVPR, which allocates a large fresh table: collect less often
	debug.SetGCPercent(1000)
	run := vh.Start("c08", "an operation is non-trivial when it reached the real Status (Update/NeedReorganization/VerifyTimestamp/restart) on a node with at least one block")
	e := &env{run: run, pool: newProducerPool(9)}
	e.sdb = state.NewChainStateDB()
	if err := e.sdb.Init("memorydb", filepath.Join(run.Out, "sdb"), nil, false, nil); err != nil {
		panic(err)
	}
	e.scratch = db.NewDB(db.MemoryImpl, filepath.Join(run.Out, "scratch"))

	partA(e)
	partAWitnesses(e)
	partA6(e)
	partA7(e)
	partB(e)
	partC(e)
	partD(e)

	os.RemoveAll(filepath.Join(run.Out, "cdb"))
	os.RemoveAll(filepath.Join(run.Out, "sdb"))
	os.RemoveAll(filepath.Join(run.Out, "scratch"))
	run.Finish()
}

// ---------------------------------------------------------------- part A: scripted

// honestRound: producers at positions `who` (in order) each produce one block on the single node's best
// chain with honest Confirms; the node is an observer of a fully connected network.
type scripted struct {
	w   *world
	nd  *node
	lpb map[int]uint64
}

func (s *scripted) block(pos int) *sblk {
	bpi := s.w.gbps[pos]
	parent := s.nd.best
	b := s.w.mkBlock(parent, bpi, parent.no+1-s.lpb[bpi])
	s.lpb[bpi] = b.no
	s.nd.arrive(b)
	return b
}

func partA(e *env) {
	run := e.run
	// A1: the veto gap after a restart (class C08-restart-lazy-load-veto-gap). n = 4 producers, the equivocator p3
	// and the partitioned correct producer p2 build a longer branch from below this node's LIB while p0 (this
	// node) is cut off from p1; the node restarts; the branch arrives.
	{
		w := e.world(run.Rng.Fork(), seqN(4))
		rec := &recorder{run: run}
		nd := newNode(w, 0, e.realStore(w), rec)
		s := &scripted{w: w, nd: nd, lpb: map[int]uint64{}}
		var chain []*sblk
		for i := 0; i < 8; i++ { // 1:p0 2:p1 3:p3 4:p0 5:p1 6:p3 7:p0 8:p1 (p2 is partitioned away and misses its slots)
			chain = append(chain, s.block([]int{0, 1, 3}[(i+0)%3]))
		}
		nd.enter()
		libBefore := nd.dump().Lib.No
		nd.leave()
		// the other branch forks at block 2 (below the LIB): p2 (correct, sees only what p3 shows it, honest Confirms)
		// and p3 (equivocating, chain-locally honest Confirms); 7 blocks, longer than this node's chain
		var br []*sblk
		parent := chain[1]
		lp := map[int]uint64{}
		for i := 0; i < 7; i++ {
			p := 2 + i%2
			b := w.mkBlock(parent, p, parent.no+1-lp[p])
			lp[p] = b.no
			br = append(br, b)
			parent = b
		}
		// without a restart the branch is refused ...
		probe := nd.clone2(e, w)
		for _, b := range br {
			probe.arrive(b)
		}
		if probe.best != chain[7] {
			run.Fail("scripted A1: a node that did not restart adopted a branch forking below its LIB", probe.replay())
		}
		// ... after a restart it is adopted
		nd.restart()
		for _, b := range br {
			nd.arrive(b)
		}
		run.Count(fmt.Sprintf("A1 lib-before-restart=%d best-after=%s", libBefore, nd.best.name))
	}
	// A2: regression history of the repaired class C08-reload-quorum-shrinks (a61f1aeb): 7 producers, only p0 p1 p2 ever
	// produce; a restart used to replay the window with a quorum of cr(cr(cr(7))) = 3 instead of 5 and let the LIB advance.
	{
		w := e.world(run.Rng.Fork(), seqN(7))
		rec := &recorder{run: run}
		nd := newNode(w, 6, e.realStore(w), rec)
		s := &scripted{w: w, nd: nd, lpb: map[int]uint64{}}
		for i := 0; i < 9; i++ {
			s.block(i % 3)
		}
		nd.restart()
		for i := 0; i < 6; i++ {
			s.block(i % 3)
		}
		nd.enter()
		run.Count(fmt.Sprintf("A2 lib-after=%d", nd.dump().Lib.No))
		nd.leave()
	}
}

// A6 (class C08-conflicting-libs-honest-switch-below-confirmed; Lean: Props.C08.agreement_false_honest_witness): two correct
// nodes end up with irreversible blocks on conflicting branches although NO producer misbehaves: four honest producers,
// honest Confirms (no - lpbNo), no restart, no stale entry. After two connected rounds (b1..b8) p3 is cut off and builds
// alone (5 blocks on b8); p0, p1, p2 build b9..b12 and p1 alone adds b13: p1's node reports LIB b9. p0 and p2 did not see
// b13: their LIB is b8; they miss their slots meanwhile, then receive p3's longer branch: root b8 = their LIB, so
// NeedReorganization and VerifyTimestamp let it through. p0, p2, p3 then make the blocks of that branch irreversible.
func partA6(e *env) {
	run := e.run
	w := e.world(run.Rng.Fork(), seqN(4))
	rec := &recorder{run: run}
	s := newSim(w, 4, -1, rec, func(i int) chainStore {
		if i == 0 {
			return e.realStore(w)
		}
		return lightFor(w)(i)
	})
	prod := func(p int) *sblk {
		b := s.produce(s.nodeAt(p))
		s.logf("p%d produces %s on %s (confirms %d)", p, b.name, b.prev.name, b.confirms)
		return b
	}
	part := func(g ...int) {
		s.groups = g
		s.logf("partition %v", g)
	}
	for t := 0; t < 8; t++ { // two connected rounds
		prod(t % 4)
		s.sync()
	}
	part(0, 0, 0, 1) // p3 is cut off
	for _, p := range []int{0, 1, 2, 0} {
		prod(p)
		s.sync()
	}
	part(0, 1, 2, 3) // everybody alone: p1 adds one block on b12; p3 builds five; p0 and p2 miss their slots
	prod(1)
	for i := 0; i < 5; i++ {
		prod(3)
	}
	part(0, 1, 0, 0) // p0, p2, p3 reconnect; p1 stays cut off
	s.sync()
	for _, p := range []int{0, 2, 3, 0, 2, 3} {
		prod(p)
		s.sync()
	}
	agreement(w, s.nodes, s.replay) // classified by mechanism: p0 produced b9/b12 on the branch of p1's LIB and abandoned it
	n0, n1 := s.nodes[0], s.nodes[1]
	run.Count(fmt.Sprintf("A6 p0-lib=%s(%d) p1-lib=%s(%d) conflict=%v", nameOf(n0.maxLib.b), n0.maxLib.no, nameOf(n1.maxLib.b), n1.maxLib.no,
		n0.maxLib.b != nil && n1.maxLib.b != nil && !n0.maxLib.b.isAncestorOf(n1.maxLib.b) && !n1.maxLib.b.isAncestorOf(n0.maxLib.b)))
}

// A7 (class C08-quorum-by-lying-confirms; Lean: Props.C08.quorum_false_lying_confirms_witness): receivers never validate the
// Confirms field. ONE producer lying in it (p3 claims every block back to number 1 with each of its blocks) makes blocks
// irreversible together with ONE honest producer: n = 4, only p0 (honest Confirms) and p3 ever produce; the node reports LIB 6
// although only 2 of 4 producers have ever produced a block. With honest Confirms the same schedule never moves the LIB.
func partA7(e *env) {
	run := e.run
	for _, lying := range []bool{true, false} {
		w := e.world(run.Rng.Fork(), seqN(4))
		nd := newNode(w, 1, e.realStore(w), &recorder{run: run})
		parent := w.gblk
		lpb := map[int]uint64{}
		producers := map[int]bool{}
		for i := 0; i < 9; i++ {
			p := []int{0, 3}[i%2]
			no := parent.no + 1
			c := no - lpb[p]
			if lying && p == 3 {
				c = no
			}
			b := w.mkBlock(parent, p, c)
			lpb[p] = no
			producers[p] = true
			nd.arrive(b)
			parent = b
		}
		nd.enter()
		d := nd.dump()
		nd.leave()
		run.Count(fmt.Sprintf("A7 lying-confirms=%v final-lib=%d distinct-producers-ever=%d of 4 (3 needed)", lying, d.Lib.No, len(producers)))
	}
}

// scriptedHistory: the concrete histories of lean/Aergo/Props/C08.lean (the `*_false` witnesses), on the real code.
type sb struct {
	name, prev string
	bp         int
	c          uint64
}

func partAWitnesses(e *env) {
	run := e.run
	hist := func(tag string, n int, self int, blocks []sb) *node {
		w := e.world(run.Rng.Fork(), seqN(n))
		nd := newNode(w, self, e.realStore(w), &recorder{run: run})
		by := map[string]*sblk{"g": w.gblk}
		for _, x := range blocks {
			b := w.mkBlock(by[x.prev], x.bp, x.c)
			by[x.name] = b
			nd.arrive(b)
		}
		nd.enter()
		d := nd.dump()
		nd.leave()
		run.Count(fmt.Sprintf("%s final-lib=%d best=%d", tag, d.Lib.No, nd.best.no))
		return nd
	}
	// regression history of the repaired class C08-lib-decreases-after-permitted-reorg (db1b9b14): four honest producers, one delayed block
	hist("A3", 4, 0, []sb{{"b1", "g", 0, 1}, {"b2", "b1", 1, 2}, {"b3", "b2", 2, 3}, {"b4", "b3", 3, 4}, {"b5", "b4", 0, 4}, {"b6", "b5", 1, 4},
		{"b7", "b6", 2, 4}, {"b8", "b7", 3, 4}, {"c8", "b7", 1, 2}, {"c9", "c8", 2, 2}})
	// lib_on_chain_false (class C08-lib-from-stale-entry-of-abandoned-branch)
	hist("A4", 4, 0, []sb{{"a1", "g", 0, 1}, {"a2", "a1", 1, 2}, {"a3", "a2", 2, 3}, {"e1", "g", 3, 1}, {"e2", "e1", 0, 1}, {"e3", "e2", 1, 1},
		{"e4", "e3", 2, 1}, {"e5", "e4", 3, 4}, {"e6", "e5", 0, 4}, {"e7", "e6", 1, 4}})
	// regression history of the repaired class C08-lib-decreases-when-producer-first-seen (db1b9b14)
	hist("A5", 5, 0, []sb{{"b1", "g", 2, 1}, {"b2", "b1", 0, 2}, {"b3", "b2", 1, 3}, {"b4", "b3", 0, 2}, {"b5", "b4", 4, 2}, {"b6", "b5", 3, 4},
		{"b7", "b6", 4, 2}, {"b8", "b7", 0, 4}, {"b9", "b8", 1, 6}})
}

// clone2: an independent node (own real store) that has processed the same arrivals, for "what if" probes.
func (n *node) clone2(e *env, w *world) *node {
	c := newNode(w, n.idx, e.realStore(w), nil)
	for i := 1; i < len(n.main); i++ {
		c.arrive(n.main[i])
	}
	return c
}

// ---------------------------------------------------------------- part B: random multi-node schedules

func partB(e *env) {
	run := e.run
	rng := run.Rng
	nsim := run.Pick(160, 900)
	for k := 0; k < nsim; k++ {
		var n, byz int
		switch r := rng.Intn(20); {
		case r < 9:
			n, byz = 4, rng.Intn(4)
		case r < 12:
			n, byz = 4, -1
		case r < 14:
			n, byz = 3, -1
		case r < 15:
			n, byz = 2, -1
		case r < 16:
			n, byz = 1, -1
		case r < 18:
			n, byz = 5, -1
		default:
			n, byz = 7, rng.Intn(7)
			if rng.Bool() {
				byz = -1
			}
		}
		w := e.world(rng.Fork(), seqN(n))
		rec := &recorder{run: run}
		s := newSim(w, n, byz, rec, func(i int) chainStore {
			if i == 0 {
				return e.realStore(w)
			}
			return lightFor(w)(i)
		})
		run.Count(fmt.Sprintf("sim n=%d byz=%v", n, byz >= 0))
		parts := partitions(len(s.nodes))
		slots := 12 + rng.Intn(run.Pick(40, 70))
		calm := rng.Intn(3) == 0 // mostly connected
		for t := 1; t <= slots && s.nodes[0].best.no < 90; t++ {
			s.slot = t
			if rng.Chance(1, 4) {
				if calm && rng.Chance(3, 4) {
					s.groups = append([]int{}, parts[0]...)
				} else {
					s.groups = append([]int{}, parts[rng.Intn(len(parts))]...)
				}
				s.logf("slot %d: partition %v", t, s.groups)
			}
			p := t % n
			if p == byz {
				s.byzRandom(rng)
			} else if rng.Chance(17, 20) {
				b := s.produce(s.nodeAt(p))
				s.logf("slot %d: %s produces %s on %s (confirms %d)", t, w.prods[w.gbps[p]].name, b.name, b.prev.name, b.confirms)
			} else {
				s.logf("slot %d: %s misses its slot", t, w.prods[w.gbps[p]].name)
			}
			if rng.Chance(4, 5) {
				s.sync()
			}
			if rng.Chance(1, 14) {
				i := rng.Intn(len(s.nodes))
				if rng.Chance(1, 2) {
					i = 0
				}
				s.nodes[i].restart()
				s.logf("slot %d: node %s restarts", t, s.nodes[i].selfName())
			}
			if rng.Chance(1, 5) {
				probes(s.nodes[0], rng)
			}
			s.check()
		}
		for i := range s.groups { // heal and settle
			s.groups[i] = 0
		}
		s.sync()
		s.check()
	}
}

func (s *sim) byzRandom(rng *vh.Rng) {
	tips := s.distinctTips()
	pick := func() *sblk {
		t := tips[rng.Intn(len(tips))]
		for k := rng.Intn(3); k > 0 && t.prev != nil && rng.Chance(1, 3); k-- {
			t = t.prev
		}
		return t
	}
	nb := []int{0, 1, 1, 1, 2, 2}[rng.Intn(6)]
	var made []*sblk
	for i := 0; i < nb; i++ {
		parent := pick()
		dup := false
		for _, m := range made {
			dup = dup || m.prev == parent
		}
		if dup {
			continue
		}
		b := s.byzBlock(parent)
		made = append(made, b)
		var to []int
		for _, i := range s.knowers(parent) {
			if rng.Chance(2, 3) {
				to = append(to, i)
			}
		}
		s.logf("slot %d: equivocator produces %s on %s (confirms %d), delivered to %v", s.slot, b.name, parent.name, b.confirms, to)
		s.deliver(b, to)
	}
	if nb == 0 {
		s.logf("slot %d: equivocator silent", s.slot)
	}
}

// probes: the veto functions around the LIB boundary (recorded node).
func probes(nd *node, rng *vh.Rng) {
	nd.enter()
	defer nd.leave()
	d := nd.dump()
	for _, delta := range []int64{-1, 0, 1} {
		r := int64(d.Lib.No) + delta
		if r < 0 {
			continue
		}
		ok := nd.needReorg(uint64(r))
		if !nd.fault && uint64(r) < nd.maxLib.no && ok {
			nd.failVeto(fmt.Sprintf("NeedReorganization(%d) = true below the LIB %d this node reported", r, nd.maxLib.no))
		}
		if !nd.fault && d.Loaded && ok != (uint64(r) >= d.Lib.No) {
			nd.fail(fmt.Sprintf("NeedReorganization(%d) = %v with LIB %d", r, ok, d.Lib.No), "")
		}
	}
	// a competing block numbered lib.no, lib.no+1 (child of the main-chain block below it, some member as producer)
	for _, delta := range []uint64{0, 1} {
		no := d.Lib.No + delta
		if no == 0 || no > uint64(len(nd.main)) {
			continue
		}
		parent := nd.main[no-1]
		b := nd.w.mkBlock(parent, nd.w.gbps[rng.Intn(len(nd.w.gbps))], 1)
		ok := nd.verifyTs(b)
		if !nd.fault && b.no <= nd.maxLib.no && ok {
			nd.failVeto(fmt.Sprintf("VerifyTimestamp accepted a block numbered %d <= LIB %d this node reported", b.no, nd.maxLib.no))
		}
		if !nd.fault && d.Loaded && ok != (b.no > d.Lib.No) {
			nd.fail(fmt.Sprintf("VerifyTimestamp(block %d) = %v with LIB %d", b.no, ok, d.Lib.No), "")
		}
	}
}

// ---------------------------------------------------------------- part C: arbitrary streams (correspondence only)

func partC(e *env) {
	run := e.run
	rng := run.Rng
	for k := 0; k < run.Pick(80, 500); k++ {
		n := 1 + rng.Intn(7)
		w := e.world(rng.Fork(), seqN(n))
		rec := &recorder{run: run}
		self := -1
		if rng.Chance(2, 3) {
			self = rng.Intn(n)
		}
		nd := newNode(w, self, e.realStore(w), rec)
		nd.fault = true
		run.Count("wild-session")
		all := []*sblk{w.gblk}
		steps := 10 + rng.Intn(50)
		for t := 0; t < steps && nd.best.no < 80; t++ {
			switch r := rng.Intn(100); {
			case r < 70:
				parent := nd.best
				if rng.Chance(1, 4) {
					parent = all[rng.Intn(len(all))]
				}
				no := parent.no + 1
				bpi := rng.Intn(n)
				if rng.Chance(1, 12) {
					bpi = rng.Intn(len(w.prods)) // possibly an outsider
				}
				var c uint64
				switch rng.Intn(10) {
				case 0:
					c = 0
				case 1:
					c = no + 1
				case 2:
					c = no + 2 + uint64(rng.Intn(5))
				case 3:
					c = ^uint64(0) - uint64(rng.Intn(3))
				case 4:
					c = no
				default:
					c = 1 + uint64(rng.Intn(n+2))
				}
				b := w.mkBlock(parent, bpi, c)
				all = append(all, b)
				nd.arrive(b)
			case r < 78: // raw Update with an arbitrary stored block (the rollback branch with any target)
				b := all[rng.Intn(len(all))]
				if b == w.gblk || !nd.known[b] {
					continue
				}
				nd.enter()
				nd.update(b)
				nd.leave()
				run.Count("raw-update")
			case r < 84:
				nd.restart()
			case r < 90:
				probes(nd, rng)
			case r < 95:
				k := 1 + rng.Intn(8)
				var ids []string
				for i := 0; i < k; i++ {
					ids = append(ids, w.prods[i].id)
				}
				if err := nd.cm.Update(ids); err != nil {
					panic(err)
				}
				rec.op(fmt.Sprintf("size %d", k), "ok", true)
			default:
				k := 1 + rng.Intn(8)
				var ids, names []string
				for i := 0; i < len(w.prods); i++ {
					if rng.Chance(1, 2) {
						ids = append(ids, w.prods[i].id)
						names = append(names, w.prods[i].name)
					}
				}
				nd.enter()
				nd.st.VerifC08GC(ids, uint16(k))
				d := nd.dump()
				nd.leave()
				nm := "-"
				if len(names) > 0 {
					nm = strings.Join(names, ",")
				}
				rec.op(fmt.Sprintf("gcbps %d %s", k, nm), w.showStatus(d), true)
			}
		}
	}
	// ill-formed lines: the model driver must answer bad-op
	for _, l := range []string{"frobnicate", "update", "update nosuch -", "blk x y z", "needreorg x", "size", "swap nosuch"} {
		run.Op(l, "bad-op", false)
	}
}

// ---------------------------------------------------------------- part D: bounded exhaustive exploration (SEARCH)

type choice struct {
	part    []int
	produce bool
	byz     [][2]int // (tip index, recipient mask) per equivocator block
}

func partD(e *env) {
	run := e.run
	depth := run.Pick(5, 7)
	budget := run.Pick(60000, 80000)
	for _, byz := range []int{3, 1} {
		w := e.world(run.Rng.Fork(), seqN(4))
		s := newSim(w, 4, byz, nil, lightFor(w))
		// warm-up: connected network, everybody (the equivocator too, honestly) produces: LIB is moving
		for t := 1; t <= 9; t++ {
			s.slot = t
			p := t % 4
			if p == byz {
				b := s.byzBlock(s.nodes[0].best)
				s.deliver(b, []int{0, 1, 2})
			} else {
				s.produce(s.nodeAt(p))
			}
			s.sync()
		}
		for _, nd := range s.nodes {
			nd.quiet = true
		}
		visited, capped, total := 0, false, 0
		parts := partitions(3)
		frontier := []*sim{s}
		for lvl := 0; lvl < depth && !capped; lvl++ {
			t := 10 + lvl
			p := t % 4
			seen := map[[16]byte]bool{}
			var next []*sim
			for _, cur := range frontier {
				if capped {
					break
				}
				for _, part := range parts {
					var acts []choice
					if p == byz {
						tips := cur.distinctTips()
						acts = append(acts, choice{part: part})
						for i := range tips {
							acts = append(acts, choice{part: part, byz: [][2]int{{i, 7}}})
							for j := i + 1; j < len(tips); j++ {
								acts = append(acts, choice{part: part, byz: [][2]int{{i, 7}, {j, 7}}})
							}
						}
					} else {
						acts = []choice{{part: part, produce: true}, {part: part}}
					}
					for _, a := range acts {
						if visited >= budget {
							capped = true
							break
						}
						c := cur.clone()
						c.slot = t
						c.groups = append([]int{}, a.part...)
						if p == byz {
							tips := c.distinctTips()
							var made []*sblk
							for _, bz := range a.byz {
								made = append(made, c.byzBlock(tips[bz[0]]))
							}
							for _, b := range made {
								c.deliver(b, c.knowers(b.prev))
							}
							c.logf("slot %d: partition %v, equivocator blocks %d", t, a.part, len(made))
						} else if a.produce {
							b := c.produce(c.nodeAt(p))
							c.logf("slot %d: partition %v, p%d produces %s on %s", t, a.part, p, b.name, b.prev.name)
						} else {
							c.logf("slot %d: partition %v, p%d misses", t, a.part, p)
						}
						c.sync()
						c.check()
						visited++
						h := sha256.Sum256([]byte(c.state()))
						var k [16]byte
						copy(k[:], h[:16])
						if seen[k] {
							run.Count("explore-duplicate-state")
							continue
						}
						seen[k] = true
						run.Eval(fmt.Sprintf("explore %d %x", lvl, k), true)
						next = append(next, c)
					}
				}
			}
			total += len(next)
			run.Count(fmt.Sprintf("explore byz=p%d level=%d distinct-states=%d", byz, lvl+1, len(next)))
			frontier = next
		}
		run.Count(fmt.Sprintf("explore byz=p%d depth=%d states=%d visits=%d capped=%v", byz, depth, total, visited, capped))
	}
}
