package main

// The simulated node: a REAL dpos.Status (one per node) on a chain store, driven the way
// chain.ChainService drives it (chainhandle.go addBlockInternal/executeBlock/connectToChain,
// reorg.go reorg: gather, NeedReorganization veto, rollback = Update(branch root), roll-forward =
// Update(each new block), swapChainMapping). The fork-choice glue below is harness code (the chain
// service itself is C05/C07's subject); everything about finality is the real code.

import (
	"fmt"
	"os"
	"sort"
	"strings"

	"github.com/aergoio/aergo-lib/db"
	"github.com/aergoio/aergo/v2/chain"
	"github.com/aergoio/aergo/v2/consensus"
	"github.com/aergoio/aergo/v2/consensus/impl/dpos"
	"github.com/aergoio/aergo/v2/consensus/impl/dpos/bp"
	"github.com/aergoio/aergo/v2/p2p/p2pkey"
	"github.com/aergoio/aergo/v2/state"
	"github.com/aergoio/aergo/v2/types"
	"github.com/aergoio/aergo/v2/types/dbkey"
	"github.com/aergoio/aergo/v2/zz_verif/vh"
	"github.com/libp2p/go-libp2p/core/crypto"
)

// ---------------------------------------------------------------- producers and blocks

type producer struct {
	priv crypto.PrivKey
	id   string // base58 peer id, as Block.BPID2Str() prints it
	name string // p0, p1, ...
}

type sblk struct {
	name     string
	b        *types.Block
	no       uint64
	prev     *sblk
	bp       int // index into world.prods; -1 for genesis
	confirms uint64
	seq      int
}

func (b *sblk) isAncestorOf(x *sblk) bool {
	for x != nil && x.no > b.no {
		x = x.prev
	}
	return x == b
}

type world struct {
	run     *vh.Run
	rng     *vh.Rng
	prods   []*producer
	byID    map[string]*producer
	gen     *types.Genesis
	gblk    *sblk
	sdb     *state.ChainStateDB
	blocks  map[string]*sblk // real id -> block
	byName  map[string]*sblk
	byKey   map[string]*sblk // canonical creation key -> block (exhaustive search re-creates the same block)
	nblk    int
	gbps    []int // genesis producer list (indices)
	dir     string
	nworld  int
	scratch db.DB
}

var chainID = []byte("verif-c08")

var debugDumps = os.Getenv("C08_DEBUG") == "2"

func newProducerPool(n int) []*producer {
	var ps []*producer
	for i := 0; i < n; i++ {
		priv, pub, err := crypto.GenerateKeyPair(crypto.Secp256k1, 256)
		if err != nil {
			panic(err)
		}
		pid, err := types.IDFromPublicKey(pub)
		if err != nil {
			panic(err)
		}
		ps = append(ps, &producer{priv: priv, id: types.IDB58Encode(pid), name: fmt.Sprintf("p%d", i)})
	}
	return ps
}

// newWorld: a genesis whose producer list is gbps, the package-level bp.genesisBpList set from it
// through the real bp.NewCluster, dpos.Init for the producer count.
func newWorld(run *vh.Run, rng *vh.Rng, pool []*producer, gbps []int, sdb *state.ChainStateDB, scratch db.DB) *world {
	w := &world{run: run, rng: rng, prods: pool, byID: map[string]*producer{}, sdb: sdb, gbps: gbps,
		blocks: map[string]*sblk{}, byName: map[string]*sblk{}, byKey: map[string]*sblk{}, scratch: scratch}
	for _, p := range pool {
		w.byID[p.id] = p
	}
	g := &types.Genesis{ID: types.ChainID{Magic: "verif", Consensus: "dpos", PublicNet: true}, Timestamp: 1}
	for _, i := range gbps {
		g.BPs = append(g.BPs, pool[i].id)
	}
	w.gen = g
	gb := g.Block()
	w.gblk = &sblk{name: "g", b: gb, no: 0, bp: -1}
	w.blocks[gb.ID()] = w.gblk
	w.byName["g"] = w.gblk
	ls := &lightStore{w: w, main: []*sblk{w.gblk}, known: map[*sblk]bool{w.gblk: true}}
	if _, err := bp.NewCluster(ls); err != nil { // sets bp.genesisBpList
		panic(err)
	}
	dpos.Init(uint16(len(gbps)))
	return w
}

func (w *world) gbpNames() string {
	var s []string
	for _, i := range w.gbps {
		s = append(s, w.prods[i].name)
	}
	if len(s) == 0 {
		return "-"
	}
	return strings.Join(s, ",")
}

func (w *world) gbpIDs() []string {
	var s []string
	for _, i := range w.gbps {
		s = append(s, w.prods[i].id)
	}
	return s
}

// mkBlock creates (or returns the already created) signed block on parent by producer bp.
func (w *world) mkBlock(parent *sblk, bpi int, confirms uint64) *sblk {
	key := fmt.Sprintf("%s/%d/%d", parent.name, bpi, confirms)
	if b, ok := w.byKey[key]; ok {
		return b
	}
	w.nblk++
	no := parent.no + 1
	b := types.NewBlock(&types.BlockHeaderInfo{No: no, Ts: int64(1000 + w.nblk), PrevBlockHash: parent.b.BlockHash(), ChainId: chainID}, nil, nil, nil, nil, nil)
	b.SetConfirms(confirms)
	if err := b.Sign(w.prods[bpi].priv); err != nil {
		panic(err)
	}
	s := &sblk{name: fmt.Sprintf("b%d", w.nblk), b: b, no: no, prev: parent, bp: bpi, confirms: confirms, seq: w.nblk}
	w.blocks[b.ID()] = s
	w.byName[s.name] = s
	w.byKey[key] = s
	return s
}

func (w *world) blkLine(b *sblk) string {
	return fmt.Sprintf("blk %s %d %s %s %d", b.name, b.no, b.prev.name, w.prods[b.bp].name, b.confirms)
}

func (w *world) nameOfID(id string) string {
	if id == "" {
		return "-"
	}
	if b, ok := w.blocks[id]; ok {
		return b.name
	}
	return "?" + id
}

func (w *world) nameOfBP(id string) string {
	if id == "" {
		return "-"
	}
	if p, ok := w.byID[id]; ok {
		return p.name
	}
	return "?" + id
}

// ---------------------------------------------------------------- canonical dump (the answer lines)

func (w *world) showBI(b dpos.VerifC08BI) string {
	return fmt.Sprintf("%s:%d:%d", w.nameOfID(b.Hash), b.No, b.Range)
}

func (w *world) showLS(d dpos.VerifC08Dump) string {
	var cs, ps []string
	for _, c := range d.Confirms {
		cs = append(cs, fmt.Sprintf("%s:%s:%d", w.showBI(c.VerifC08BI), w.nameOfBP(c.BP), c.Left))
	}
	for _, p := range d.Prpsd {
		if p.Nil {
			ps = append(ps, w.nameOfBP(p.BP)+"=nil")
			continue
		}
		ps = append(ps, fmt.Sprintf("%s=%s@%s", w.nameOfBP(p.BP), w.showBI(p.Plib), w.showBI(p.By)))
	}
	sort.Strings(ps)
	j := func(l []string) string {
		if len(l) == 0 {
			return "-"
		}
		return strings.Join(l, ",")
	}
	lib := "nil"
	if !d.LibNil {
		lib = w.showBI(d.Lib)
	}
	return fmt.Sprintf("L=%s lpb=%d cr=%d C=%s P=%s", lib, d.Lpb, d.CR, j(cs), j(ps))
}

func (w *world) showStatus(d dpos.VerifC08Dump) string {
	ld := 0
	if d.Loaded {
		ld = 1
	}
	return fmt.Sprintf("%s ld=%d best=%s", w.showLS(d), ld, w.nameOfID(d.Best))
}

// ---------------------------------------------------------------- chain stores

type chainStore interface {
	consensus.ChainDB
	storeBlock(b *sblk)
	connect(b *sblk, cc consensus.ChainConsensus)
	swap(newBlocks []*sblk, cc consensus.ChainConsensus) error
	reopen() chainStore // what a process restart does to the object (same persistent content)
	clone() chainStore
	setCC(cc consensus.ChainConsensus)
}

// realStore: the real chain.ChainDB on a memorydb store.
type realStore struct {
	store db.DB
	cdb   *chain.ChainDB
}

func newRealStore(w *world, dir string) *realStore {
	st := db.NewDB(db.MemoryImpl, dir)
	cdb, err := chain.VerifC08ChainDBOn(st)
	if err != nil {
		panic(err)
	}
	if err := cdb.VerifC08AddGenesis(w.gen); err != nil {
		panic(err)
	}
	return &realStore{store: st, cdb: cdb}
}

func (r *realStore) GetBestBlock() (*types.Block, error)                { return r.cdb.GetBestBlock() }
func (r *realStore) GetBlockByNo(n types.BlockNo) (*types.Block, error) { return r.cdb.GetBlockByNo(n) }
func (r *realStore) GetHashByNo(n types.BlockNo) ([]byte, error)        { return r.cdb.GetHashByNo(n) }
func (r *realStore) GetBlock(h []byte) (*types.Block, error)            { return r.cdb.GetBlock(h) }
func (r *realStore) GetGenesisInfo() *types.Genesis                     { return r.cdb.GetGenesisInfo() }
func (r *realStore) Get(key []byte) []byte                              { return r.cdb.Get(key) }
func (r *realStore) NewTx() db.Transaction                              { return r.cdb.NewTx() }
func (r *realStore) storeBlock(b *sblk) {
	if err := r.cdb.VerifC08StoreBlock(b.b); err != nil {
		panic(err)
	}
}
func (r *realStore) setCC(cc consensus.ChainConsensus) { r.cdb.VerifC08SetConsensus(cc) }
func (r *realStore) connect(b *sblk, cc consensus.ChainConsensus) {
	r.cdb.VerifC08Connect(b.b) // saves the consensus status in the same transaction (cdb.cc.Save)
}
func (r *realStore) swap(nb []*sblk, cc consensus.ChainConsensus) error {
	var bs []*types.Block
	for _, b := range nb {
		bs = append(bs, b.b)
	}
	return r.cdb.VerifC08SwapChainMapping(bs)
}
func (r *realStore) reopen() chainStore {
	cdb, err := chain.VerifC08ChainDBOn(r.store)
	if err != nil {
		panic(err)
	}
	return &realStore{store: r.store, cdb: cdb}
}
func (r *realStore) clone() chainStore { panic("realStore is not cloneable") }

// lightStore: an in-memory consensus.ChainDB for the many nodes of the exploration (number index,
// block table, the saved status image). connect/swap call the real Status.Save as connectToChain /
// swapChainMapping do.
type lightStore struct {
	w     *world
	main  []*sblk // number index
	known map[*sblk]bool
	saved []byte
}

type capture struct{ v []byte }

func (c *capture) Set(key, value []byte) {
	if string(key) == string(dbkey.DposLibStatus()) {
		c.v = append([]byte{}, value...)
	}
}

func (l *lightStore) GetBestBlock() (*types.Block, error) { return l.main[len(l.main)-1].b, nil }
func (l *lightStore) GetBlockByNo(n types.BlockNo) (*types.Block, error) {
	if n >= uint64(len(l.main)) {
		return nil, fmt.Errorf("no block %d", n)
	}
	return l.main[n].b, nil
}
func (l *lightStore) GetHashByNo(n types.BlockNo) ([]byte, error) {
	b, err := l.GetBlockByNo(n)
	if err != nil {
		return nil, err
	}
	return b.BlockHash(), nil
}
func (l *lightStore) GetBlock(h []byte) (*types.Block, error) {
	for b := range l.known {
		if string(b.b.BlockHash()) == string(h) {
			return b.b, nil
		}
	}
	return nil, fmt.Errorf("no block")
}
func (l *lightStore) GetGenesisInfo() *types.Genesis { return l.w.gen }
func (l *lightStore) Get(key []byte) []byte {
	if string(key) == string(dbkey.DposLibStatus()) {
		return l.saved
	}
	return nil
}
func (l *lightStore) NewTx() db.Transaction          { return l.w.scratch.NewTx() }
func (l *lightStore) storeBlock(b *sblk)             { l.known[b] = true }
func (l *lightStore) setCC(consensus.ChainConsensus) {}
func (l *lightStore) save(cc consensus.ChainConsensus) {
	c := &capture{}
	if err := cc.Save(c); err != nil {
		panic(err)
	}
	l.saved = c.v
}
func (l *lightStore) connect(b *sblk, cc consensus.ChainConsensus) {
	l.known[b] = true
	l.main = append(l.main[:b.no:b.no], b)
	l.save(cc)
}
func (l *lightStore) swap(nb []*sblk, cc consensus.ChainConsensus) error {
	if uint64(len(l.main)-1) >= nb[0].no {
		return chain.ErrInvalidSwapChain
	}
	root := nb[len(nb)-1].no - 1
	m := append([]*sblk{}, l.main[:root+1]...)
	for i := len(nb) - 1; i >= 0; i-- {
		m = append(m, nb[i])
	}
	l.main = m
	l.save(cc)
	return nil
}
func (l *lightStore) reopen() chainStore { return l }
func (l *lightStore) clone() chainStore {
	k := make(map[*sblk]bool, len(l.known))
	for b := range l.known {
		k[b] = true
	}
	return &lightStore{w: l.w, main: append([]*sblk{}, l.main...), known: k, saved: l.saved}
}

// ---------------------------------------------------------------- recorder (correspondence stream)

type recorder struct {
	run      *vh.Run
	ops      []string
	declared map[*sblk]bool
}

func (r *recorder) op(line, out string, nontrivial bool) {
	r.ops = append(r.ops, line+" => "+out)
	r.run.Op(line, out, nontrivial)
}

// ---------------------------------------------------------------- node

type libRef struct {
	b  *sblk
	no uint64
}

type node struct {
	w           *world
	idx         int // producer index of this node (-1: observer)
	store       chainStore
	st          *dpos.Status
	d           *dpos.DPoS
	h           *dpos.VerifC08Handle
	cm          *bp.Cluster
	best        *sblk
	main        []*sblk // harness reference of the main chain by number
	known       map[*sblk]bool
	rec         *recorder
	maxLib      libRef   // highest LIB this node ever reported
	lastNo      uint64   // LIB number reported after the previous complete arrival
	fault       bool     // the history left the property's fault model (arbitrary Confirms, outsiders, injected gc): no property oracle
	hist        []string // human-readable history of this node (replay)
	sizeOv      int      // producer-count override in force (0 = none)
	events      int
	quiet       bool             // no per-node history (exploration: the schedule log replays the case)
	gaps        []gapAdoption    // reorganisations adopted below a reported LIB through the restart veto gap
	maxLibStale bool             // maxLib was a stale report (never on this node's main chain)
	libClass    map[*sblk]string // off-chain LIB block -> the class its adoption as LIB showed
	abandoned   map[*sblk]bool   // blocks this node removed from its main chain by a reorganisation the loaded veto allowed
}

func (n *node) selfID() string {
	if n.idx < 0 {
		return ""
	}
	return n.w.prods[n.idx].id
}

func (n *node) selfName() string {
	if n.idx < 0 {
		return "-"
	}
	return n.w.prods[n.idx].name
}

func newNode(w *world, idx int, store chainStore, rec *recorder) *node {
	n := &node{w: w, idx: idx, store: store, rec: rec, best: w.gblk, main: []*sblk{w.gblk}, known: map[*sblk]bool{w.gblk: true}}
	n.boot()
	if rec != nil {
		rec.declared = map[*sblk]bool{w.gblk: true}
		rec.op(fmt.Sprintf("new %s %s", n.selfName(), w.gbpNames()), w.showStatus(n.st.VerifC08Dump()), true)
	}
	return n
}

// boot: what dpos.New does at process start (bp.NewCluster: size = genesis producer count; NewStatus).
func (n *node) boot() {
	w := n.w
	p2pkey.VerifC08SetNodeSID(n.selfID())
	cm, err := bp.VerifNewCluster(w.gbpIDs())
	if err != nil {
		panic(err)
	}
	n.cm = cm
	n.sizeOv = 0
	n.st = dpos.NewStatus(cm, n.store, w.sdb, 0)
	n.d = dpos.VerifC08NewDPoS(n.st, n.store)
	n.store.setCC(n.d)
	n.h = n.st.VerifC08Snapshot()
}

// enter/leave: the dpos package keeps ONE global boot loader and p2pkey one node identity; several
// simulated nodes share the process.
func (n *node) enter() {
	p2pkey.VerifC08SetNodeSID(n.selfID())
	n.st.VerifC08Restore(n.h)
	dpos.VerifC08SetLoaderDB(n.store)
}
func (n *node) leave() { n.h = n.st.VerifC08Snapshot() }

func (n *node) dump() dpos.VerifC08Dump { return n.st.VerifC08Dump() }

func (n *node) declare(b *sblk) {
	if n.rec == nil || n.rec.declared[b] {
		return
	}
	if b.prev != nil {
		n.declare(b.prev)
	}
	n.rec.declared[b] = true
	n.rec.op(n.w.blkLine(b), "ok", true)
}

func (n *node) logf(f string, a ...interface{}) {
	if !n.quiet && len(n.hist) < 400 {
		n.hist = append(n.hist, fmt.Sprintf(f, a...))
	}
}

func (n *node) replay() map[string]interface{} {
	m := map[string]interface{}{"node": n.selfName(), "history": append([]string{}, n.hist...)}
	if n.rec != nil {
		ops := n.rec.ops
		if len(ops) > 300 {
			ops = ops[len(ops)-300:]
		}
		m["ops"] = append([]string{}, ops...)
	}
	return m
}

// update = the real Status.Update, recorded.
func (n *node) update(b *sblk) {
	n.st.Update(b.b)
	d := n.dump()
	if n.rec != nil {
		n.rec.op(fmt.Sprintf("update %s %s", b.name, n.w.nameOfID(d.Lib.Hash)), n.w.showStatus(d), true)
	}
}

func (n *node) verifyTs(b *sblk) bool {
	ok := n.d.VerifyTimestamp(b.b)
	if n.rec != nil {
		n.declare(b)
		n.rec.op("verifyts "+b.name, fmt.Sprint(ok), true)
	}
	return ok
}

func (n *node) needReorg(rootNo uint64) bool {
	ok := n.st.NeedReorganization(rootNo)
	if n.rec != nil {
		n.rec.op(fmt.Sprintf("needreorg %d", rootNo), fmt.Sprint(ok), true)
	}
	return ok
}

const (
	arrKnown = iota
	arrOrphan
	arrRejectedTs
	arrMain
	arrSide
	arrReorg
	arrReorgVetoed
)

// arrive: one block reaches the chain service of this node.
func (n *node) arrive(b *sblk) int {
	if n.known[b] {
		return arrKnown
	}
	if !n.known[b.prev] {
		return arrOrphan
	}
	n.enter()
	defer n.leave()
	n.events++
	w := n.w
	n.declare(b)
	// chainhandle.go addBlockInternal: VerifyTimestamp first
	ok := n.verifyTs(b)
	if b.no <= n.maxLib.no && ok {
		n.failVeto(fmt.Sprintf("VerifyTimestamp accepted block %s numbered %d <= LIB %d this node reported", b.name, b.no, n.maxLib.no))
	}
	if !ok {
		n.logf("recv %s(no=%d bp=%s c=%d prev=%s): rejected, no <= LIB", b.name, b.no, w.prods[b.bp].name, b.confirms, b.prev.name)
		return arrRejectedTs
	}
	n.known[b] = true
	n.store.storeBlock(b)
	res := arrSide
	switch {
	case b.prev == n.best:
		n.update(b)
		n.store.connect(b, n.d)
		if n.rec != nil {
			n.rec.op("connect "+b.name, "ok", true)
		}
		n.main = append(n.main, b)
		n.best = b
		res = arrMain
	case b.no > n.best.no:
		// reorg.go: gather the branch down to the main chain
		var nb []*sblk
		x := b
		for x.no >= uint64(len(n.main)) || n.main[x.no] != x {
			nb = append(nb, x)
			x = x.prev
		}
		root := x
		allowed := n.needReorg(root.no)
		gap := false
		if root.no < n.maxLib.no && allowed {
			gap = n.failVeto(fmt.Sprintf("NeedReorganization allowed a reorganisation with branch root %d below LIB %d this node reported", root.no, n.maxLib.no))
		}
		if !allowed {
			res = arrReorgVetoed
			break
		}
		n.update(root) // rollback
		for i := len(nb) - 1; i >= 0; i-- {
			n.update(nb[i]) // roll forward
		}
		if err := n.store.swap(nb, n.d); err != nil {
			panic(err)
		}
		if n.rec != nil {
			var names []string
			for _, x := range nb {
				names = append(names, x.name)
			}
			n.rec.op("swap "+strings.Join(names, ","), "ok", true)
		}
		if gap { // adopted through the restart veto gap: remember what it replaced
			g := gapAdoption{rootNo: root.no, libBefore: n.maxLib.no, replaced: map[*sblk]bool{}}
			for _, x := range n.main[root.no+1:] {
				g.replaced[x] = true
			}
			n.gaps = append(n.gaps, g)
		}
		if !gap {
			if n.abandoned == nil {
				n.abandoned = map[*sblk]bool{}
			}
			for _, x := range n.main[root.no+1:] {
				n.abandoned[x] = true
			}
		}
		n.main = append([]*sblk{}, n.main[:root.no+1]...)
		for i := len(nb) - 1; i >= 0; i-- {
			n.main = append(n.main, nb[i])
		}
		n.best = b
		res = arrReorg
	}
	if !n.quiet {
		n.logf("recv %s(no=%d bp=%s c=%d prev=%s): %s -> best=%s LIB=%s", b.name, b.no, w.prods[b.bp].name, b.confirms, b.prev.name,
			[]string{"known", "orphan", "rejected", "main", "side", "reorg", "reorg-vetoed"}[res], n.best.name, w.showBI(n.dump().Lib))
	}
	if debugDumps {
		n.logf("      %s", w.showLS(n.dump()))
	}
	n.afterArrival(b, res)
	return res
}

// restart: process restart on the same persistent store.
func (n *node) restart() {
	n.store = n.store.reopen()
	n.boot()
	n.events++
	if n.rec != nil {
		ld, _ := dpos.VerifC08LoaderDump()
		n.rec.op("restart", fmt.Sprintf("%s | %s best=%s", n.w.showStatus(n.dump()), n.w.showLS(ld), n.w.nameOfID(dpos.VerifC08LoaderBest())), true)
	}
	n.logf("restart")
}

// lpbNo: what the block factory uses for Confirms: it reads bsLoader.lpbNo() when it starts and then
// tracks its own successful productions, which is libStatus.LpbNo of the loaded status.
func (n *node) lpbNo() uint64 {
	n.enter()
	defer n.leave()
	d := n.dump()
	if d.Loaded {
		return d.Lpb
	}
	return uint64(dpos.VerifC08LoaderLpbNo())
}

func (n *node) clone() *node {
	c := *n
	c.store = n.store.clone()
	c.main = append([]*sblk{}, n.main...)
	c.known = make(map[*sblk]bool, len(n.known))
	for b := range n.known {
		c.known[b] = true
	}
	c.hist = append([]string{}, n.hist...)
	c.gaps = append([]gapAdoption{}, n.gaps...)
	if n.abandoned != nil {
		c.abandoned = make(map[*sblk]bool, len(n.abandoned))
		for k, v := range n.abandoned {
			c.abandoned[k] = v
		}
	}
	if n.libClass != nil {
		c.libClass = make(map[*sblk]string, len(n.libClass))
		for k, v := range n.libClass {
			c.libClass[k] = v
		}
	}
	return &c
}
