package main

// The property's own predicates, evaluated on what the REAL Status reports.

import (
	"fmt"
	"os"
)

// Known-finding classes (see notes/C08.md, /verif/known_findings.json). A failure is tagged with a class only when it shows
// that class's own MECHANISM (no blanket inheritance from an earlier tagged event on the same node):
//
//	lazy load  - a veto let-through while the Status has not loaded (dump.Loaded = false); a LIB / formerly reported LIB that
//	             is off the main chain because it was among the blocks REPLACED by a reorganisation adopted through that gap
//	             (node.gaps); a two-node conflict whose fork point lies below a LIB one of the nodes had reported before such
//	             an adoption;
//	stale entry - a reported LIB off the main chain that is the pre-LIB of a proposed entry whose confirming block is itself
//	             off the main chain; "reported earlier, replaced" / a conflict only when the block in question WAS such a
//	             stale report (node.maxLibStale);
//
// anything else is reported untagged. (Three further classes found by this harness were repaired in /repo: a61f1aeb, db1b9b14 — their oracles are
// plain failures now and their scripted histories A2, A3, A5 are regression tests.)
const (
	// Status.load is lazy: between NewStatus (process start) and the first Update the Status holds a fresh
	// libStatus whose LIB number is 0, so NeedReorganization allows every root and VerifyTimestamp accepts
	// every number.
	classLazyLoad = "C08-restart-lazy-load-veto-gap"
	// rollbackStatusTo (load) overwrites only the proposed entries the replayed window yields; entries of other producers keep
	// pre-LIBs (and confirming blocks) of the abandoned branch, and calcLIB can select one: the LIB is then not on the main chain.
	classStaleEntry = "C08-lib-from-stale-entry-of-abandoned-branch"
	// a producer vetoes reorganisations only below its own LIB, not below blocks it has confirmed: of the quorum whose pre-LIBs
	// make x irreversible only the last member knows it, the others may still adopt a longer branch forking below x. Two correct
	// nodes then hold LIBs on conflicting branches with NO misbehaving producer. Tagged ONLY in the scripted history A6 (both
	// nodes untainted, every block honest); a conflict found by the random schedules or the exploration stays untagged.
	classHonestSwitch = "C08-conflicting-libs-honest-switch-below-confirmed"
	// receivers never validate the Confirms field: a producer claiming more than `no - (its previous block among the ancestors)`
	// confirms blocks it has already confirmed; the LIB then advances with blocks of fewer than 2n/3+1 distinct producers. Tagged
	// only when such a lie is present on the main chain at or above the LIB.
	classLyingConfirms = "C08-quorum-by-lying-confirms"
)

var classSeen = map[string]int{}

var arrNames = []string{"known", "orphan", "rejected-le-lib", "main", "side", "reorg", "reorg-vetoed"}

// gapAdoption: a reorganisation this node adopted although its branch root lies below a LIB the node had reported, because the
// Status had not loaded yet (restart veto gap). replaced = the main-chain blocks it removed.
type gapAdoption struct {
	rootNo, libBefore uint64
	replaced          map[*sblk]bool
}

func (n *node) replacedByGap(b *sblk) bool {
	for _, g := range n.gaps {
		if g.replaced[b] {
			return true
		}
	}
	return false
}

func (n *node) fail(what, class string) {
	if n.fault {
		return
	}
	n.w.run.Count("fail-class=" + class)
	n.w.run.Count(fmt.Sprintf("fail-class=%s producers=%d", class, len(n.w.gbps)))
	if class != "" {
		// the run keeps a bounded list of failures: at most two per known class, so that an untagged one is never crowded out
		classSeen[class]++
		if classSeen[class] > 2 {
			return
		}
	}
	if class == "" && os.Getenv("C08_DEBUG") != "" {
		fmt.Fprintln(os.Stderr, "UNTAGGED:", n.selfName(), what)
		if os.Getenv("C08_DEBUG") == "2" {
			for _, l := range n.hist {
				fmt.Fprintln(os.Stderr, "   ", l)
			}
			os.Exit(3)
		}
	}
	n.w.run.FailKnown(what, class, n.replay())
}

// failVeto: a veto function let something at or below a reported LIB through. It carries the lazy-load class exactly when the
// Status had not loaded its saved finality status at that moment; reports whether it did.
func (n *node) failVeto(what string) bool {
	class := ""
	if !n.dump().Loaded {
		class = classLazyLoad
		what += " (the Status had not yet loaded its saved finality status: first block activity after a restart)"
	}
	n.fail(what, class)
	return class != ""
}

func quorum(size int) int { return size*2/3 + 1 }

// afterArrival: evaluated after every completely processed arrival.
func (n *node) afterArrival(b *sblk, res int) {
	w := n.w
	d := n.dump()
	w.run.Count(fmt.Sprintf("arrival=%s", []string{"known", "orphan", "rejected-le-lib", "main", "side", "reorg", "reorg-vetoed"}[res]))
	if n.fault {
		return
	}
	lib := d.Lib
	if !d.Loaded {
		// no Update since the restart: the Status still holds a fresh libStatus
		// (consensus info shows no LIB at all in this window; counted, the veto consequences are the oracle's business)
		if res == arrMain || res == arrReorg {
			n.fail(fmt.Sprintf("Status.Update ran (arrival of %s: %s) and the Status still has not loaded its finality status", b.name, arrNames[res]), "")
		}
		if n.lastNo > 0 {
			w.run.Count("restart-window-reports-no-lib")
		}
		n.neverUndone()
		return
	}
	// monotone
	if lib.No < n.lastNo {
		n.fail(fmt.Sprintf("reported LIB number decreased from %d to %d (arrival of %s: %s)", n.lastNo, lib.No, b.name, arrNames[res]), "")
	}
	if lib.No > n.lastNo {
		w.run.Count("lib-advanced")
	}
	// on the main chain
	var lb *sblk
	libStale := false
	if lib.No > 0 || lib.Hash != "" {
		lb = w.blocks[lib.Hash]
		if lb == nil || lib.No >= uint64(len(n.main)) || n.main[lib.No] != lb {
			// shape of the stale-entry class: the LIB is the pre-LIB of a proposed entry whose confirming block is itself off the main chain
			class := ""
			for _, p := range d.Prpsd {
				by := w.blocks[p.By.Hash]
				if !p.Nil && p.Plib.Hash == lib.Hash && by != nil && (by.no >= uint64(len(n.main)) || n.main[by.no] != by) {
					class = classStaleEntry
					libStale = true
				}
			}
			// mechanism of the lazy-load class: the LIB block was removed from the main chain by a reorganisation adopted through the gap
			if class == "" && lb != nil && n.replacedByGap(lb) {
				class = classLazyLoad
			}
			// the SAME off-chain LIB block reported again later (the entry it was taken from may have been overwritten meanwhile): the
			// class belongs to that block's adoption as LIB, not to the node
			if lb != nil {
				if class != "" {
					if n.libClass == nil {
						n.libClass = map[*sblk]string{}
					}
					n.libClass[lb] = class
				} else {
					class = n.libClass[lb]
				}
			}
			n.fail(fmt.Sprintf("reported LIB %s is not a block of the node's main chain (main chain has %s at %d, best %s)",
				w.showBI(lib), nameAt(n.main, lib.No), lib.No, n.best.name), class)
		}
	}
	// quorum: a new LIB needs blocks of more than two thirds of the producers at or above it
	if lb != nil && lib.No > 0 && lib.No > n.lastNo && lib.No < uint64(len(n.main)) && n.main[lib.No] == lb {
		seen := map[int]bool{}
		for i := lib.No; i < uint64(len(n.main)); i++ {
			seen[n.main[i].bp] = true
		}
		size := int(n.cm.Size())
		if len(seen) < quorum(size) {
			class := ""
			for i := lib.No; i < uint64(len(n.main)); i++ {
				if w.lies(n.main[i]) {
					class = classLyingConfirms
				}
			}
			n.fail(fmt.Sprintf("LIB advanced to %s with blocks of only %d distinct producers at or above it on the main chain; more than 2/3 of %d producers = %d needed",
				w.showBI(lib), len(seen), size, quorum(size)), class)
		}
		w.run.Count(fmt.Sprintf("lib-quorum-margin=%d", len(seen)-quorum(size)))
	}
	// never undone: the highest LIB ever reported is still on the main chain
	if lib.No > n.maxLib.no && lb != nil {
		n.maxLib = libRef{b: lb, no: lib.No}
		n.maxLibStale = libStale
	}
	n.neverUndone()
	n.lastNo = lib.No
}

// neverUndone: evaluated after every arrival, also in the restart window.
func (n *node) neverUndone() {
	if n.fault || n.maxLib.b == nil {
		return
	}
	if n.maxLib.no >= uint64(len(n.main)) || n.main[n.maxLib.no] != n.maxLib.b {
		class := ""
		switch {
		case n.maxLibStale: // it never was on the main chain: the stale report itself
			class = classStaleEntry
		case n.replacedByGap(n.maxLib.b):
			class = classLazyLoad
		}
		n.fail(fmt.Sprintf("block %s (no %d), reported as LIB earlier, was replaced on the main chain (now %s)",
			n.maxLib.b.name, n.maxLib.no, nameAt(n.main, n.maxLib.no)), class)
	}
}

func nameAt(main []*sblk, no uint64) string {
	if no >= uint64(len(main)) {
		return "nothing"
	}
	return main[no].name
}

// agreement: the highest LIBs two correct nodes ever reported lie on one branch.
func agreement(w *world, nodes []*node, replay func() interface{}) {
	agreementWith(w, nodes, replay, "")
}

// agreementWith: untainted = the class of a conflict for which conflictClass finds no mechanism ("" everywhere).
func agreementWith(w *world, nodes []*node, replay func() interface{}, untainted string) {
	for i := 0; i < len(nodes); i++ {
		for j := i + 1; j < len(nodes); j++ {
			a, b := nodes[i].maxLib.b, nodes[j].maxLib.b
			if a == nil || b == nil || nodes[i].fault || nodes[j].fault {
				continue
			}
			if !a.isAncestorOf(b) && !b.isAncestorOf(a) {
				// attributable to a known class only through that class's mechanism: one of the two blocks WAS a stale report; or the
				// conflict's fork point lies below a LIB one of the nodes had reported before it adopted a branch through the restart gap
				class := conflictClass(w, nodes, nodes[i], nodes[j], a, b)
				if class == "" {
					class = untainted
				}
				w.run.Count("fail-class=agreement/" + class)
				if class != "" {
					classSeen["agreement/"+class]++
					if classSeen["agreement/"+class] > 2 {
						continue
					}
				}
				w.run.FailKnown(fmt.Sprintf("two correct nodes hold irreversible blocks on conflicting branches: %s has %s (no %d), %s has %s (no %d)",
					nodes[i].selfName(), a.name, a.no, nodes[j].selfName(), b.name, b.no), class, replay())
			}
		}
	}
}

// forkNo: the number of the last common ancestor of a and b.
func forkNo(a, b *sblk) uint64 {
	for a != b {
		if a.no >= b.no {
			a = a.prev
		} else {
			b = b.prev
		}
		if a == nil || b == nil {
			return 0
		}
	}
	return a.no
}

// lies: the block's Confirms value exceeds what its producer may claim: no - (its previous block among the ancestors).
func (w *world) lies(b *sblk) bool {
	if b.prev == nil {
		return false
	}
	var lpb uint64
	for x := b.prev; x != nil && x.prev != nil; x = x.prev {
		if x.bp == b.bp {
			lpb = x.no
			break
		}
	}
	return b.confirms > b.no-lpb
}

// covers: x's confirm range (no-Confirms, no] contains the number of its ancestor-or-self l.
func covers(x, l *sblk) bool { return l.isAncestorOf(x) && x.confirms > x.no-l.no }

// conflictClass: the mechanism behind "ni holds a, nj holds b, on conflicting branches", each decided by a predicate on the
// recorded history (never by "an equivocator exists"); "" when none applies (plain failure).
//
//	stale entry   one of the two blocks WAS a stale report (never on its holder's main chain when reported);
//	lazy load     the fork point lies below a LIB one of the two nodes had reported before it adopted a branch through the restart
//	              veto gap, or a or b was removed from some correct node's main chain by such an adoption;
//	lying         a block the holder knows, descending from its LIB and covering it, claims more than no - (its producer's
//	              previous block among the ancestors);
//	honest switch some CORRECT node k produced a block x that covers l (l = a or b: k confirmed l with its own block, on l's
//	              branch) and later removed l from its main chain by a reorganisation the loaded veto allowed (root >= its LIB).
func conflictClass(w *world, nodes []*node, ni, nj *node, a, b *sblk) string {
	if ni.maxLibStale || nj.maxLibStale {
		return classStaleEntry
	}
	f := forkNo(a, b)
	for _, nd := range []*node{ni, nj} {
		for _, g := range nd.gaps {
			if f < g.libBefore {
				return classLazyLoad
			}
		}
	}
	for _, k := range nodes {
		if k.replacedByGap(a) || k.replacedByGap(b) {
			return classLazyLoad
		}
	}
	for _, h := range []struct {
		nd *node
		l  *sblk
	}{{ni, a}, {nj, b}} {
		for _, x := range w.blocks {
			if h.nd.known[x] && covers(x, h.l) && w.lies(x) {
				return classLyingConfirms
			}
		}
	}
	for _, l := range []*sblk{a, b} {
		for _, k := range nodes {
			if k.fault || k.idx < 0 || !k.abandoned[l] {
				continue
			}
			for _, x := range w.blocks {
				if x.bp == k.idx && covers(x, l) {
					w.run.Count("agreement honest-switch witness")
					return classHonestSwitch
				}
			}
		}
	}
	return ""
}
