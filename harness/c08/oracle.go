package main

// The property's own predicates, evaluated on what the REAL Status reports.

import (
	"fmt"
	"os"
)

// Known-finding classes (see notes/C08.md, /verif/known_findings.json). A failure is tagged with a class only when it has
// exactly the shape of that class, or is a direct consequence of such an event on the same node; anything else is reported
// untagged. (Three further classes found by this harness were repaired in /repo: a61f1aeb, db1b9b14 — their oracles are
// plain failures now and their scripted histories A2, A3, A5 are regression tests.)
const (
	// Status.load is lazy: between NewStatus (process start) and the first Update the Status holds a fresh
	// libStatus whose LIB number is 0, so NeedReorganization allows every root and VerifyTimestamp accepts
	// every number.
	classLazyLoad = "C08-restart-lazy-load-veto-gap"
	// rollbackStatusTo (load) overwrites only the proposed entries the replayed window yields; entries of other producers keep
	// pre-LIBs (and confirming blocks) of the abandoned branch, and calcLIB can select one: the LIB is then not on the main chain.
	classStaleEntry = "C08-lib-from-stale-entry-of-abandoned-branch"
	// a producer vetoes reorganisations only below its own LIB, not below blocks it has confirmed: of the quorum whose pre-LIBs
	// make x irreversible only the last member knows it, the others may still adopt a longer branch forking below x. Two correct
	// nodes then hold LIBs on conflicting branches with NO misbehaving producer. Tagged ONLY in the scripted history A6 (both
	// nodes untainted, every block honest); a conflict found by the random schedules or the exploration stays untagged.
	classHonestSwitch = "C08-conflicting-libs-honest-switch-below-confirmed"
)

var classSeen = map[string]int{}

var arrNames = []string{"known", "orphan", "rejected-le-lib", "main", "side", "reorg", "reorg-vetoed"}

// fail: inherit = the failure can be a consequence of a tagged event that already happened on this node (the node adopted a
// branch through the restart veto gap, or reported a LIB taken from a stale entry): it then carries that class.
func (n *node) fail(what, class string, inherit bool) {
	if n.fault {
		return
	}
	if class == "" && inherit {
		class = n.taint
	}
	n.w.run.Count("fail-class=" + class)
	n.w.run.Count(fmt.Sprintf("fail-class=%s producers=%d", class, len(n.w.gbps)))
	if class != "" {
		// the run keeps a bounded list of failures: at most two per known class, so that an untagged one is never crowded out
		classSeen[class]++
		if classSeen[class] > 2 {
			return
		}
	}
	if class == "" && os.Getenv("C08_DEBUG") != "" {
		fmt.Fprintln(os.Stderr, "UNTAGGED:", n.selfName(), what)
		if os.Getenv("C08_DEBUG") == "2" {
			for _, l := range n.hist {
				fmt.Fprintln(os.Stderr, "   ", l)
			}
			os.Exit(3)
		}
	}
	n.w.run.FailKnown(what, class, n.replay())
}

// failVeto: a veto function let something at or below a reported LIB through. adopted = the node really reorganised below
// its reported LIB because of it (not a mere probe).
func (n *node) failVeto(what string, adopted bool) {
	class := ""
	if !n.dump().Loaded {
		class = classLazyLoad
		what += " (the Status had not yet loaded its saved finality status: first block activity after a restart)"
		if adopted && n.taint == "" {
			n.taint = class
		}
	}
	n.fail(what, class, true)
}

func quorum(size int) int { return size*2/3 + 1 }

// afterArrival: evaluated after every completely processed arrival.
func (n *node) afterArrival(b *sblk, res int) {
	w := n.w
	d := n.dump()
	w.run.Count(fmt.Sprintf("arrival=%s", []string{"known", "orphan", "rejected-le-lib", "main", "side", "reorg", "reorg-vetoed"}[res]))
	if n.fault {
		return
	}
	lib := d.Lib
	if !d.Loaded {
		// no Update since the restart: the Status still holds a fresh libStatus
		// (consensus info shows no LIB at all in this window; counted, the veto consequences are the oracle's business)
		if n.lastNo > 0 {
			w.run.Count("restart-window-reports-no-lib")
		}
		return
	}
	// monotone
	if lib.No < n.lastNo {
		n.fail(fmt.Sprintf("reported LIB number decreased from %d to %d (arrival of %s: %s)", n.lastNo, lib.No, b.name, arrNames[res]), "", false)
	}
	if lib.No > n.lastNo {
		w.run.Count("lib-advanced")
	}
	// on the main chain
	var lb *sblk
	if lib.No > 0 || lib.Hash != "" {
		lb = w.blocks[lib.Hash]
		if lb == nil || lib.No >= uint64(len(n.main)) || n.main[lib.No] != lb {
			// shape of the stale-entry class: the LIB is the pre-LIB of a proposed entry whose confirming block is itself off the main chain
			class := ""
			for _, p := range d.Prpsd {
				by := w.blocks[p.By.Hash]
				if !p.Nil && p.Plib.Hash == lib.Hash && by != nil && (by.no >= uint64(len(n.main)) || n.main[by.no] != by) {
					class = classStaleEntry
				}
			}
			if class != "" && n.taint == "" {
				n.taint = class
			}
			n.fail(fmt.Sprintf("reported LIB %s is not a block of the node's main chain (main chain has %s at %d, best %s)",
				w.showBI(lib), nameAt(n.main, lib.No), lib.No, n.best.name), class, true)
		}
	}
	// quorum: a new LIB needs blocks of more than two thirds of the producers at or above it
	if lb != nil && lib.No > 0 && lib.No > n.lastNo && lib.No < uint64(len(n.main)) && n.main[lib.No] == lb {
		seen := map[int]bool{}
		for i := lib.No; i < uint64(len(n.main)); i++ {
			seen[n.main[i].bp] = true
		}
		size := int(n.cm.Size())
		if len(seen) < quorum(size) {
			n.fail(fmt.Sprintf("LIB advanced to %s with blocks of only %d distinct producers at or above it on the main chain; more than 2/3 of %d producers = %d needed",
				w.showBI(lib), len(seen), size, quorum(size)), "", false)
		}
		w.run.Count(fmt.Sprintf("lib-quorum-margin=%d", len(seen)-quorum(size)))
	}
	// never undone: the highest LIB ever reported is still on the main chain
	if lib.No > n.maxLib.no && lb != nil {
		n.maxLib = libRef{b: lb, no: lib.No}
	}
	if n.maxLib.b != nil && (n.maxLib.no >= uint64(len(n.main)) || n.main[n.maxLib.no] != n.maxLib.b) {
		n.fail(fmt.Sprintf("block %s (no %d), reported as LIB earlier, was replaced on the main chain (now %s)",
			n.maxLib.b.name, n.maxLib.no, nameAt(n.main, n.maxLib.no)), "", true)
	}
	n.lastNo = lib.No
}

func nameAt(main []*sblk, no uint64) string {
	if no >= uint64(len(main)) {
		return "nothing"
	}
	return main[no].name
}

// agreement: the highest LIBs two correct nodes ever reported lie on one branch.
func agreement(w *world, nodes []*node, replay func() interface{}) {
	agreementWith(w, nodes, replay, "")
}

// agreementWith: untainted = the class of a conflict between two nodes neither of which carries a tagged event ("" everywhere
// except in the scripted history A6).
func agreementWith(w *world, nodes []*node, replay func() interface{}, untainted string) {
	for i := 0; i < len(nodes); i++ {
		for j := i + 1; j < len(nodes); j++ {
			a, b := nodes[i].maxLib.b, nodes[j].maxLib.b
			if a == nil || b == nil || nodes[i].fault || nodes[j].fault {
				continue
			}
			if !a.isAncestorOf(b) && !b.isAncestorOf(a) {
				// attributable to a known class only if one of the two nodes really adopted a branch below its reported LIB through
				// the restart veto gap, or really reported a LIB taken from a stale entry (node.taint is set by those two events only)
				class := nodes[i].taint
				if class == "" {
					class = nodes[j].taint
				}
				if class == "" {
					class = untainted
				}
				w.run.Count("fail-class=agreement/" + class)
				if class != "" {
					classSeen["agreement/"+class]++
					if classSeen["agreement/"+class] > 2 {
						continue
					}
				}
				w.run.FailKnown(fmt.Sprintf("two correct nodes hold irreversible blocks on conflicting branches: %s has %s (no %d), %s has %s (no %d)",
					nodes[i].selfName(), a.name, a.no, nodes[j].selfName(), b.name, b.no), class, replay())
			}
		}
	}
}
