package main

// Several nodes, each with its own REAL Status, a producer schedule (slot t belongs to producer
// t mod n), partitions, delays, restarts and at most one equivocating producer. Used twice: random
// schedules (node 0 is recorded for the model correspondence) and a bounded exhaustive exploration.
// This is SEARCH: it can produce a counterexample or raise confidence, never a proof.

import (
	"fmt"
	"sort"
	"strings"
)

type sim struct {
	w      *world
	n      int     // producers
	byz    int     // position (0..n-1) of the equivocating producer, -1: none
	nodes  []*node // correct nodes, in producer order
	pos    []int   // producer position of nodes[i]
	groups []int   // partition: group id of nodes[i]
	slot   int
	log    []string
}

func (s *sim) logf(f string, a ...interface{}) { s.log = append(s.log, fmt.Sprintf(f, a...)) }

func (s *sim) replay() interface{} {
	m := map[string]interface{}{"producers": s.n, "equivocator": s.byz, "schedule": append([]string{}, s.log...)}
	for _, nd := range s.nodes {
		m["node-"+nd.selfName()] = nd.replay()
	}
	return m
}

func newSim(w *world, n, byz int, recorded *recorder, mkStore func(i int) chainStore) *sim {
	s := &sim{w: w, n: n, byz: byz}
	for p := 0; p < n; p++ {
		if p == byz {
			continue
		}
		var rec *recorder
		if len(s.nodes) == 0 {
			rec = recorded
		}
		s.nodes = append(s.nodes, newNode(w, w.gbps[p], mkStore(len(s.nodes)), rec))
		s.pos = append(s.pos, p)
		s.groups = append(s.groups, 0)
	}
	return s
}

func (s *sim) clone() *sim {
	c := *s
	c.nodes = nil
	for _, nd := range s.nodes {
		c.nodes = append(c.nodes, nd.clone())
	}
	c.groups = append([]int{}, s.groups...)
	c.log = append([]string{}, s.log...)
	return &c
}

// sync: inside every partition group all members exchange every block any member knows.
func (s *sim) sync() {
	for g := 0; g < len(s.nodes); g++ {
		var members []*node
		for i, nd := range s.nodes {
			if s.groups[i] == g {
				members = append(members, nd)
			}
		}
		if len(members) < 2 {
			continue
		}
		union := map[*sblk]bool{}
		for _, m := range members {
			for b := range m.known {
				union[b] = true
			}
		}
		var bs []*sblk
		for b := range union {
			bs = append(bs, b)
		}
		sort.Slice(bs, func(i, j int) bool {
			if bs[i].no != bs[j].no {
				return bs[i].no < bs[j].no
			}
			return bs[i].seq < bs[j].seq
		})
		for _, m := range members {
			for _, b := range bs {
				if !m.known[b] {
					m.arrive(b)
				}
			}
		}
	}
}

// honest production: the node's block factory builds on its best block with Confirms = no - lpbNo.
func (s *sim) produce(i int) *sblk {
	nd := s.nodes[i]
	parent := nd.best
	no := parent.no + 1
	confirms := no - nd.lpbNo() // uint64, as blockfactory.go computes it
	b := s.w.mkBlock(parent, nd.idx, confirms)
	if r := nd.arrive(b); r != arrMain {
		s.w.run.Count(fmt.Sprintf("own-block-result=%d", r))
	}
	return b
}

// byzBlock: the equivocator extends parent with a chain-locally honest Confirms value (what a receiver
// could check from the chain alone): no - (its latest block among parent's ancestors, 0 if none).
func (s *sim) byzBlock(parent *sblk) *sblk {
	bpi := s.w.gbps[s.byz]
	var lpb uint64
	for x := parent; x != nil; x = x.prev {
		if x.bp == bpi {
			lpb = x.no
			break
		}
	}
	return s.w.mkBlock(parent, bpi, parent.no+1-lpb)
}

func (s *sim) deliver(b *sblk, to []int) {
	for _, i := range to {
		s.nodes[i].arrive(b)
	}
}

func (s *sim) distinctTips() []*sblk {
	var tips []*sblk
	for _, nd := range s.nodes {
		dup := false
		for _, t := range tips {
			dup = dup || t == nd.best
		}
		if !dup {
			tips = append(tips, nd.best)
		}
	}
	return tips
}

func (s *sim) knowers(b *sblk) []int {
	var r []int
	for i, nd := range s.nodes {
		if nd.known[b] {
			r = append(r, i)
		}
	}
	return r
}

func (s *sim) nodeAt(pos int) int {
	for i, p := range s.pos {
		if p == pos {
			return i
		}
	}
	return -1
}

func (s *sim) check() { agreement(s.w, s.nodes, s.replay) }

func (s *sim) state() string {
	var sb strings.Builder
	for i, nd := range s.nodes {
		d := nd.h.VerifC08Dump()
		var ks []string
		for b := range nd.known {
			ks = append(ks, b.name)
		}
		sort.Strings(ks)
		fmt.Fprintf(&sb, "%d|%s|%s|%d/%s|%d|%s;", i, nd.best.name, s.w.showStatus(d), nd.maxLib.no, nameOf(nd.maxLib.b), nd.lastNo, strings.Join(ks, ","))
	}
	return sb.String()
}

func nameOf(b *sblk) string {
	if b == nil {
		return "-"
	}
	return b.name
}

// partitions of k nodes as group-id vectors (restricted growth strings).
func partitions(k int) [][]int {
	var out [][]int
	var rec func(i, maxg int, cur []int)
	rec = func(i, maxg int, cur []int) {
		if i == k {
			out = append(out, append([]int{}, cur...))
			return
		}
		for g := 0; g <= maxg+1 && g < k; g++ {
			m := maxg
			if g > m {
				m = g
			}
			rec(i+1, m, append(cur, g))
		}
	}
	rec(0, -1, nil)
	return out
}
