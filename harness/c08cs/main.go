// Harness c08cs: the chain-service half of property C08. A REAL chain.ChainService (memorydb stores, stub VM) whose
// consensus object forwards to a REAL dpos.Status / dpos.DPoS (Update, Save, NeedReorganization, VerifyTimestamp). Blocks
// (empty bodies, signed by the producers, honest or chain-locally honest Confirms, some with a state root the execution does
// not reach) arrive in generated orders: main-chain extensions, side branches, reorganisations, orphans, failed executions
// on the main chain and in the middle of a roll-forward. What is compared and checked:
//
//	C  every consensus call the chain service makes (VerifyTimestamp, NeedReorganization, Update, Save) is recorded in call
//	   order, with the full status dump after every Update, and replayed on the Lean model `Aergo.Lib` (driver model-c08);
//	S  the call SEQUENCE must be one the theorems quantify over: the ghost automaton of lean/Aergo/Lemmas/LibReorg.lean
//	   (synced -Update(child of tip)-> pending -Save-> synced; synced -NeedReorganization(root)=true, Update(root)-> reorg
//	   -Update(next block of the branch)*-> reorg -Save-> synced; Update(tip) in synced (failed execution) and
//	   Update(old tip) in reorg (failed roll-forward) lead back to synced); anything else is a violation with a replay;
//	P  the property's node-local clauses on what the real Status reports and the real chain DB holds after every arrival.
package main

import (
	"errors"
	"fmt"
	"os"
	"path/filepath"
	"sort"
	"strings"
	"time"

	"github.com/aergoio/aergo-actor/actor"
	"github.com/aergoio/aergo/v2/chain"
	"github.com/aergoio/aergo/v2/config"
	"github.com/aergoio/aergo/v2/consensus"
	"github.com/aergoio/aergo/v2/consensus/impl/dpos"
	"github.com/aergoio/aergo/v2/consensus/impl/dpos/bp"
	"github.com/aergoio/aergo/v2/internal/enc/proto"
	"github.com/aergoio/aergo/v2/p2p/p2pkey"
	"github.com/aergoio/aergo/v2/pkg/component"
	"github.com/aergoio/aergo/v2/state"
	"github.com/aergoio/aergo/v2/types"
	"github.com/aergoio/aergo/v2/types/message"
	"github.com/aergoio/aergo/v2/zz_verif/vh"
	"github.com/libp2p/go-libp2p/core/crypto"
	"github.com/rs/zerolog"
)

const classStaleEntry = "C08-lib-from-stale-entry-of-abandoned-branch"

// the roll-forward of a reorganisation failed (a block of the new branch does not execute): the chain service puts the Status back
// on the old best block, but the LIB and the proposed entries the Status picked up on the branch that was NOT adopted stay. Tagged
// by mechanism: the reported LIB (or the confirming block of the entry it was taken from) is a block that was rolled forward in a
// reorganisation that failed in this session.
const classFailedRF = "C08-lib-kept-from-failed-rollforward"

// receivers never validate Confirms: a block claiming more than `no - (its producer's previous block among the ancestors)` confirms
// blocks its producer has confirmed before. Tagged only when such a block is among the blocks at or above the LIB.
const classLyingConfirms = "C08-quorum-by-lying-confirms"

// ---------------------------------------------------------------- producers, blocks

type producer struct {
	priv crypto.PrivKey
	id   string
	name string
}

type sblk struct {
	name     string
	b        *types.Block
	no       uint64
	prev     *sblk
	bp       int
	confirms uint64
	bad      bool // the header claims a state root the execution does not reach
	badAnc   bool // some ancestor (or the block) is bad: can never be on a main chain
}

type world struct {
	run   *vh.Run
	rng   *vh.Rng
	prods []*producer
	byID  map[string]*producer
	gen   *types.Genesis
	tmpl  string
	root  string
	nnode int
	nblk  int
	ts    int64
	gblk  *sblk
	byHsh map[string]*sblk
}

func newProducers(n int) []*producer {
	var ps []*producer
	for i := 0; i < n; i++ {
		priv, pub, err := crypto.GenerateKeyPair(crypto.Secp256k1, 256)
		if err != nil {
			panic(err)
		}
		pid, err := types.IDFromPublicKey(pub)
		if err != nil {
			panic(err)
		}
		ps = append(ps, &producer{priv: priv, id: types.IDB58Encode(pid), name: fmt.Sprintf("p%d", i)})
	}
	return ps
}

func newWorld(run *vh.Run, rng *vh.Rng, pool []*producer, n int, root string) *world {
	w := &world{run: run, rng: rng, prods: pool[:n], byID: map[string]*producer{}, root: root, byHsh: map[string]*sblk{}, ts: 1_600_000_000_000_000_000}
	for _, p := range w.prods {
		w.byID[p.id] = p
	}
	g := &types.Genesis{ID: types.ChainID{Version: 0, Magic: "c08cs.verif", PublicNet: false, MainNet: false, Consensus: "sbp"},
		Timestamp: w.ts, Balance: map[string]string{}}
	for _, p := range w.prods {
		g.BPs = append(g.BPs, p.id)
	}
	w.gen = g
	os.RemoveAll(root)
	os.MkdirAll(root, 0o755)
	w.tmpl = filepath.Join(root, "tmpl")
	core, err := chain.NewCore("memorydb", w.tmpl, false, 0, &config.DBConfig{})
	if err != nil {
		panic(err)
	}
	if err := core.InitGenesisBlock(g, false); err != nil {
		panic(err)
	}
	core.Close()
	return w
}

func copyFile(src, dst string) {
	b, err := os.ReadFile(src)
	if err != nil {
		panic(err)
	}
	os.MkdirAll(filepath.Dir(dst), 0o755)
	if err := os.WriteFile(dst, b, 0o644); err != nil {
		panic(err)
	}
}

// mk builds a child of parent by producer bpi with the given Confirms value; bad: the claimed state root is garbage.
func (w *world) mk(parent *sblk, bpi int, confirms uint64, bad bool) *sblk {
	w.nblk++
	w.ts += 1000
	bi := types.NewBlockHeaderInfoFromPrevBlock(parent.b, w.ts, config.AllEnabledHardforkConfig)
	root := append([]byte{}, parent.b.GetHeader().GetBlocksRootHash()...) // empty body: the state does not change
	if bad {
		root = w.rng.Bytes(32)
	}
	blk := types.NewBlock(bi, root, nil, nil, nil, nil)
	blk.SetConfirms(confirms)
	if err := blk.Sign(w.prods[bpi].priv); err != nil {
		panic(err)
	}
	raw, err := proto.Encode(blk)
	if err != nil {
		panic(err)
	}
	blk = &types.Block{}
	if err := proto.Decode(raw, blk); err != nil {
		panic(err)
	}
	s := &sblk{name: fmt.Sprintf("b%d", w.nblk), b: blk, no: parent.no + 1, prev: parent, bp: bpi, confirms: confirms, bad: bad,
		badAnc: bad || parent.badAnc}
	w.byHsh[string(blk.BlockHash())] = s
	return s
}

// honest: Confirms = no - (the producer's latest block among the ancestors), what a receiver could check from the chain.
func (w *world) honest(parent *sblk, bpi int) uint64 {
	var lpb uint64
	for x := parent; x != nil && x.prev != nil; x = x.prev {
		if x.bp == bpi {
			lpb = x.no
			break
		}
	}
	return parent.no + 1 - lpb
}

func (w *world) nameOfID(id string) string {
	if id == "" {
		return "-"
	}
	for _, b := range w.byHsh {
		if b.b.ID() == id {
			return b.name
		}
	}
	return "?" + id
}

func (w *world) nameOfBP(id string) string {
	if id == "" {
		return "-"
	}
	if p, ok := w.byID[id]; ok {
		return p.name
	}
	return "?" + id
}

func (w *world) showBI(b dpos.VerifC08BI) string {
	return fmt.Sprintf("%s:%d:%d", w.nameOfID(b.Hash), b.No, b.Range)
}

func (w *world) showLS(d dpos.VerifC08Dump) string {
	var cs, ps []string
	for _, c := range d.Confirms {
		cs = append(cs, fmt.Sprintf("%s:%s:%d", w.showBI(c.VerifC08BI), w.nameOfBP(c.BP), c.Left))
	}
	for _, p := range d.Prpsd {
		if p.Nil {
			ps = append(ps, w.nameOfBP(p.BP)+"=nil")
			continue
		}
		ps = append(ps, fmt.Sprintf("%s=%s@%s", w.nameOfBP(p.BP), w.showBI(p.Plib), w.showBI(p.By)))
	}
	sort.Strings(ps)
	j := func(l []string) string {
		if len(l) == 0 {
			return "-"
		}
		return strings.Join(l, ",")
	}
	lib := "nil"
	if !d.LibNil {
		lib = w.showBI(d.Lib)
	}
	return fmt.Sprintf("L=%s lpb=%d cr=%d C=%s P=%s", lib, d.Lpb, d.CR, j(cs), j(ps))
}

func (w *world) showStatus(d dpos.VerifC08Dump) string {
	ld := 0
	if d.Loaded {
		ld = 1
	}
	return fmt.Sprintf("%s ld=%d best=%s", w.showLS(d), ld, w.nameOfID(d.Best))
}

// ---------------------------------------------------------------- the consensus object of the chain service

type event struct {
	kind string // verifyts needreorg update save
	blk  *sblk
	no   uint64
	ok   bool
	dump dpos.VerifC08Dump
}

type csCons struct {
	n  *node
	st *dpos.Status
	d  *dpos.DPoS
}

func (c *csCons) SetStateDB(sdb *state.ChainStateDB)   {}
func (c *csCons) IsTransactionValid(tx *types.Tx) bool { return true }
func (c *csCons) VerifySign(block *types.Block) error  { return c.d.VerifySign(block) }
func (c *csCons) IsBlockValid(block *types.Block, best *types.Block) error {
	return nil
}
func (c *csCons) VerifyTimestamp(block *types.Block) bool {
	ok := c.d.VerifyTimestamp(block)
	c.n.events = append(c.n.events, event{kind: "verifyts", blk: c.n.w.byHsh[string(block.BlockHash())], ok: ok})
	return ok
}
func (c *csCons) Update(block *types.Block) {
	c.d.Update(block)
	c.n.events = append(c.n.events, event{kind: "update", blk: c.n.w.byHsh[string(block.BlockHash())], dump: c.st.VerifC08Dump()})
}
func (c *csCons) Save(tx consensus.TxWriter) error {
	err := c.d.Save(tx)
	c.n.events = append(c.n.events, event{kind: "save", ok: err == nil})
	return err
}
func (c *csCons) NeedReorganization(rootNo types.BlockNo) bool {
	ok := c.d.NeedReorganization(rootNo)
	c.n.events = append(c.n.events, event{kind: "needreorg", no: rootNo, ok: ok})
	return ok
}
func (c *csCons) Info() string                     { return "" }
func (c *csCons) GetType() consensus.ConsensusType { return consensus.ConsensusSBP }
func (c *csCons) NeedNotify() bool                 { return true }
func (c *csCons) HasWAL() bool                     { return false }
func (c *csCons) IsForkEnable() bool               { return true }
func (c *csCons) IsConnectedBlock(block *types.Block) bool {
	_, err := c.n.cs.GetBlock(block.BlockHash())
	return err == nil
}
func (c *csCons) MakeConfChangeProposal(req *types.MembershipChange) (*consensus.ConfChangePropose, error) {
	return nil, consensus.ErrNotSupportedMethod
}

type sink struct {
	name string
	hub  *component.ComponentHub
}

func (r *sink) GetName() string                          { return r.name }
func (r *sink) Start()                                   {}
func (r *sink) Stop()                                    {}
func (r *sink) Status() component.Status                 { return component.StartedStatus }
func (r *sink) SetHub(hub *component.ComponentHub)       { r.hub = hub }
func (r *sink) Hub() *component.ComponentHub             { return r.hub }
func (r *sink) MsgQueueLen() int32                       { return 0 }
func (r *sink) Receive(actor.Context)                    {}
func (r *sink) Tell(m interface{})                       {}
func (r *sink) Request(m interface{}, sender *actor.PID) {}
func (r *sink) RequestFuture(m interface{}, timeout time.Duration, tip string) *actor.Future {
	f := actor.NewFuturePrefix("verif", timeout)
	f.PID().Tell(component.ErrHubUnregistered)
	return f
}

// ---------------------------------------------------------------- node

// ghost phase of the chain service's conversation with the Status (lean/Aergo/Lemmas/LibReorg.lean `Phase`)
type phase struct {
	kind string // synced pending reorg
	b    *sblk  // pending: the block Updated and not yet connected
	root *sblk  // reorg: the branch root
	pend []*sblk
}

type node struct {
	w        *world
	cs       *chain.ChainService
	cons     *csCons
	dir      string
	events   []event
	main     []*sblk // reference main chain (by number), maintained from the Save events and checked against the chain DB
	ph       phase
	known    map[*sblk]bool
	declared map[*sblk]bool
	vetoOK   map[uint64]bool // roots NeedReorganization allowed during the current arrival
	tsOK     map[*sblk]bool  // blocks VerifyTimestamp has accepted
	maxLib   *sblk
	maxLibNo uint64
	lastNo   uint64
	ops      []string
	taint    bool             // a LIB taken from a stale entry was reported (known class): later consequences on this node carry it
	updated  map[*sblk]bool   // every block the chain service ever passed to Status.Update
	failedRF map[*sblk]bool   // blocks rolled forward in a reorganisation whose roll-forward failed
	libClass map[*sblk]string // off-chain LIB block -> the class its adoption as LIB showed
}

func (b *sblk) isAncestorOf(x *sblk) bool {
	for x != nil && x.no > b.no {
		x = x.prev
	}
	return x == b
}

func (w *world) newNode(self int) *node {
	w.nnode++
	n := &node{w: w, dir: filepath.Join(w.root, fmt.Sprintf("n%d", w.nnode)), known: map[*sblk]bool{}, declared: map[*sblk]bool{},
		tsOK: map[*sblk]bool{}, updated: map[*sblk]bool{}, failedRF: map[*sblk]bool{}, libClass: map[*sblk]string{}}
	os.RemoveAll(n.dir)
	for _, sub := range []string{"chain", "state"} {
		copyFile(filepath.Join(w.tmpl, sub, "database"), filepath.Join(n.dir, sub, "database"))
	}
	cfg := config.NewServerContext("", "").GetDefaultConfig().(*config.Config)
	cfg.DbType = "memorydb"
	cfg.DataDir = n.dir
	cfg.Blockchain.NumWorkers = 1
	cfg.Blockchain.VerifierCount = 2
	n.cs = chain.NewChainService(cfg)
	// what dpos.New does at process start: node identity, producer cluster from the genesis block, NewStatus on the chain DB
	selfID := ""
	if self >= 0 {
		selfID = w.prods[self].id
	}
	p2pkey.VerifC08SetNodeSID(selfID)
	cm, err := bp.NewCluster(n.cs.CDB())
	if err != nil {
		panic(err)
	}
	dpos.Init(uint16(len(w.prods)))
	st := dpos.NewStatus(cm, n.cs.CDB(), n.cs.SDB(), 0)
	n.cons = &csCons{n: n, st: st, d: dpos.VerifC08NewDPoS(st, n.cs.CDB())}
	n.cs.SetChainConsensus(n.cons)
	hub := component.NewComponentHub()
	for _, nm := range []string{message.MemPoolSvc, message.RPCSvc, message.P2PSvc, message.SyncerSvc} {
		hub.Register(&sink{name: nm})
	}
	n.cs.SetHub(hub)
	chain.VerifC05SetSkipMempool(n.cs, true)
	gb, err := n.cs.GetBestBlock()
	if err != nil {
		panic(err)
	}
	if w.gblk == nil {
		w.gblk = &sblk{name: "g", b: gb, no: 0, bp: -1}
		w.byHsh[string(gb.BlockHash())] = w.gblk
	}
	n.main = []*sblk{w.gblk}
	n.known[w.gblk] = true
	n.declared[w.gblk] = true
	n.ph = phase{kind: "synced"}
	var names []string
	for _, p := range w.prods {
		names = append(names, p.name)
	}
	self_ := "-"
	if self >= 0 {
		self_ = w.prods[self].name
	}
	n.op(fmt.Sprintf("new %s %s", self_, strings.Join(names, ",")), w.showStatus(st.VerifC08Dump()))
	return n
}

func (n *node) close() {
	n.cs.BeforeStop()
	os.RemoveAll(n.dir)
}

func (n *node) op(line, out string) {
	n.ops = append(n.ops, line+" => "+out)
	n.w.run.Op(line, out, true)
}

func (n *node) declare(b *sblk) {
	if n.declared[b] {
		return
	}
	if b.prev != nil {
		n.declare(b.prev)
	}
	n.declared[b] = true
	n.op(fmt.Sprintf("blk %s %d %s %s %d", b.name, b.no, b.prev.name, n.w.prods[b.bp].name, b.confirms), "ok")
}

func (n *node) replay() interface{} {
	ops := n.ops
	if len(ops) > 400 {
		ops = ops[len(ops)-400:]
	}
	return map[string]interface{}{"ops": append([]string{}, ops...)}
}

func (n *node) tip() *sblk { return n.main[len(n.main)-1] }

func (n *node) onMain(b *sblk) bool { return b.no < uint64(len(n.main)) && n.main[b.no] == b }

func names(bs []*sblk) string {
	var s []string
	for _, b := range bs {
		s = append(s, b.name)
	}
	if len(s) == 0 {
		return "-"
	}
	return strings.Join(s, ",")
}

// shape: the ghost automaton. Returns "" or what is wrong with the call.
func (n *node) shape(e event) string {
	switch e.kind {
	case "verifyts":
		if e.ok && e.blk != nil {
			n.tsOK[e.blk] = true
		}
		n.w.run.Count(fmt.Sprintf("call VerifyTimestamp=%v", e.ok))
		return ""
	case "needreorg":
		if e.ok {
			n.vetoOK[e.no] = true
		}
		n.w.run.Count(fmt.Sprintf("call NeedReorganization=%v", e.ok))
		return ""
	case "update":
		b := e.blk
		if b == nil {
			return "Update with a block the harness never made"
		}
		n.updated[b] = true
		switch n.ph.kind {
		case "synced":
			switch {
			case b.prev == n.tip():
				if !n.tsOK[b] {
					return fmt.Sprintf("Update(%s) for a block VerifyTimestamp never accepted", b.name)
				}
				n.ph = phase{kind: "pending", b: b}
				n.w.run.Count("call Update: child of the tip")
			case b == n.tip():
				// failed execution of a main-chain block: the Status reloads itself as of the tip
				n.w.run.Count("call Update: the tip itself (failed execution)")
			case n.onMain(b):
				if !n.vetoOK[b.no] {
					return fmt.Sprintf("rollback Update(%s) without NeedReorganization(%d) = true before it", b.name, b.no)
				}
				n.ph = phase{kind: "reorg", root: b}
				n.w.run.Count("call Update: rollback to a branch root")
			default:
				return fmt.Sprintf("Update(%s): neither a child of the tip %s nor a block of the main chain", b.name, n.tip().name)
			}
		case "pending":
			return fmt.Sprintf("Update(%s) while %s is Updated and not yet connected", b.name, n.ph.b.name)
		case "reorg":
			top := n.ph.root
			if len(n.ph.pend) > 0 {
				top = n.ph.pend[len(n.ph.pend)-1]
			}
			switch {
			case b.prev == top:
				n.ph.pend = append(n.ph.pend, b)
				n.w.run.Count("call Update: roll-forward")
			case b == n.tip():
				// failed roll-forward: the Status is put back on the old best block (the number index was never swapped)
				for _, x := range n.ph.pend {
					n.failedRF[x] = true
				}
				n.ph = phase{kind: "synced"}
				n.w.run.Count("call Update: old tip restored (failed roll-forward)")
			default:
				return fmt.Sprintf("Update(%s) during the roll-forward from %s: neither the next block of the branch (on %s) nor the old tip %s",
					b.name, n.ph.root.name, top.name, n.tip().name)
			}
		}
		return ""
	case "save":
		switch n.ph.kind {
		case "pending":
			n.main = append(n.main, n.ph.b)
			n.ph = phase{kind: "synced"}
			n.w.run.Count("call Save: connectToChain")
		case "reorg":
			if len(n.ph.pend) == 0 || n.ph.pend[len(n.ph.pend)-1].no <= n.tip().no {
				return "swapChainMapping with a branch that is not longer than the main chain"
			}
			n.w.run.Count(fmt.Sprintf("call Save: swapChainMapping depth=%d", len(n.main)-1-int(n.ph.root.no)))
			n.main = append(append([]*sblk{}, n.main[:n.ph.root.no+1]...), n.ph.pend...)
			n.ph = phase{kind: "synced"}
		default:
			return "the status was saved (tip change) without an Update of the new tip before it"
		}
		return ""
	}
	return "unknown event"
}

// arrive: one block reaches the chain service.
func (n *node) arrive(b *sblk) string {
	w := n.w
	n.declare(b)
	n.events = nil
	n.vetoOK = map[uint64]bool{}
	err := chain.VerifC05AddBlock(n.cs, b.b, "peer")
	n.known[b] = true
	var re *chain.ErrReorg
	cls := "ok"
	switch {
	case err == nil:
	case errors.As(err, &re):
		cls = "reorg-err"
	default:
		cls = "err"
	}
	before := n.ph.kind
	for _, e := range n.events {
		// C: the call, replayed on the model
		switch e.kind {
		case "verifyts":
			if e.blk != nil {
				n.declare(e.blk)
				n.op("verifyts "+e.blk.name, fmt.Sprint(e.ok))
			}
		case "needreorg":
			n.op(fmt.Sprintf("needreorg %d", e.no), fmt.Sprint(e.ok))
		case "update":
			if e.blk != nil {
				n.declare(e.blk)
				n.op(fmt.Sprintf("update %s %s", e.blk.name, w.nameOfID(e.dump.Lib.Hash)), w.showStatus(e.dump))
			}
		}
		prev := n.ph
		if bad := n.shape(e); bad != "" {
			w.run.Count("shape-violation")
			w.run.Fail("the chain service's calls into the consensus left the sequences the finality theorems cover: "+bad, n.replay())
			n.ph = phase{kind: "synced"} // resynchronise the ghost with the chain DB
			n.resync()
			continue
		}
		if e.kind == "save" {
			switch prev.kind {
			case "pending":
				n.op("connect "+prev.b.name, "ok")
			case "reorg":
				var top []*sblk
				for i := len(prev.pend) - 1; i >= 0; i-- {
					top = append(top, prev.pend[i])
				}
				n.op("swap "+names(top), "ok")
			}
		}
	}
	if n.ph.kind != "synced" {
		w.run.Count("shape-violation")
		w.run.Fail(fmt.Sprintf("after the arrival of %s the chain service left the Status in phase %s (an Update without the tip change that belongs to it)", b.name, n.ph.kind), n.replay())
		n.ph = phase{kind: "synced"}
		n.resync()
	}
	w.run.Count(fmt.Sprintf("arrival=%s/%s", cls, before))
	n.check(b)
	return cls
}

// resync: after a shape violation take the main chain from the chain DB, so that later reports are about later calls.
func (n *node) resync() {
	var m []*sblk
	for no := uint64(0); ; no++ {
		blk, err := chain.VerifC05GetBlockByNo(n.cs, no)
		if err != nil || blk == nil {
			break
		}
		s := n.w.byHsh[string(blk.BlockHash())]
		if s == nil {
			break
		}
		m = append(m, s)
	}
	if len(m) > 0 {
		n.main = m
	}
}

// check: P — the node-local clauses on the real Status and the real chain DB.
func (n *node) check(arrived *sblk) {
	w := n.w
	// the chain DB's number index is what the Save events say
	best, err := n.cs.GetBestBlock()
	if err != nil || w.byHsh[string(best.BlockHash())] != n.tip() {
		w.run.Fail(fmt.Sprintf("after %s: the chain DB's best block is %s, the consensus calls say %s", arrived.name, w.nameOfID(best.ID()), n.tip().name), n.replay())
		n.resync()
	}
	for no := uint64(0); no < uint64(len(n.main)); no++ {
		blk, err := chain.VerifC05GetBlockByNo(n.cs, no)
		if err != nil || w.byHsh[string(blk.BlockHash())] != n.main[no] {
			w.run.Fail(fmt.Sprintf("after %s: the number index at %d differs from what the Save events say (%s)", arrived.name, no, n.main[no].name), n.replay())
			n.resync()
			break
		}
	}
	if n.tip().badAnc {
		w.run.Fail(fmt.Sprintf("block %s, whose claimed state root the execution does not reach (or a descendant of such a block), is on the main chain", n.tip().name), n.replay())
	}
	d := n.cons.st.VerifC08Dump()
	if !d.Loaded {
		return
	}
	lib := d.Lib
	if lib.No < n.lastNo {
		w.run.Fail(fmt.Sprintf("reported LIB number decreased from %d to %d (arrival of %s)", n.lastNo, lib.No, arrived.name), n.replay())
	}
	if lib.No > n.lastNo {
		w.run.Count("lib-advanced")
	}
	var lb *sblk
	if lib.No > 0 || lib.Hash != "" {
		for _, x := range w.byHsh {
			if x.b.ID() == lib.Hash {
				lb = x
			}
		}
		if lb == nil || !n.onMain(lb) {
			class := ""
			for _, p := range d.Prpsd {
				var by *sblk
				for _, x := range w.byHsh {
					if x.b.ID() == p.By.Hash {
						by = x
					}
				}
				if !p.Nil && p.Plib.Hash == lib.Hash && by != nil && !n.onMain(by) {
					if class == "" {
						class = classStaleEntry
					}
					if n.failedRF[by] {
						class = classFailedRF
					}
				}
			}
			if lb != nil && n.failedRF[lb] {
				class = classFailedRF
			}
			// the SAME off-chain LIB block reported again later (the entry it was taken from may have been overwritten meanwhile): the
			// class belongs to that block's adoption as LIB, not to the node
			if lb != nil {
				if class != "" {
					n.libClass[lb] = class
				} else {
					class = n.libClass[lb]
				}
			}
			w.run.Count("lib-off-chain class=" + class)
			w.run.FailKnown(fmt.Sprintf("reported LIB %s is not a block of the node's main chain (after %s; main chain has %s at %d)",
				w.showBI(lib), arrived.name, nameAt(n.main, lib.No), lib.No), class, n.replay())
		}
	}
	// quorum: a new LIB needs blocks of more than two thirds of the distinct producers at or above it. The property does not say
	// "on the main chain": blocks of a branch that was rolled forward and not adopted (failed roll-forward) did confirm it.
	if lb != nil && lib.No > 0 && lib.No > n.lastNo && n.onMain(lb) {
		seen := map[int]bool{}
		for x := range n.updated {
			if x.bp >= 0 && lb.isAncestorOf(x) {
				seen[x.bp] = true
			}
		}
		onMain := map[int]bool{}
		for i := lib.No; i < uint64(len(n.main)); i++ {
			onMain[n.main[i].bp] = true
		}
		q := len(w.prods)*2/3 + 1
		if len(seen) < q {
			class := ""
			for x := range n.updated {
				if x.bp >= 0 && lb.isAncestorOf(x) && x.confirms > w.honest(x.prev, x.bp) {
					class = classLyingConfirms
				}
			}
			w.run.Count("quorum-fail class=" + class)
			w.run.FailKnown(fmt.Sprintf("LIB advanced to %s with blocks of only %d distinct producers at or above it; %d needed", w.showBI(lib), len(seen), q), class, n.replay())
		}
		if len(onMain) < q {
			// counted: the confirmations came (partly) from a branch this node rolled forward and did NOT adopt
			w.run.Count("lib-advanced-by-blocks-of-a-branch-not-adopted")
		}
	}
	// never undone
	if lb != nil && lib.No > n.maxLibNo && n.onMain(lb) {
		n.maxLib, n.maxLibNo = lb, lib.No
	}
	if n.maxLib != nil && !n.onMain(n.maxLib) {
		// maxLib is only ever a block that was on the main chain when reported: its replacement has no known mechanism
		class := ""
		w.run.FailKnown(fmt.Sprintf("block %s (no %d), reported as LIB earlier while on the main chain, was replaced (now %s)", n.maxLib.name, n.maxLibNo,
			nameAt(n.main, n.maxLibNo)), class, n.replay())
	}
	n.lastNo = lib.No
}

func nameAt(main []*sblk, no uint64) string {
	if no >= uint64(len(main)) {
		return "nothing"
	}
	return main[no].name
}

// ---------------------------------------------------------------- sessions

// scripted: the paths the audit names, deterministically.
func scripted(e *env) {
	run := e.run
	w := e.world(4)
	n := w.newNode(0)
	defer n.close()
	// two honest rounds
	var chainB []*sblk
	tip := w.gblk
	for i := 0; i < 8; i++ {
		tip = w.mk(tip, i%4, w.honest(tip, i%4), false)
		chainB = append(chainB, tip)
		n.arrive(tip)
	}
	// failed execution on the main chain: Update(bestBlock)
	badMain := w.mk(tip, 0, w.honest(tip, 0), true)
	run.Count("scripted bad-main=" + n.arrive(badMain))
	// a side branch from b6 (above the LIB 4): longer, with a bad block in the middle: roll-forward fails, Status restored
	side := chainB[5]
	var br []*sblk
	for i := 0; i < 4; i++ {
		p := []int{1, 2, 1, 2}[i]
		side = w.mk(side, p, w.honest(side, p), i == 2)
		br = append(br, side)
	}
	for _, b := range br {
		run.Count("scripted failed-rollforward=" + n.arrive(b))
	}
	// the main chain goes on
	for i := 0; i < 4; i++ {
		tip = w.mk(tip, i%4, w.honest(tip, i%4), false)
		n.arrive(tip)
	}
	// a valid longer side branch from two below the tip: a real reorganisation
	side = tip.prev.prev
	for i := 0; i < 4; i++ {
		p := (i + 1) % 4
		side = w.mk(side, p, w.honest(side, p), false)
		run.Count("scripted reorg=" + n.arrive(side))
	}
	// orphans: grandchild, child, then the block itself
	a := w.mk(side, 0, w.honest(side, 0), false)
	b := w.mk(a, 1, w.honest(a, 1), false)
	c := w.mk(b, 2, w.honest(b, 2), false)
	for _, x := range []*sblk{c, b, a} {
		run.Count("scripted orphan=" + n.arrive(x))
	}
	// below the LIB: a block numbered <= LIB and a branch forking below it
	d := n.cons.st.VerifC08Dump()
	if d.Lib.No >= 2 {
		root := n.main[d.Lib.No-1]
		x := w.mk(root, 3, 1, false)
		run.Count("scripted le-lib=" + n.arrive(x))
		low := n.main[d.Lib.No-2]
		var fb []*sblk
		for i := uint64(0); i < uint64(len(n.main))-low.no+1; i++ {
			low = w.mk(low, int(i%4), 1, false)
			fb = append(fb, low)
		}
		for _, y := range fb {
			run.Count("scripted below-lib-branch=" + n.arrive(y))
		}
	}
}

// scriptedFailedBranch: the LIB moves during a roll-forward that is then cancelled. Two honest rounds b1..b8; this node (p0) is cut
// off and builds m9..m20 alone; p1 p2 p3 build c9..c20 (arrives as a side branch: not longer), then c21 whose claimed state root
// is wrong: the reorganisation to c21 rolls c9..c20 forward (the LIB advances on that branch), c21 fails, the Status is put back on
// m20 — with the LIB and the proposed entries it picked up on the branch it did NOT adopt. A valid c21' then arrives.
func scriptedFailedBranch(e *env) {
	run := e.run
	w := e.world(4)
	n := w.newNode(0)
	defer n.close()
	tip := w.gblk
	for i := 0; i < 8; i++ {
		tip = w.mk(tip, i%4, w.honest(tip, i%4), false)
		n.arrive(tip)
	}
	root := tip
	m := root
	for i := 0; i < 12; i++ {
		m = w.mk(m, 0, w.honest(m, 0), false)
		n.arrive(m)
	}
	c := root
	for i := 0; i < 12; i++ {
		p := 1 + i%3
		c = w.mk(c, p, w.honest(c, p), false)
		n.arrive(c)
	}
	c20 := c
	libBefore := n.cons.st.VerifC08Dump().Lib
	bad := w.mk(c20, 1+12%3, w.honest(c20, 1+12%3), true)
	run.Count("scripted failed-branch bad-top=" + n.arrive(bad))
	d := n.cons.st.VerifC08Dump()
	lb := w.byHsh[libKey(w, d.Lib.Hash)]
	run.Count(fmt.Sprintf("scripted failed-branch lib-before=%d lib-after=%s on-main=%v best=%s", libBefore.No, w.showBI(d.Lib), lb != nil && n.onMain(lb), n.tip().name))
	good := w.mk(c20, 2, w.honest(c20, 2), false)
	run.Count("scripted failed-branch valid-top=" + n.arrive(good))
	run.Count(fmt.Sprintf("scripted failed-branch final-best=%s (the valid branch top is %s)", n.tip().name, good.name))
}

func libKey(w *world, id string) string {
	for k, b := range w.byHsh {
		if b.b.ID() == id {
			return k
		}
	}
	return ""
}

type env struct {
	run   *vh.Run
	pool  []*producer
	nw    int
	world func(n int) *world
}

// random: a growing block tree, honest-looking Confirms, bad roots, arbitrary arrival order.
func random(e *env) {
	run := e.run
	rng := run.Rng
	for s := 0; s < run.Pick(25, 140); s++ {
		np := []int{4, 4, 4, 3, 5, 7, 1, 2}[rng.Intn(8)]
		w := e.world(np)
		self := -1
		if rng.Chance(2, 3) {
			self = rng.Intn(np)
		}
		n := w.newNode(self)
		run.Count(fmt.Sprintf("cs-session producers=%d", np))
		all := []*sblk{w.gblk}
		var held []*sblk // made but not yet delivered
		steps := 20 + rng.Intn(run.Pick(50, 90))
		for t := 0; t < steps && n.tip().no < 85; t++ {
			// where to build
			parent := n.tip()
			switch r := rng.Intn(20); {
			case r < 11:
			case r < 15: // near the tip
				for k := 1 + rng.Intn(4); k > 0 && parent.prev != nil; k-- {
					parent = parent.prev
				}
			case r < 18: // any known block
				parent = all[rng.Intn(len(all))]
			default: // around the LIB
				d := n.cons.st.VerifC08Dump()
				if no := int(d.Lib.No) - 1 + rng.Intn(3); no >= 0 && no < len(n.main) {
					parent = n.main[no]
				}
			}
			// a run of blocks on it
			k := 1
			if rng.Chance(1, 3) {
				k = 1 + rng.Intn(6)
			}
			var made []*sblk
			for i := 0; i < k; i++ {
				p := rng.Intn(np)
				c := w.honest(parent, p)
				if rng.Chance(1, 15) {
					c = uint64(1 + rng.Intn(np+2))
				}
				b := w.mk(parent, p, c, rng.Chance(1, 9))
				made = append(made, b)
				all = append(all, b)
				parent = b
			}
			if rng.Chance(1, 5) { // out of order: orphans
				for i, j := 0, len(made)-1; i < j; i, j = i+1, j-1 {
					made[i], made[j] = made[j], made[i]
				}
			}
			if rng.Chance(1, 6) {
				held = append(held, made...)
				continue
			}
			for _, b := range made {
				n.arrive(b)
			}
			if len(held) > 0 && rng.Chance(1, 3) {
				for _, b := range held {
					if !n.known[b] {
						n.arrive(b)
					}
				}
				held = nil
			}
		}
		n.close()
	}
}

func main() {
	zerolog.SetGlobalLevel(zerolog.Disabled)
	run := vh.Start("c08cs", "an operation is non-trivial when it is a consensus call the real chain service made (VerifyTimestamp, NeedReorganization, Update, tip change) on a node with at least one block")
	pool := newProducers(7)
	e := &env{run: run, pool: pool}
	e.world = func(n int) *world {
		e.nw++
		return newWorld(run, run.Rng.Fork(), pool, n, filepath.Join(run.Out, "cs", fmt.Sprint(e.nw)))
	}
	scripted(e)
	scriptedFailedBranch(e)
	random(e)
	os.RemoveAll(filepath.Join(run.Out, "cs"))
	run.Finish()
}
