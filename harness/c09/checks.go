package main

// The DPoS object's own entry points, as the chain service reaches them through consensus.ChainConsensus:
// DPoS.VerifyTimestamp (future clause at every block interval, LIB clause through a real libStatus),
// DPoS.VerifySign (the wrapper around types.Block.VerifySign: wrong, malformed, empty and absent signatures,
// bad and absent public keys, Ed25519 keys), DPoS.IsBlockValid (bad-public-key path, producer sets of every size up
// to 100 with real keys, one block object signed twice, duplicate ids, instants before the epoch).
// Oracles are c09lib's reference functions (own header serialisation, own slot arithmetic).

import (
	"fmt"
	"strings"
	"time"

	"github.com/aergoio/aergo/v2/consensus/impl/dpos"
	"github.com/aergoio/aergo/v2/consensus/impl/dpos/bp"
	"github.com/aergoio/aergo/v2/consensus/impl/dpos/slot"
	"github.com/aergoio/aergo/v2/internal/enc/proto"
	"github.com/aergoio/aergo/v2/p2p/p2pkey"
	"github.com/aergoio/aergo/v2/types"
	"github.com/aergoio/aergo/v2/zz_verif/c09lib"
	"github.com/aergoio/aergo/v2/zz_verif/vh"
	"github.com/libp2p/go-libp2p/core/crypto"
)

var intervalsSec = []int64{1, 2, 3, 5}

func idsOf(ps []producer) []string {
	var ids []string
	for _, p := range ps {
		ids = append(ids, p.ID)
	}
	return ids
}

func randHeader(rng *vh.Rng) *types.BlockHeader {
	h := &types.BlockHeader{ChainID: rng.Bytes(1 + rng.Intn(8)), PrevBlockHash: rng.Bytes(32), BlockNo: uint64(rng.Intn(1000000)),
		Timestamp: 1 + rng.Int63()>>uint(2+rng.Intn(30)), BlocksRootHash: rng.Bytes(32), TxsRootHash: rng.Bytes(32),
		ReceiptsRootHash: rng.Bytes(32), Confirms: uint64(rng.Intn(100))}
	if rng.Chance(1, 2) {
		h.CoinbaseAccount = rng.Bytes(33)
	}
	if rng.Chance(1, 2) {
		h.Consensus = rng.Bytes(1 + rng.Intn(40))
	}
	return h
}

// asValidator: the verdict of the consensus checks must not depend on WHO validates. Before a check the process gets the
// node identity (p2pkey, as InitNodeInfo sets it) of: nobody (never initialised), the very key the presented header names,
// or some other key of the pool.
func asValidator(run *vh.Run, byID map[string]producer, all []producer, named string) string {
	rng := run.Rng
	switch rng.Intn(3) {
	case 0:
		p2pkey.VerifC09SetNodeKey(nil)
		return "none"
	case 1:
		if p, ok := byID[named]; ok {
			p2pkey.VerifC09SetNodeKey(p.Priv)
			return "key-named-in-header"
		}
	}
	p := all[rng.Intn(len(all))]
	p2pkey.VerifC09SetNodeKey(p.Priv)
	if p.ID == named {
		return "key-named-in-header"
	}
	return "other-key"
}

func consensusChecks(run *vh.Run, pool []producer) {
	rng := run.Rng
	defer p2pkey.VerifC09SetNodeKey(nil)
	big := append([]producer{}, pool...)
	for len(big) < 104 {
		big = append(big, newProducer(rng))
	}
	var eds []producer
	for i := 0; i < 3; i++ {
		eds = append(eds, c09lib.NewEd25519Producer(rng))
	}
	byID := map[string]producer{}
	for _, p := range append(append([]producer{}, big...), eds...) {
		byID[p.ID] = p
	}
	c3, err := bp.VerifNewCluster(idsOf(pool[:3]))
	if err != nil {
		panic(err)
	}

	// ---- DPoS.VerifyTimestamp: every interval, slots around "two ahead" and the exact slot boundaries, far future/past,
	// with and without a finality status
	for i := 0; i < run.Pick(800, 8000); i++ {
		ivs := intervalsSec[rng.Intn(len(intervalsSec))]
		slot.Init(ivs)
		iv := slot.VerifIntervalMs()
		lib := int64(-1)
		if rng.Chance(1, 2) {
			lib = int64(rng.Intn(20))
		}
		no := uint64(rng.Intn(25))
		d := dpos.VerifNewDPoS(c3)
		if lib >= 0 {
			d = dpos.VerifC09NewDPoSLib(c3, uint64(lib))
		}
		before := time.Now().UnixNano()
		var ns int64
		kind := rng.Intn(8)
		switch kind {
		case 0, 1, 2:
			ns = before + int64(rng.Intn(9)-4)*iv*1000000 + int64(rng.Intn(int(iv)*1000000)) - iv*500000
		case 3, 4, 5:
			// the last millisecond that is not yet "two or more slots ahead", and the first that is
			edge := (c09lib.SlotOf(iv, before) + 1) * iv * 1000000
			ns = edge + []int64{0, 999999, 1000000, -1, 1999999, -1000000}[rng.Intn(6)]
		case 6:
			ns = before + int64(rng.Intn(2000000)-1000000)*iv*1000000
		default:
			ns = 1 + rng.Int63()>>uint(1+rng.Intn(40))
		}
		if ns <= 0 {
			ns = 1
		}
		blk := &types.Block{Header: &types.BlockHeader{BlockNo: no, Timestamp: ns}, Body: &types.BlockBody{}}
		ok := d.VerifyTimestamp(blk)
		after := time.Now().UnixNano()
		if c09lib.SlotOf(iv, before) != c09lib.SlotOf(iv, after) {
			run.Count("vts-skipped-clock-crossed-slot")
			continue
		}
		libTok := "-"
		if lib >= 0 {
			libTok = fmt.Sprint(lib)
		}
		run.Op(fmt.Sprintf("vts %d %d %d %s %d", iv, ns, before, libTok, no), fmt.Sprint(ok), true)
		ahead := c09lib.TooFarAhead(iv, ns, before)
		want := !ahead && (lib < 0 || int64(no) > lib)
		run.Count(fmt.Sprintf("vts interval=%ds future=%v finalClause=%v ok=%v", ivs, ahead, lib >= 0 && int64(no) <= lib, ok))
		if ok != want {
			run.Fail("DPoS.VerifyTimestamp differs from 'not two or more slots ahead of the local clock (and above the last irreversible block)'",
				map[string]interface{}{"intervalMs": iv, "ts": ns, "now": before, "lib": lib, "blockNo": no, "accepted": ok})
		}
	}
	// slot.IsFuture itself at every interval (the pre-existing loop in main.go ties interval 1 s only)
	for i := 0; i < run.Pick(300, 3000); i++ {
		ivs := intervalsSec[1+rng.Intn(len(intervalsSec)-1)]
		slot.Init(ivs)
		iv := slot.VerifIntervalMs()
		before := time.Now().UnixNano()
		ns := before + int64(rng.Intn(9)-4)*iv*1000000 + int64(rng.Intn(int(iv)*1000000)) - iv*500000
		fut := slot.NewFromUnixNano(ns).IsFuture()
		after := time.Now().UnixNano()
		if c09lib.SlotOf(iv, before) != c09lib.SlotOf(iv, after) {
			continue
		}
		run.Op(fmt.Sprintf("future %d %d %d", iv, ns, before), fmt.Sprint(fut), true)
		if fut != c09lib.TooFarAhead(iv, ns, before) {
			run.Fail("IsFuture disagrees with 'two or more slots ahead'", map[string]interface{}{"intervalMs": iv, "ns": ns, "now": before})
		}
	}

	// ---- DPoS.VerifySign
	d3 := dpos.VerifNewDPoS(c3)
	variants := []string{"good", "good", "other-header", "other-key", "nil-sig", "empty-sig", "truncated-sig", "garbage-sig", "flipped-sig",
		"nil-key", "garbage-key", "truncated-key", "ed25519-good", "ed25519-foreign-sig", "flipped-key"}
	for i := 0; i < run.Pick(600, 6000); i++ {
		v := variants[i%len(variants)]
		a := big[rng.Intn(len(big))]
		if strings.HasPrefix(v, "ed25519") {
			a = eds[rng.Intn(len(eds))]
		}
		h := randHeader(rng)
		blk := &types.Block{Header: h, Body: &types.BlockBody{}}
		if err := blk.Sign(a.Priv); err != nil {
			panic(err)
		}
		wantClass, wantKey := "", true
		switch v {
		case "good", "ed25519-good":
			wantClass = "good"
		case "other-header":
			// a genuine signature by the same key, over a header that differs in one signed field
			mutate(h, []string{"ChainID", "PrevBlockHash", "BlockNo", "Timestamp", "BlocksRootHash", "TxsRootHash", "ReceiptsRootHash",
				"Confirms", "CoinbaseAccount", "Consensus"}[rng.Intn(10)], rng)
			wantClass = "wrong"
		case "other-key":
			// a genuine signature by another producer under this producer's key
			b := big[rng.Intn(len(big))]
			for b.ID == a.ID {
				b = big[rng.Intn(len(big))]
			}
			sig, err := b.Priv.Sign(c09lib.SignedMessage(h))
			if err != nil {
				panic(err)
			}
			h.Sign = sig // b signed the very message (which names a's key): a's key must not accept it
			wantClass = "wrong"
		case "nil-sig":
			h.Sign = nil
		case "empty-sig":
			h.Sign = []byte{}
		case "truncated-sig":
			h.Sign = h.Sign[:rng.Intn(len(h.Sign))]
		case "garbage-sig":
			h.Sign = rng.Bytes(1 + rng.Intn(80))
		case "flipped-sig":
			h.Sign = flip(h.Sign, rng)
		case "nil-key":
			h.PubKey = nil
			wantKey = false
		case "garbage-key":
			h.PubKey = rng.Bytes(1 + rng.Intn(40))
			wantKey = false
		case "truncated-key":
			h.PubKey = h.PubKey[:rng.Intn(len(h.PubKey))]
			wantKey = false
		case "flipped-key":
			h.PubKey = flip(h.PubKey, rng)
		case "ed25519-foreign-sig":
			b := big[rng.Intn(len(big))]
			sig, _ := b.Priv.Sign(c09lib.SignedMessage(h))
			h.Sign = sig
		}
		j := c09lib.JudgeSig(h)
		if wantClass != "" && j.Class != wantClass {
			// the primitive itself misbehaves (or the harness builds the case wrongly): not a verdict about /repo
			run.Count("vsign-UNEXPECTED-class " + v + " judged " + j.Class)
		}
		if !wantKey && j.Key != "-" {
			run.Count("vsign-bad-key-still-unmarshals " + v)
		}
		rawValid, rawErr := blk.VerifySign()
		who := asValidator(run, byID, big, j.Key)
		verr := d3.VerifySign(blk)
		run.Op(fmt.Sprintf("vsign %s %s", j.Key, j.Class), fmt.Sprint(verr == nil), j.Key != "-")
		run.Count(fmt.Sprintf("vsign %s key=%v sig=%s raw=(%v,err=%v) accepted=%v", v, j.Key != "-", j.Class, rawValid, rawErr != nil, verr == nil))
		run.Count(fmt.Sprintf("validator-identity vsign %s sig=%s", who, j.Class))
		if (verr == nil) != j.OK() {
			run.Fail("DPoS.VerifySign differs from 'the signature verifies over the complete header with the key in the header'",
				map[string]interface{}{"variant": v, "keyParses": j.Key != "-", "signature": j.Class, "accepted": verr == nil,
					"validatorIdentity": who, "header": fmt.Sprintf("%+v", h)})
		}
	}

	// ---- DPoS.VerifySign is a function of the presented header, not of what was presented before: STATEFUL sequences on the one
	// DPoS object d3. A received block carries its identifier (Block.Hash, never recomputed from the header): copies that keep
	// the carried identifier of a block that verified, but differ in one signed field / the key / the signature, must get the
	// verdict of the COPY; likewise in the reverse order, and when an outsider's validly self-signed block came first under
	// the identifier a forged block then carries.
	present := func(what string, blk *types.Block) {
		j := c09lib.JudgeSig(blk.Header)
		who := asValidator(run, byID, big, j.Key)
		verr := d3.VerifySign(blk)
		run.Op(fmt.Sprintf("vsign %s %s", j.Key, j.Class), fmt.Sprint(verr == nil), j.Key != "-")
		run.Count(fmt.Sprintf("vsign-seq %s key=%v sig=%s accepted=%v", what, j.Key != "-", j.Class, verr == nil))
		run.Count(fmt.Sprintf("validator-identity vsign-seq %s sig=%s", who, j.Class))
		if (verr == nil) != j.OK() {
			run.Fail("DPoS.VerifySign differs from 'the signature verifies over the complete header with the key in the header' for a header presented under the carried identifier of another block",
				map[string]interface{}{"step": what, "keyParses": j.Key != "-", "signature": j.Class, "accepted": verr == nil, "validatorIdentity": who,
					"carriedHash": fmt.Sprintf("%x", blk.Hash), "header": fmt.Sprintf("%+v", blk.Header)})
		}
	}
	signedFields := []string{"ChainID", "PrevBlockHash", "BlockNo", "Timestamp", "BlocksRootHash", "TxsRootHash", "ReceiptsRootHash",
		"Confirms", "CoinbaseAccount", "Consensus"}
	copyOf := func(b *types.Block, how string) *types.Block {
		c := proto.Clone(b).(*types.Block) // keeps the carried Hash
		switch how {
		case "PubKey-other":
			o := big[rng.Intn(len(big))]
			pk, err := crypto.MarshalPublicKey(o.Priv.GetPublic())
			if err != nil {
				panic(err)
			}
			c.Header.PubKey = pk
		case "Sign-flip":
			c.Header.Sign = flip(c.Header.Sign, rng)
		case "Sign-garbage":
			c.Header.Sign = rng.Bytes(1 + rng.Intn(80))
		case "Sign-empty":
			c.Header.Sign = nil
		default:
			mutate(c.Header, how, rng)
		}
		return c
	}
	hows := append(append([]string{}, signedFields...), "PubKey", "PubKey-other", "Sign-flip", "Sign-garbage", "Sign-empty")
	for i := 0; i < run.Pick(40, 400); i++ {
		a := big[rng.Intn(len(big))]
		b := &types.Block{Header: randHeader(rng), Body: &types.BlockBody{}}
		if err := b.Sign(a.Priv); err != nil {
			panic(err)
		}
		b.BlockHash() // from now on the block carries its identifier
		switch i % 3 {
		case 0: // genuine first, then every kind of copy, then the genuine block again
			present("genuine", b)
			for _, how := range hows {
				present("copy-after-genuine "+how, copyOf(b, how))
			}
			present("genuine-again", b)
		case 1: // copies first, then the genuine block, then copies again
			for k := 0; k < 4; k++ {
				present("copy-before-genuine", copyOf(b, hows[rng.Intn(len(hows))]))
			}
			present("genuine-after-copies", b)
			for k := 0; k < 4; k++ {
				present("copy-after-genuine", copyOf(b, hows[rng.Intn(len(hows))]))
			}
		default: // an outsider's own, validly signed block under identifier h; then a block naming another producer's key under h
			h := rng.Bytes(32)
			b.Hash = h
			present("seed self-signed under h", b)
			victim := big[rng.Intn(len(big))]
			for victim.ID == a.ID {
				victim = big[rng.Intn(len(big))]
			}
			f := &types.Block{Header: randHeader(rng), Body: &types.BlockBody{}, Hash: h}
			pk, err := crypto.MarshalPublicKey(victim.Priv.GetPublic())
			if err != nil {
				panic(err)
			}
			f.Header.PubKey = pk
			switch rng.Intn(3) {
			case 0:
				f.Header.Sign = b.Header.Sign
			case 1:
				f.Header.Sign = rng.Bytes(70)
			default:
				f.Header.Sign, _ = a.Priv.Sign(c09lib.SignedMessage(f.Header)) // signed by the outsider, in the victim's name
			}
			present("forged in another producer's name under h", f)
		}
	}

	// ---- DPoS.IsBlockValid: every producer count, real keys, bad keys, Ed25519 members, duplicates, before the epoch
	var counts []int
	if run.Thorough() {
		for n := 1; n <= 100; n++ {
			counts = append(counts, n, n)
		}
	} else {
		counts = []int{1, 2, 3, 21, 22, 23, 31, 32, 33, 63, 64, 65, 99, 100}
		for i := 0; i < 12; i++ {
			counts = append(counts, 22+rng.Intn(79))
		}
	}
	for _, n := range counts {
		ivs := intervalsSec[rng.Intn(len(intervalsSec))]
		slot.Init(ivs)
		iv := slot.VerifIntervalMs()
		off := rng.Intn(len(big))
		var members []producer
		for j := 0; j < n; j++ {
			members = append(members, big[(off+j)%len(big)])
		}
		if n > 1 && rng.Chance(1, 4) {
			members[rng.Intn(n)] = eds[rng.Intn(len(eds))]
		}
		dup := false
		if n > 2 && rng.Chance(1, 8) {
			members[n-1] = members[rng.Intn(n-1)]
			dup = true
		}
		ids := idsOf(members)
		c, err := bp.VerifNewCluster(ids)
		if err != nil {
			panic(err)
		}
		d := dpos.VerifNewDPoS(c)
		if int(c.Size()) != n {
			run.Fail("Cluster.Size differs from the length of the producer list", map[string]interface{}{"n": n, "size": c.Size()})
		}
		reuse := &types.Block{Header: &types.BlockHeader{}, Body: &types.BlockBody{}}
		for k := 0; k < run.Pick(12, 40); k++ {
			round := int64(rng.Intn(1000000))
			own := rng.Intn(n)
			ms := (round*int64(n)+int64(own))*iv + int64(rng.Intn(int(iv))) + 1
			ts := ms*1000000 + int64(rng.Intn(1000000))
			pre := rng.Chance(1, 12)
			if pre {
				ts = -int64(rng.Intn(int(3*iv))) * 1000000 // before the epoch, incl. the double-wide slot 0
			}
			var signer producer
			kind := rng.Intn(6)
			switch kind {
			case 0, 1:
				if pre {
					signer = members[0]
				} else {
					signer = members[int(c09lib.SlotOf(iv, ts)%int64(n))]
				}
			case 2:
				signer = members[rng.Intn(n)]
			case 3:
				signer = big[rng.Intn(len(big))]
			default:
				signer = members[rng.Intn(n)]
			}
			blk := &types.Block{Header: &types.BlockHeader{ChainID: []byte("c"), BlockNo: uint64(round), Timestamp: ts}, Body: &types.BlockBody{}}
			if rng.Chance(1, 3) {
				// one long-lived block object, signed again and again: the verdict must follow the key now in the header
				blk = reuse
				blk.Header.Timestamp = ts
				blk.Header.BlockNo = uint64(round)
				blk.Hash = nil
			}
			if err := blk.Sign(signer.Priv); err != nil {
				panic(err)
			}
			what := "key"
			switch kind {
			case 4:
				blk.Header.PubKey = nil
				what = "nil-key"
			case 5:
				if rng.Chance(1, 2) {
					blk.Header.PubKey = rng.Bytes(1 + rng.Intn(40))
					what = "garbage-key"
				} else {
					blk.Header.PubKey = blk.Header.PubKey[:rng.Intn(len(blk.Header.PubKey))]
					what = "truncated-key"
				}
			}
			j := c09lib.JudgeSig(blk.Header)
			who := asValidator(run, byID, members, j.Key)
			ok := d.IsBlockValid(blk, nil) == nil
			run.Count("validator-identity validk " + who)
			run.Op(fmt.Sprintf("validk %d %d %s %s", iv, ts, j.Key, strings.Join(ids, " ")), fmt.Sprint(ok), true)
			run.Count(fmt.Sprintf("validk n=%s %s dup=%v pre-epoch=%v valid=%v", bucket(n), what, dup, pre, ok))
			if dup || pre {
				continue // the property does not say who owns what here; correspondence only
			}
			if ok != c09lib.Entitled(iv, ts, ids, j.Key) {
				run.Fail("IsBlockValid verdict differs from 'the key in the header belongs to the member whose index owns the slot'",
					map[string]interface{}{"intervalMs": iv, "ts": ts, "key": j.Key, "ids": ids, "accepted": ok, "case": what})
			}
		}
	}

	// ---- probe (counted, no verdict): the signed message concatenates PubKey and CoinbaseAccount without lengths; moving
	// bytes across that boundary keeps message and block id (notes/C19.md: whole-record injectivity is not claimed)
	for i := 0; i < run.Pick(20, 200); i++ {
		a := big[rng.Intn(len(big))]
		h := randHeader(rng)
		h.CoinbaseAccount = rng.Bytes(33)
		blk := &types.Block{Header: h, Body: &types.BlockBody{}}
		if err := blk.Sign(a.Priv); err != nil {
			panic(err)
		}
		k := 1 + rng.Intn(6)
		h.PubKey = append(append([]byte{}, h.PubKey...), h.CoinbaseAccount[:k]...)
		h.CoinbaseAccount = h.CoinbaseAccount[k:]
		run.Count(fmt.Sprintf("probe boundary-shift PubKey<-Coinbase accepted=%v", d3.VerifySign(blk) == nil))
	}
}

func bucket(n int) string {
	switch {
	case n <= 21:
		return "1..21"
	case n <= 64:
		return "22..64"
	}
	return "65..100"
}
