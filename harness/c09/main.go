// Harness c09: real slot arithmetic, DPoS.IsBlockValid and Block.VerifySign against the model.
package main

import (
	"bytes"
	"fmt"
	"strings"
	"time"

	"github.com/rs/zerolog"

	"github.com/aergoio/aergo/v2/consensus/impl/dpos"
	"github.com/aergoio/aergo/v2/consensus/impl/dpos/bp"
	"github.com/aergoio/aergo/v2/consensus/impl/dpos/slot"
	"github.com/aergoio/aergo/v2/types"
	"github.com/aergoio/aergo/v2/zz_verif/c09lib"
	"github.com/aergoio/aergo/v2/zz_verif/vh"
)

type producer = c09lib.Producer

func newProducer(r *vh.Rng) producer { return c09lib.NewProducer(r) }

func main() {
	zerolog.SetGlobalLevel(zerolog.Disabled)
	run := vh.Start("c09", "slot: every ms within ±3 slots of sampled round boundaries × producer counts × intervals, plus random int64 instants; "+
		"valid: signed blocks by members/non-members at slot-boundary timestamps; hdrmut: every header field mutated. "+
		"non-trivial = instant after the epoch (non-negative slot index); distinct by (op, answer)")
	defer run.Finish()
	rng := run.Rng

	intervals := []int64{1, 2, 3, 5}
	var counts []int64
	if run.Thorough() {
		for n := int64(1); n <= 100; n++ {
			counts = append(counts, n)
		}
	} else {
		counts = []int64{1, 2, 3, 4, 7, 21, 23, 64, 99, 100}
	}
	nb := run.Pick(6, 50)
	for _, ivs := range intervals {
		slot.Init(ivs)
		iv := slot.VerifIntervalMs()
		for _, n := range counts {
			for b := 0; b < nb; b++ {
				// a round boundary: slot index multiple of n, somewhere in a realistic range
				round := int64(rng.Intn(2000000000)) / n
				if b == 0 {
					round = 0
				}
				base := round * n * iv
				// coarse sweep over ±3 slots, every ms in a window around each of the 7 slot boundaries
				step := iv / 4
				win := int64(2)
				if run.Thorough() {
					step = iv / 16
					win = 40
				}
				check := func(ms int64) {
					ns := ms*1000000 + int64(rng.Intn(1000000))
					s := slot.NewFromUnixNano(ns)
					m, p, nx := s.VerifFields()
					owner := s.NextBpIndex(uint16(n))
					run.Op(fmt.Sprintf("slot %d %d %d", iv, ns, n), fmt.Sprintf("%d %d %d %d", m, p, nx, owner), ns >= 0)
					// oracle: exactly one index in [0,n) is entitled (instants after the epoch)
					if nx >= 0 {
						cnt := 0
						for i := int64(0); i < n; i++ {
							if s.IsFor(bp.Index(i), uint16(n)) {
								cnt++
							}
						}
						if cnt != 1 {
							run.Fail(fmt.Sprintf("%d producer indexes entitled to one instant", cnt),
								map[string]interface{}{"intervalMs": iv, "ns": ns, "bpCount": n})
						}
						// oracle: the slot (iv*(next-1), iv*next] contains ms
						if !(iv*(nx-1) < m && m <= iv*nx) && m > 0 {
							run.Fail("instant outside its slot", map[string]interface{}{"intervalMs": iv, "ns": ns, "next": nx})
						}
					}
				}
				for ms := base - 3*iv; ms <= base+3*iv; ms += step {
					check(ms)
				}
				for k := int64(-3); k <= 3; k++ {
					for d := -win; d <= win; d++ {
						check(base + k*iv + d)
					}
				}
			}
			run.Count(fmt.Sprintf("interval=%ds", ivs))
		}
	}
	// random instants over the whole int64 range (incl. negative: before the epoch)
	for i := 0; i < run.Pick(20000, 400000); i++ {
		ivs := intervals[rng.Intn(len(intervals))]
		slot.Init(ivs)
		iv := slot.VerifIntervalMs()
		n := int64(1 + rng.Intn(100))
		ns := int64(rng.Next() >> uint(rng.Intn(40)))
		if rng.Chance(1, 4) {
			ns = -ns
		}
		// keep ms+interval inside int64 (the code adds them): |ns| < 2^62
		if ns > 1<<62 || ns < -(1<<62) {
			ns >>= 2
		}
		s := slot.NewFromUnixNano(ns)
		m, p, nx := s.VerifFields()
		run.Op(fmt.Sprintf("slot %d %d %d", iv, ns, n), fmt.Sprintf("%d %d %d %d", m, p, nx, s.NextBpIndex(uint16(n))), ns >= 0)
		run.Count("random-instant")
	}

	// IsFuture against the wall clock: only recorded when the clock stayed inside one slot
	slot.Init(1)
	iv := slot.VerifIntervalMs()
	for i := 0; i < run.Pick(400, 4000); i++ {
		before := time.Now().UnixNano()
		k := int64(rng.Intn(9) - 4)
		ns := before + k*iv*1000000 + int64(rng.Intn(int(iv)*1000000)) - iv*500000
		fut := slot.NewFromUnixNano(ns).IsFuture()
		after := time.Now().UnixNano()
		_, _, n1 := slot.NewFromUnixNano(before).VerifFields()
		_, _, n2 := slot.NewFromUnixNano(after).VerifFields()
		if n1 != n2 {
			run.Count("future-skipped-clock-crossed-slot")
			continue
		}
		run.Op(fmt.Sprintf("future %d %d %d", iv, ns, before), fmt.Sprint(fut), true)
		_, _, nx := slot.NewFromUnixNano(ns).VerifFields()
		if fut != (nx >= n1+2) {
			run.Fail("IsFuture disagrees with 'two or more slots ahead'", map[string]interface{}{"ns": ns, "now": before})
		}
		run.Count(fmt.Sprintf("future=%v", fut))
	}

	// IsBlockValid with real keys
	var pool []producer
	for i := 0; i < 24; i++ {
		pool = append(pool, newProducer(rng))
	}
	for i := 0; i < run.Pick(300, 5000); i++ {
		ivs := intervals[rng.Intn(len(intervals))]
		slot.Init(ivs)
		iv := slot.VerifIntervalMs()
		n := 1 + rng.Intn(21)
		perm := rng.Intn(len(pool))
		var ids []string
		for j := 0; j < n; j++ {
			ids = append(ids, pool[(perm+j)%len(pool)].ID)
		}
		c, err := bp.VerifNewCluster(ids)
		if err != nil {
			panic(err)
		}
		d := dpos.VerifNewDPoS(c)
		// signer: usually the owner, sometimes another member, sometimes an outsider
		round := int64(rng.Intn(1000000))
		ms := (round*int64(n)+int64(rng.Intn(n)))*iv + int64(rng.Intn(int(iv))) + 1
		ts := ms*1000000 + int64(rng.Intn(1000000))
		s := slot.NewFromUnixNano(ts)
		own := int(s.NextBpIndex(uint16(n)))
		var signer producer
		kind := rng.Intn(4)
		switch kind {
		case 0, 1:
			signer = pool[(perm+own)%len(pool)]
		case 2:
			signer = pool[(perm+rng.Intn(n))%len(pool)]
		default:
			signer = pool[(perm+n+rng.Intn(len(pool)-n+1))%len(pool)]
		}
		blk := &types.Block{Header: &types.BlockHeader{ChainID: []byte("c"), BlockNo: uint64(round), Timestamp: ts}, Body: &types.BlockBody{}}
		if err := blk.Sign(signer.Priv); err != nil {
			panic(err)
		}
		ok := d.IsBlockValid(blk, nil) == nil
		run.Op(fmt.Sprintf("valid %d %d %s %s", iv, ts, signer.ID, strings.Join(ids, " ")), fmt.Sprint(ok), true)
		run.Count(fmt.Sprintf("valid=%v", ok))
		// oracle: accepted => member and its list position owns the slot
		pos := -1
		for j, id := range ids {
			if id == signer.ID {
				pos = j
			}
		}
		if ok != (pos >= 0 && pos == own) {
			run.Fail("IsBlockValid verdict differs from 'member whose index owns the slot'",
				map[string]interface{}{"intervalMs": iv, "ts": ts, "signer": signer.ID, "ids": ids, "accepted": ok})
		}
		// oracle: no second producer is also accepted for this instant
		if ok {
			for j := 0; j < n; j++ {
				if j == pos {
					continue
				}
				b2 := &types.Block{Header: &types.BlockHeader{ChainID: []byte("c"), BlockNo: uint64(round), Timestamp: ts}, Body: &types.BlockBody{}}
				b2.Sign(pool[(perm+j)%len(pool)].Priv)
				if d.IsBlockValid(b2, nil) == nil {
					run.Fail("two producers entitled to the same instant", map[string]interface{}{"intervalMs": iv, "ts": ts, "ids": ids, "a": pos, "b": j})
				}
			}
		}
	}

	// producer-set changes on ONE long-lived cluster object (elections): members dropped, added, reordered;
	// blocks signed by current members, by members of the PREVIOUS set that were voted out, and by outsiders
	for sess := 0; sess < run.Pick(30, 400); sess++ {
		ivs := intervals[rng.Intn(len(intervals))]
		slot.Init(ivs)
		iv := slot.VerifIntervalMs()
		n := 2 + rng.Intn(8)
		cur := rng.Intn(len(pool))
		var ids []string
		var members []producer
		for j := 0; j < n; j++ {
			members = append(members, pool[(cur+j)%len(pool)])
			ids = append(ids, members[j].ID)
		}
		c, err := bp.VerifNewCluster(ids)
		if err != nil {
			panic(err)
		}
		d := dpos.VerifNewDPoS(c)
		for round := 0; round < 4; round++ {
			prev := members
			// next set: drop some, add some, sometimes rotate the order
			var next []producer
			for _, m := range members {
				if !rng.Chance(1, 3) {
					next = append(next, m)
				}
			}
			for len(next) < 2 || rng.Chance(1, 3) {
				cand := pool[rng.Intn(len(pool))]
				dup := false
				for _, m := range next {
					dup = dup || m.ID == cand.ID
				}
				if !dup {
					next = append(next, cand)
				}
			}
			if rng.Chance(1, 3) {
				next = append(next[1:], next[0])
			}
			members = next
			ids = ids[:0]
			for _, m := range members {
				ids = append(ids, m.ID)
			}
			if err := c.Update(ids); err != nil {
				panic(err)
			}
			run.Count("election")
			n = len(members)
			for k := 0; k < 6; k++ {
				roundNo := int64(rng.Intn(1000000))
				own := rng.Intn(n)
				ms := (roundNo*int64(n)+int64(own))*iv + int64(rng.Intn(int(iv))) + 1
				ts := ms*1000000 + int64(rng.Intn(1000000))
				sl := slot.NewFromUnixNano(ts)
				own = int(sl.NextBpIndex(uint16(n)))
				var signer producer
				kind := "owner"
				switch rng.Intn(3) {
				case 0:
					signer = members[own]
				case 1:
					// a member of the previous set, preferably one that was voted out
					signer = prev[rng.Intn(len(prev))]
					kind = "previous-set"
					// pick the slot its OLD index owned
					for pi, pm := range prev {
						if pm.ID == signer.ID {
							ms = (roundNo*int64(n)+int64(pi%n))*iv + 1
							ts = ms * 1000000
							sl = slot.NewFromUnixNano(ts)
							own = int(sl.NextBpIndex(uint16(n)))
						}
					}
				default:
					signer = pool[rng.Intn(len(pool))]
					kind = "any"
				}
				blk := &types.Block{Header: &types.BlockHeader{ChainID: []byte("c"), BlockNo: uint64(roundNo), Timestamp: ts}, Body: &types.BlockBody{}}
				if err := blk.Sign(signer.Priv); err != nil {
					panic(err)
				}
				ok := d.IsBlockValid(blk, nil) == nil
				run.Op(fmt.Sprintf("valid %d %d %s %s", iv, ts, signer.ID, strings.Join(ids, " ")), fmt.Sprint(ok), true)
				pos := -1
				for j, id := range ids {
					if id == signer.ID {
						pos = j
					}
				}
				run.Count(fmt.Sprintf("after-election signer=%s member=%v valid=%v", kind, pos >= 0, ok))
				if ok != (pos >= 0 && pos == own) {
					run.Fail("after a producer-set change IsBlockValid differs from 'current member whose index owns the slot'",
						map[string]interface{}{"intervalMs": iv, "ts": ts, "signer": signer.ID, "currentIds": append([]string{}, ids...), "accepted": ok, "signerKind": kind})
				}
			}
		}
	}

	// the DPoS object's own entry points (VerifySign, VerifyTimestamp, IsBlockValid incl. its error path): checks.go
	consensusChecks(run, pool)
	// which producer list is current: the real Status.Update / bp.Snapshots over long chains: snap.go
	snapSessions(run, pool)

	// header mutations: hash must change, signature must stop verifying
	fields := []string{"ChainID", "PrevBlockHash", "BlockNo", "Timestamp", "BlocksRootHash", "TxsRootHash", "ReceiptsRootHash",
		"Confirms", "PubKey", "CoinbaseAccount", "Sign", "Consensus"}
	for i := 0; i < run.Pick(40, 400); i++ {
		signer := pool[rng.Intn(len(pool))]
		mk := func() *types.Block {
			return &types.Block{Header: &types.BlockHeader{ChainID: []byte{1, 2, 3, 4, 5}, PrevBlockHash: bytes.Repeat([]byte{7}, 32),
				BlockNo: 77, Timestamp: 123456789, BlocksRootHash: bytes.Repeat([]byte{8}, 32), TxsRootHash: bytes.Repeat([]byte{9}, 32),
				ReceiptsRootHash: bytes.Repeat([]byte{10}, 32), Confirms: 3, CoinbaseAccount: bytes.Repeat([]byte{11}, 33),
				Consensus: []byte{12, 13}}, Body: &types.BlockBody{}}
		}
		for _, f := range fields {
			b := mk()
			if err := b.Sign(signer.Priv); err != nil {
				panic(err)
			}
			okBefore, _ := b.VerifySign()
			h0 := append([]byte{}, b.BlockHash()...)
			mutate(b.Header, f, rng)
			b.Hash = nil
			h1 := b.BlockHash()
			okAfter, _ := b.VerifySign()
			run.Op("hdrmut "+f, fmt.Sprintf("%v %v", !bytes.Equal(h0, h1), okAfter), true)
			if !okBefore {
				run.Fail("freshly signed block does not verify", map[string]interface{}{"field": f})
			}
			if bytes.Equal(h0, h1) {
				// C09 says nothing about block identifiers (C19/C18 do); compared with the model (regenerated hash field list) only
				run.Count("block identifier unchanged after mutating header field " + f)
			}
			if okAfter {
				run.Fail("signature still verifies after mutating header field "+f, map[string]interface{}{"field": f})
			}
		}
	}
}

func flip(b []byte, r *vh.Rng) []byte {
	if len(b) == 0 {
		return []byte{byte(1 + r.Intn(255))}
	}
	c := append([]byte{}, b...)
	switch r.Intn(3) {
	case 0:
		c[r.Intn(len(c))] ^= byte(1 << uint(r.Intn(8)))
	case 1:
		c = append(c, byte(r.Intn(256)))
	default:
		if len(c) > 1 {
			c = c[:len(c)-1]
		} else {
			c[0] ^= 0x40
		}
	}
	return c
}

func mutate(h *types.BlockHeader, f string, r *vh.Rng) {
	switch f {
	case "ChainID":
		h.ChainID = flip(h.ChainID, r)
	case "PrevBlockHash":
		h.PrevBlockHash = flip(h.PrevBlockHash, r)
	case "BlockNo":
		h.BlockNo ^= 1 << uint(r.Intn(64))
	case "Timestamp":
		h.Timestamp ^= 1 << uint(r.Intn(63))
	case "BlocksRootHash":
		h.BlocksRootHash = flip(h.BlocksRootHash, r)
	case "TxsRootHash":
		h.TxsRootHash = flip(h.TxsRootHash, r)
	case "ReceiptsRootHash":
		h.ReceiptsRootHash = flip(h.ReceiptsRootHash, r)
	case "Confirms":
		h.Confirms ^= 1 << uint(r.Intn(64))
	case "PubKey":
		h.PubKey = flip(h.PubKey, r)
	case "CoinbaseAccount":
		h.CoinbaseAccount = flip(h.CoinbaseAccount, r)
	case "Sign":
		h.Sign = flip(h.Sign, r)
	case "Consensus":
		h.Consensus = flip(h.Consensus, r)
	}
}
