package main

// "Current producer set": the real dpos.Status.Update (both branches: block connected / reorganisation) and, below it,
// bp.Snapshots.AddSnapshot / UpdateCluster / getCurrentCluster / loadClusterSnapshot / gc and bp.Cluster.Update, driven
// over chains of several election periods on a real state DB that holds the vote ranking (written through the real
// system.InitVoteResult, read back by the real system.GetRankers).
//
// Specification (independent of the code): after the node's best block is b, the producers entitled to sign are the
// genesis list while b is below three election periods, and otherwise the ranking in the state of block r(b) of the
// node's main chain, r(b) = the last election boundary that lies at least one full period below b.
//
// The op stream (sboot / sconn / sroll) carries the whole session for the Lean model `Producer.Snaps`; `validk` ops show
// IsBlockValid on the cluster the real code ended up with against the SPECIFIED list.

import (
	"errors"
	"fmt"
	"math/big"
	"path/filepath"
	"strings"

	"github.com/aergoio/aergo-lib/db"
	"github.com/aergoio/aergo/v2/consensus"
	"github.com/aergoio/aergo/v2/consensus/impl/dpos"
	"github.com/aergoio/aergo/v2/consensus/impl/dpos/bp"
	"github.com/aergoio/aergo/v2/consensus/impl/dpos/slot"
	"github.com/aergoio/aergo/v2/contract/system"
	"github.com/aergoio/aergo/v2/internal/enc/base58"
	"github.com/aergoio/aergo/v2/state"
	"github.com/aergoio/aergo/v2/state/statedb"
	"github.com/aergoio/aergo/v2/types"
	"github.com/aergoio/aergo/v2/zz_verif/c09lib"
	"github.com/aergoio/aergo/v2/zz_verif/vh"
)

const knownUndecodable = "C09-undecodable-ranking-entry-keeps-old-set"

const period = 100    // "New BPs are elected every 100 blocks" (bp.electionPeriod; tied through Aergo.Gen.Snap and the sref ops)
const bpCountParam = 12 // system parameter BPCOUNT of these sessions: rankings longer than this are cut

// refOf: the last election boundary at least one full period below b (0: the genesis list is in force).
func refOf(b uint64) uint64 {
	if b < 3*period {
		return 0
	}
	return (b - period) / period * period
}

type sblock struct {
	b    *types.Block
	rank []string // the complete ranking written into the state of this block, best first
}

type snapStore struct {
	main    []*sblock
	gen     *types.Genesis
	scratch db.DB
	failNo  map[uint64]bool // GetBlockByNo fails for these numbers (a damaged chain DB)
}

func (s *snapStore) best() *sblock                       { return s.main[len(s.main)-1] }
func (s *snapStore) GetBestBlock() (*types.Block, error) { return s.best().b, nil }
func (s *snapStore) GetBlockByNo(n types.BlockNo) (*types.Block, error) {
	if s.failNo[n] || n >= uint64(len(s.main)) {
		return nil, errors.New("verif: no such block")
	}
	return s.main[n].b, nil
}
func (s *snapStore) GetHashByNo(n types.BlockNo) ([]byte, error) {
	b, err := s.GetBlockByNo(n)
	if err != nil {
		return nil, err
	}
	return b.BlockHash(), nil
}
func (s *snapStore) GetBlock(h []byte) (*types.Block, error) {
	for i := len(s.main) - 1; i >= 0; i-- {
		if string(s.main[i].b.BlockHash()) == string(h) {
			return s.main[i].b, nil
		}
	}
	return nil, errors.New("verif: no such block")
}
func (s *snapStore) GetGenesisInfo() *types.Genesis { return s.gen }
func (s *snapStore) Get(key []byte) []byte          { return nil }
func (s *snapStore) NewTx() db.Transaction          { return s.scratch.NewTx() }

var _ consensus.ChainDB = (*snapStore)(nil)

type snapEnv struct {
	run     *vh.Run
	rng     *vh.Rng
	pool    []producer
	byID    map[string]producer
	sdb     *state.ChainStateDB
	scratch db.DB
	roots   map[string][]byte // ranking -> state root holding it
	bogus   []string          // base58 strings of 39 bytes that are not peer ids
}

// rootOf: a state whose system contract holds this ranking (amounts strictly decreasing, so the order is the list's).
func (e *snapEnv) rootOf(rank []string) []byte {
	key := strings.Join(rank, ",")
	if r, ok := e.roots[key]; ok {
		return r
	}
	st := e.sdb.OpenNewStateDB(nil)
	scs, err := statedb.GetSystemAccountState(st)
	if err != nil {
		panic(err)
	}
	votes := map[string]*big.Int{}
	for i, id := range rank {
		votes[id] = new(big.Int).Mul(big.NewInt(int64(len(rank)-i)), big.NewInt(1000000007))
	}
	if err := system.InitVoteResult(scs, votes); err != nil {
		panic(err)
	}
	if err := statedb.StageContractState(scs, st); err != nil {
		panic(err)
	}
	if err := st.Update(); err != nil {
		panic(err)
	}
	if err := st.Commit(); err != nil {
		panic(err)
	}
	r := append([]byte{}, st.GetRoot()...)
	e.roots[key] = r
	return r
}

// top: what an election reads from a ranking: its first BPCOUNT entries.
func top(rank []string) []string {
	if len(rank) > bpCountParam {
		return rank[:bpCountParam]
	}
	return rank
}

func tokList(l []string, bogus map[string]bool) string {
	if len(l) == 0 {
		return "-"
	}
	var t []string
	for _, x := range l {
		if bogus[x] {
			x = "!" + x
		}
		t = append(t, x)
	}
	return strings.Join(t, ",")
}

func snapSessions(run *vh.Run, pool []producer) {
	rng := run.Rng
	e := &snapEnv{run: run, rng: rng, pool: pool, byID: map[string]producer{}, roots: map[string][]byte{}}
	for _, p := range pool {
		e.byID[p.ID] = p
	}
	e.sdb = state.NewChainStateDB()
	if err := e.sdb.Init(string(db.MemoryImpl), filepath.Join(run.Out, "snap-sdb"), nil, false, nil); err != nil {
		panic(err)
	}
	defer e.sdb.Close()
	e.scratch = db.NewDB(db.MemoryImpl, filepath.Join(run.Out, "snap-scratch"))
	defer e.scratch.Close()
	if scs, err := statedb.GetSystemAccountState(e.sdb.GetStateDB()); err == nil {
		system.InitSystemParams(scs, bpCountParam)
	} else {
		panic(err)
	}
	if got := system.GetBpCount(); got != bpCountParam {
		panic(fmt.Sprintf("BPCOUNT is %d, wanted %d", got, bpCountParam))
	}
	for i := 0; i < 4; i++ {
		b := rng.Bytes(39)
		b[0], b[1] = 0xff, 0xff // not a multihash: types.IDB58Decode refuses it
		id := base58.Encode(b)
		if _, err := types.IDB58Decode(id); err == nil {
			panic("bogus id decodes")
		}
		e.bogus = append(e.bogus, id)
	}
	// the election arithmetic: the generated snapBlockNo against the real one and against the specification
	for _, b := range []uint64{0, 1, 99, 100, 101, 199, 200, 299, 300, 301, 399, 400, 401, 499, 500, 1000, 12345, 99999, 100000} {
		got := bp.VerifC09SnapBlockNo(b)
		run.Op(fmt.Sprintf("sref %d", b), fmt.Sprint(got), b >= 300)
		if got != refOf(b) {
			run.Fail("snapBlockNo differs from 'the last election boundary at least one full period below the block'",
				map[string]interface{}{"blockNo": b, "got": got, "want": refOf(b)})
		}
	}
	for i := 0; i < run.Pick(200, 5000); i++ {
		b := uint64(rng.Intn(2000))
		if rng.Chance(1, 4) {
			b = rng.Next() >> uint(rng.Intn(50)+2)
		}
		got := bp.VerifC09SnapBlockNo(b)
		run.Op(fmt.Sprintf("sref %d", b), fmt.Sprint(got), b >= 300)
		if got != refOf(b) {
			run.Fail("snapBlockNo differs from 'the last election boundary at least one full period below the block'",
				map[string]interface{}{"blockNo": b, "got": got, "want": refOf(b)})
		}
	}
	modes := []string{"rotation", "one-signer", "rotation+faults", "one-signer+faults", "rotation", "one-signer"}
	for s := 0; s < run.Pick(5, 48); s++ {
		e.session(s, modes[s%len(modes)])
	}
}

type snapSession struct {
	e       *snapEnv
	mode    string
	faults  bool
	iv      int64
	store   *snapStore
	c       *bp.Cluster
	st      *dpos.Status
	d       *dpos.DPoS
	gen     []string
	slotNo  int64
	hist    []string
	bogus   map[string]bool
	dbFault bool // the chain DB fails for the boundary block of the operation being observed (injected)
	tainted bool // an injected fault has made the real set differ from the specified one (expected; counted)
	failed  bool
}

func (e *snapEnv) session(idx int, mode string) {
	rng := e.rng
	ivs := intervalsSec[rng.Intn(len(intervalsSec))]
	consensusIntervalSet(ivs)
	s := &snapSession{e: e, mode: mode, faults: strings.HasSuffix(mode, "+faults"), bogus: map[string]bool{}}
	for _, b := range e.bogus {
		s.bogus[b] = true
	}
	n := 1 + rng.Intn(5)
	off := rng.Intn(len(e.pool))
	for j := 0; j < n; j++ {
		s.gen = append(s.gen, e.pool[(off+j)%len(e.pool)].ID)
	}
	g := &types.Genesis{ID: types.ChainID{Magic: "verif-c09", Consensus: "dpos", PublicNet: true}, Timestamp: 1, BPs: s.gen}
	gb := g.Block()
	gb.Header.BlocksRootHash = e.rootOf(s.gen)
	gb.Hash = nil
	s.store = &snapStore{gen: g, scratch: e.scratch, failNo: map[uint64]bool{}, main: []*sblock{{b: gb, rank: s.gen}}}
	dpos.Init(uint16(n))
	s.iv = slot.VerifIntervalMs()
	s.slotNo = 1600000000000 / s.iv // a realistic epoch offset
	if err := e.sdb.SetRoot(gb.Header.BlocksRootHash); err != nil {
		panic(err)
	}
	s.boot("-")
	height := e.run.Pick(320+rng.Intn(100), 420+rng.Intn(420))
	rank := s.gen
	for len(s.store.main)-1 < height && !s.failed {
		best := uint64(len(s.store.main) - 1)
		no := best + 1
		// the ranking changes now and then, always just before, at and after an election boundary
		m := no % period
		if m == 0 || m == 1 || m == period-1 || rng.Chance(1, 25) {
			rank = s.newRank(rank)
		}
		s.connect(no, rank)
		// events: reorganisations (more often around boundaries), restarts, a damaged chain DB
		near := m <= 2 || m >= period-2
		if (near && rng.Chance(1, 7)) || rng.Chance(1, 60) {
			s.rollback()
			rank = s.store.best().rank
		}
		if (near && rng.Chance(1, 12)) || rng.Chance(1, 150) {
			s.restart()
		}
	}
	e.run.Count(fmt.Sprintf("snap-session mode=%s height=%d tainted=%v", mode, len(s.store.main)-1, s.tainted))
}

func consensusIntervalSet(ivs int64) {
	consensus.BlockIntervalSec = ivs
	slot.Init(ivs)
}

// newRank: members dropped, added, reordered; in fault sessions sometimes an entry that is not a peer id.
func (s *snapSession) newRank(cur []string) []string {
	rng := s.e.rng
	var next []string
	for _, id := range cur {
		if !rng.Chance(1, 4) && !s.bogus[id] {
			next = append(next, id)
		}
	}
	for len(next) < 1 || (len(next) < 16 && rng.Chance(1, 2)) {
		cand := s.e.pool[rng.Intn(len(s.e.pool))].ID
		dup := false
		for _, x := range next {
			dup = dup || x == cand
		}
		if !dup {
			next = append(next, cand)
		}
	}
	if rng.Chance(1, 2) {
		i, j := rng.Intn(len(next)), rng.Intn(len(next))
		next[i], next[j] = next[j], next[i]
	}
	if s.faults && rng.Chance(1, 6) {
		i := rng.Intn(len(next) + 1)
		next = append(next[:i:i], append([]string{s.e.bogus[rng.Intn(len(s.e.bogus))]}, next[i:]...)...)
	}
	return next
}

// specified: the list the property says is entitled after best block b of the current chain.
func (s *snapSession) specified(b uint64) []string {
	r := refOf(b)
	if r == 0 {
		return s.gen
	}
	return top(s.store.main[r].rank)
}

// loadTok: what the chain DB + state DB hold for r(b): the model's `load` argument.
func (s *snapSession) loadTok(b uint64) string {
	r := refOf(b)
	if r == 0 {
		return "-"
	}
	if s.store.failNo[r] {
		return "!err"
	}
	return tokList(top(s.store.main[r].rank), s.bogus)
}

func (s *snapSession) observe(op string) {
	members := s.c.VerifC09Members()
	size := int(s.c.Size())
	ans := fmt.Sprintf("%d %s", size, tokList(members, s.bogus))
	if len(members) > 0 && members[0] == "" {
		ans = fmt.Sprintf("%d -", size) // no member indexed yet (before the first successful update)
	}
	s.e.run.Op(op, ans, true)
	s.hist = append(s.hist, op+" => "+ans)
	if len(s.hist) > 60 {
		s.hist = s.hist[len(s.hist)-60:]
	}
	best := uint64(len(s.store.main) - 1)
	want := s.specified(best)
	same := size == len(want) && strings.Join(members, ",") == strings.Join(want, ",")
	if same {
		if s.tainted {
			s.e.run.Count("snap: set back in line with the ranking after an injected fault")
		}
		s.tainted = false
		return
	}
	hasBogus := false
	for _, x := range want {
		hasBogus = hasBogus || s.bogus[x]
	}
	switch {
	case hasBogus:
		// KNOWN finding (known_findings.json): an elected entry that is no peer id makes Cluster.Update fail as a whole;
		// UpdateCluster logs "skip BP member update" and the OLD set stays entitled.
		if !s.tainted {
			s.e.run.FailKnown("the producer set in force is not the elected ranking: one ranking entry does not decode as a peer id, Cluster.Update failed and the old set stays entitled",
				knownUndecodable, map[string]interface{}{"mode": s.mode, "bestBlock": best, "boundary": refOf(best), "specified": want,
					"inForce": members, "size": size, "lastOps": s.hist})
		}
		s.tainted = true
		s.e.run.Count("snap: stale set kept after an undecodable ranking entry (known finding)")
		return
	case s.dbFault || s.tainted:
		// a damaged chain DB while the boundary block is read (injected): outside the property; counted only. Also every
		// observation until the set is back in line after either kind of fault.
		s.tainted = true
		s.e.run.Count("snap: stale set kept after an injected chain-DB read error (outside the property)")
		return
	}
	if !s.failed {
		s.failed = true
		s.e.run.Fail("the producer set in force differs from 'the ranking in the state of the last election boundary at least one period below the best block'",
			map[string]interface{}{"mode": s.mode, "bestBlock": best, "boundary": refOf(best), "specified": want, "inForce": members, "size": size,
				"genesis": s.gen, "lastOps": s.hist})
	}
}

func (s *snapSession) boot(load string) {
	c, err := bp.NewCluster(s.store)
	if err != nil {
		panic(err)
	}
	s.c = c
	s.st = dpos.NewStatus(c, s.store, s.e.sdb, 0)
	s.d = dpos.VerifC09NewDPoSStatus(c, s.st, s.store)
	best := uint64(len(s.store.main) - 1)
	s.observe(fmt.Sprintf("sboot %d %s %s", best, load, tokList(s.gen, s.bogus)))
}

func (s *snapSession) restart() {
	best := uint64(len(s.store.main) - 1)
	r := refOf(best)
	if s.faults && r > 0 && s.e.rng.Chance(1, 3) {
		s.store.failNo[r] = true
	}
	s.e.run.Count("snap-restart")
	s.dbFault = s.store.failNo[r]
	s.boot(s.loadTok(best))
	s.dbFault = false
	delete(s.store.failNo, r)
}

// signerFor: the next slot whose owner (by the SPECIFIED list) has a key, and that owner.
func (s *snapSession) nextBlockBy(no uint64, rank []string) *sblock {
	rng := s.e.rng
	parent := s.store.best()
	spec := s.specified(no - 1)
	var signer producer
	if strings.HasPrefix(s.mode, "one-signer") {
		signer = s.e.byID[s.gen[0]]
		s.slotNo++
	} else {
		for tries := 0; ; tries++ {
			s.slotNo++
			id := spec[s.slotNo%int64(len(spec))]
			if p, ok := s.e.byID[id]; ok && (tries > 40 || !rng.Chance(1, 10)) {
				signer = p
				break
			}
			if tries > 400 {
				signer = s.e.byID[s.gen[0]]
				break
			}
		}
	}
	ts := ((s.slotNo-1)*s.iv+1+int64(rng.Intn(int(s.iv))))*1000000 + int64(rng.Intn(1000000))
	b := types.NewBlock(&types.BlockHeaderInfo{No: no, Ts: ts, PrevBlockHash: parent.b.BlockHash(), ChainId: []byte("verif-c09")},
		s.e.rootOf(rank), nil, nil, nil, nil)
	if err := b.Sign(signer.Priv); err != nil {
		panic(err)
	}
	return &sblock{b: b, rank: rank}
}

func (s *snapSession) connect(no uint64, rank []string) {
	rng := s.e.rng
	nb := s.nextBlockBy(no, rank)
	spec := s.specified(no - 1)
	// the consensus checks on this block with the cluster the real code has in force, against the SPECIFIED list
	if !strings.HasPrefix(s.mode, "one-signer") || rng.Chance(1, 10) {
		j := c09lib.JudgeSig(nb.b.Header)
		ok := s.d.IsBlockValid(nb.b, s.store.best().b) == nil
		if !s.tainted {
			s.e.run.Op(fmt.Sprintf("validk %d %d %s %s", s.iv, nb.b.Header.Timestamp, j.Key, strings.Join(spec, " ")), fmt.Sprint(ok), true)
			if ok != c09lib.Entitled(s.iv, nb.b.Header.Timestamp, spec, j.Key) && !s.failed {
				s.failed = true
				s.e.run.Fail("IsBlockValid on the node's current cluster differs from 'member of the specified producer list whose index owns the slot'",
					map[string]interface{}{"mode": s.mode, "blockNo": no, "ts": nb.b.Header.Timestamp, "key": j.Key, "specified": spec,
						"inForce": s.c.VerifC09Members(), "accepted": ok, "lastOps": s.hist})
			}
		}
		s.e.run.Count(fmt.Sprintf("snap validk valid=%v", ok))
		// finality clause of VerifyTimestamp through the real Status (timestamps of these chains are long past)
		lib := s.st.VerifC09LibNo()
		tsOK := s.d.VerifyTimestamp(nb.b)
		if tsOK != (no > lib) && !s.failed {
			s.failed = true
			s.e.run.Fail("VerifyTimestamp on a past block differs from 'block number above the last irreversible block'",
				map[string]interface{}{"blockNo": no, "lib": lib, "accepted": tsOK})
		}
	}
	s.store.main = append(s.store.main, nb)
	if err := s.e.sdb.SetRoot(nb.b.Header.BlocksRootHash); err != nil {
		panic(err)
	}
	// a damaged chain DB while the election boundary block is read (only matters when the snapshot is not cached)
	r := refOf(no)
	if s.faults && no%period == 0 && r > 0 && rng.Chance(1, 4) {
		s.store.failNo[r] = true
	}
	s.st.Update(nb.b)
	if no%period == 0 {
		s.e.run.Count("snap-election-boundary")
	}
	s.dbFault = s.store.failNo[r]
	s.observe(fmt.Sprintf("sconn %d %s %s", no, tokList(top(rank), s.bogus), s.loadTok(no)))
	s.dbFault = false
	delete(s.store.failNo, r)
}

func (s *snapSession) rollback() {
	rng := s.e.rng
	best := uint64(len(s.store.main) - 1)
	lib := s.st.VerifC09LibNo()
	if best == 0 || lib >= best {
		return
	}
	depth := uint64(1 + rng.Intn(4))
	if rng.Chance(1, 4) {
		depth = uint64(1 + rng.Intn(260))
	}
	to := uint64(0)
	if best > depth {
		to = best - depth
	}
	if to < lib {
		to = lib // a reorganisation never goes below the last irreversible block (NeedReorganization)
	}
	if to >= best {
		return
	}
	s.store.main = s.store.main[:to+1]
	if err := s.e.sdb.SetRoot(s.store.best().b.Header.BlocksRootHash); err != nil {
		panic(err)
	}
	r := refOf(to)
	if s.faults && r > 0 && rng.Chance(1, 5) {
		s.store.failNo[r] = true
	}
	s.st.Update(s.store.best().b)
	crossed := best/period != to/period
	s.e.run.Count(fmt.Sprintf("snap-rollback crossed-boundary=%v depth=%s", crossed, depthBucket(best-to)))
	s.dbFault = s.store.failNo[r]
	s.observe(fmt.Sprintf("sroll %d %s", to, s.loadTok(to)))
	s.dbFault = false
	delete(s.store.failNo, r)
}

func depthBucket(d uint64) string {
	switch {
	case d <= 4:
		return "1..4"
	case d <= 100:
		return "5..100"
	}
	return ">100"
}
