// Harness c09chain: the acceptance half of property C09 on a real chain service. A real chain.ChainService (memorydb
// stores, recording hub) whose consensus delegates VerifyTimestamp, VerifySign and IsBlockValid to a REAL dpos.DPoS
// object over a real bp.Cluster (everything else of consensus.ChainConsensus is the minimum a node needs). Signed blocks
// are offered through the real ChainService.addBlock: children of the best block, side branches that become longer
// (reorganisation executes them), orphans that arrive before their parent. Each block is legitimate or carries one
// defect: a signature over another header, by another key, empty or absent signature or key, a signer who is a member
// but does not own the slot, an outsider, a timestamp two or more slots ahead of the local clock.
//
// Oracle (the property, computed by c09lib without the code under test): every block on the node's main chain, after
// every arrival, (1) carries a signature that verifies over its complete header with the key in the header, (2) that key
// belongs to the member of the producer list in force whose index owns the slot of the timestamp, (3) its timestamp was
// less than two slots ahead of the local clock when it arrived.
// Correspondence: `accept` ops for the Lean model `Producer.accept` (driver model-c09).
package main

import (
	"errors"
	"fmt"
	"os"
	"path/filepath"
	"strings"
	"time"

	"github.com/aergoio/aergo-actor/actor"
	"github.com/aergoio/aergo/v2/chain"
	"github.com/aergoio/aergo/v2/config"
	"github.com/aergoio/aergo/v2/consensus"
	"github.com/aergoio/aergo/v2/consensus/impl/dpos"
	"github.com/aergoio/aergo/v2/consensus/impl/dpos/bp"
	"github.com/aergoio/aergo/v2/consensus/impl/dpos/slot"
	"github.com/aergoio/aergo/v2/contract/system"
	"github.com/aergoio/aergo/v2/internal/enc/proto"
	"github.com/aergoio/aergo/v2/p2p/p2pkey"
	"github.com/aergoio/aergo/v2/pkg/component"
	"github.com/aergoio/aergo/v2/state"
	"github.com/aergoio/aergo/v2/types"
	"github.com/aergoio/aergo/v2/types/message"
	"github.com/aergoio/aergo/v2/zz_verif/c09lib"
	"github.com/aergoio/aergo/v2/zz_verif/vh"
	"github.com/rs/zerolog"
)

// ---------------------------------------------------------------- consensus: the three checks are the real DPoS object's

type dposCons struct {
	d     *dpos.DPoS
	cs    *chain.ChainService
	calls [3]int
}

func (s *dposCons) VerifyTimestamp(block *types.Block) bool {
	s.calls[0]++
	return s.d.VerifyTimestamp(block)
}
func (s *dposCons) VerifySign(block *types.Block) error {
	s.calls[1]++
	return s.d.VerifySign(block)
}
func (s *dposCons) IsBlockValid(block *types.Block, best *types.Block) error {
	s.calls[2]++
	return s.d.IsBlockValid(block, best)
}
func (s *dposCons) SetStateDB(sdb *state.ChainStateDB)                  {}
func (s *dposCons) IsTransactionValid(tx *types.Tx) bool                { return true }
func (s *dposCons) Update(block *types.Block)                           {}
func (s *dposCons) Save(tx consensus.TxWriter) error                    { return nil }
func (s *dposCons) NeedReorganization(rootNo types.BlockNo) bool        { return true }
func (s *dposCons) Info() string                                        { return "" }
func (s *dposCons) GetType() consensus.ConsensusType                    { return consensus.ConsensusDPOS }
func (s *dposCons) NeedNotify() bool                                    { return true }
func (s *dposCons) HasWAL() bool                                        { return false }
func (s *dposCons) IsForkEnable() bool                                  { return true }
func (s *dposCons) IsConnectedBlock(block *types.Block) bool {
	_, err := s.cs.GetBlock(block.BlockHash())
	return err == nil
}
func (s *dposCons) MakeConfChangeProposal(req *types.MembershipChange) (*consensus.ConfChangePropose, error) {
	return nil, consensus.ErrNotSupportedMethod
}

type recorder struct {
	name string
	hub  *component.ComponentHub
}

func (r *recorder) GetName() string                          { return r.name }
func (r *recorder) Start()                                   {}
func (r *recorder) Stop()                                    {}
func (r *recorder) Status() component.Status                 { return component.StartedStatus }
func (r *recorder) SetHub(hub *component.ComponentHub)       { r.hub = hub }
func (r *recorder) Hub() *component.ComponentHub             { return r.hub }
func (r *recorder) MsgQueueLen() int32                       { return 0 }
func (r *recorder) Receive(actor.Context)                    {}
func (r *recorder) Tell(m interface{})                       {}
func (r *recorder) Request(m interface{}, sender *actor.PID) {}
func (r *recorder) RequestFuture(m interface{}, timeout time.Duration, tip string) *actor.Future {
	f := actor.NewFuturePrefix("verif", timeout)
	f.PID().Tell(component.ErrHubUnregistered)
	return f
}

// ---------------------------------------------------------------- world, node

type world struct {
	root  string
	tmpl  string
	nnode int
	pool  []c09lib.Producer
	byID  map[string]c09lib.Producer
	core  *chain.Core // the block builder's stores
	gen   *types.Block
}

func copyFile(src, dst string) {
	b, err := os.ReadFile(src)
	if err != nil {
		panic(err)
	}
	os.MkdirAll(filepath.Dir(dst), 0o755)
	if err := os.WriteFile(dst, b, 0o644); err != nil {
		panic(err)
	}
}

func (w *world) initDir(dir string) {
	os.RemoveAll(dir)
	for _, sub := range []string{"chain", "state"} {
		copyFile(filepath.Join(w.tmpl, sub, "database"), filepath.Join(dir, sub, "database"))
	}
}

func newWorld(root string, pool []c09lib.Producer) *world {
	w := &world{root: root, pool: pool, byID: map[string]c09lib.Producer{}}
	for _, p := range pool {
		w.byID[p.ID] = p
	}
	os.RemoveAll(root)
	os.MkdirAll(root, 0o755)
	w.tmpl = filepath.Join(root, "tmpl")
	core, err := chain.NewCore("memorydb", w.tmpl, false, 0, &config.DBConfig{})
	if err != nil {
		panic(err)
	}
	g := &types.Genesis{
		ID:        types.ChainID{Version: 0, Magic: "c09.verif", PublicNet: false, MainNet: false, Consensus: "sbp"},
		Timestamp: 1_600_000_000_000_000_000,
		Balance:   map[string]string{},
	}
	if err := core.InitGenesisBlock(g, false); err != nil {
		panic(err)
	}
	core.Close()
	return w
}

type node struct {
	w    *world
	cs   *chain.ChainService
	cons *dposCons
	c    *bp.Cluster
	dir  string
}

func (w *world) newNode(ids []string, lib int64) *node {
	w.nnode++
	n := &node{w: w, dir: filepath.Join(w.root, fmt.Sprintf("n%d", w.nnode))}
	w.initDir(n.dir)
	cfg := config.NewServerContext("", "").GetDefaultConfig().(*config.Config)
	cfg.DbType = "memorydb"
	cfg.DataDir = n.dir
	cfg.Blockchain.NumWorkers = 1
	cfg.Blockchain.VerifierCount = 2
	n.cs = chain.NewChainService(cfg)
	c, err := bp.VerifNewCluster(ids)
	if err != nil {
		panic(err)
	}
	n.c = c
	d := dpos.VerifNewDPoS(c)
	if lib >= 0 {
		d = dpos.VerifC09NewDPoSLib(c, uint64(lib)) // a finality status with this last irreversible block number
	}
	n.cons = &dposCons{d: d, cs: n.cs}
	n.cs.SetChainConsensus(n.cons)
	hub := component.NewComponentHub()
	for _, nm := range []string{message.MemPoolSvc, message.RPCSvc, message.P2PSvc, message.SyncerSvc} {
		hub.Register(&recorder{name: nm})
	}
	n.cs.SetHub(hub)
	chain.VerifC09SetSkipMempool(n.cs, true)
	return n
}

func (n *node) close() {
	need, pending := chain.VerifC09VerifyState(n.cs)
	for i := 0; need && pending != 1 && i < 4000; i++ {
		time.Sleep(50 * time.Microsecond)
		_, pending = chain.VerifC09VerifyState(n.cs)
	}
	n.cs.BeforeStop()
	os.RemoveAll(n.dir)
}

func (n *node) mainChain() []*types.Block {
	best, err := n.cs.GetBestBlock()
	if err != nil {
		panic(err)
	}
	var out []*types.Block
	for no := uint64(1); no <= best.BlockNo(); no++ {
		b, err := chain.VerifC09GetBlockByNo(n.cs, no)
		if err != nil {
			panic(fmt.Sprintf("main chain has no block %d below the best block %d: %v", no, best.BlockNo(), err))
		}
		out = append(out, b)
	}
	return out
}

// ---------------------------------------------------------------- blocks

type kind string

var defects = []kind{"other-header", "other-key", "empty-sig", "nil-sig", "garbage-sig", "nil-key", "garbage-key",
	"non-owner-member", "outsider", "future", "far-future"}

type mblock struct {
	name   string
	blk    *types.Block
	parent *mblock
	kind   kind
	root   []byte
	// filled at arrival
	offered  bool
	nowNs    int64
	clockOK  bool // the local clock stayed inside one slot while the block was processed
	ids      []string
	everMain bool
}

// build: a block on parent with an empty body, state root as the real execution leaves it, signed; `slotNo` is the
// slot of its timestamp, `ids` the producer list in force.
func (w *world) build(rng *vh.Rng, name string, parent *mblock, k kind, iv, slotNo int64, ids []string) *mblock {
	ts := ((slotNo-1)*iv+1+int64(rng.Intn(int(iv))))*1000000 + int64(rng.Intn(1000000))
	parent.blk.BlockHash()
	bi := types.NewBlockHeaderInfoFromPrevBlock(parent.blk, ts, config.AllEnabledHardforkConfig)
	sdb := w.core.VerifC09SDB()
	bs := state.NewBlockState(sdb.OpenNewStateDB(parent.root), state.SetPrevBlockHash(parent.blk.BlockHash()))
	bs.SetGasPrice(system.GetGasPrice())
	bs.Receipts().SetHardFork(config.AllEnabledHardforkConfig, bi.No)
	if err := bs.Update(); err != nil {
		panic(err)
	}
	if err := bs.Commit(); err != nil {
		panic(err)
	}
	root := append([]byte{}, bs.GetRoot()...)
	blk := types.NewBlock(bi, root, bs.Receipts(), nil, nil, nil)
	owner := w.byID[ids[slotNo%int64(len(ids))]]
	signer := owner
	switch k {
	case "non-owner-member":
		if len(ids) < 2 {
			k = "outsider"
		} else {
			signer = w.byID[ids[(slotNo+1+int64(rng.Intn(len(ids)-1)))%int64(len(ids))]]
		}
	}
	if k == "outsider" {
		for {
			signer = w.pool[rng.Intn(len(w.pool))]
			in := false
			for _, id := range ids {
				in = in || id == signer.ID
			}
			if !in {
				break
			}
		}
	}
	if err := blk.Sign(signer.Priv); err != nil {
		panic(err)
	}
	h := blk.Header
	switch k {
	case "other-header":
		h.Confirms ^= 1 << uint(rng.Intn(8)) // the signature is genuine, for a header that differs in one field
	case "other-key":
		o := w.pool[rng.Intn(len(w.pool))]
		for o.ID == signer.ID {
			o = w.pool[rng.Intn(len(w.pool))]
		}
		sig, err := o.Priv.Sign(c09lib.SignedMessage(h))
		if err != nil {
			panic(err)
		}
		h.Sign = sig
	case "empty-sig":
		h.Sign = []byte{}
	case "nil-sig":
		h.Sign = nil
	case "garbage-sig":
		h.Sign = rng.Bytes(1 + rng.Intn(80))
	case "nil-key":
		h.PubKey = nil
	case "garbage-key":
		h.PubKey = rng.Bytes(1 + rng.Intn(40))
	}
	raw, err := proto.Encode(blk) // what a peer sends is the protobuf encoding
	if err != nil {
		panic(err)
	}
	blk = &types.Block{}
	if err := proto.Decode(raw, blk); err != nil {
		panic(err)
	}
	blk.BlockHash()
	return &mblock{name: name, blk: blk, parent: parent, kind: k, root: root}
}

// ---------------------------------------------------------------- scenarios

type env struct {
	run  *vh.Run
	rng  *vh.Rng
	w    *world
	iv     int64
	seen   map[string]int
	scenNo int
}

type scen struct {
	e       *env
	n       *node
	ids     []string
	lib     string
	blocks  map[string]*mblock // by content (bkey)
	order   []*mblock
	log     []string
	past    int64 // next unused slot for blocks with past timestamps
	failed  bool
	shape   string
	self     string // peer id of the validating node ("" = no identity)
	selfKind string
}

func (e *env) newScen(shape string) *scen {
	rng := e.rng
	n := 1 + rng.Intn(6)
	off := rng.Intn(len(e.w.pool))
	var ids []string
	for j := 0; j < n; j++ {
		ids = append(ids, e.w.pool[(off+j)%len(e.w.pool)].ID)
	}
	// finality status: none, last irreversible block = genesis, or (rarely) block 1: then nothing at height 1 is accepted
	lib := []int64{-1, -1, -1, 0, 0, 0, 0, 1}[rng.Intn(8)]
	s := &scen{e: e, ids: ids, blocks: map[string]*mblock{}, shape: shape, lib: "-"}
	if lib >= 0 {
		s.lib = fmt.Sprint(lib)
	}
	s.n = e.w.newNode(ids, lib)
	// who validates: the verdict must not depend on the validating node's own identity (p2pkey as InitNodeInfo sets it):
	// never initialised, a key outside the producer list, or one of the producers (each in turn over the scenarios)
	e.scenNo++
	switch e.scenNo % 4 {
	case 0:
		p2pkey.VerifC09SetNodeKey(nil)
		s.selfKind = "none"
	case 1:
		for {
			p := e.w.pool[rng.Intn(len(e.w.pool))]
			in := false
			for _, id := range ids {
				in = in || id == p.ID
			}
			if !in {
				p2pkey.VerifC09SetNodeKey(p.Priv)
				s.self = p.ID
				break
			}
		}
		s.selfKind = "outsider"
	default:
		s.self = ids[(e.scenNo/4)%len(ids)]
		p2pkey.VerifC09SetNodeKey(e.w.byID[s.self].Priv)
		s.selfKind = "producer"
	}
	s.past = c09lib.SlotOf(e.iv, time.Now().UnixNano()) - 2000 - int64(rng.Intn(100000))
	return s
}

func (s *scen) genesis() *mblock {
	return &mblock{name: "G", blk: s.e.w.gen, root: s.e.w.gen.GetHeader().GetBlocksRootHash(), kind: "legit", everMain: true}
}

// slotFor: the slot a block of this kind is stamped with. Future kinds are relative to the clock right now; the caller
// offers the block immediately.
func (s *scen) slotFor(k kind) int64 {
	rng := s.e.rng
	iv := s.e.iv
	switch k {
	case "future", "far-future", "next-slot", "this-slot":
		now := time.Now().UnixNano()
		cur := c09lib.SlotOf(iv, now)
		if left := cur*iv - now/1000000; left < 250 {
			time.Sleep(time.Duration(left+2) * time.Millisecond) // stay clear of the slot boundary while the block is processed
			cur = c09lib.SlotOf(iv, time.Now().UnixNano())
		}
		switch k {
		case "future":
			return cur + 2
		case "far-future":
			return cur + 3 + int64(rng.Intn(100000))
		case "next-slot":
			return cur + 1
		}
		return cur
	}
	s.past += 1 + int64(rng.Intn(3))
	return s.past
}

// bkey identifies a block by its content, not by the identifier it carries (Block.Hash is whatever the sender says).
func bkey(b *types.Block) string {
	return string(c09lib.SignedMessage(b.Header)) + "|" + string(b.Header.Sign)
}

func (s *scen) make(name string, parent *mblock, k kind) *mblock {
	slotNo := s.slotFor(k)
	switch k {
	case "other-header", "other-key", "empty-sig", "nil-sig", "garbage-sig":
		// half of the badly signed blocks name the VALIDATOR's own key (the slot's owner is the validating node)
		if s.selfKind == "producer" && s.e.rng.Chance(1, 2) {
			for i := 0; i < len(s.ids) && s.ids[slotNo%int64(len(s.ids))] != s.self; i++ {
				slotNo++
			}
			s.past = slotNo
		}
	}
	b := s.e.w.build(s.e.rng, name, parent, k, s.e.iv, slotNo, s.ids)
	if j := c09lib.JudgeSig(b.blk.Header); j.Key == s.self && s.self != "" {
		s.e.run.Count(fmt.Sprintf("validator-identity: block names the validator's own key, signature %s", j.Class))
	}
	s.register(b)
	return b
}

func (s *scen) register(b *mblock) {
	s.blocks[bkey(b.blk)] = b
	s.order = append(s.order, b)
}

// legit: the property's condition on an offered block, from the record taken at its arrival.
func (s *scen) legit(b *mblock) bool {
	return c09lib.Legit(s.e.iv, b.nowNs, b.ids, b.blk.Header)
}

func (s *scen) offer(b *mblock) {
	before := time.Now().UnixNano()
	b.offered, b.nowNs, b.ids = true, before, append([]string{}, s.ids...)
	err := chain.VerifC09AddBlock(s.n.cs, b.blk, "peer")
	after := time.Now().UnixNano()
	b.clockOK = c09lib.SlotOf(s.e.iv, before) == c09lib.SlotOf(s.e.iv, after)
	cls := "ok"
	if err != nil {
		cls = "err"
		if os.Getenv("VERIF_DEBUG") != "" {
			fmt.Fprintf(os.Stderr, "offer %s (%s): %v\n", b.name, b.kind, err)
		}
	}
	s.log = append(s.log, fmt.Sprintf("offer %s(kind %s, no %d, parent %s) -> %s", b.name, b.kind, b.blk.BlockNo(), b.parent.name, cls))
	s.check()
}

// check: the property on the node as it is now.
func (s *scen) check() {
	for _, mb := range s.n.mainChain() {
		b, ok := s.blocks[bkey(mb)]
		if !ok {
			s.fail("a block that was never offered is on the main chain", map[string]interface{}{"no": mb.BlockNo()})
			continue
		}
		b.everMain = true
		if !b.clockOK {
			continue // the clock crossed a slot boundary while this block was processed: the future clause is not decidable
		}
		if !s.legit(b) {
			j := c09lib.JudgeSig(b.blk.Header)
			s.fail("a block on the main chain does not satisfy 'signature verifies over the complete header with the key in the header, that key is the current producer owning the slot, timestamp less than two slots ahead'",
				map[string]interface{}{"block": b.name, "kind": string(b.kind), "no": b.blk.BlockNo(), "keyParses": j.Key != "-", "signature": j.Class,
					"entitled": c09lib.Entitled(s.e.iv, b.blk.Header.Timestamp, b.ids, j.Key),
					"tooFarAhead": c09lib.TooFarAhead(s.e.iv, b.blk.Header.Timestamp, b.nowNs), "producers": b.ids, "ts": b.blk.Header.Timestamp, "arrivedAt": b.nowNs})
		}
	}
}

func (s *scen) fail(what string, rep map[string]interface{}) {
	if s.failed {
		return
	}
	s.failed = true
	rep["scenario"] = s.shape
	rep["validatorIdentity"] = s.selfKind + " " + s.self
	rep["history"] = s.log
	rep["intervalMs"] = s.e.iv
	s.e.run.Fail(what, rep)
}

// finish: the `accept` ops of the scenario. A block is reported when the outcome is determined by the three checks
// alone: an illegitimate block (must never be on the main chain) or a legitimate one the harness expects on the main
// chain (child of the best block when it arrived, or part of a wholly legitimate branch that became the longest).
func (s *scen) finish(expect map[*mblock]bool) {
	for _, b := range s.order {
		if !b.offered || !b.clockOK {
			s.e.run.Count("not-reported: never offered or clock crossed a slot")
			continue
		}
		leg := s.legit(b)
		s.e.run.Count(fmt.Sprintf("%s kind=%s legit=%v lib=%s on-main-chain=%v", s.shape, b.kind, leg, s.lib, b.everMain))
		if leg && (!expect[b] || !b.parent.everMain) {
			continue // whether a legitimate block gets onto the main chain then depends on more than the three checks
		}
		j := c09lib.JudgeSig(b.blk.Header)
		s.e.run.Op(fmt.Sprintf("accept %d %d %s %d %d %s %s %s", s.e.iv, b.nowNs, s.lib, b.blk.BlockNo(), b.blk.Header.Timestamp, j.Key, j.Class,
			strings.Join(b.ids, " ")), fmt.Sprint(b.everMain), true)
	}
	s.e.run.Count("validator-identity scenario " + s.selfKind)
	p2pkey.VerifC09SetNodeKey(nil)
	s.e.run.Count(fmt.Sprintf("calls: VerifyTimestamp>0=%v VerifySign>0=%v IsBlockValid>0=%v", s.n.cons.calls[0] > 0, s.n.cons.calls[1] > 0, s.n.cons.calls[2] > 0))
	s.n.close()
}

func (e *env) pickKind(pLegit int) kind {
	if e.rng.Intn(100) < pLegit {
		return []kind{"legit", "legit", "legit", "next-slot", "this-slot"}[e.rng.Intn(5)]
	}
	return defects[e.rng.Intn(len(defects))]
}

// linear: every arrival is a child of the node's best block; producer-set changes in between.
func (e *env) linear() {
	s := e.newScen("linear")
	expect := map[*mblock]bool{}
	best := s.genesis()
	for i := 0; i < 3+e.rng.Intn(6); i++ {
		if e.rng.Chance(1, 5) {
			// an election: the producer list changes (through the real Cluster.Update)
			n := 1 + e.rng.Intn(6)
			off := e.rng.Intn(len(e.w.pool))
			s.ids = nil
			for j := 0; j < n; j++ {
				s.ids = append(s.ids, e.w.pool[(off+j)%len(e.w.pool)].ID)
			}
			if err := s.n.c.Update(s.ids); err != nil {
				panic(err)
			}
			e.run.Count("election")
		}
		b := s.make(fmt.Sprintf("b%d", i), best, e.pickKind(55))
		expect[b] = true
		s.offer(b)
		if b.everMain {
			best = b
		}
	}
	s.finish(expect)
}

// sideBranch: a main chain of m legitimate blocks, then a branch from a fork point that grows longer; one block of the
// branch may be illegitimate (only IsBlockValid can tell for a wrong signer: it runs when the reorganisation executes
// the branch).
func (e *env) sideBranch() {
	s := e.newScen("side-branch")
	expect := map[*mblock]bool{}
	g := s.genesis()
	m := 1 + e.rng.Intn(3)
	mainB := []*mblock{g}
	for i := 0; i < m; i++ {
		b := s.make(fmt.Sprintf("a%d", i+1), mainB[len(mainB)-1], "legit")
		expect[b] = true
		s.offer(b)
		mainB = append(mainB, b)
	}
	fork := e.rng.Intn(m) // fork below the tip
	length := m - fork + 1
	bad := -1
	if e.rng.Chance(2, 3) {
		bad = e.rng.Intn(length)
	}
	par := mainB[fork]
	var side []*mblock
	allLegit := true
	for i := 0; i < length; i++ {
		k := kind("legit")
		if i == bad {
			k = []kind{"non-owner-member", "outsider", "non-owner-member", "other-header", "empty-sig", "garbage-key"}[e.rng.Intn(6)]
			allLegit = false
		}
		b := s.make(fmt.Sprintf("s%d", i+1), par, k)
		side = append(side, b)
		par = b
	}
	for _, b := range side {
		expect[b] = allLegit
		s.offer(b)
	}
	s.finish(expect)
}

// orphanFirst: children arrive before their parent (parked with only the signature checked), then the parent.
func (e *env) orphanFirst() {
	s := e.newScen("orphan-first")
	expect := map[*mblock]bool{}
	g := s.genesis()
	p := s.make("p", g, "legit")
	ck := kind("legit")
	if e.rng.Chance(2, 3) {
		ck = []kind{"non-owner-member", "outsider", "other-header", "nil-sig", "nil-key"}[e.rng.Intn(5)]
	}
	c := s.make("c", p, ck)
	c2 := s.make("c2", c, "legit")
	expect[p] = true
	expect[c] = true
	expect[c2] = ck == "legit"
	if e.rng.Chance(1, 2) {
		s.offer(c2)
		s.offer(c)
	} else {
		s.offer(c)
		s.offer(c2)
	}
	s.offer(p)
	s.finish(expect)
}

// carriedHash: blocks that carry the identifier of ANOTHER block (a received block's Hash field is what the sender says).
// The signature must be checked for every presented header, whatever was presented under that identifier before.
func (e *env) carriedHash() {
	s := e.newScen("carried-hash")
	expect := map[*mblock]bool{}
	g := s.genesis()
	best := g
	if e.rng.Chance(1, 2) {
		b := s.make("a1", g, "legit")
		expect[b] = true
		s.offer(b)
		if b.everMain {
			best = b
		}
	}
	forge := func(name string, parent *mblock, hash []byte) *mblock {
		// the entitled producer's key in the header, no signature of that producer
		slotNo := s.slotFor("legit")
		if s.selfKind == "producer" && e.rng.Chance(1, 2) {
			for i := 0; i < len(s.ids) && s.ids[slotNo%int64(len(s.ids))] != s.self; i++ {
				slotNo++
			}
			s.past = slotNo
		}
		f := s.e.w.build(s.e.rng, name, parent, []kind{"garbage-sig", "other-key", "other-header"}[e.rng.Intn(3)], s.e.iv, slotNo, s.ids)
		f.blk.Hash = append([]byte{}, hash...)
		f.kind = "forged-under-carried-hash"
		s.register(f)
		return f
	}
	switch e.rng.Intn(4) {
	case 0:
		// an outsider's own validly signed child of the best block (refused: not a producer), then the forgery under its identifier
		o := s.make("o", best, "outsider")
		s.offer(o)
		s.offer(forge("f", best, o.blk.Hash))
	case 1:
		// the outsider's block is an orphan (parked with only the signature checked), then the forgery under its identifier
		p := s.make("p", best, "legit") // never offered
		o := s.make("o", p, "outsider")
		s.offer(o)
		s.offer(forge("f", best, o.blk.Hash))
	case 2:
		// reverse order: the forgery carrying the genuine block's identifier first, then the genuine block
		gen := s.make("g1", best, "legit")
		s.offer(forge("f", best, gen.blk.Hash))
		expect[gen] = true
		s.offer(gen)
	default:
		// genuine block accepted, then a forgery at the next height carrying the genuine block's identifier... and one on a fork
		gen := s.make("g1", best, "legit")
		expect[gen] = true
		s.offer(gen)
		if gen.everMain {
			s.offer(forge("f", gen, gen.blk.Hash))
		}
		s.offer(forge("f2", best, gen.blk.Hash))
	}
	s.finish(expect)
}

func main() {
	zerolog.SetGlobalLevel(zerolog.Disabled)
	run := vh.Start("c09chain", "an `accept` op is non-trivial always: the block was offered to a real chain service; distinct by (op, answer)")
	defer run.Finish()
	rng := run.Rng
	var pool []c09lib.Producer
	for i := 0; i < 12; i++ {
		pool = append(pool, c09lib.NewProducer(rng))
	}
	w := newWorld(filepath.Join(run.Out, "nodes"), pool)
	e := &env{run: run, rng: rng, w: w, seen: map[string]int{}}
	// NewChainService sets process-wide execution parameters: create one node before anything is executed
	slot.Init(1)
	w.newNode([]string{pool[0].ID}, -1).close()
	dir := filepath.Join(w.root, "builder")
	w.initDir(dir)
	core, err := chain.NewCore("memorydb", dir, false, 0, &config.DBConfig{})
	if err != nil {
		panic(err)
	}
	w.core = core
	w.gen = core.GetGenesisInfo().Block()
	w.gen.BlockHash()
	if w.gen == nil {
		panic(errors.New("no genesis block"))
	}
	for round := 0; round < run.Pick(1, 4); round++ {
		for _, ivs := range []int64{1, 2} {
			slot.Init(ivs)
			e.iv = slot.VerifIntervalMs()
			for i := 0; i < run.Pick(50, 150); i++ {
				e.linear()
			}
			for i := 0; i < run.Pick(40, 120); i++ {
				e.sideBranch()
			}
			for i := 0; i < run.Pick(30, 90); i++ {
				e.orphanFirst()
			}
			for i := 0; i < run.Pick(30, 90); i++ {
				e.carriedHash()
			}
		}
	}
}
