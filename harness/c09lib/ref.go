// Package c09lib: the reference side of the C09 harnesses (c09, c09chain). Everything here is written from the
// property text, not from the code under test: its own header serialisation for the signed message, its own slot
// arithmetic (floor/ceiling on positive instants, no `(ms-1)/interval` trick), its own producer lookup. The only
// thing shared with /repo is the libp2p primitive (key unmarshalling, signature verification, peer id of a key),
// which the property assumes sound.
package c09lib

import (
	"bytes"
	"fmt"

	"github.com/aergoio/aergo/v2/types"
	"github.com/aergoio/aergo/v2/zz_verif/vh"
	"github.com/libp2p/go-libp2p/core/crypto"
)

// Producer: a key pair and the base58 peer id of its public key.
type Producer struct {
	Priv crypto.PrivKey
	ID   string
	Kind string // secp256k1 | ed25519
}

func NewProducer(r *vh.Rng) Producer {
	priv, pub, err := crypto.GenerateSecp256k1Key(bytes.NewReader(r.Bytes(64)))
	if err != nil {
		panic(err)
	}
	return mk(priv, pub, "secp256k1")
}

// NewEd25519Producer: libp2p accepts every key type UnmarshalPublicKey knows; an Ed25519 identity is a legitimate
// producer when it is in the producer list.
func NewEd25519Producer(r *vh.Rng) Producer {
	priv, pub, err := crypto.GenerateEd25519Key(bytes.NewReader(r.Bytes(64)))
	if err != nil {
		panic(err)
	}
	return mk(priv, pub, "ed25519")
}

func mk(priv crypto.PrivKey, pub crypto.PubKey, kind string) Producer {
	pid, err := types.IDFromPublicKey(pub)
	if err != nil {
		panic(err)
	}
	return Producer{priv, types.IDB58Encode(pid), kind}
}

func le64(v uint64) []byte {
	b := make([]byte, 8)
	for i := 0; i < 8; i++ {
		b[i] = byte(v >> (8 * uint(i)))
	}
	return b
}

// SignedMessage: "its complete header" minus the signature itself: every header field in declaration order,
// integers as 8 little-endian bytes, byte strings as they are.
func SignedMessage(h *types.BlockHeader) []byte {
	var m []byte
	m = append(m, h.ChainID...)
	m = append(m, h.PrevBlockHash...)
	m = append(m, le64(h.BlockNo)...)
	m = append(m, le64(uint64(h.Timestamp))...)
	m = append(m, h.BlocksRootHash...)
	m = append(m, h.TxsRootHash...)
	m = append(m, h.ReceiptsRootHash...)
	m = append(m, le64(h.Confirms)...)
	m = append(m, h.PubKey...)
	m = append(m, h.CoinbaseAccount...)
	m = append(m, h.Consensus...)
	return m
}

// Sig: what the signature of a header is, judged independently: Key = base58 peer id of the key carried in the
// header ("-" if the bytes are not a public key), Class = good | wrong | malformed.
type Sig struct {
	Key   string
	Class string
}

func (s Sig) OK() bool { return s.Key != "-" && s.Class == "good" }

func JudgeSig(h *types.BlockHeader) Sig {
	pub, err := crypto.UnmarshalPublicKey(h.PubKey)
	if err != nil {
		// the signature cannot be judged without a key; the class is what the model is told, irrelevant for the verdict
		return Sig{"-", "malformed"}
	}
	key := "-"
	if pid, err := types.IDFromPublicKey(pub); err == nil {
		key = types.IDB58Encode(pid)
	}
	ok, err := pub.Verify(SignedMessage(h), h.Sign)
	switch {
	case err != nil:
		return Sig{key, "malformed"}
	case ok:
		return Sig{key, "good"}
	}
	return Sig{key, "wrong"}
}

// SlotOf: the slot number of an instant after the epoch: slots are the half-open millisecond intervals
// (iv*(k-1), iv*k]; sub-millisecond digits are dropped first.
func SlotOf(ivMs, ns int64) int64 {
	if ns <= 0 || ivMs <= 0 {
		panic(fmt.Sprintf("SlotOf: reference defined for positive instants only (%d, %d)", ivMs, ns))
	}
	ms := ns / 1000000
	if ms == 0 {
		return 0 // the first millisecond after the epoch belongs to the slot that ends at 0
	}
	k := ms / ivMs
	if ms%ivMs != 0 {
		k++
	}
	return k
}

// Entitled: is the producer with this id the one the list entitles to the slot of ns? position in the list =
// index, the slot's owner is the slot number modulo the list length.
func Entitled(ivMs, ns int64, ids []string, id string) bool {
	if len(ids) == 0 || id == "-" {
		return false
	}
	pos := -1
	for j, x := range ids {
		if x == id {
			pos = j
		}
	}
	return pos >= 0 && SlotOf(ivMs, ns)%int64(len(ids)) == int64(pos)
}

// TooFarAhead: the timestamp is ahead of the local clock by two or more slots.
func TooFarAhead(ivMs, ns, nowNs int64) bool { return SlotOf(ivMs, ns) >= SlotOf(ivMs, nowNs)+2 }

// Legit: the property's acceptance condition (libNo < 0: no finality clause).
func Legit(ivMs, nowNs int64, ids []string, h *types.BlockHeader) bool {
	s := JudgeSig(h)
	return s.OK() && Entitled(ivMs, h.Timestamp, ids, s.Key) && !TooFarAhead(ivMs, h.Timestamp, nowNs)
}
