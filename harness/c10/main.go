// Harness c10: the real pkg/trie on a monitored memory store against the Lean trie model.
//
// Ops (one session = new … ): new | update k=v k=DEL … | get k | keys | commit | reopen i
// Oracles on the real code (the property itself):
//  (i)   get k == reference map, for every key of the session's universe, after every batch
//  (ii)  root == root of a fresh real trie built from the resulting map in ONE batch (history independence)
//  (iii) a fresh trie instance opened on the store at any committed root answers that commit's map
//  (iv)  the store is content-addressed and persistent: no Delete, no Set that changes an existing pair
// Storage layer (model: Aergo.Model.TrieStore), after a commit, sampled:
//   sbatch <path>   the batch the store holds under the batch root reached by <path> (4j bits) in the committed tree,
//                   against the model's `layout` of that subtree (child references as hash terms, evaluated here)
//   ser …           model serializeBatch of that batch against the stored bytes themselves
//   sget root key pairs…  the real Get of a fresh instance, against the model's get-through-the-store (`getRoot`)
//                   run on exactly the pairs the real code read (and with one of them withheld: both must fail)
package main

import (
	"bytes"
	"encoding/hex"
	"encoding/json"
	"os"
	"fmt"
	"sort"
	"strconv"
	"strings"

	"github.com/aergoio/aergo-lib/db"
	"github.com/aergoio/aergo/v2/internal/common"
	"github.com/aergoio/aergo/v2/pkg/trie"
	"github.com/aergoio/aergo/v2/types/dbkey"
	"github.com/aergoio/aergo/v2/zz_verif/vh"
)

// ---- monitored store -------------------------------------------------------

type monStore struct {
	db.DB
	bad    []string
	values [][]byte // values written since the last drain (serialised trie batches)
	rec    *[][2][]byte
	// keys of the trie batches written since the last drain (one commit), hex of the 32-byte hash
	written map[string]bool
}

// cpRoot copies a root, keeping the nil root nil: the node never holds an empty non-nil root (an empty non-nil root makes
// StateDB.setMarker write the state marker under Hasher("") - the key an all-zero types.State is stored under).
func cpRoot(r []byte) []byte {
	if len(r) == 0 {
		return nil
	}
	return append([]byte{}, r...)
}

// isTrieKey: the keys the property speaks of - node batches written under their hash (dbkey.Trie prefix + 32 bytes).
func isTrieKey(k []byte) bool {
	return bytes.HasPrefix(k, dbkey.Trie(nil)) && len(k) == triePrefix+trie.HashLength
}

func (m *monStore) noteWrite(k []byte) {
	if bytes.HasPrefix(k, dbkey.Trie(nil)) && len(k) == triePrefix+trie.HashLength {
		if m.written == nil {
			m.written = map[string]bool{}
		}
		m.written[hex.EncodeToString(k[triePrefix:])] = true
	}
}

// Get records the pairs read while rec is set (what a fresh instance loads on its way down to a key).
func (m *monStore) Get(k []byte) []byte {
	v := m.DB.Get(k)
	if m.rec != nil {
		*m.rec = append(*m.rec, [2][]byte{append([]byte{}, k...), append([]byte{}, v...)})
	}
	return v
}

func (m *monStore) Set(k, v []byte) {
	if old := m.DB.Get(k); isTrieKey(k) && len(old) != 0 && !bytes.Equal(old, v) {
		m.bad = append(m.bad, "Set changes existing pair "+hex.EncodeToString(k))
	}
	m.DB.Set(k, v)
}
func (m *monStore) Delete(k []byte) {
	m.bad = append(m.bad, "Delete "+hex.EncodeToString(k))
	m.DB.Delete(k)
}
func (m *monStore) NewTx() db.Transaction { return &monTx{m, m.DB.NewTx()} }
func (m *monStore) NewBulk() db.Bulk      { return &monBulk{m, m.DB.NewBulk()} }

type monTx struct {
	m *monStore
	db.Transaction
}

func (t *monTx) Set(k, v []byte) {
	t.m.noteWrite(k)
	if len(t.m.values) < 64 {
		t.m.values = append(t.m.values, append([]byte{}, v...))
	}
	if old := t.m.DB.Get(k); isTrieKey(k) && len(old) != 0 && !bytes.Equal(old, v) {
		t.m.bad = append(t.m.bad, "Tx.Set changes existing pair "+hex.EncodeToString(k))
	}
	t.Transaction.Set(k, v)
}
func (t *monTx) Delete(k []byte) {
	t.m.bad = append(t.m.bad, "Tx.Delete "+hex.EncodeToString(k))
	t.Transaction.Delete(k)
}

type monBulk struct {
	m *monStore
	db.Bulk
}

func (t *monBulk) Set(k, v []byte) {
	t.m.noteWrite(k)
	if len(t.m.values) < 64 && bytes.HasPrefix(k, dbkey.Trie(nil)) && len(k) == triePrefix+trie.HashLength {
		t.m.values = append(t.m.values, append([]byte{}, v...))
	}
	if old := t.m.DB.Get(k); isTrieKey(k) && len(old) != 0 && !bytes.Equal(old, v) {
		t.m.bad = append(t.m.bad, "Bulk.Set changes existing pair "+hex.EncodeToString(k))
	}
	t.Bulk.Set(k, v)
}
func (t *monBulk) Delete(k []byte) {
	t.m.bad = append(t.m.bad, "Bulk.Delete "+hex.EncodeToString(k))
	t.Bulk.Delete(k)
}

// ---- term evaluation (model output -> bytes, with the node's hasher) --------

func evalTerm(tok []string, pos *int, top bool) []byte {
	t := tok[*pos]
	*pos++
	switch t {
	case "E":
		if top {
			return nil
		}
		return trie.DefaultLeaf
	case "L":
		k, _ := hex.DecodeString(tok[*pos])
		v, _ := hex.DecodeString(tok[*pos+1])
		h, _ := strconv.Atoi(tok[*pos+2])
		*pos += 3
		return common.Hasher(k, v, []byte{byte(h)})
	case "N":
		l := evalTerm(tok, pos, false)
		r := evalTerm(tok, pos, false)
		return common.Hasher(l, r)
	}
	panic("bad term token " + t)
}

// evalSbatch: `sbatch sc=b ; slot ; slot …` with slot = - | K <key hex> | V <value hex> | R <flag> <hash term>
// becomes the rendered batch (renderBatch format) with every reference hashed by the node's hasher.
func evalSbatch(line string) string {
	parts := strings.Split(line, " ; ")
	var out []string
	for _, p := range parts[1:] {
		f := strings.Fields(p)
		switch f[0] {
		case "-":
			out = append(out, "-")
		case "K", "V":
			out = append(out, f[1]+"02")
		case "R":
			pos := 2
			h := evalTerm(f, &pos, false)
			fl, _ := strconv.Atoi(f[1])
			out = append(out, hex.EncodeToString(append(append([]byte{}, h...), byte(fl))))
		default:
			panic("bad sbatch slot " + p)
		}
	}
	return strings.Replace(parts[0], "sbatch ", "sbatch batch ", 1) + " " + strings.Join(out, ",")
}

func evalLine(line string) string {
	if strings.HasPrefix(line, "sbatch sc=") {
		return evalSbatch(line)
	}
	if !strings.HasPrefix(line, "root ") {
		return line
	}
	tok := strings.Fields(line)[1:]
	pos := 0
	h := evalTerm(tok, &pos, true)
	if h == nil {
		return "root nil"
	}
	return "root " + hex.EncodeToString(h)
}

// ---- session ----------------------------------------------------------------

type commitRec struct {
	root []byte
	m    map[string][]byte
}

type sess struct {
	run     *vh.Run
	store   *monStore
	tr      *trie.Trie
	ref     map[string][]byte
	commits []commitRec
	univ    [][]byte
	log     []string
	cacheH  int
	track   bool // the model follows updatedNodes (op wset before every commit)
}

func newStore() *monStore {
	return &monStore{DB: db.NewDB(db.MemoryImpl, "")}
}

func (s *sess) op(op, out string, nontrivial bool) {
	s.log = append(s.log, op)
	s.run.Op(op, out, nontrivial)
}

func newSess(run *vh.Run, univ [][]byte, cacheH int) *sess {
	s := &sess{run: run, store: newStore(), ref: map[string][]byte{}, univ: univ, cacheH: cacheH}
	s.tr = trie.NewTrie(nil, common.Hasher, s.store)
	if cacheH > 0 {
		s.tr.CacheHeightLimit = cacheH
	}
	// the updatedNodes bookkeeping is followed on the sessions with small universes and no live cache
	s.track = cacheH == 0 && len(univ) <= 40 && run.Rng.Intn(8) == 0
	if s.track {
		s.op(fmt.Sprintf("new %d w", cacheH), "ok", false)
	} else {
		s.op(fmt.Sprintf("new %d", cacheH), "ok", false)
	}
	return s
}

// wset: which batch roots of the committed tree did this commit write (by path from the root), and how many written
// batches are not part of the tree. The real side walks the whole committed tree through the store (so every batch
// the tree needs is also checked to be there); the model side is its updatedNodes after the same updates.
func (s *sess) wset(root []byte) {
	written := s.store.written
	s.store.written = nil
	if !s.track {
		return
	}
	type item struct {
		path string
		ref  []byte
	}
	var live []string
	hit := map[string]bool{}
	var stack []item
	if len(root) != 0 {
		stack = append(stack, item{"", root})
	}
	n := 0
	for len(stack) > 0 {
		it := stack[len(stack)-1]
		stack = stack[:len(stack)-1]
		n++
		hx := hex.EncodeToString(it.ref[:trie.HashLength])
		if written[hx] {
			hit[hx] = true
			name := it.path
			if name == "" {
				name = "-"
			}
			live = append(live, name)
		}
		v := s.store.DB.Get(dbkey.Trie(it.ref[:trie.HashLength]))
		if len(v) == 0 {
			s.fail(fmt.Sprintf("after the commit the store has nothing under the batch root %s at path %q of the committed tree", hx, it.path))
			return
		}
		var b [][]byte
		if out, _ := vh.Guard(func() string { b = trie.VerifC10ParseBatch(v); return "" }); out != "" || b == nil {
			s.fail("parseBatch panics on the stored batch " + hx)
			return
		}
		if b[0][0] == 1 {
			continue
		}
		for i := 15; i <= 30; i++ {
			if len(b[i]) != 0 && b[i][trie.HashLength] != 2 {
				stack = append(stack, item{it.path + slotPath(i), b[i]})
			}
		}
	}
	sort.Strings(live)
	orphans := 0
	for k := range written {
		if !hit[k] {
			orphans++
		}
	}
	s.op("wset", fmt.Sprintf("wset %s orphans=%d", strings.Join(live, ","), orphans), len(live) > 0)
	s.run.Count(fmt.Sprintf("wset-batches-in-tree=%d", min(n, 32)/4*4))
	s.run.Count(fmt.Sprintf("wset-written=%d", min(len(written), 16)))
	if orphans > 0 {
		s.run.Count("wset-commit-wrote-batches-outside-the-tree")
	}
}

func rootStr(r []byte) string {
	if len(r) == 0 {
		return "root nil"
	}
	return "root " + hex.EncodeToString(r)
}

type kv struct {
	k, v []byte // v == nil: delete
}

func (s *sess) fail(what string) {
	s.run.Fail(what, map[string]interface{}{"ops": append([]string{}, s.log...)})
}

func freshRoot(m map[string][]byte) []byte {
	if len(m) == 0 {
		return nil
	}
	var keys [][]byte
	for k := range m {
		keys = append(keys, []byte(k))
	}
	sort.Slice(keys, func(i, j int) bool { return bytes.Compare(keys[i], keys[j]) < 0 })
	var vals [][]byte
	for _, k := range keys {
		vals = append(vals, m[string(k)])
	}
	t := trie.NewTrie(nil, common.Hasher, db.NewDB(db.MemoryImpl, ""))
	r, err := t.Update(keys, vals)
	if err != nil {
		panic(err)
	}
	return r
}

func (s *sess) update(batch []kv) {
	sort.Slice(batch, func(i, j int) bool { return bytes.Compare(batch[i].k, batch[j].k) < 0 })
	var keys, vals [][]byte
	var parts []string
	dels, absentDels := 0, 0
	for _, e := range batch {
		keys = append(keys, e.k)
		if e.v == nil {
			vals = append(vals, trie.DefaultLeaf)
			parts = append(parts, hex.EncodeToString(e.k)+"=DEL")
			dels++
			if _, ok := s.ref[string(e.k)]; !ok {
				absentDels++
			}
			delete(s.ref, string(e.k))
		} else {
			vals = append(vals, e.v)
			parts = append(parts, hex.EncodeToString(e.k)+"="+hex.EncodeToString(e.v))
			s.ref[string(e.k)] = e.v
		}
	}
	op := "update " + strings.Join(parts, " ")
	s.run.Pending(op)
	out, panicked := vh.Guard(func() string {
		r, err := s.tr.Update(keys, vals)
		if err != nil {
			return "err"
		}
		return rootStr(r)
	})
	s.op(op, out, true)
	s.run.Count(fmt.Sprintf("batch-size=%d", min(len(batch), 8)))
	if dels > 0 && dels < len(batch) {
		s.run.Count("batch-mixed-del-put")
	}
	if absentDels > 0 {
		s.run.Count("batch-deletes-absent-key")
	}
	if panicked || out == "err" {
		s.fail("Update failed: " + out)
		return
	}
	// (ii) history independence
	if want := rootStr(freshRoot(s.ref)); want != out {
		s.fail(fmt.Sprintf("root depends on history: got %s, a fresh trie with the same %d pairs has %s", out, len(s.ref), want))
	}
	s.checkReads(s.tr, s.ref, "after update")
}

func (s *sess) checkReads(t *trie.Trie, m map[string][]byte, when string) {
	for _, k := range s.univ {
		v, err := t.Get(k)
		want := m[string(k)]
		if err != nil || !bytes.Equal(v, want) {
			s.fail(fmt.Sprintf("get %x %s: got %x (err %v), map says %x", k, when, v, err, want))
			return
		}
	}
}

func (s *sess) gets(n int) {
	for i := 0; i < n; i++ {
		k := s.univ[s.run.Rng.Intn(len(s.univ))]
		v, err := s.tr.Get(k)
		out := "nil"
		if err != nil {
			out = "err"
		} else if len(v) != 0 {
			out = hex.EncodeToString(v)
		}
		s.op("get "+hex.EncodeToString(k), out, len(v) != 0)
	}
}

func (s *sess) keys() {
	ks := s.tr.GetKeys()
	var parts []string
	for _, k := range ks {
		parts = append(parts, hex.EncodeToString(k))
	}
	// the property speaks of the SET of keys: the traversal order of GetKeys is not compared
	sort.Strings(parts)
	s.op("keys", "keys "+strings.Join(parts, ","), len(ks) > 1)
	if len(ks) != len(s.ref) {
		s.fail(fmt.Sprintf("GetKeys returns %d keys, map has %d", len(ks), len(s.ref)))
	}
	for _, k := range ks {
		if _, ok := s.ref[string(k)]; !ok {
			s.fail(fmt.Sprintf("GetKeys lists %x, which the map does not hold", k))
			break
		}
	}
}

func (s *sess) commit() {
	if err := s.tr.Commit(); err != nil {
		s.fail("Commit: " + err.Error())
	}
	m := map[string][]byte{}
	for k, v := range s.ref {
		m[k] = v
	}
	s.commits = append(s.commits, commitRec{cpRoot(s.tr.Root), m})
	s.wset(s.tr.Root)
	s.op("commit", fmt.Sprintf("ok %d", len(s.commits)-1), false)
	s.batchCodec()
	s.storeLayer()
	if len(s.store.bad) > 0 {
		s.fail("store is not persistent/content-addressed: " + s.store.bad[0])
		s.store.bad = nil
	}
	// (iii) every committed root, opened by a fresh instance, answers its own map
	for i, c := range s.commits {
		if len(s.commits) > 4 && i < len(s.commits)-3 && s.run.Rng.Intn(3) != 0 {
			continue
		}
		t := trie.NewTrie(c.root, common.Hasher, s.store)
		s.checkReads(t, c.m, fmt.Sprintf("on a fresh instance at committed root #%d", i))
		if got := len(t.GetKeys()); got != len(c.m) {
			s.fail(fmt.Sprintf("fresh instance at committed root #%d lists %d keys, expected %d", i, got, len(c.m)))
		}
	}
}

func renderBatch(b [][]byte) string {
	var parts []string
	for i := 1; i <= 30; i++ {
		if len(b[i]) == 0 {
			parts = append(parts, "-")
		} else {
			parts = append(parts, hex.EncodeToString(b[i]))
		}
	}
	return fmt.Sprintf("batch sc=%v %s", len(b[0]) > 0 && b[0][0] == 1, strings.Join(parts, ","))
}

// batchCodec: every value the commit wrote is a serialised batch; parse it with the real parseBatch (model: `par`),
// re-serialise the parsed batch with the real serializeBatch (model: `ser`) and require the stored bytes back
// (the store/load cycle of the storage layer loses nothing), plus truncated values (Go slice panics = model none).
func (s *sess) batchCodec() {
	vals := s.store.values
	s.store.values = nil
	if s.run.Rng.Intn(3) != 0 {
		return
	}
	for i, v := range vals {
		if i >= 2 {
			break
		}
		out, _ := vh.Guard(func() string { return renderBatch(trie.VerifC10ParseBatch(v)) })
		if strings.HasPrefix(out, "panic") {
			out = "panic"
			s.fail("parseBatch panics on a value the trie stored itself: " + hex.EncodeToString(v))
		}
		s.op("par "+hex.EncodeToString(v), out, true)
		s.run.Count("batch-codec-stored-value")
		if out != "panic" {
			b := trie.VerifC10ParseBatch(v)
			re := trie.VerifC10SerializeBatch(b)
			flag := "0"
			if b[0][0] == 1 {
				flag = "1"
			}
			var parts []string
			for j := 1; j <= 30; j++ {
				if len(b[j]) == 0 {
					parts = append(parts, "-")
				} else {
					parts = append(parts, hex.EncodeToString(b[j]))
				}
			}
			s.op("ser "+flag+" "+strings.Join(parts, " "), "ser "+hex.EncodeToString(re), true)
			if !bytes.Equal(re, v) {
				s.fail("serializeBatch(parseBatch(v)) != v for a stored batch " + hex.EncodeToString(v))
			}
		}
		if s.run.Rng.Intn(3) == 0 && len(v) > 4 {
			n := 4 + s.run.Rng.Intn(len(v)-4)
			cut := make([]byte, n, n) // exact capacity: Go slices may be re-sliced up to their capacity
			copy(cut, v)
			out, _ := vh.Guard(func() string { return renderBatch(trie.VerifC10ParseBatch(cut)) })
			if strings.HasPrefix(out, "panic") {
				out = "panic"
			}
			s.op("par "+hex.EncodeToString(cut), out, out != "panic")
			s.run.Count("batch-codec-truncated-value")
		}
	}
}

// ---- storage layer against the model (TrieStore) ------------------------------

var triePrefix = len(dbkey.Trie(nil))

// slotPath: the path (0 = left) from the batch root to heap slot i.
func slotPath(i int) string {
	p := ""
	for i > 0 {
		if i%2 == 1 {
			p = "0" + p
		} else {
			p = "1" + p
		}
		i = (i - 1) / 2
	}
	return p
}

func slotIndex(path string) int {
	i := 0
	for _, c := range path {
		i = 2*i + 1
		if c == '1' {
			i++
		}
	}
	return i
}

func keyBits(k []byte, n int) string {
	var sb strings.Builder
	for i := 0; i < n; i++ {
		if k[i/8]&(1<<uint(7-i%8)) != 0 {
			sb.WriteByte('1')
		} else {
			sb.WriteByte('0')
		}
	}
	return sb.String()
}

// sbatchAt: compare the stored batch under `hash` (reached by `path` from the committed root) with the model.
func (s *sess) sbatchAt(path string, hash []byte) [][]byte {
	name := path
	if name == "" {
		name = "-"
	}
	if len(hash) == 0 {
		s.op("sbatch "+name, "sbatch none", false)
		s.run.Count("sbatch-none")
		return nil
	}
	v := s.store.DB.Get(dbkey.Trie(hash[:trie.HashLength]))
	if len(v) == 0 {
		s.op("sbatch "+name, "sbatch missing", true)
		s.fail(fmt.Sprintf("the store has nothing under the batch root %x at path %s of the committed tree", hash, name))
		return nil
	}
	var b [][]byte
	out, _ := vh.Guard(func() string { b = trie.VerifC10ParseBatch(v); return "sbatch " + renderBatch(b) })
	if strings.HasPrefix(out, "panic") {
		out = "sbatch panic"
		b = nil
	}
	s.op("sbatch "+name, out, true)
	s.run.Count(fmt.Sprintf("sbatch-depth=%d", min(len(path)/4, 8)))
	if b == nil {
		return nil
	}
	if b[0][0] == 1 {
		s.run.Count("sbatch-shortcut-batch")
	}
	// the model's serializeBatch of these slots against the stored bytes themselves
	flag := "0"
	if b[0][0] == 1 {
		flag = "1"
	}
	var parts []string
	for j := 1; j <= 30; j++ {
		if len(b[j]) == 0 {
			parts = append(parts, "-")
		} else {
			parts = append(parts, hex.EncodeToString(b[j]))
		}
	}
	s.op("ser "+flag+" "+strings.Join(parts, " "), "ser "+hex.EncodeToString(v), true)
	return b
}

// storeLayer: after a commit, walk down the committed tree through the real store, batch by batch.
func (s *sess) storeLayer() {
	if s.run.Rng.Intn(16) != 0 {
		return
	}
	rng := s.run.Rng
	root := cpRoot(s.tr.Root)
	// (1) batches: the root batch, then down a random non-empty slot of the bottom level, or along a key of the universe
	var along []byte
	if len(s.univ) > 0 && rng.Chance(1, 2) {
		along = s.univ[rng.Intn(len(s.univ))]
	}
	path, hash := "", root
	for depth := 0; depth < 64; depth++ {
		b := s.sbatchAt(path, hash)
		if b == nil || b[0][0] == 1 || (depth > 0 && rng.Chance(1, 4)) {
			break
		}
		next := 0
		if along != nil {
			next = slotIndex(keyBits(along, len(path) + 4)[len(path):])
		} else {
			var cand []int
			for i := 15; i <= 30; i++ {
				if len(b[i]) != 0 && b[i][trie.HashLength] != 2 { // 2: key/value of a shortcut one level up, not a child
					cand = append(cand, i)
				}
			}
			if len(cand) == 0 {
				break
			}
			next = cand[rng.Intn(len(cand))]
		}
		path += slotPath(next)
		if len(b[next]) == 0 || b[next][trie.HashLength] == 2 {
			hash = nil
			// one more op: the model must agree that nothing is stored below
			s.sbatchAt(path, nil)
			break
		}
		hash = b[next]
	}
	// (2) get through the store on a fresh instance, with the pairs it read
	if len(s.univ) == 0 {
		return
	}
	for n := 0; n < 1; n++ {
		k := s.univ[rng.Intn(len(s.univ))]
		var rec [][2][]byte
		s.store.rec = &rec
		t := trie.NewTrie(root, common.Hasher, s.store)
		v, err := t.Get(k)
		s.store.rec = nil
		out := "nil"
		if err != nil {
			out = "err"
		} else if len(v) != 0 {
			out = hex.EncodeToString(v)
		}
		var parts []string
		for _, p := range rec {
			parts = append(parts, hex.EncodeToString(p[0][triePrefix:])+"="+hex.EncodeToString(p[1]))
		}
		rs := "-"
		if len(root) != 0 {
			rs = hex.EncodeToString(root)
		}
		if len(rec) > 16 && !rng.Chance(1, 4) {
			// long paths make long op lines (one stored batch per 4 levels): most of them are left out
			if err != nil {
				s.fail(fmt.Sprintf("fresh instance at the committed root cannot read %x: %v", k, err))
			}
			continue
		}
		s.op("sget "+rs+" "+hex.EncodeToString(k)+" "+strings.Join(parts, " "), out, len(v) != 0)
		s.run.Count(fmt.Sprintf("sget-batches-read=%d", min(len(rec), 8)))
		if err != nil {
			s.fail(fmt.Sprintf("fresh instance at the committed root cannot read %x: %v", k, err))
		}
		if len(rec) > 0 && rng.Chance(1, 3) {
			// withhold one of the pairs: the real trie on such a store and the model must both fail
			drop := rng.Intn(len(rec))
			mem := db.NewDB(db.MemoryImpl, "")
			var kept []string
			for i, p := range rec {
				if i != drop {
					mem.Set(p[0], p[1])
					kept = append(kept, parts[i])
				}
			}
			t2 := trie.NewTrie(root, common.Hasher, mem)
			v2, err2 := t2.Get(k)
			out2 := "nil"
			if err2 != nil {
				out2 = "err"
			} else if len(v2) != 0 {
				out2 = hex.EncodeToString(v2)
			}
			s.op("sget "+rs+" "+hex.EncodeToString(k)+" "+strings.Join(kept, " "), out2, true)
			s.run.Count("sget-pair-withheld")
		}
	}
}

func (s *sess) reopen(i int) {
	c := s.commits[i]
	if s.run.Rng.Chance(1, 2) {
		// the root is switched on the LIVE instance, caches and all (StateDB.SetRoot / Revert: `states.Trie.Root = root`)
		s.tr.Root = cpRoot(c.root)
		s.run.Count("reopen-root-switched-on-live-instance")
	} else {
		s.tr = trie.NewTrie(c.root, common.Hasher, s.store)
		if s.cacheH > 0 {
			s.tr.CacheHeightLimit = s.cacheH
			if err := s.tr.LoadCache(c.root); err != nil && len(c.root) != 0 {
				s.fail("LoadCache: " + err.Error())
			}
		}
	}
	s.ref = map[string][]byte{}
	for k, v := range c.m {
		s.ref[k] = v
	}
	s.op(fmt.Sprintf("reopen %d", i), rootStr(c.root), false)
	s.run.Count("reopen")
	s.checkReads(s.tr, s.ref, fmt.Sprintf("through the instance reopened at committed root #%d", i))
}

// ---- generators -------------------------------------------------------------

// universe of n keys colliding on long prefixes: split positions concentrated at
// 0..8, around multiples of 4 (batch boundaries) and at the very bottom 248..255.
func genUniverse(r *vh.Rng, n int) [][]byte {
	base := r.Bytes(32)
	// a third of the universes sit on the edge slots of the 4-level batches: nibble 0xF is the path 1111 (slot 30,
	// the last slot serializeBatch writes and the last bitmap bit), nibble 0x0 the path 0000 (slot 15)
	switch r.Intn(9) {
	case 0:
		for i := range base {
			base[i] = 0xff
		}
	case 1:
		for i := range base {
			base[i] = 0
		}
	case 2:
		for i := range base {
			if r.Bool() {
				base[i] |= 0xf0
			}
			if r.Bool() {
				base[i] |= 0x0f
			}
		}
	}
	keys := [][]byte{base}
	seen := map[string]bool{string(base): true}
	for len(keys) < n {
		from := keys[r.Intn(len(keys))]
		k := append([]byte{}, from...)
		var pos int
		switch r.Intn(5) {
		case 0:
			pos = r.Intn(9)
		case 1:
			pos = 4*r.Intn(64) + r.Intn(3) - 1
		case 2:
			pos = 248 + r.Intn(8)
		case 3:
			pos = 252 + r.Intn(4)
		default:
			pos = r.Intn(256)
		}
		if pos < 0 {
			pos = 0
		}
		if pos > 255 {
			pos = 255
		}
		k[pos/8] ^= 1 << uint(7-pos%8)
		// sometimes randomise the tail after the split position
		if r.Chance(1, 3) {
			for b := pos + 1; b < 256; b++ {
				if r.Bool() {
					k[b/8] ^= 1 << uint(7-b%8)
				}
			}
		}
		if !seen[string(k)] {
			seen[string(k)] = true
			keys = append(keys, k)
		}
	}
	sort.Slice(keys, func(i, j int) bool { return bytes.Compare(keys[i], keys[j]) < 0 })
	return keys
}

func val(r *vh.Rng) []byte {
	v := r.Bytes(32)
	if v[0] == 0 && len(v) == 1 {
		v[0] = 1
	}
	return v
}

func main() {
	run := vh.Start("c10", "sessions of sorted update/delete batches on key universes colliding on long prefixes; exhaustive: every sequence of batches "+
		"(each key absent/put/delete) over small universes at several prefix geometries; random: up to 30 batches x 24 keys with commits, reopen at "+
		"historical roots (forking), the shape 'delete the shortcut with inserts on both sides'. non-trivial = batch applied or non-nil read; distinct by (op, answer)")
	run.EvalTerms(evalLine)
	defer run.Finish()
	rng := run.Rng
	if run.Replay != "" {
		replay(run)
		return
	}

	// ---- exhaustive small scope
	geoms := run.Pick(6, 16)
	for g := 0; g < geoms; g++ {
		// arity 4: each key absent / put v0 / put v1 / DEL; arity 3: absent / put / DEL
		nk, seqLen, arity := 3, 2, 4
		switch g % 3 {
		case 1:
			nk, seqLen, arity = 4, 2, 3
		case 2:
			nk, seqLen, arity = 3, 3, 3
			if !run.Thorough() {
				nk, seqLen, arity = 2, 3, 4
			}
		}
		univ := genUniverse(rng, nk)
		vals := [][]byte{val(rng), val(rng)}
		nb := 1
		for i := 0; i < nk; i++ {
			nb *= arity
		}
		var rec func(s []int)
		rec = func(seq []int) {
			if len(seq) == seqLen {
				s := newSess(run, univ, 0)
				for _, code := range seq {
					var batch []kv
					c := code
					for i := 0; i < nk; i++ {
						switch c % arity {
						case 1:
							batch = append(batch, kv{univ[i], vals[0]})
						case 2:
							batch = append(batch, kv{univ[i], nil})
						case 3:
							batch = append(batch, kv{univ[i], vals[1]})
						}
						c /= arity
					}
					s.update(batch)
					s.commit()
				}
				return
			}
			for c := 1; c < nb; c++ {
				rec(append(seq, c))
			}
		}
		rec(nil)
		run.Count(fmt.Sprintf("exhaustive-geometry keys=%d seq=%d arity=%d", nk, seqLen, arity))
	}

	// ---- the trie through state/statedb, the way the node drives it (sdb.go)
	for n := 0; n < run.Pick(40, 600); n++ {
		if n%3 == 2 {
			storageSession(run)
		} else {
			accountSession(run)
		}
	}

	// ---- random sessions
	for n := 0; n < run.Pick(150, 3000); n++ {
		nk := 2 + rng.Intn(23)
		if run.Thorough() && rng.Chance(1, 50) {
			nk = 200 + rng.Intn(800)
		}
		univ := genUniverse(rng, nk)
		// The node itself never lowers CacheHeightLimit (no live cache); a fifth of the sessions enable it anyway
		// (trie_cache.go is anchored by the property) at a batch-boundary height.
		cacheH := 0
		if rng.Chance(1, 5) {
			cacheH = 256 - 4*rng.Intn(8)
		}
		s := newSess(run, univ, cacheH)
		if cacheH > 0 {
			run.Count("session-with-live-cache")
		}
		nb := 1 + rng.Intn(30)
		for b := 0; b < nb; b++ {
			var batch []kv
			switch rng.Intn(6) {
			case 0:
				// delete a present key with puts on both sides of it
				var present [][]byte
				for _, k := range univ {
					if _, ok := s.ref[string(k)]; ok {
						present = append(present, k)
					}
				}
				if len(present) > 0 {
					d := present[rng.Intn(len(present))]
					batch = append(batch, kv{d, nil})
					for _, k := range univ {
						if !bytes.Equal(k, d) && rng.Chance(1, 2) {
							batch = append(batch, kv{k, val(rng)})
						}
					}
					run.Count("shape-delete-with-puts-around")
				}
			case 1:
				// single key
				k := univ[rng.Intn(len(univ))]
				if rng.Chance(1, 3) {
					batch = append(batch, kv{k, nil})
				} else {
					batch = append(batch, kv{k, val(rng)})
				}
			default:
				p := 1 + rng.Intn(4)
				for _, k := range univ {
					if rng.Chance(p, 5) {
						if rng.Chance(3, 10) {
							batch = append(batch, kv{k, nil})
						} else {
							batch = append(batch, kv{k, val(rng)})
						}
					}
				}
			}
			if len(batch) == 0 {
				batch = append(batch, kv{univ[rng.Intn(len(univ))], val(rng)})
			}
			s.update(batch)
			if nk <= 40 {
				s.gets(2)
			}
			if rng.Chance(1, 6) {
				s.keys()
			}
			// The node applies exactly one batch per commit. Occasionally the same batch is applied again before the
			// commit (StateDB.Update re-exports an unchanged buffer: fix d09c8a7f). Several DIFFERENT batches before
			// one commit are not generated: outside the property ("one batch per commit"), and the trie loses a node
			// there when a shortcut moves between height 256 and height 0 (byte(256) == byte(0): equal leaf hashes) -
			// recorded in notes/C10.md as an observation.
			if rng.Chance(1, 8) {
				s.update(batch)
				run.Count("batch-applied-twice")
			}
			s.commit()
			if len(s.commits) > 1 && rng.Chance(1, 6) {
				s.reopen(rng.Intn(len(s.commits)))
			}
		}
	}
}

func min(a, b int) int {
	if a < b {
		return a
	}
	return b
}

// replay re-executes the operation lines of a replay file (JSON {"input":{"ops":[...]}} written by ./check, or plain lines).
func replay(run *vh.Run) {
	raw, err := os.ReadFile(run.Replay)
	if err != nil {
		panic(err)
	}
	var lines []string
	var js struct {
		Input struct {
			Ops []string `json:"ops"`
		} `json:"input"`
	}
	if json.Unmarshal(raw, &js) == nil && len(js.Input.Ops) > 0 {
		lines = js.Input.Ops
	} else {
		lines = strings.Split(string(raw), "\n")
	}
	for _, l := range lines {
		if strings.HasPrefix(l, "#sdb ") {
			replaySdb(run, lines)
			return
		}
	}
	var s *sess
	for _, l := range lines {
		f := strings.Fields(l)
		if len(f) == 0 || strings.HasPrefix(l, "#") {
			continue
		}
		switch f[0] {
		case "new":
			ch := 0
			if len(f) > 1 {
				ch, _ = strconv.Atoi(f[1])
			}
			s = newSess(run, nil, ch)
			if len(f) <= 2 && s.track {
				// the recorded session did not follow updatedNodes: keep its op stream as it was
				s.track = false
			}
		case "update":
			var batch []kv
			for _, p := range f[1:] {
				i := strings.Index(p, "=")
				k, _ := hex.DecodeString(p[:i])
				if p[i+1:] == "DEL" {
					batch = append(batch, kv{k, nil})
				} else {
					v, _ := hex.DecodeString(p[i+1:])
					batch = append(batch, kv{k, v})
				}
				seen := false
				for _, u := range s.univ {
					seen = seen || bytes.Equal(u, k)
				}
				if !seen {
					s.univ = append(s.univ, k)
				}
			}
			s.update(batch)
		case "get":
			k, _ := hex.DecodeString(f[1])
			v, _ := s.tr.Get(k)
			out := "nil"
			if len(v) != 0 {
				out = hex.EncodeToString(v)
			}
			s.op(l, out, true)
		case "keys":
			s.keys()
		case "commit":
			s.commit()
		case "reopen":
			i, _ := strconv.Atoi(f[1])
			if i < len(s.commits) {
				s.reopen(i)
			}
		}
	}
}
