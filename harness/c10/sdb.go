// StateDB-driven sessions of harness c10: the trie is used "the way the node does once per block" —
// through state/statedb: a fresh StateDB opened at the current root per block (ChainStateDB.OpenNewStateDB),
// PutState / contract SetData+DeleteData, StateDB.Update (stateBuffer.export -> Trie.Update; contract storages via
// bufferedStorage.update), StateDB.Commit (NewBulk -> Trie.StageUpdates -> Flush, state marker), then SetRoot on the
// long-lived instance (ChainStateDB.UpdateRoot); a reorganisation is SetRoot to an older root on that live instance;
// a failed block is an Update that is never committed. The model sees the same op stream as for the bare trie
// (new / update / commit / reopen): the account trie in `account` sessions, one contract's storage trie in `storage`
// sessions (keys = Hasher(user key), value = Hasher(value), delete marker = valueEntry.Hash() of a nil value).
package main

import (
	"bytes"
	"encoding/hex"
	"fmt"
	"sort"
	"strings"

	"github.com/aergoio/aergo/v2/internal/common"
	"github.com/aergoio/aergo/v2/internal/enc/proto"
	"github.com/aergoio/aergo/v2/pkg/trie"
	"github.com/aergoio/aergo/v2/state/statedb"
	"github.com/aergoio/aergo/v2/types"
	"github.com/aergoio/aergo/v2/zz_verif/vh"
)

type sdbSess struct {
	*sess
	long *statedb.StateDB // the node's long-lived instance: only SetRoot and reads
	// account sessions: the states behind the trie values
	states map[string]*types.State
	// storage sessions: one contract, user key -> value; hashed key -> user key
	head     int // index of the commit the chain currently stands on
	cid      []byte
	userKeys [][]byte
	data     map[string][]byte
	acctRoot [][]byte // account-trie root per commit (storage sessions: the model's roots are storage roots)
	dataAt   []map[string][]byte
	statesAt []map[string]*types.State
}

func stateHash(st *types.State) []byte {
	buf, err := proto.Encode(st)
	if err != nil {
		panic(err)
	}
	return common.Hasher(buf)
}

func newSdbSess(run *vh.Run, univ [][]byte, track bool) *sdbSess {
	s := &sess{run: run, store: newStore(), ref: map[string][]byte{}, univ: univ, track: track}
	s.tr = trie.NewTrie(nil, common.Hasher, s.store)
	if track {
		s.op("new 0 w", "ok", false)
	} else {
		s.op("new 0", "ok", false)
	}
	return &sdbSess{sess: s, long: statedb.NewStateDB(s.store, nil, false), states: map[string]*types.State{}, data: map[string][]byte{}}
}

// afterCommit: the checks of sess.commit on the trie whose root the model follows.
func (s *sdbSess) afterCommit(root []byte) {
	s.tr = trie.NewTrie(root, common.Hasher, s.store)
	m := map[string][]byte{}
	for k, v := range s.ref {
		m[k] = v
	}
	s.commits = append(s.commits, commitRec{cpRoot(root), m})
	s.head = len(s.commits) - 1
	s.wset(root)
	s.op("commit", fmt.Sprintf("ok %d", len(s.commits)-1), false)
	s.batchCodec()
	s.storeLayer()
	if len(s.store.bad) > 0 {
		s.fail("store is not persistent/content-addressed (StateDB.Commit): " + s.store.bad[0])
		s.store.bad = nil
	}
	for i, c := range s.commits {
		if len(s.commits) > 4 && i < len(s.commits)-3 && s.run.Rng.Intn(3) != 0 {
			continue
		}
		t := trie.NewTrie(c.root, common.Hasher, s.store)
		s.checkReads(t, c.m, fmt.Sprintf("on a fresh instance at committed root #%d (StateDB session)", i))
	}
}

// ---- account trie through StateDB ---------------------------------------------

type aput struct {
	id []byte
	st *types.State
}

func (s *sdbSess) accountBlock(puts []aput, twice, abandon bool) {
	bs := statedb.NewStateDB(s.store, s.long.GetRoot(), false)
	for _, p := range puts {
		s.log = append(s.log, fmt.Sprintf("#put %x %d %x", p.id, p.st.Nonce, p.st.Balance))
	}
	s.log = append(s.log, fmt.Sprintf("#block twice=%v abandon=%v", twice, abandon))
	prevRef, prevStates := s.ref, s.states
	s.ref, s.states = map[string][]byte{}, map[string]*types.State{}
	for k, v := range prevRef {
		s.ref[k] = v
	}
	for k, v := range prevStates {
		s.states[k] = v
	}
	// the same account may be put several times in a block: stateBuffer.export keeps the latest entry per key
	touched := map[string]bool{}
	var order [][]byte
	for _, p := range puts {
		id, st := p.id, p.st
		if err := bs.PutState(types.AccountID(types.ToHashID(id)), st); err != nil {
			s.fail("PutState: " + err.Error())
			return
		}
		s.ref[string(id)] = stateHash(st)
		s.states[string(id)] = st
		if !touched[string(id)] {
			touched[string(id)] = true
			order = append(order, id)
		} else {
			s.run.Count("sdb-account-put-twice-in-a-block")
		}
	}
	sort.Slice(order, func(i, j int) bool { return bytes.Compare(order[i], order[j]) < 0 })
	var parts []string
	for _, id := range order {
		parts = append(parts, hex.EncodeToString(id)+"="+hex.EncodeToString(s.ref[string(id)]))
	}
	op := "update " + strings.Join(parts, " ")
	upd := func() string {
		s.run.Pending(op)
		out, _ := vh.Guard(func() string {
			if err := bs.Update(); err != nil {
				return "err"
			}
			return rootStr(bs.GetRoot())
		})
		s.op(op, out, true)
		return out
	}
	out := upd()
	s.run.Count("sdb-account-block")
	if out == "err" || strings.HasPrefix(out, "panic") {
		s.fail("StateDB.Update failed: " + out)
		return
	}
	if twice {
		if out2 := upd(); out2 != out {
			s.fail("a second StateDB.Update with an unchanged buffer changes the root: " + out + " -> " + out2)
		}
		s.run.Count("sdb-update-twice")
	}
	if want := rootStr(freshRoot(s.ref)); want != out {
		s.fail(fmt.Sprintf("root depends on history (StateDB): got %s, a fresh trie with the same %d pairs has %s", out, len(s.ref), want))
	}
	if abandon && len(s.commits) > 0 {
		// the block is dropped after Update (validation failed): nothing is committed, the chain stays where it was
		s.ref, s.states = prevRef, prevStates
		s.op(fmt.Sprintf("reopen %d", s.head), rootStr(s.long.GetRoot()), false)
		s.run.Count("sdb-block-abandoned-after-update")
		return
	}
	if err := bs.Commit(); err != nil {
		s.fail("StateDB.Commit: " + err.Error())
		return
	}
	root := cpRoot(bs.GetRoot())
	if err := s.long.SetRoot(root); err != nil {
		s.fail("SetRoot: " + err.Error())
	}
	if len(root) != 0 && !s.long.HasMarker(root) {
		s.fail("committed state root has no marker")
	}
	st := map[string]*types.State{}
	for k, v := range s.states {
		st[k] = v
	}
	s.statesAt = append(s.statesAt, st)
	s.afterCommit(root)
	s.checkStates("after commit")
}

// checkStates: the long-lived instance (root set on a live instance) answers every account of the universe.
func (s *sdbSess) checkStates(when string) {
	for _, id := range s.univ {
		got, err := s.long.GetState(types.AccountID(types.ToHashID(id)))
		want := s.states[string(id)]
		if err != nil || (got == nil) != (want == nil) || (got != nil && !proto.Equal(got, want)) {
			s.fail(fmt.Sprintf("StateDB.GetState %x %s: got %v (err %v), expected %v", id, when, got, err, want))
			return
		}
	}
}

func (s *sdbSess) accountReorg(i int) {
	s.log = append(s.log, fmt.Sprintf("#reorg %d", i))
	s.head = i
	c := s.commits[i]
	if err := s.long.SetRoot(c.root); err != nil {
		s.fail("SetRoot: " + err.Error())
	}
	s.ref = map[string][]byte{}
	for k, v := range c.m {
		s.ref[k] = v
	}
	s.states = map[string]*types.State{}
	for k, v := range s.statesAt[i] {
		s.states[k] = v
	}
	s.op(fmt.Sprintf("reopen %d", i), rootStr(c.root), false)
	s.run.Count("sdb-reorg-setroot-live-instance")
	s.checkStates("after SetRoot to an older root")
}

func accountSession(run *vh.Run) {
	rng := run.Rng
	var univ [][]byte
	for _, k := range genUniverse(rng, 3+rng.Intn(20)) {
		if !bytes.Equal(k, make([]byte, 32)) { // EmptyAccountID is refused by PutState
			univ = append(univ, k)
		}
	}
	s := newSdbSess(run, univ, true)
	s.log = append(s.log, "#sdb account")
	nb := 2 + rng.Intn(16)
	for b := 0; b < nb; b++ {
		var puts []aput
		p := 1 + rng.Intn(4)
		for _, k := range univ {
			if rng.Chance(p, 5) {
				puts = append(puts, aput{k, &types.State{Nonce: uint64(rng.Intn(1 << 20)), Balance: rng.Bytes(1 + rng.Intn(8))}})
			}
		}
		if len(puts) == 0 {
			puts = append(puts, aput{univ[rng.Intn(len(univ))], &types.State{Nonce: uint64(rng.Intn(1 << 20))}})
		}
		if rng.Chance(1, 4) {
			// the same account again, later in the block, with another state
			puts = append(puts, aput{puts[rng.Intn(len(puts))].id, &types.State{Nonce: uint64(rng.Intn(1 << 20)), Balance: rng.Bytes(3)}})
		}
		s.accountBlock(puts, rng.Chance(1, 6), rng.Chance(1, 8))
		if len(s.commits) > 1 && rng.Chance(1, 5) {
			s.accountReorg(rng.Intn(len(s.commits)))
		}
	}
}

// ---- contract storage trie through StateDB --------------------------------------

func (s *sdbSess) storageRootOf(sdb *statedb.StateDB) ([]byte, error) {
	st, err := sdb.GetState(types.ToAccountID(s.cid))
	if err != nil || st == nil {
		return nil, err
	}
	return common.Compactz(st.StorageRoot), nil
}

type sput struct {
	k, v []byte // v == nil: DeleteData
}

func (s *sdbSess) storageBlock(puts []sput, twice bool) {
	for _, p := range puts {
		if p.v == nil {
			s.log = append(s.log, fmt.Sprintf("#data %x DEL", p.k))
		} else {
			s.log = append(s.log, fmt.Sprintf("#data %x %x", p.k, p.v))
		}
	}
	s.log = append(s.log, fmt.Sprintf("#block twice=%v abandon=false", twice))
	bs := statedb.NewStateDB(s.store, s.long.GetRoot(), false)
	cs, err := statedb.OpenContractStateAccount(s.cid, bs)
	if err != nil {
		s.fail("OpenContractStateAccount: " + err.Error())
		return
	}
	type hk struct{ h, k, v []byte }
	var hs []hk
	for _, p := range puts {
		if p.v == nil {
			cs.DeleteData(p.k)
			delete(s.data, string(p.k))
		} else {
			cs.SetData(p.k, p.v)
			s.data[string(p.k)] = p.v
		}
		hs = append(hs, hk{common.Hasher(p.k), p.k, p.v})
	}
	sort.Slice(hs, func(i, j int) bool { return bytes.Compare(hs[i].h, hs[j].h) < 0 })
	var parts []string
	dels, absent := 0, 0
	for _, e := range hs {
		if e.v == nil {
			parts = append(parts, hex.EncodeToString(e.h)+"=DEL")
			dels++
			if _, ok := s.ref[string(e.h)]; !ok {
				absent++
			}
			delete(s.ref, string(e.h))
		} else {
			vh := common.Hasher(e.v)
			parts = append(parts, hex.EncodeToString(e.h)+"="+hex.EncodeToString(vh))
			s.ref[string(e.h)] = vh
		}
	}
	if err := statedb.StageContractState(cs, bs); err != nil {
		s.fail("StageContractState: " + err.Error())
		return
	}
	op := "update " + strings.Join(parts, " ")
	upd := func() string {
		s.run.Pending(op)
		out, _ := vh.Guard(func() string {
			if err := bs.Update(); err != nil {
				return "err"
			}
			r, err := s.storageRootOf(bs)
			if err != nil {
				return "err"
			}
			return rootStr(r)
		})
		s.op(op, out, true)
		return out
	}
	out := upd()
	s.run.Count("sdb-storage-block")
	if dels > 0 {
		s.run.Count("sdb-storage-block-with-deletes")
	}
	if absent > 0 {
		s.run.Count("sdb-storage-deletes-absent-key")
	}
	if out == "err" || strings.HasPrefix(out, "panic") {
		s.fail("StateDB.Update (contract storage) failed: " + out)
		return
	}
	if twice {
		if out2 := upd(); out2 != out {
			s.fail("a second StateDB.Update with an unchanged buffer changes the storage root: " + out + " -> " + out2)
		}
		s.run.Count("sdb-update-twice")
	}
	if want := rootStr(freshRoot(s.ref)); want != out {
		s.fail(fmt.Sprintf("storage root depends on history (StateDB): got %s, a fresh trie with the same %d pairs has %s", out, len(s.ref), want))
	}
	if err := bs.Commit(); err != nil {
		s.fail("StateDB.Commit: " + err.Error())
		return
	}
	if err := s.long.SetRoot(bs.GetRoot()); err != nil {
		s.fail("SetRoot: " + err.Error())
	}
	s.acctRoot = append(s.acctRoot, cpRoot(bs.GetRoot()))
	d := map[string][]byte{}
	for k, v := range s.data {
		d[k] = v
	}
	s.dataAt = append(s.dataAt, d)
	sroot, _ := s.storageRootOf(s.long)
	if rootStr(sroot) != out {
		s.fail("storage root in the committed account state differs from the root Update reported: " + rootStr(sroot) + " vs " + out)
	}
	s.afterCommit(sroot)
	s.checkData("after commit")
}

// checkData: a fresh StateDB at the live root reads the contract's data (GetData: storage trie -> value store).
func (s *sdbSess) checkData(when string) {
	fresh := statedb.NewStateDB(s.store, s.long.GetRoot(), false)
	cs, err := statedb.OpenContractStateAccount(s.cid, fresh)
	if err != nil {
		s.fail("OpenContractStateAccount: " + err.Error())
		return
	}
	for _, k := range s.userKeys {
		got, err := cs.GetData(k)
		want := s.data[string(k)]
		if err != nil || !bytes.Equal(got, want) {
			s.fail(fmt.Sprintf("ContractState.GetData %x %s: got %x (err %v), expected %x", k, when, got, err, want))
			return
		}
	}
}

func (s *sdbSess) storageReorg(i int) {
	s.log = append(s.log, fmt.Sprintf("#reorg %d", i))
	s.head = i
	if err := s.long.SetRoot(s.acctRoot[i]); err != nil {
		s.fail("SetRoot: " + err.Error())
	}
	c := s.commits[i]
	s.ref = map[string][]byte{}
	for k, v := range c.m {
		s.ref[k] = v
	}
	s.data = map[string][]byte{}
	for k, v := range s.dataAt[i] {
		s.data[k] = v
	}
	s.op(fmt.Sprintf("reopen %d", i), rootStr(c.root), false)
	s.run.Count("sdb-reorg-setroot-live-instance")
	s.checkData("after SetRoot to an older root")
}

func storageSession(run *vh.Run) {
	rng := run.Rng
	// user keys; the trie keys are their hashes (no long common prefixes: this session is about the wiring)
	nk := 1 + rng.Intn(14)
	var keys [][]byte
	for i := 0; i < nk; i++ {
		keys = append(keys, rng.Bytes(1+rng.Intn(12)))
	}
	// the read universe of the trie-level oracles is the hashed keys
	var hu [][]byte
	for _, k := range keys {
		hu = append(hu, common.Hasher(k))
	}
	s := newSdbSess(run, hu, false) // two tries share the commit: the written set is not the storage trie's alone
	s.userKeys = keys
	s.cid = rng.Bytes(33)
	s.log = append(s.log, fmt.Sprintf("#sdb storage %x", s.cid))
	nb := 2 + rng.Intn(14)
	for b := 0; b < nb; b++ {
		var puts []sput
		seen := map[string]bool{}
		p := 1 + rng.Intn(4)
		for _, k := range keys {
			if rng.Chance(p, 5) && !seen[string(k)] {
				seen[string(k)] = true
				if rng.Chance(2, 5) {
					puts = append(puts, sput{k, nil})
				} else {
					puts = append(puts, sput{k, rng.Bytes(1 + rng.Intn(40))})
				}
			}
		}
		if len(s.data) > 0 && rng.Chance(1, 5) {
			// the block empties the contract's storage: the storage root goes back to nil
			puts = nil
			for _, k := range keys {
				if _, ok := s.data[string(k)]; ok {
					puts = append(puts, sput{k, nil})
				}
			}
			run.Count("sdb-storage-block-deletes-everything")
		}
		if len(puts) == 0 {
			puts = append(puts, sput{keys[rng.Intn(len(keys))], rng.Bytes(8)})
		}
		s.storageBlock(puts, rng.Chance(1, 6))
		if len(s.commits) > 1 && rng.Chance(1, 5) {
			s.storageReorg(rng.Intn(len(s.commits)))
		}
	}
}

// replaySdb re-drives a StateDB session from the comment lines its log carries (#sdb / #put / #data / #block / #reorg);
// the op lines themselves (update / commit / reopen) are produced again by the session.
func replaySdb(run *vh.Run, lines []string) {
	var s *sdbSess
	storage := false
	var puts []aput
	var sputs []sput
	for _, l := range lines {
		f := strings.Fields(l)
		if len(f) == 0 {
			continue
		}
		switch f[0] {
		case "#sdb":
			storage = f[1] == "storage"
			s = newSdbSess(run, nil, !storage)
			if storage {
				s.cid, _ = hex.DecodeString(f[2])
			}
		case "#put":
			id, _ := hex.DecodeString(f[1])
			var n uint64
			fmt.Sscanf(f[2], "%d", &n)
			var bal []byte
			if len(f) > 3 {
				bal, _ = hex.DecodeString(f[3])
			}
			puts = append(puts, aput{id, &types.State{Nonce: n, Balance: bal}})
			s.addUniv(id)
		case "#data":
			k, _ := hex.DecodeString(f[1])
			var v []byte
			if f[2] != "DEL" {
				v, _ = hex.DecodeString(f[2])
				if v == nil {
					v = []byte{}
				}
			}
			sputs = append(sputs, sput{k, v})
			s.addUniv(common.Hasher(k))
			seen := false
			for _, u := range s.userKeys {
				seen = seen || bytes.Equal(u, k)
			}
			if !seen {
				s.userKeys = append(s.userKeys, k)
			}
		case "#block":
			if storage {
				s.storageBlock(sputs, f[1] == "twice=true")
			} else {
				s.accountBlock(puts, f[1] == "twice=true", f[2] == "abandon=true")
			}
			puts, sputs = nil, nil
		case "#reorg":
			var i int
			fmt.Sscanf(f[1], "%d", &i)
			if i < len(s.commits) {
				if storage {
					s.storageReorg(i)
				} else {
					s.accountReorg(i)
				}
			}
		}
	}
}

func (s *sdbSess) addUniv(k []byte) {
	for _, u := range s.univ {
		if bytes.Equal(u, k) {
			return
		}
	}
	s.univ = append(s.univ, k)
}
