// Contract-variable proofs (the second half of C11's title): StateDB.GetVarAndProof and the node's assembly of a
// StateQueryProof in ChainWorker.Receive(GetStateQuery) / of an AccountProof in Receive(GetStateAndProof), driven on
// a real ChainStateDB (memory store) that is filled block by block the way the chain does it (NewBlockState at the
// current root, OpenContractState / SetData / DeleteData / StageContractState / PutState, ChainStateDB.Apply).
//
// Oracle = what a light client does with the answer ("wallet style"):
//  1. the contract's AccountProof verifies against the REQUESTED state root, the leaf being H(marshal(State));
//  2. every ContractVarProof verifies against State.StorageRoot of that very contract proof, the leaf being
//     H(Value) for an included variable, (ProofKey, ProofVal) or an empty subtree for an absent one;
//  3. what is proved is what the storage held at that root (value / absence).
//
// The storage tries are also replayed on the Lean model (ops new/update/commit/reopen/prove/provec), so the trie-level
// fields of every ContractVarProof are compared with the model's merkleProof like those of the bare trie sessions.
package main

import (
	"bytes"
	"fmt"
	"sort"
	"strings"

	"github.com/aergoio/aergo-actor/actor"
	"github.com/aergoio/aergo-lib/db"
	"github.com/aergoio/aergo/v2/chain"
	"github.com/aergoio/aergo/v2/internal/common"
	"github.com/aergoio/aergo/v2/internal/enc/proto"
	"github.com/aergoio/aergo/v2/pkg/trie"
	"github.com/aergoio/aergo/v2/state"
	"github.com/aergoio/aergo/v2/state/statedb"
	"github.com/aergoio/aergo/v2/types"
	"github.com/aergoio/aergo/v2/types/dbkey"
	"github.com/aergoio/aergo/v2/types/message"
	"github.com/aergoio/aergo/v2/zz_verif/vh"
)

// the only two methods of actor.Context the proof messages use
type respCtx struct {
	actor.Context
	msg interface{}
	rsp interface{}
	n   int
}

func (c *respCtx) Message() interface{}  { return c.msg }
func (c *respCtx) Respond(r interface{}) { c.rsp = r; c.n++ }

type csnap struct {
	root  []byte
	acct  map[string]*types.State      // address -> state stored at that root
	stor  map[string]map[string][]byte // address -> variable name -> value at that root
	sroot map[string][]byte            // address -> storage root at that root (from our own bookkeeping of Apply)
}

type cworld struct {
	run       *vh.Run
	csdb      *state.ChainStateDB
	cw        *chain.ChainWorker
	contracts [][]byte // 33-byte addresses: contracts (with or without storage) and plain accounts
	vars      [][]byte // variable names; trie key = sha256(name)
	snaps     []csnap
	batches   []map[string][]kv // per round: address -> storage batch (trie key, value hash or nil=delete)
	touched   [][]string        // per round: addresses whose account state was written
	desc      string
}

func varKey(name []byte) []byte { h := types.GetHashID(name); return h[:] }

func cloneStates(m map[string]*types.State) map[string]*types.State {
	o := map[string]*types.State{}
	for k, v := range m {
		o[k] = v.Clone()
	}
	return o
}

func cloneStor(m map[string]map[string][]byte) map[string]map[string][]byte {
	o := map[string]map[string][]byte{}
	for a, vs := range m {
		c := map[string][]byte{}
		for k, v := range vs {
			c[k] = v
		}
		o[a] = c
	}
	return o
}

// buildContracts fills a fresh chain state DB over several blocks.
func buildContracts(run *vh.Run) *cworld {
	rng := run.Rng
	csdb, err := state.VerifC11ChainStateDBOn(db.NewDB(db.MemoryImpl, ""))
	if err != nil {
		panic(err)
	}
	w := &cworld{run: run, csdb: csdb, cw: chain.VerifC11Worker(csdb)}
	nc := 3 + rng.Intn(4)
	for i := 0; i < nc; i++ {
		w.contracts = append(w.contracts, rng.Bytes(33))
	}
	nv := 3 + rng.Intn(10)
	for i := 0; i < nv; i++ {
		w.vars = append(w.vars, []byte(fmt.Sprintf("_sv_v%d_%x", i, rng.Bytes(2))))
	}
	// contract #0 never gets any storage (a deployed contract without state variables, or a plain account);
	// contract #1 gets storage and later loses every variable again (storage root back to nil)
	acct := map[string]*types.State{}
	stor := map[string]map[string][]byte{}
	rounds := 2 + rng.Intn(4)
	wipeAt := 1 + rng.Intn(rounds)
	for r := 0; r < rounds; r++ {
		bs := csdb.NewBlockState(csdb.GetRoot())
		batches := map[string][]kv{}
		var touched []string
		for ci, addr := range w.contracts {
			skip := rng.Chance(1, 3)
			if (r == rounds-1 && acct[string(addr)] == nil) || (ci == 1 && r == wipeAt) || (r == 0 && ci == 0) {
				// every account exists at the last root; the wipe takes place; no block leaves the state root empty
				// (an empty root cannot be REQUESTED: in the API it means "the latest root")
				skip = false
			}
			if skip {
				continue
			}
			cs, err := statedb.OpenContractStateAccount(addr, bs.StateDB)
			if err != nil {
				panic(err)
			}
			cs.State.Nonce = cs.State.GetNonce() + 1
			cs.State.Balance = rng.Bytes(1 + rng.Intn(8))
			cur := stor[string(addr)]
			if cur == nil {
				cur = map[string][]byte{}
			}
			var batch []kv
			for _, v := range w.vars {
				switch {
				case ci == 0:
					// never any storage
				case ci == 1 && r == wipeAt:
					if _, ok := cur[string(v)]; ok {
						cs.DeleteData(v)
						delete(cur, string(v))
						batch = append(batch, kv{varKey(v), nil})
					}
				case rng.Chance(2, 5):
					if _, ok := cur[string(v)]; ok && rng.Chance(1, 2) {
						cs.DeleteData(v)
						delete(cur, string(v))
						batch = append(batch, kv{varKey(v), nil})
					} else {
						val := rng.Bytes(rng.Intn(40)) // incl. the empty value
						if val == nil {
							val = []byte{}
						}
						cs.SetData(v, val)
						cur[string(v)] = val
						batch = append(batch, kv{varKey(v), common.Hasher(val)})
					}
				}
			}
			stor[string(addr)] = cur
			if len(batch) > 0 {
				batches[string(addr)] = batch
			}
			if err := statedb.StageContractState(cs, bs.StateDB); err != nil {
				panic(err)
			}
			if err := bs.PutState(cs.GetAccountID(), cs.State); err != nil {
				panic(err)
			}
			acct[string(addr)] = cs.State
			touched = append(touched, string(addr))
		}
		if err := csdb.Apply(bs); err != nil {
			panic(err)
		}
		// what the chain now holds (read back through the ordinary state API, not through the proof API)
		sn := csnap{root: append([]byte{}, csdb.GetRoot()...), acct: map[string]*types.State{}, stor: cloneStor(stor), sroot: map[string][]byte{}}
		rd := csdb.OpenNewStateDB(sn.root)
		for a := range acct {
			st, err := rd.GetState(types.ToAccountID([]byte(a)))
			if err != nil || st == nil {
				panic(fmt.Sprint("state read back: ", err))
			}
			sn.acct[a] = st
			sn.sroot[a] = st.GetStorageRoot()
		}
		w.snaps = append(w.snaps, sn)
		w.batches = append(w.batches, batches)
		w.touched = append(w.touched, touched)
	}
	w.desc = fmt.Sprintf("%d contracts, %d variables, %d blocks (contract #0 never has storage, #1 is wiped in block %d)", nc, nv, rounds, wipeAt)
	return w
}

// walletVar: does the variable proof convince a client holding storageRoot? "" = yes, else the reason.
func walletVar(pr *types.ContractVarProof, key, storageRoot []byte, compressed bool) string {
	vt := trie.NewTrie(storageRoot, common.Hasher, nil)
	res, _ := vh.Guard(func() string {
		if pr.GetInclusion() {
			leaf := common.Hasher(pr.GetValue())
			var ok bool
			if compressed {
				ok = vt.VerifyInclusionC(pr.GetBitmap(), key, leaf, pr.GetAuditPath(), int(pr.GetHeight()))
			} else {
				ok = vt.VerifyInclusion(pr.GetAuditPath(), key, leaf)
			}
			if !ok {
				return "the inclusion proof does not verify against the contract's storage root"
			}
			return ""
		}
		var ok bool
		if compressed {
			ok = vt.VerifyNonInclusionC(pr.GetAuditPath(), int(pr.GetHeight()), pr.GetBitmap(), key, pr.GetProofVal(), pr.GetProofKey())
		} else {
			ok = vt.VerifyNonInclusion(pr.GetAuditPath(), key, pr.GetProofVal(), pr.GetProofKey())
		}
		if !ok {
			return "the non-inclusion proof does not verify against the contract's storage root"
		}
		return ""
	})
	return res
}

// walletAcct: the same for an account proof against a state root.
func walletAcct(pr *types.AccountProof, id, root []byte, compressed bool) string {
	vt := trie.NewTrie(root, common.Hasher, nil)
	res, _ := vh.Guard(func() string {
		if pr.GetInclusion() {
			buf, err := statedb.Marshal(pr.GetState())
			if err != nil {
				return "state does not marshal"
			}
			leaf := common.Hasher(buf)
			var ok bool
			if compressed {
				ok = vt.VerifyInclusionC(pr.GetBitmap(), id, leaf, pr.GetAuditPath(), int(pr.GetHeight()))
			} else {
				ok = vt.VerifyInclusion(pr.GetAuditPath(), id, leaf)
			}
			if !ok {
				return "the account proof does not verify against the requested root"
			}
			return ""
		}
		var ok bool
		if compressed {
			ok = vt.VerifyNonInclusionC(pr.GetAuditPath(), int(pr.GetHeight()), pr.GetBitmap(), id, pr.GetProofVal(), pr.GetProofKey())
		} else {
			ok = vt.VerifyNonInclusion(pr.GetAuditPath(), id, pr.GetProofVal(), pr.GetProofKey())
		}
		if !ok {
			return "the account non-inclusion proof does not verify against the requested root"
		}
		return ""
	})
	return res
}

func (w *cworld) replay(extra map[string]interface{}) map[string]interface{} {
	m := map[string]interface{}{"world": w.desc, "seed": w.run.Seed}
	for k, v := range extra {
		m[k] = v
	}
	return m
}

// judgeVar applies the oracle to one ContractVarProof. sroot is the storage root the client holds (nil for a
// contract without storage: the proof must then be the empty-trie proof). Returns false when the proof is not what
// the property demands.
func (w *cworld) judgeVar(what string, pr *types.ContractVarProof, err error, name []byte, sroot []byte, want []byte, present bool, compressed bool, rp map[string]interface{}) bool {
	run := w.run
	if err != nil || pr == nil {
		run.Fail(what+": error "+fmt.Sprint(err), w.replay(rp))
		return false
	}
	key := varKey(name)
	if pr.GetInclusion() != present {
		run.Fail(fmt.Sprintf("%s: inclusion=%v but the variable %s at that root", what, pr.GetInclusion(), map[bool]string{true: "exists", false: "does not exist"}[present]), w.replay(rp))
		return false
	}
	if present && !bytes.Equal(pr.GetValue(), want) {
		run.Fail(fmt.Sprintf("%s: returned value %x, stored value %x", what, pr.GetValue(), want), w.replay(rp))
		return false
	}
	if msg := walletVar(pr, key, sroot, compressed); msg != "" {
		run.Fail(what+": "+msg, w.replay(rp))
		return false
	}
	return true
}

func batchLine(b []kv) string {
	sort.Slice(b, func(i, j int) bool { return bytes.Compare(b[i].k, b[j].k) < 0 })
	var parts []string
	for _, e := range b {
		if e.v == nil {
			parts = append(parts, fmt.Sprintf("%x=DEL", e.k))
		} else {
			parts = append(parts, fmt.Sprintf("%x=%x", e.k, e.v))
		}
	}
	return "update " + strings.Join(parts, " ")
}

// direct drives StateDB.GetAccountAndProof and StateDB.GetVarAndProof on the LIVE instance (positioned at the
// latest root) for every account / contract, variable, block and encoding, and replays the account trie and every
// storage trie on the Lean model (getAccountProof / getVarProof of Model/TrieCompress.lean).
//
// sdb is the instance asked: the quiescent live StateDB, or a block state in mid-execution whose buffers hold NEWER
// uncommitted versions of the accounts and variables (label says which); the expectations are the committed
// snapshots in every case. latestOK: a request without root is meaningful (the instance's trie root is the last
// committed root). All proofs of one block are produced first and HELD, then judged (GetStateQuery holds them too).
func (w *cworld) direct(sdb *statedb.StateDB, label string, latestOK bool) {
	run := w.run
	last := len(w.snaps) - 1
	run.Count("instance asked: " + label)
	var held []func()
	flush := func() {
		for _, f := range held {
			f()
		}
		held = nil
	}
	// ---- the account trie, block by block; the model remembers the latest one as the instance's position
	s := &sess{run: run, ref: map[string][]byte{}}
	s.op("new", "ok", false)
	for r, sn := range w.snaps {
		var b []kv
		for _, a := range w.touched[r] {
			id := types.ToAccountID([]byte(a))
			buf, err := statedb.Marshal(sn.acct[a])
			if err != nil {
				panic(err)
			}
			b = append(b, kv{append([]byte{}, id[:]...), common.Hasher(buf)})
		}
		if len(b) > 0 {
			s.op(batchLine(b), rootStr(sn.root), true)
		}
		s.op("commit", fmt.Sprintf("ok %d", r), false)
	}
	s.op("setacct", "ok", false)
	addrs := append([][]byte{}, w.contracts...)
	addrs = append(addrs, run.Rng.Bytes(33)) // never created
	for si, sn := range w.snaps {
		s.op(fmt.Sprintf("reopen %d", si), rootStr(sn.root), false)
		for ai, addr := range addrs {
			id := types.ToAccountID(addr)
			for _, compressed := range []bool{false, true} {
				for _, mode := range []string{"req", "latest"} {
					if mode == "latest" && (si != 0 || !latestOK) {
						continue // one pass is enough: the request names no root
					}
					at := sn
					var reqRoot []byte
					if mode == "req" && len(sn.root) == 0 {
						continue // an empty root cannot be requested (it means "latest")
					}
					if mode == "req" {
						reqRoot = sn.root
					} else {
						at = w.snaps[last]
					}
					what := fmt.Sprintf("GetAccountAndProof(account #%d, block #%d of %d root=%s, compressed=%v) on the instance [%s]", ai, si, len(w.snaps), mode, compressed, label)
					rp := map[string]interface{}{"account": ai, "block": si, "root": mode, "compressed": compressed, "stateRoot": hx(at.root), "instance": label}
					var pr *types.AccountProof
					var err error
					if _, p := vh.Guard(func() string { pr, err = sdb.GetAccountAndProof(id[:], reqRoot, compressed); return "" }); p || err != nil || pr == nil {
						run.Fail(fmt.Sprintf("%s: panic=%v error=%v", what, p, err), w.replay(rp))
						continue
					}
					held = append(held, func() {
						run.Eval(what+w.desc, true)
						st, exists := at.acct[string(addr)]
						run.Count(fmt.Sprintf("account-proof(live) exists=%v compressed=%v root=%s", exists, compressed, mode))
						if pr.GetInclusion() != exists {
							run.Fail(fmt.Sprintf("%s: inclusion=%v, exists at that root=%v", what, pr.GetInclusion(), exists), w.replay(rp))
							return
						}
						if exists && (pr.GetState().GetNonce() != st.GetNonce() || !bytes.Equal(pr.GetState().GetBalance(), st.GetBalance()) || !bytes.Equal(pr.GetState().GetStorageRoot(), st.GetStorageRoot())) {
							run.Fail(what+": the state returned is not the state stored at that root", w.replay(rp))
							return
						}
						if msg := walletAcct(pr, id[:], at.root, compressed); msg != "" {
							run.Fail(what+": "+msg, w.replay(rp))
							return
						}
						pv := pr.GetProofVal()
						if pr.GetInclusion() {
							buf, _ := statedb.Marshal(pr.GetState())
							pv = common.Hasher(buf)
						}
						head := fmt.Sprintf("inc=%v pk=%s pv=%s", pr.GetInclusion(), hx(pr.GetProofKey()), hx(pv))
						if compressed {
							s.op(fmt.Sprintf("acctprovec %x %s", id[:], mode), fmt.Sprintf("nproofc %s bitmap=%s len=%d ap=%s", head, hx(pr.GetBitmap()), pr.GetHeight(), hxl(pr.GetAuditPath())), true)
						} else {
							s.op(fmt.Sprintf("acctprove %x %s", id[:], mode), fmt.Sprintf("nproof %s ap=%s", head, hxl(pr.GetAuditPath())), true)
						}
					})
				}
			}
		}
		flush()
	}
	// ---- every contract's storage trie
	for ci, addr := range w.contracts {
		s.op("new", "ok", false)
		for r := range w.snaps {
			if b := w.batches[r][string(addr)]; len(b) > 0 {
				// the storage root the real StateDB committed for this contract in this block
				s.op(batchLine(b), rootStr(w.snaps[r].sroot[string(addr)]), true)
			}
			s.op("commit", fmt.Sprintf("ok %d", r), false)
		}
		for si, sn := range w.snaps {
			sroot, exists := sn.sroot[string(addr)]
			if !exists {
				continue // the account does not exist yet at that root
			}
			s.op(fmt.Sprintf("reopen %d", si), rootStr(sroot), false)
			for vi, name := range w.vars {
				want, present := sn.stor[string(addr)][string(name)]
				for _, compressed := range []bool{false, true} {
					what := fmt.Sprintf("GetVarAndProof(contract #%d, variable #%d, block #%d of %d, compressed=%v) on the instance [%s]", ci, vi, si, len(w.snaps), compressed, label)
					rp := map[string]interface{}{"contract": ci, "variable": string(name), "block": si, "compressed": compressed, "storageRoot": hx(sroot), "instance": label}
					var pr *types.ContractVarProof
					var err error
					if _, p := vh.Guard(func() string { pr, err = sdb.GetVarAndProof(varKey(name), sroot, compressed); return "" }); p {
						run.Fail(what+": panic", w.replay(rp))
						continue
					}
					held = append(held, func() {
						run.Eval(what+w.desc, true)
						kind := "absent"
						if present {
							kind = "present"
						} else if si > 0 {
							if _, was := w.snaps[si-1].stor[string(addr)][string(name)]; was {
								kind = "deleted"
							}
						}
						if len(sroot) == 0 {
							kind = "nil-storage-root"
						}
						run.Count(fmt.Sprintf("var-proof %s compressed=%v historical=%v", kind, compressed, si != last))
						if !w.judgeVar(what, pr, err, name, sroot, want, present, compressed, rp) {
							return
						}
						// model: the trie-level content of the answer
						pv := pr.GetProofVal()
						if pr.GetInclusion() {
							pv = common.Hasher(pr.GetValue())
						}
						head := fmt.Sprintf("inc=%v pk=%s pv=%s", pr.GetInclusion(), hx(pr.GetProofKey()), hx(pv))
						if compressed {
							s.op("varprovec "+hx(varKey(name)), fmt.Sprintf("nproofc %s bitmap=%s len=%d ap=%s", head, hx(pr.GetBitmap()), pr.GetHeight(), hxl(pr.GetAuditPath())), true)
						} else {
							s.op("varprove "+hx(varKey(name)), fmt.Sprintf("nproof %s ap=%s", head, hxl(pr.GetAuditPath())), true)
						}
					})
				}
			}
			flush()
		}
	}
}

// query drives the chain worker's GetStateQuery: the assembled StateQueryProof, after a protobuf round trip
// (what the RPC client receives), must convince a wallet that starts from the REQUESTED state root only.
func (w *cworld) query() {
	run := w.run
	rng := run.Rng
	last := len(w.snaps) - 1
	for ci, addr := range w.contracts {
		for si, sn := range w.snaps {
			for _, compressed := range []bool{false, true} {
				for _, explicit := range []bool{true, false} {
					if (!explicit && si != last) || (explicit && len(sn.root) == 0) {
						continue // no (or an empty) root in the request = the latest root
					}
					var reqRoot []byte
					if explicit {
						reqRoot = sn.root
					}
					// a random subset of the variables, in random order, at least one
					var names [][]byte
					for _, v := range w.vars {
						if rng.Chance(1, 2) {
							names = append(names, v)
						}
					}
					if len(names) == 0 {
						names = append(names, w.vars[rng.Intn(len(w.vars))])
					}
					var keys [][]byte
					for _, n := range names {
						keys = append(keys, varKey(n))
					}
					what := fmt.Sprintf("GetStateQuery(contract #%d, %d variables, block #%d of %d explicit=%v, compressed=%v)", ci, len(keys), si, len(w.snaps), explicit, compressed)
					rp := map[string]interface{}{"contract": ci, "block": si, "explicitRoot": explicit, "compressed": compressed, "stateRoot": hx(sn.root)}
					ctx := &respCtx{msg: &message.GetStateQuery{ContractAddress: addr, StorageKeys: keys, Root: reqRoot, Compressed: compressed}}
					out, panicked := vh.Guard(func() string { w.cw.Receive(ctx); return "" })
					run.Eval(what+w.desc, true)
					st, exists := sn.acct[string(addr)]
					run.Count(fmt.Sprintf("state-query contract-exists=%v storage=%v compressed=%v historical=%v", exists, exists && len(st.GetStorageRoot()) != 0, compressed, si != last))
					if panicked {
						run.Fail(what+": the chain worker "+out, w.replay(rp))
						continue
					}
					rsp, ok := ctx.rsp.(message.GetStateQueryRsp)
					if !ok || ctx.n != 1 {
						run.Fail(fmt.Sprintf("%s: %d responses, type %T", what, ctx.n, ctx.rsp), w.replay(rp))
						continue
					}
					if rsp.Err != nil || rsp.Result == nil {
						run.Fail(what+": error "+fmt.Sprint(rsp.Err), w.replay(rp))
						continue
					}
					// protobuf round trip
					raw, err := proto.Encode(rsp.Result)
					if err != nil {
						run.Fail(what+": the result does not encode: "+err.Error(), w.replay(rp))
						continue
					}
					res := &types.StateQueryProof{}
					if err := proto.Decode(raw, res); err != nil {
						run.Fail(what+": the result does not decode: "+err.Error(), w.replay(rp))
						continue
					}
					cp := res.GetContractProof()
					if cp == nil {
						run.Fail(what+": no contract proof", w.replay(rp))
						continue
					}
					if !bytes.Equal(cp.GetKey(), addr) {
						run.Fail(what+": contract proof is for another address", w.replay(rp))
						continue
					}
					aid := types.ToAccountID(addr)
					if cp.GetInclusion() != exists {
						run.Fail(fmt.Sprintf("%s: contract inclusion=%v, exists at that root=%v", what, cp.GetInclusion(), exists), w.replay(rp))
						continue
					}
					if msg := walletAcct(cp, aid[:], sn.root, compressed); msg != "" {
						run.Fail(what+": "+msg, w.replay(rp))
						continue
					}
					if !exists {
						if len(res.GetVarProofs()) != 0 {
							run.Fail(what+": variable proofs for a contract that does not exist at that root", w.replay(rp))
						}
						continue
					}
					if cp.GetState().GetNonce() != st.GetNonce() || !bytes.Equal(cp.GetState().GetBalance(), st.GetBalance()) || !bytes.Equal(cp.GetState().GetStorageRoot(), st.GetStorageRoot()) {
						run.Fail(what+": the contract state returned is not the state stored at that root", w.replay(rp))
						continue
					}
					if len(res.GetVarProofs()) != len(keys) {
						run.Fail(fmt.Sprintf("%s: %d variable proofs for %d keys", what, len(res.GetVarProofs()), len(keys)), w.replay(rp))
						continue
					}
					sroot := cp.GetState().GetStorageRoot() // all the client has
					for i, vp := range res.GetVarProofs() {
						if !bytes.Equal(vp.GetKey(), keys[i]) {
							run.Fail(fmt.Sprintf("%s: variable proof #%d carries another key", what, i), w.replay(rp))
							continue
						}
						want, present := sn.stor[string(addr)][string(names[i])]
						rp2 := map[string]interface{}{"variable": string(names[i]), "storageRoot": hx(sroot)}
						for k, v := range rp {
							rp2[k] = v
						}
						w.judgeVar(fmt.Sprintf("%s variable %q", what, names[i]), vp, nil, names[i], sroot, want, present, compressed, rp2)
					}
				}
			}
		}
	}
}

// accountMsg drives the chain worker's GetStateAndProof (accounts) the same way.
func (w *cworld) accountMsg() {
	run := w.run
	last := len(w.snaps) - 1
	addrs := append([][]byte{}, w.contracts...)
	addrs = append(addrs, run.Rng.Bytes(33)) // never created
	for ai, addr := range addrs {
		for si, sn := range w.snaps {
			for _, compressed := range []bool{false, true} {
				for _, explicit := range []bool{true, false} {
					if (!explicit && si != last) || (explicit && len(sn.root) == 0) {
						continue
					}
					var reqRoot []byte
					if explicit {
						reqRoot = sn.root
					}
					what := fmt.Sprintf("GetStateAndProof(account #%d, block #%d of %d explicit=%v, compressed=%v)", ai, si, len(w.snaps), explicit, compressed)
					rp := map[string]interface{}{"account": ai, "block": si, "explicitRoot": explicit, "compressed": compressed, "stateRoot": hx(sn.root)}
					ctx := &respCtx{msg: &message.GetStateAndProof{Account: addr, Root: reqRoot, Compressed: compressed}}
					out, panicked := vh.Guard(func() string { w.cw.Receive(ctx); return "" })
					run.Eval(what+w.desc, true)
					st, exists := sn.acct[string(addr)]
					run.Count(fmt.Sprintf("state-and-proof exists=%v compressed=%v historical=%v", exists, compressed, si != last))
					if panicked {
						run.Fail(what+": the chain worker "+out, w.replay(rp))
						continue
					}
					rsp, ok := ctx.rsp.(message.GetStateAndProofRsp)
					if !ok || ctx.n != 1 || rsp.Err != nil || rsp.StateProof == nil {
						run.Fail(fmt.Sprintf("%s: %d responses, type %T", what, ctx.n, ctx.rsp), w.replay(rp))
						continue
					}
					raw, err := proto.Encode(rsp.StateProof)
					if err != nil {
						run.Fail(what+": the result does not encode", w.replay(rp))
						continue
					}
					pr := &types.AccountProof{}
					if err := proto.Decode(raw, pr); err != nil {
						run.Fail(what+": the result does not decode", w.replay(rp))
						continue
					}
					aid := types.ToAccountID(addr)
					if pr.GetInclusion() != exists || !bytes.Equal(pr.GetKey(), addr) {
						run.Fail(fmt.Sprintf("%s: inclusion=%v, exists at that root=%v", what, pr.GetInclusion(), exists), w.replay(rp))
						continue
					}
					if exists && (pr.GetState().GetNonce() != st.GetNonce() || !bytes.Equal(pr.GetState().GetBalance(), st.GetBalance()) || !bytes.Equal(pr.GetState().GetStorageRoot(), st.GetStorageRoot())) {
						run.Fail(what+": the state returned is not the state stored at that root", w.replay(rp))
						continue
					}
					if msg := walletAcct(pr, aid[:], sn.root, compressed); msg != "" {
						run.Fail(what+": "+msg, w.replay(rp))
					}
				}
			}
		}
	}
}

func contractProofs(run *vh.Run) {
	w := buildContracts(run)
	w.direct(w.csdb.GetStateDB(), "quiescent, at the latest root", true)
	w.query()
	w.accountMsg()
	w.busy()
}

// mutate writes NEWER versions of most accounts and of their variables into the block state's buffers
// (PutState / SetData / DeleteData / StageContractState), without Update or Commit.
func (w *cworld) mutate(bs *state.BlockState) {
	rng := w.run.Rng
	for _, addr := range w.contracts {
		if rng.Chance(1, 4) {
			continue
		}
		cs, err := statedb.OpenContractStateAccount(addr, bs.StateDB)
		if err != nil {
			panic(err)
		}
		cs.State.Nonce = cs.State.GetNonce() + 100
		cs.State.Balance = rng.Bytes(1 + rng.Intn(8))
		for _, v := range w.vars {
			switch rng.Intn(3) {
			case 0:
				cs.SetData(v, rng.Bytes(1+rng.Intn(40)))
			case 1:
				cs.DeleteData(v)
			}
		}
		if err := statedb.StageContractState(cs, bs.StateDB); err != nil {
			panic(err)
		}
		if err := bs.PutState(cs.GetAccountID(), cs.State); err != nil {
			panic(err)
		}
	}
}

// busy asks the proof API on a StateDB that is NOT quiescent: the state of a block in execution (what luaGetDB does
// with ctx.bs for a past block), with newer uncommitted versions of the accounts and variables in its buffers -
// after PutState/SetData, after a rollback, after Update but before Commit, after Commit - always about COMMITTED
// roots (the last one, older ones, and "latest" while the instance's trie root is still the last committed root).
func (w *cworld) busy() {
	bs := w.csdb.NewBlockState(w.csdb.GetRoot())
	w.mutate(bs)
	w.direct(bs.StateDB, "busy: newer versions put, no Update", true)
	snap := bs.Snapshot()
	w.mutate(bs)
	if err := bs.Rollback(snap); err != nil {
		panic(err)
	}
	w.direct(bs.StateDB, "busy: more put, rolled back", true)
	if err := bs.Update(); err != nil {
		panic(err)
	}
	w.direct(bs.StateDB, "busy: after Update, before Commit", false)
	// observation only (not a committed state root, so outside the property): the "latest" root of this instance is now
	// the UNCOMMITTED root; the states it commits to are not in the store before Commit (loadStateData gives an empty State)
	for _, addr := range w.contracts {
		id := types.ToAccountID(addr)
		pr, err := bs.StateDB.GetAccountAndProof(id[:], nil, false)
		if err != nil || pr == nil {
			w.run.Count("observation (uncommitted root, outside C11): account proof between Update and Commit: error")
			continue
		}
		w.run.Count(fmt.Sprintf("observation (uncommitted root, outside C11): account proof between Update and Commit verifies=%v", walletAcct(pr, id[:], bs.GetRoot(), false) == ""))
	}
	if err := bs.Commit(); err != nil {
		panic(err)
	}
	w.direct(bs.StateDB, "after Commit of a newer block, asked about older roots", false)
}

// ---- scripted scenarios for the defect candidates of the contract-variable half (replayable by hand) ----

// scenarioNilStorageRoot: one block creating contract A (no storage) and account B; then
//
//	(a) GetStateQuery{A, [sha256("_sv_x")]}: the variable proof must convince a client that holds A's (nil) storage root;
//	(b) GetStateQuery{A, [AccountID(B)]}: the node must not claim that A's storage holds a variable.
//
// Returns a description of what the real code did.
func scenarioNilStorageRoot(run *vh.Run, compressed bool) (verifies bool, claimsInclusion bool, detail string) {
	csdb, err := state.VerifC11ChainStateDBOn(db.NewDB(db.MemoryImpl, ""))
	if err != nil {
		panic(err)
	}
	cw := chain.VerifC11Worker(csdb)
	a := bytes.Repeat([]byte{0xA1}, 33)
	b := bytes.Repeat([]byte{0xB2}, 33)
	bs := csdb.NewBlockState(csdb.GetRoot())
	bs.PutState(types.ToAccountID(a), &types.State{Nonce: 1, CodeHash: common.Hasher([]byte("code"))})
	bs.PutState(types.ToAccountID(b), &types.State{Nonce: 7, Balance: []byte{9}})
	if err := csdb.Apply(bs); err != nil {
		panic(err)
	}
	bid := types.ToAccountID(b)
	aid := types.ToAccountID(a)
	keys := [][]byte{varKey([]byte("_sv_x")), bid[:]}
	ctx := &respCtx{msg: &message.GetStateQuery{ContractAddress: a, StorageKeys: keys, Compressed: compressed}}
	if out, p := vh.Guard(func() string { cw.Receive(ctx); return "" }); p {
		return false, false, out
	}
	rsp := ctx.rsp.(message.GetStateQueryRsp)
	if rsp.Err != nil || rsp.Result == nil || len(rsp.Result.VarProofs) != 2 {
		return false, false, fmt.Sprint("unexpected response ", rsp.Err)
	}
	sroot := rsp.Result.ContractProof.GetState().GetStorageRoot()
	v0, v1 := rsp.Result.VarProofs[0], rsp.Result.VarProofs[1]
	msg := walletVar(v0, keys[0], sroot, compressed)
	detail = fmt.Sprintf("storageRoot=%s; var proof for sha256(_sv_x): inclusion=%v proofKey=%s (AccountID(A)=%x AccountID(B)=%x) len(ap)=%d verdict=%q; var proof for key AccountID(B): inclusion=%v len(value)=%d",
		hx(sroot), v0.GetInclusion(), hx(v0.GetProofKey()), aid[:], bid[:], len(v0.GetAuditPath()), msg, v1.GetInclusion(), len(v1.GetValue()))
	return msg == "" && !v0.GetInclusion(), v1.GetInclusion(), detail
}

type dropStore struct {
	db.DB
	drop map[string]bool
}

func (d *dropStore) Get(k []byte) []byte {
	if d.drop[string(k)] {
		return nil
	}
	return d.DB.Get(k)
}

// scenarioVarProofError: contract A with one variable; the root node of A's storage trie is then unreadable
// (a damaged state DB). GetStateQuery must answer with an error, not crash the worker.
func scenarioVarProofError(run *vh.Run) (outcome string) {
	ds := &dropStore{DB: db.NewDB(db.MemoryImpl, ""), drop: map[string]bool{}}
	csdb, err := state.VerifC11ChainStateDBOn(ds)
	if err != nil {
		panic(err)
	}
	cw := chain.VerifC11Worker(csdb)
	a := bytes.Repeat([]byte{0xA1}, 33)
	bs := csdb.NewBlockState(csdb.GetRoot())
	cs, _ := statedb.OpenContractStateAccount(a, bs.StateDB)
	cs.State.Nonce = 1
	cs.SetData([]byte("_sv_x"), []byte("1"))
	cs.SetData([]byte("_sv_y"), []byte("2"))
	statedb.StageContractState(cs, bs.StateDB)
	bs.PutState(cs.GetAccountID(), cs.State)
	if err := csdb.Apply(bs); err != nil {
		panic(err)
	}
	st, _ := csdb.OpenNewStateDB(csdb.GetRoot()).GetState(types.ToAccountID(a))
	ds.drop[string(dbkey.Trie(st.GetStorageRoot()))] = true
	ctx := &respCtx{msg: &message.GetStateQuery{ContractAddress: a, StorageKeys: [][]byte{varKey([]byte("_sv_x"))}}}
	_, p := vh.Guard(func() string { cw.Receive(ctx); return "" })
	if p {
		return "panic"
	}
	rsp := ctx.rsp.(message.GetStateQueryRsp)
	if rsp.Err != nil {
		return "error returned"
	}
	return "no error"
}

// scenarioShortKey: an RPC client sends a storage key shorter than 32 bytes.
func scenarioShortKey(run *vh.Run, n int) (outcome string) {
	csdb, err := state.VerifC11ChainStateDBOn(db.NewDB(db.MemoryImpl, ""))
	if err != nil {
		panic(err)
	}
	cw := chain.VerifC11Worker(csdb)
	a := bytes.Repeat([]byte{0xA1}, 33)
	bs := csdb.NewBlockState(csdb.GetRoot())
	cs, _ := statedb.OpenContractStateAccount(a, bs.StateDB)
	cs.State.Nonce = 1
	for i := 0; i < 40; i++ {
		cs.SetData([]byte(fmt.Sprintf("_sv_%d", i)), []byte("1"))
	}
	statedb.StageContractState(cs, bs.StateDB)
	bs.PutState(cs.GetAccountID(), cs.State)
	if err := csdb.Apply(bs); err != nil {
		panic(err)
	}
	ctx := &respCtx{msg: &message.GetStateQuery{ContractAddress: a, StorageKeys: [][]byte{make([]byte, n)}}}
	_, p := vh.Guard(func() string { cw.Receive(ctx); return "" })
	if p {
		return "panic"
	}
	if rsp := ctx.rsp.(message.GetStateQueryRsp); rsp.Err != nil {
		return "error returned"
	}
	return "answered"
}

func defectScenarios(run *vh.Run) {
	// finding C11-var-proof-nil-storage-root (fixed in /repo by cdf2eb39): a hard oracle now
	for _, c := range []bool{false, true} {
		ok, incl, detail := scenarioNilStorageRoot(run, c)
		run.Eval(fmt.Sprintf("scenarioNilStorageRoot %v", c), true)
		run.Count(fmt.Sprintf("scenario nil-storage-root: variable proof verifies against the nil storage root=%v, inclusion claimed for an account id=%v", ok, incl))
		if !ok || incl {
			run.Fail("a contract without storage (nil storage root): GetStateQuery's variable proofs must verify against the nil storage root and must not claim inclusion (C11-var-proof-nil-storage-root): "+detail,
				map[string]interface{}{"scenario": "scenarioNilStorageRoot", "compressed": c, "steps": "one block: PutState(A={Nonce:1,CodeHash}), PutState(B={Nonce:7}); GetStateQuery{A, [sha256(_sv_x), AccountID(B)]}"})
		}
	}
	// OUTSIDE the property (the lead's decision: C11 quantifies over keys of the trie's key length on an intact state
	// DB): two robustness defects of the chain worker, observed and counted, never failed
	o := scenarioVarProofError(run)
	run.Eval("scenarioVarProofError", true)
	run.Count("observation (outside C11) unreadable storage root node -> chain worker: " + o)
	for _, n := range []int{0, 1, 31} {
		o := scenarioShortKey(run, n)
		run.Eval(fmt.Sprintf("scenarioShortKey %d", n), true)
		run.Count(fmt.Sprintf("observation (outside C11) %d-byte storage key -> chain worker: %s", n, o))
	}
}
