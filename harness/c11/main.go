// Harness c11: Merkle proofs of the real pkg/trie (plain and compressed; current and historical roots)
// against the Lean model, and single-field corruptions of valid proofs fed to the real verifiers.
//
// Ops: new | update k=v … | commit | reopen i            build tries (as in c10)
//
//	prove k | provec k                                 the proof the node produces (at the current root)
//	vinc root key value ap                             VerifyInclusion verdict
//	vexc root key value proofKey ap                    VerifyNonInclusion verdict
//	vincc root bitmap key value len ap | vexcc root bitmap key value proofKey len ap   compressed forms
//
// Oracle (the property): a produced proof verifies against its root (completeness); whatever the
// real verifier accepts is true of the map at that root (soundness): no inclusion of a different
// value / absent key, no absence of a present key.
package main

import (
	"bytes"
	"encoding/hex"
	"fmt"
	"sort"
	"strings"

	"github.com/aergoio/aergo-lib/db"
	"github.com/aergoio/aergo/v2/internal/common"
	"github.com/aergoio/aergo/v2/pkg/trie"
	"github.com/aergoio/aergo/v2/state/statedb"
	"github.com/aergoio/aergo/v2/types"
	"github.com/aergoio/aergo/v2/zz_verif/vh"
)

// accountProofs drives the node-level proof API (StateDB.GetAccountAndProof: what the RPC serves) at the
// current root and at historical roots, plain and compressed, and verifies every proof against the root it
// was asked for, the way a wallet does: the returned state must hash to the proved leaf value.
func accountProofs(run *vh.Run) {
	rng := run.Rng
	store := db.NewDB(db.MemoryImpl, "")
	sdb := statedb.NewStateDB(store, nil, false)
	n := 4 + rng.Intn(12)
	var ids [][]byte
	for i := 0; i < n; i++ {
		ids = append(ids, rng.Bytes(33))
	}
	type snap struct {
		root []byte
		m    map[string]*types.State
	}
	var snaps []snap
	cur := map[string]*types.State{}
	rounds := 2 + rng.Intn(3)
	for r := 0; r < rounds; r++ {
		for _, id := range ids {
			if rng.Chance(1, 2) {
				st := &types.State{Nonce: uint64(rng.Intn(1000)), Balance: rng.Bytes(1 + rng.Intn(8))}
				if err := sdb.PutState(types.ToAccountID(id), st); err != nil {
					panic(err)
				}
				cur[string(id)] = st
			}
		}
		if err := sdb.Update(); err != nil {
			panic(err)
		}
		if err := sdb.Commit(); err != nil {
			panic(err)
		}
		m := map[string]*types.State{}
		for k, v := range cur {
			m[k] = v
		}
		snaps = append(snaps, snap{append([]byte{}, sdb.GetRoot()...), m})
	}
	for si, sn := range snaps {
		for _, id := range ids {
			for _, compressed := range []bool{false, true} {
				for _, explicit := range []bool{true, false} {
					if !explicit && si != len(snaps)-1 {
						continue // a nil root means "the latest root"
					}
					if explicit && len(sn.root) == 0 && si != len(snaps)-1 {
						continue // an empty state root (no account yet) cannot be requested: it too means "the latest root"
					}
					var reqRoot []byte
					if explicit {
						reqRoot = sn.root
					}
					aid := types.ToAccountID(id)
					pr, err := sdb.GetAccountAndProof(aid[:], reqRoot, compressed)
					what := fmt.Sprintf("GetAccountAndProof(account #%d, root #%d explicit=%v, compressed=%v)", indexOf(ids, id), si, explicit, compressed)
					run.Eval(what+hx(sn.root), true)
					run.Count(fmt.Sprintf("account-proof compressed=%v historical=%v", compressed, si != len(snaps)-1))
					fail := func(msg string) {
						run.Fail(what+": "+msg, map[string]interface{}{"accounts": len(ids), "rounds": rounds, "root": hx(sn.root), "account": hx(id)})
					}
					if err != nil {
						fail("error " + err.Error())
						continue
					}
					want, present := sn.m[string(id)]
					if pr.Inclusion != present {
						fail(fmt.Sprintf("inclusion=%v but the account %s at that root", pr.Inclusion, map[bool]string{true: "exists", false: "does not exist"}[present]))
						continue
					}
					vt := trie.NewTrie(sn.root, common.Hasher, nil)
					if present {
						if pr.State.GetNonce() != want.GetNonce() || !bytes.Equal(pr.State.GetBalance(), want.GetBalance()) {
							fail("returned state is not the state stored at that root")
							continue
						}
						buf, _ := statedb.Marshal(pr.State)
						leaf := common.Hasher(buf)
						var ok bool
						if compressed {
							ok = vt.VerifyInclusionC(pr.Bitmap, aid[:], leaf, pr.AuditPath, int(pr.Height))
						} else {
							ok = vt.VerifyInclusion(pr.AuditPath, aid[:], leaf)
						}
						if !ok {
							fail("the proof does not verify against the requested root")
						}
					} else {
						var ok bool
						if compressed {
							ok = vt.VerifyNonInclusionC(pr.AuditPath, int(pr.Height), pr.Bitmap, aid[:], pr.ProofVal, pr.ProofKey)
						} else {
							ok = vt.VerifyNonInclusion(pr.AuditPath, aid[:], pr.ProofVal, pr.ProofKey)
						}
						if !ok {
							fail("the non-inclusion proof does not verify against the requested root")
						}
					}
				}
			}
		}
	}
}

func indexOf(l [][]byte, x []byte) int {
	for i, y := range l {
		if bytes.Equal(x, y) {
			return i
		}
	}
	return -1
}

type kv struct{ k, v []byte }

type sess struct {
	run   *vh.Run
	store db.DB
	tr    *trie.Trie
	ref   map[string][]byte
	roots []struct {
		root []byte
		m    map[string][]byte
	}
	univ [][]byte
	log  []string
}

func hx(b []byte) string {
	if len(b) == 0 {
		return "-"
	}
	return hex.EncodeToString(b)
}

func hxl(l [][]byte) string {
	if len(l) == 0 {
		return "-"
	}
	var p []string
	for _, b := range l {
		p = append(p, hex.EncodeToString(b))
	}
	return strings.Join(p, ",")
}

func (s *sess) op(op, out string, nt bool) {
	s.log = append(s.log, op)
	s.run.Op(op, out, nt)
}

func (s *sess) fail(what, known string) {
	// keep the session's trie-building ops and the last op
	var ops []string
	for _, l := range s.log {
		if strings.HasPrefix(l, "new") || strings.HasPrefix(l, "update") || strings.HasPrefix(l, "commit") || strings.HasPrefix(l, "reopen") {
			ops = append(ops, l)
		}
	}
	ops = append(ops, s.log[len(s.log)-1])
	s.run.FailKnown(what, known, map[string]interface{}{"ops": ops})
}

func newSess(run *vh.Run, univ [][]byte) *sess {
	s := &sess{run: run, store: db.NewDB(db.MemoryImpl, ""), ref: map[string][]byte{}, univ: univ}
	s.tr = trie.NewTrie(nil, common.Hasher, s.store)
	s.op("new", "ok", false)
	return s
}

func rootStr(r []byte) string { return "root " + hx(r) }

func (s *sess) update(batch []kv) {
	sort.Slice(batch, func(i, j int) bool { return bytes.Compare(batch[i].k, batch[j].k) < 0 })
	var keys, vals [][]byte
	var parts []string
	for _, e := range batch {
		keys = append(keys, e.k)
		if e.v == nil {
			vals = append(vals, trie.DefaultLeaf)
			parts = append(parts, hex.EncodeToString(e.k)+"=DEL")
			delete(s.ref, string(e.k))
		} else {
			vals = append(vals, e.v)
			parts = append(parts, hex.EncodeToString(e.k)+"="+hex.EncodeToString(e.v))
			s.ref[string(e.k)] = e.v
		}
	}
	r, err := s.tr.Update(keys, vals)
	if err != nil {
		panic(err)
	}
	s.op("update "+strings.Join(parts, " "), rootStr(r), true)
	s.tr.Commit()
	m := map[string][]byte{}
	for k, v := range s.ref {
		m[k] = v
	}
	s.roots = append(s.roots, struct {
		root []byte
		m    map[string][]byte
	}{append([]byte{}, r...), m})
	s.op("commit", fmt.Sprintf("ok %d", len(s.roots)-1), false)
}

func (s *sess) reopen(i int) {
	c := s.roots[i]
	s.tr = trie.NewTrie(c.root, common.Hasher, s.store)
	s.ref = map[string][]byte{}
	for k, v := range c.m {
		s.ref[k] = v
	}
	s.op(fmt.Sprintf("reopen %d", i), rootStr(c.root), false)
}

// verifier calls on a trie object whose Root is the claimed root
func (s *sess) vt(root []byte) *trie.Trie {
	t := trie.NewTrie(root, common.Hasher, nil)
	return t
}

// The property talks about what a verifier ACCEPTS: a panic of the Go verifier on a malformed proof (index out of
// range for a too long path / too short bitmap) is a rejection, like false. (Counted, so that the distribution shows
// them; a verifier hardened with bounds checks that return false gives the same trace.)
var verifierPanics int

func boolOrPanic(f func() bool) string {
	out, _ := vh.Guard(func() string { return fmt.Sprint(f()) })
	if strings.HasPrefix(out, "panic") {
		verifierPanics++
		return "false"
	}
	return out
}

func (s *sess) vinc(root, key, value []byte, ap [][]byte, m map[string][]byte, what string) {
	out := boolOrPanic(func() bool { return s.vt(root).VerifyInclusion(ap, key, value) })
	s.op(fmt.Sprintf("vinc %s %s %s %s", hx(root), hx(key), hx(value), hxl(ap)), out, out == "true")
	s.run.Count("vinc-" + what + "=" + out)
	if out == "true" && m != nil && !bytes.Equal(m[string(key)], value) {
		s.fail(fmt.Sprintf("inclusion proof accepted (%s) for key %x value %x but the trie holds %x", what, key, value, m[string(key)]), "")
	}
}

func (s *sess) vexc(root, key, value, pk []byte, ap [][]byte, m map[string][]byte, what string) {
	out := boolOrPanic(func() bool { return s.vt(root).VerifyNonInclusion(ap, key, value, pk) })
	s.op(fmt.Sprintf("vexc %s %s %s %s %s", hx(root), hx(key), hx(value), hx(pk), hxl(ap)), out, out == "true")
	s.run.Count("vexc-" + what + "=" + out)
	if out == "true" && m != nil {
		if _, present := m[string(key)]; present {
			known := ""
			s.fail(fmt.Sprintf("non-inclusion proof accepted (%s) for PRESENT key %x (proofKey %x)", what, key, pk), known)
		}
	}
}

func (s *sess) vincc(root, bitmap, key, value []byte, length int, ap [][]byte, m map[string][]byte, what string) {
	out := boolOrPanic(func() bool { return s.vt(root).VerifyInclusionC(bitmap, key, value, ap, length) })
	s.op(fmt.Sprintf("vincc %s %s %s %s %d %s", hx(root), hx(bitmap), hx(key), hx(value), length, hxl(ap)), out, out == "true")
	s.run.Count("vincc-" + what + "=" + out)
	if out == "true" && m != nil && !bytes.Equal(m[string(key)], value) {
		s.fail(fmt.Sprintf("compressed inclusion proof accepted (%s) for key %x value %x but the trie holds %x", what, key, value, m[string(key)]), "")
	}
}

func (s *sess) vexcc(root, bitmap, key, value, pk []byte, length int, ap [][]byte, m map[string][]byte, what string) {
	out := boolOrPanic(func() bool { return s.vt(root).VerifyNonInclusionC(ap, length, bitmap, key, value, pk) })
	s.op(fmt.Sprintf("vexcc %s %s %s %s %s %d %s", hx(root), hx(bitmap), hx(key), hx(value), hx(pk), length, hxl(ap)), out, out == "true")
	s.run.Count("vexcc-" + what + "=" + out)
	if out == "true" && m != nil {
		if _, present := m[string(key)]; present {
			s.fail(fmt.Sprintf("compressed non-inclusion proof accepted (%s) for PRESENT key %x (proofKey %x)", what, key, pk), "")
		}
	}
}

func flipBytes(r *vh.Rng, b []byte) []byte {
	if len(b) == 0 {
		return []byte{byte(1 + r.Intn(255))}
	}
	c := append([]byte{}, b...)
	c[r.Intn(len(c))] ^= byte(1 << uint(r.Intn(8)))
	return c
}

// prove key k at root #ri (current trie must be at that root) and run completeness + corruption checks
func (s *sess) proveAndVerify(k []byte, ri int) {
	rng := s.run.Rng
	root := s.roots[ri].root
	m := s.roots[ri].m
	ap, inc, pk, pv, err := s.tr.MerkleProofR(k, root)
	if err != nil {
		s.op("prove "+hx(k), "err", false)
		s.fail("MerkleProof failed: "+err.Error(), "")
		return
	}
	s.op("prove "+hx(k), fmt.Sprintf("proof inc=%v pk=%s pv=%s ap=%s", inc, hx(pk), hx(pv), hxl(ap)), true)
	bitmap, apc, length, incc, pkc, pvc, err := s.tr.MerkleProofCompressedR(k, root)
	if err != nil {
		s.fail("MerkleProofCompressed failed: "+err.Error(), "")
		return
	}
	s.op("provec "+hx(k), fmt.Sprintf("proofc inc=%v pk=%s pv=%s bitmap=%s len=%d ap=%s", incc, hx(pkc), hx(pvc), hx(bitmap), length, hxl(apc)), true)
	_, present := m[string(k)]
	if inc != present || incc != present {
		s.fail(fmt.Sprintf("MerkleProof says included=%v/%v for key %x, map says %v", inc, incc, k, present), "")
	}
	kind := "present"
	if !present {
		kind = "absent-empty-subtree"
		if len(pk) != 0 {
			kind = "absent-foreign-leaf"
		}
		if len(root) == 0 {
			kind = "absent-empty-trie"
		}
	}
	s.run.Count("key-" + kind)
	// ---- completeness
	if present {
		if !s.vt(root).VerifyInclusion(ap, k, pv) {
			s.fail(fmt.Sprintf("the node's own inclusion proof for %x does not verify", k), "")
		}
		if !s.vt(root).VerifyInclusionC(bitmap, k, pvc, apc, length) {
			s.fail(fmt.Sprintf("the node's own compressed inclusion proof for %x does not verify", k), "")
		}
		s.vinc(root, k, pv, ap, m, "valid")
		s.vincc(root, bitmap, k, pvc, length, apc, m, "valid")
	} else {
		okp := s.vt(root).VerifyNonInclusion(ap, k, pv, pk)
		okc := s.vt(root).VerifyNonInclusionC(apc, length, bitmap, k, pvc, pkc)
		if !okp || !okc {
			known := ""
			if len(root) == 0 {
				known = "C11-empty-trie-nonincl"
			}
			s.log = append(s.log, "prove "+hx(k))
			s.fail(fmt.Sprintf("the node's own non-inclusion proof for %x does not verify (plain %v, compressed %v, %s)", k, okp, okc, kind), known)
		}
		s.vexc(root, k, pv, pk, ap, m, "valid")
		s.vexcc(root, bitmap, k, pvc, pkc, length, apc, m, "valid")
	}
	// ---- corruptions: every single field
	other := s.univ[rng.Intn(len(s.univ))]
	if present {
		s.vinc(root, k, flipBytes(rng, pv), ap, m, "value-changed")
		s.vinc(root, flipBytes(rng, k), pv, ap, nil, "key-bitflip")
		if !bytes.Equal(other, k) {
			s.vinc(root, other, pv, ap, m, "other-key")
		}
		if len(ap) > 0 {
			i := rng.Intn(len(ap))
			ap2 := append([][]byte{}, ap...)
			ap2[i] = flipBytes(rng, ap2[i])
			s.vinc(root, k, pv, ap2, m, "ap-element-changed")
			s.vinc(root, k, pv, ap[1:], m, "ap-dropped-deepest")
			s.vinc(root, k, pv, ap[:len(ap)-1], m, "ap-dropped-top")
			s.vinc(root, k, pv, append([][]byte{trie.DefaultLeaf}, ap...), m, "ap-extra-default")
			// compressed: bitmap bit flipped, length changed
			bm2 := flipBytes(rng, bitmap)
			s.vincc(root, bm2, k, pvc, length, apc, m, "bitmap-bitflip")
			s.vincc(root, bitmap, k, pvc, length-1, apc, m, "length-1")
			s.vincc(root, bitmap, k, pvc, length+1, apc, m, "length+1")
			s.vincc(root, bitmap, k, flipBytes(rng, pvc), length, apc, m, "value-changed")
			// malformed audit-path elements (the Go verifier checks no length; WfSib of the soundness theorems)
			ap3 := append([][]byte{}, ap...)
			ap3[i] = append(append([]byte{}, ap[i]...), byte(rng.Intn(256)))
			s.vinc(root, k, pv, ap3, m, "ap-element-one-byte-longer")
			ap4 := append([][]byte{}, ap...)
			ap4[i] = append([]byte{}, ap[i][:len(ap[i])-1]...)
			s.vinc(root, k, pv, ap4, m, "ap-element-one-byte-shorter")
			// compressed: the verifier indexes the stored siblings from the END and reads only `length` bits of the
			// bitmap: junk in front of the siblings / behind the bitmap is not looked at (harmless: the claim is true)
			s.vincc(root, bitmap, k, pvc, length, append([][]byte{rng.Bytes(32)}, apc...), m, "apc-junk-in-front")
			s.vincc(root, append(append([]byte{}, bitmap...), byte(rng.Intn(256))), k, pvc, length, apc, m, "bitmap-extra-byte")
			if len(apc) > 0 {
				j := rng.Intn(len(apc))
				apc2 := append([][]byte{}, apc...)
				apc2[j] = append(append([]byte{}, apc[j]...), byte(rng.Intn(256)))
				s.vincc(root, bitmap, k, pvc, length, apc2, m, "apc-element-one-byte-longer")
			}
		}
		// LENGTH PRECONDITIONS (Props.C11.split_ambiguity / short_key_same_verdict): the hasher concatenates key,
		// value and height byte and the verifiers check no length, so moving the key/value boundary gives the same
		// verdict as long as the path is not longer than the shortened key. Not judged by the oracle (m = nil): it is
		// the documented precondition "keys and values are 32 bytes" of the soundness clause; the model must agree.
		if len(ap) <= 248 {
			s.vinc(root, k[:31], append(append([]byte{}, k[31:]...), pv...), ap, nil, "precondition-31-byte-key-33-byte-value")
			s.vincc(root, bitmap, k[:31], append(append([]byte{}, k[31:]...), pvc...), length, apc, nil, "precondition-31-byte-key-33-byte-value")
		}
		s.vinc(root, append(append([]byte{}, k...), pv[0]), pv[1:], ap, nil, "precondition-33-byte-key-31-byte-value")
		s.vinc(flipBytes(rng, root), k, pv, ap, nil, "root-changed")
		for j := range s.roots {
			if j != ri && !bytes.Equal(s.roots[j].root, root) && rng.Chance(1, 3) {
				s.vinc(s.roots[j].root, k, pv, ap, s.roots[j].m, "other-root")
			}
		}
		// absence claimed for a present key
		s.vexc(root, k, pv, nil, ap, m, "absence-of-present-nil-proofkey")
		s.vexc(root, k, pv, k, ap, m, "absence-of-present-proofkey-is-key")
		s.vexcc(root, bitmap, k, pvc, k, length, apc, m, "absence-of-present-proofkey-is-key")
		if !bytes.Equal(other, k) {
			s.vexc(root, k, pv, other, ap, m, "absence-of-present-other-proofkey")
			if ov, ok := m[string(other)]; ok {
				// a genuine inclusion proof of another present key used as "foreign leaf" for k
				ap3, _, _, pv3, _ := s.tr.MerkleProofR(other, root)
				_ = ov
				s.vexc(root, k, pv3, other, ap3, m, "absence-of-present-via-other-leaf")
			}
		}
	} else {
		// presence claimed for an absent key
		s.vinc(root, k, val(rng), ap, m, "presence-of-absent")
		if len(pk) != 0 {
			s.vinc(root, k, pv, ap, m, "presence-of-absent-with-foreign-value")
			s.vexc(root, k, flipBytes(rng, pv), pk, ap, m, "foreign-value-changed")
			s.vexc(root, k, pv, flipBytes(rng, pk), ap, nil, "proofkey-bitflip")
		}
		if len(ap) > 0 {
			i := rng.Intn(len(ap))
			ap2 := append([][]byte{}, ap...)
			ap2[i] = flipBytes(rng, ap2[i])
			s.vexc(root, k, pv, pk, ap2, m, "ap-element-changed")
			s.vexc(root, k, pv, pk, ap[1:], m, "ap-dropped-deepest")
			s.vexcc(root, flipBytes(rng, bitmap), k, pvc, pkc, length, apc, m, "bitmap-bitflip")
			s.vexcc(root, bitmap, k, pvc, pkc, length+1, apc, m, "length+1")
		}
		if _, ok := m[string(other)]; ok {
			// the non-inclusion proof of k transplanted to a present key
			s.vexc(root, other, pv, pk, ap, m, "transplanted-to-present-key")
			s.vexcc(root, bitmap, other, pvc, pkc, length, apc, m, "transplanted-to-present-key")
		}
	}
}

func bitOf(k []byte, i int) bool { return k[i/8]&(1<<uint(7-i%8)) != 0 }

// forgeByDefaultLeafAmbiguity: an empty child is hashed as the single byte 00 with no domain separation, so a
// node (empty, h) with h ending in 00 (or (h, empty) with h starting with 00) can be re-read with the empty
// side swapped. For a PRESENT key whose path passes such a node this yields an accepted non-inclusion proof.
// Returns which forgeries were attempted: bit 0 = (empty, h) re-read as (h', empty), bit 1 = the other side.
func (s *sess) forgeByDefaultLeafAmbiguity(k []byte, ri int) int {
	root := s.roots[ri].root
	m := s.roots[ri].m
	v, present := m[string(k)]
	if !present {
		return 0
	}
	ap, inc, _, _, err := s.tr.MerkleProofR(k, root)
	if err != nil || !inc {
		return 0
	}
	n := len(ap)
	cur := common.Hasher(k, v, []byte{byte(256 - n)})
	tried := 0
	for i := 0; i < n; i++ {
		depth := n - 1 - i
		sib := ap[i]
		if bytes.Equal(sib, trie.DefaultLeaf) {
			var forged []byte
			side := 0
			if bitOf(k, depth) && cur[31] == 0 {
				forged = append([]byte{0}, cur[:31]...)
				side = 1
			} else if !bitOf(k, depth) && cur[0] == 0 {
				forged = append(append([]byte{}, cur[1:]...), 0)
				side = 2
			}
			if forged != nil {
				tried |= side
				s.run.Count(fmt.Sprintf("default-leaf-ambiguity forgery attempted, side %d", side))
				ap2 := append([][]byte{forged}, ap[i+1:]...)
				out := boolOrPanic(func() bool { return s.vt(root).VerifyNonInclusion(ap2, k, nil, nil) })
				s.op(fmt.Sprintf("vexc %s %s %s %s %s", hx(root), hx(k), hx(nil), hx(nil), hxl(ap2)), out, out == "true")
				s.run.Count("vexc-forged-default-leaf-ambiguity=" + out)
				if out == "true" {
					s.fail(fmt.Sprintf("forged non-inclusion proof accepted for PRESENT key %x: the node at depth %d has an empty sibling and digest %x, re-read with the DefaultLeaf byte on the other side", k, depth, cur), "C11-default-leaf-ambiguity")
				}
			}
		}
		if bitOf(k, depth) {
			cur = common.Hasher(sib, cur)
		} else {
			cur = common.Hasher(cur, sib)
		}
	}
	return tried
}

func genUniverse(r *vh.Rng, n int) [][]byte {
	base := r.Bytes(32)
	keys := [][]byte{base}
	seen := map[string]bool{string(base): true}
	for len(keys) < n {
		from := keys[r.Intn(len(keys))]
		k := append([]byte{}, from...)
		var pos int
		switch r.Intn(5) {
		case 0:
			pos = r.Intn(9)
		case 1:
			pos = 4*r.Intn(64) + r.Intn(3) - 1
		case 2:
			pos = 248 + r.Intn(8)
		case 3:
			pos = 252 + r.Intn(4)
		default:
			pos = r.Intn(256)
		}
		if pos < 0 {
			pos = 0
		}
		if pos > 255 {
			pos = 255
		}
		k[pos/8] ^= 1 << uint(7-pos%8)
		if r.Chance(1, 3) {
			for b := pos + 1; b < 256; b++ {
				if r.Bool() {
					k[b/8] ^= 1 << uint(7-b%8)
				}
			}
		}
		if !seen[string(k)] {
			seen[string(k)] = true
			keys = append(keys, k)
		}
	}
	sort.Slice(keys, func(i, j int) bool { return bytes.Compare(keys[i], keys[j]) < 0 })
	return keys
}

func val(r *vh.Rng) []byte { return r.Bytes(32) }

func main() {
	run := vh.Start("c11", "tries built by random batch sessions over prefix-colliding 32-byte keys (as c10), incl. the empty trie and historical roots (instance reopened at the root, or LIVE at the latest root and asked with the R variants); for every key of the "+
		"universe (present / absent with empty subtree / absent with foreign leaf): the node's plain and compressed proof, then every single-field corruption (value, key, other key, "+
		"audit-path element changed/dropped/added/one byte longer or shorter, bitmap bit, length, root, other root, proofKey, junk in front of the compressed siblings, longer bitmap) and the key/value boundary moved (31/33, 33/31 bytes) fed to the real verifiers; "+
		"a chain state DB filled block by block with contracts (with storage, without, wiped): StateDB.GetAccountAndProof / GetVarAndProof on the live instance and ChainWorker.Receive(GetStateQuery / GetStateAndProof) incl. a protobuf round trip, judged wallet-style against the requested root / the contract's storage root, and replayed on the model (account trie and every storage trie). "+
		"non-trivial = accepted verdict or produced proof; distinct by (op, answer)")
	defer run.Finish()
	rng := run.Rng
	for n := 0; n < run.Pick(60, 1200); n++ {
		nk := 2 + rng.Intn(14)
		univ := genUniverse(rng, nk)
		s := newSess(run, univ)
		nb := rng.Intn(6)
		if n%10 == 0 {
			nb = 0 // the empty trie
		}
		for b := 0; b < nb; b++ {
			var batch []kv
			for _, k := range univ {
				if rng.Chance(2, 5) {
					if rng.Chance(1, 4) {
						batch = append(batch, kv{k, nil})
					} else {
						batch = append(batch, kv{k, val(rng)})
					}
				}
			}
			if len(batch) == 0 {
				batch = append(batch, kv{univ[rng.Intn(len(univ))], val(rng)})
			}
			s.update(batch)
		}
		if nb == 0 {
			// empty trie: root nil
			s.roots = append(s.roots, struct {
				root []byte
				m    map[string][]byte
			}{nil, map[string][]byte{}})
			s.op("commit", "ok 0", false)
		}
		// current root, and sometimes a historical one
		ri := len(s.roots) - 1
		if len(s.roots) > 1 && rng.Chance(1, 3) {
			ri = rng.Intn(len(s.roots))
			if rng.Bool() {
				s.reopen(ri)
				run.Count("historical-root")
			} else {
				// the R variants on a LIVE instance: the Go trie stays at the latest root (with everything later
				// blocks inserted, changed and deleted in its cache) and is asked about root #ri; only the model
				// is repositioned
				s.op(fmt.Sprintf("reopen %d", ri), rootStr(s.roots[ri].root), false)
				run.Count("historical-root-on-live-instance")
				cur, old := s.roots[len(s.roots)-1].m, s.roots[ri].m
				for _, k := range univ {
					_, a := cur[string(k)]
					_, b := old[string(k)]
					if a != b {
						run.Count(fmt.Sprintf("live-instance key present-at-requested-root=%v present-at-current-root=%v", b, a))
					}
				}
			}
		}
		for _, k := range univ {
			s.proveAndVerify(k, ri)
			s.forgeByDefaultLeafAmbiguity(k, ri)
		}
	}
	// node-level proof API (accounts), current and historical roots
	for n := 0; n < run.Pick(12, 200); n++ {
		accountProofs(run)
	}
	// contract variables and the chain worker's proof messages
	for n := 0; n < run.Pick(6, 80); n++ {
		contractProofs(run)
	}
	defectScenarios(run)
	// deliberate probe of the DefaultLeaf ambiguity: two keys sharing a 250-bit prefix give a chain of ~250 interior
	// nodes with an empty sibling each; about one digest in 256 ends (or starts) with 00
	// (each side of the ambiguity must be probed: a repair of one side only must not pass)
	var probes [3]int
	for n := 0; n < run.Pick(200, 1500) && (probes[1] < run.Pick(2, 10) || probes[2] < run.Pick(2, 10)); n++ {
		k1 := rng.Bytes(32)
		k2 := append([]byte{}, k1...)
		k2[31] ^= 0x20
		s := newSess(run, [][]byte{k1, k2})
		s.update([]kv{{k1, val(rng)}, {k2, val(rng)}})
		t := s.forgeByDefaultLeafAmbiguity(k1, 0)
		probes[1] += t & 1
		probes[2] += t >> 1
		run.Count("default-leaf-ambiguity-probe-tries")
	}
	for i := 0; i < verifierPanics; i++ {
		run.Count("verifier panicked on a malformed proof (= rejected)")
	}
}
