// Harness c12: the real StateDB / ContractState / BlockState / AccountState (memorydb) driven by
// generated sessions of account puts, storage sets/deletes, contract open/stage, block snapshots and
// rollbacks in any nesting, contract-level snapshots/rollbacks, update, commit and reopen.
//
// After every operation it records all reads (every account, every storage key of every contract)
// and the export lists of every buffer (trace compared line by line with the Lean model), and it
// evaluates the property on the real code:
//
//	(i)   every read equals a plain reference (Go maps, a snapshot = a deep copy, a rollback = put the copy back);
//	(ii)  the root after Update/Commit, and the persisted key/value pairs after Commit, equal those of a fresh
//	      StateDB that executed only the surviving operations (reverted spans deleted);
//	(iii) a StateDB reopened at a committed root returns the surviving values;
//	(iv)  no buffer exports a value other than the currently visible one, and every key with a
//	      surviving uncommitted write is exported.
//
// Discipline of the generated sessions (documented in notes/C12.md): a block rollback closes all
// open contract handles (a transaction aborts); snapshots are invalidated by rollback to an
// earlier snapshot, by Update/Commit and by reopening; `commit` is Update+Commit (as in every caller in
// the repository), a bare Commit (`commit0`) is issued only directly after an Update. Any number of
// Updates may precede a Commit, with or without writes in between.
package main

import (
	"bytes"
	"encoding/json"
	"fmt"
	"os"
	"path/filepath"
	"sort"
	"strconv"
	"strings"

	"github.com/aergoio/aergo-lib/db"
	"github.com/aergoio/aergo/v2/state"
	"github.com/aergoio/aergo/v2/state/statedb"
	"github.com/aergoio/aergo/v2/types"
	"github.com/aergoio/aergo/v2/zz_verif/vh"
)

// ---------------------------------------------------------------- operations

type op struct {
	kind    string // new put open stage set del csnap croll snap roll update commit reopen kill
	a, b, c int
}

func (o op) String() string {
	switch o.kind {
	case "new":
		return fmt.Sprintf("new %d %d", o.a, o.b)
	case "put":
		return fmt.Sprintf("put %d %d", o.a, o.b)
	case "open", "stage", "csnap", "roll", "reopen":
		return fmt.Sprintf("%s %d", o.kind, o.a)
	case "set":
		return fmt.Sprintf("set %d %d %d", o.a, o.b, o.c)
	case "del", "croll":
		return fmt.Sprintf("%s %d %d", o.kind, o.a, o.b)
	}
	return o.kind
}

func opsString(ops []op) []string {
	r := make([]string, len(ops))
	for i, o := range ops {
		r[i] = o.String()
	}
	return r
}

// ---------------------------------------------------------------- key universe

type universe struct {
	ids   [][]byte          // contract/account id bytes, numbered ascending by AccountID
	aids  []types.AccountID // their AccountIDs
	keys  [][]byte          // storage keys, numbered ascending by HashID
	aidIx map[types.AccountID]int
	keyIx map[types.HashID]int
}

var universes = map[[2]int]*universe{}

func getUniverse(na, nk int) *universe {
	if u, ok := universes[[2]int{na, nk}]; ok {
		return u
	}
	u := &universe{aidIx: map[types.AccountID]int{}, keyIx: map[types.HashID]int{}}
	for i := 0; i < na; i++ {
		u.ids = append(u.ids, []byte(fmt.Sprintf("verif-c12-account-%d", i)))
	}
	sort.Slice(u.ids, func(i, j int) bool {
		x, y := types.ToAccountID(u.ids[i]), types.ToAccountID(u.ids[j])
		return bytes.Compare(x[:], y[:]) < 0
	})
	for i, id := range u.ids {
		aid := types.ToAccountID(id)
		u.aids = append(u.aids, aid)
		u.aidIx[aid] = i
	}
	for i := 0; i < nk; i++ {
		u.keys = append(u.keys, []byte(fmt.Sprintf("key-%d", i)))
	}
	sort.Slice(u.keys, func(i, j int) bool {
		return types.GetHashID(u.keys[i]).Compare(types.GetHashID(u.keys[j])) < 0
	})
	for i, k := range u.keys {
		u.keyIx[types.GetHashID(k)] = i
	}
	universes[[2]int{na, nk}] = u
	return u
}

// token -> storage value bytes; token 0 is the empty (non-nil) value
func tokBytes(t int) []byte {
	if t == 0 {
		return []byte{}
	}
	return []byte("v" + strconv.Itoa(t))
}

func bytesTok(b []byte) string {
	if b == nil {
		return "-"
	}
	if len(b) == 0 {
		return "0"
	}
	if b[0] == 'v' {
		return string(b[1:])
	}
	return "?" + fmt.Sprintf("%x", b)
}

var hashTok = map[string]string{} // export value hash -> token ("d" for the delete marker)

func init() {
	hashTok[string(statedb.VerifHash(nil))] = "d"
}

func noteTok(t int) {
	hashTok[string(statedb.VerifHash(tokBytes(t)))] = strconv.Itoa(t)
}

// ---------------------------------------------------------------- reference (the property's own notion of state)

type sval struct {
	present bool
	v       int
}

type refStore struct {
	acct    map[int]int          // account -> nonce (absent = no state)
	stor    map[int]map[int]int  // contract -> key -> token: what a reader of the StateDB sees
	cached  map[int]bool         // contract has a staged storage
	base    map[int]map[int]int  // content of the staged storage's trie (as of its last update)
	dirty   map[int]bool         // staged storage whose root moved in some update
	pendA   map[int]bool         // accounts with a surviving uncommitted put
	pendS   map[int]map[int]bool // staged storage keys with a surviving uncommitted write
}

func copyII(m map[int]int) map[int]int {
	r := make(map[int]int, len(m))
	for k, v := range m {
		r[k] = v
	}
	return r
}
func copyIB(m map[int]bool) map[int]bool {
	r := make(map[int]bool, len(m))
	for k, v := range m {
		r[k] = v
	}
	return r
}
func copyIII(m map[int]map[int]int) map[int]map[int]int {
	r := make(map[int]map[int]int, len(m))
	for k, v := range m {
		r[k] = copyII(v)
	}
	return r
}
func copyIIB(m map[int]map[int]bool) map[int]map[int]bool {
	r := make(map[int]map[int]bool, len(m))
	for k, v := range m {
		r[k] = copyIB(v)
	}
	return r
}
func (r *refStore) clone() *refStore {
	return &refStore{copyII(r.acct), copyIII(r.stor), copyIB(r.cached), copyIII(r.base), copyIB(r.dirty), copyIB(r.pendA), copyIIB(r.pendS)}
}
func newRef() *refStore {
	return &refStore{map[int]int{}, map[int]map[int]int{}, map[int]bool{}, map[int]map[int]int{}, map[int]bool{}, map[int]bool{}, map[int]map[int]bool{}}
}
func eqII(a, b map[int]int) bool {
	if len(a) != len(b) {
		return false
	}
	for k, v := range a {
		if w, ok := b[k]; !ok || w != v {
			return false
		}
	}
	return true
}

// a private (not yet staged) handle: writes on top of the content it was opened on
type refHandle struct {
	private bool
	over    map[int]sval // private: key -> written value / deleted
	opened  map[int]int  // private: content at open time
}

type snapRec struct {
	time  int
	valid bool
	ref   *refStore
	live  int // len(live) when taken
}

type csnapRec struct {
	rev, time int
	live      int
	stor      map[int]int  // alias: copy of stor[c]
	pend      map[int]bool // alias: copy of pendS[c]
	over      map[int]sval // private: copy of the overlay
}

// ---------------------------------------------------------------- a session on the real code

type session struct {
	u       *universe
	na, nk  int
	dir     string
	store   db.DB
	sdb     *statedb.StateDB
	bs      *state.BlockState
	handles map[int]*statedb.ContractState
	snaps   []state.BlockSnapshot
	roots   [][]byte

	// reference + validity bookkeeping (nil in a bare replay)
	ref       *refStore
	rh        map[int]*refHandle
	snapRecs  []*snapRec
	csnaps    map[int][]*csnapRec
	committed []*refStore
	time      int
	live      []op // the surviving operations
	all       []op
	nextTok   int
	bare      bool
	count     func(string)
	updated   bool // the previous operation was Update: a bare Commit (commit0) may follow
}

var dbSeq int
var scratch string

func newStore() db.DB {
	dbSeq++
	return db.NewDB(db.MemoryImpl, filepath.Join(scratch, fmt.Sprintf("mem-%d", dbSeq)))
}

func newSession(na, nk int, bare bool) *session {
	s := &session{u: getUniverse(na, nk), na: na, nk: nk, bare: bare}
	s.store = newStore()
	s.sdb = statedb.NewStateDB(s.store, nil, false)
	s.bs = state.NewBlockState(s.sdb)
	s.handles = map[int]*statedb.ContractState{}
	s.ref = newRef()
	s.rh = map[int]*refHandle{}
	s.csnaps = map[int][]*csnapRec{}
	s.nextTok = 1
	o := op{kind: "new", a: na, b: nk}
	s.live = append(s.live, o)
	s.all = append(s.all, o)
	return s
}

func bucket(n int) string {
	switch {
	case n == 0:
		return "0"
	case n <= 3:
		return "1-3"
	case n <= 9:
		return "4-9"
	}
	return "10+"
}

func must(err error) {
	if err != nil {
		panic(err)
	}
}

// ---- validity (what the generator may choose; also guards replays of shrunk sessions)

func (s *session) valid(o op) bool {
	switch o.kind {
	case "put":
		return o.a < s.na
	case "open":
		return o.a < s.na && s.handles[o.a] == nil
	case "stage", "csnap":
		return s.handles[o.a] != nil
	case "set", "del":
		return s.handles[o.a] != nil && o.b < s.nk
	case "croll":
		if s.handles[o.a] == nil {
			return false
		}
		for _, r := range s.csnaps[o.a] {
			if r.rev == o.b {
				return true
			}
		}
		return false
	case "snap", "update", "commit", "kill":
		return true
	case "commit0":
		return s.updated // a bare Commit: only directly after an Update (nothing unflushed)
	case "roll":
		return o.a < len(s.snapRecs) && s.snapRecs[o.a].valid
	case "reopen":
		return o.a < len(s.roots)
	}
	return false
}

func (s *session) invalidateAfter(t int) {
	for _, r := range s.snapRecs {
		if r.time > t {
			r.valid = false
		}
	}
	for c, l := range s.csnaps {
		k := l[:0]
		for _, r := range l {
			if r.time <= t {
				k = append(k, r)
			}
		}
		s.csnaps[c] = k
	}
}

func (s *session) killHandles() {
	s.handles = map[int]*statedb.ContractState{}
	s.rh = map[int]*refHandle{}
	s.csnaps = map[int][]*csnapRec{}
}

// apply executes one (valid) operation on the real code and on the reference; returns the head of the answer line.
func (s *session) apply(o op) string {
	s.time++
	s.all = append(s.all, o)
	head := "ok"
	u := s.u
	s.updated = false
	switch o.kind {
	case "put":
		as, err := state.GetAccountState(u.ids[o.a], s.sdb)
		must(err)
		as.SetNonce(uint64(o.b))
		must(as.PutState())
		s.ref.acct[o.a] = o.b
		s.ref.pendA[o.a] = true
		s.live = append(s.live, o)
	case "open":
		cs, err := statedb.OpenContractStateAccount(u.ids[o.a], s.sdb)
		must(err)
		s.handles[o.a] = cs
		if s.ref.cached[o.a] {
			s.rh[o.a] = &refHandle{}
		} else {
			s.rh[o.a] = &refHandle{private: true, over: map[int]sval{}, opened: copyII(s.ref.stor[o.a])}
		}
		s.csnaps[o.a] = nil
		s.live = append(s.live, o)
	case "stage":
		cs := s.handles[o.a]
		must(statedb.StageContractState(cs, s.sdb))
		h := s.rh[o.a]
		if h.private {
			m := copyII(h.opened)
			pend := map[int]bool{}
			for k, w := range h.over {
				pend[k] = true
				if w.present {
					m[k] = w.v
				} else {
					delete(m, k)
				}
			}
			s.ref.stor[o.a] = m
			s.ref.cached[o.a] = true
			s.ref.base[o.a] = copyII(h.opened)
			s.ref.dirty[o.a] = false
			s.ref.pendS[o.a] = pend
		}
		delete(s.handles, o.a)
		delete(s.rh, o.a)
		s.csnaps[o.a] = nil
		s.live = append(s.live, o)
	case "set", "del":
		cs := s.handles[o.a]
		h := s.rh[o.a]
		if o.kind == "set" {
			noteTok(o.c)
			must(cs.SetData(u.keys[o.b], tokBytes(o.c)))
		} else {
			must(cs.DeleteData(u.keys[o.b]))
		}
		w := sval{present: o.kind == "set", v: o.c}
		if h.private {
			h.over[o.b] = w
		} else {
			if s.ref.stor[o.a] == nil {
				s.ref.stor[o.a] = map[int]int{}
			}
			if s.ref.pendS[o.a] == nil {
				s.ref.pendS[o.a] = map[int]bool{}
			}
			if w.present {
				s.ref.stor[o.a][o.b] = w.v
			} else {
				delete(s.ref.stor[o.a], o.b)
			}
			s.ref.pendS[o.a][o.b] = true
		}
		s.live = append(s.live, o)
	case "csnap":
		cs := s.handles[o.a]
		rev := int(cs.Snapshot())
		head = fmt.Sprintf("rev=%d", rev)
		h := s.rh[o.a]
		rec := &csnapRec{rev: rev, time: s.time, live: len(s.live)}
		if h.private {
			rec.over = map[int]sval{}
			for k, v := range h.over {
				rec.over[k] = v
			}
		} else {
			rec.stor = copyII(s.ref.stor[o.a])
			rec.pend = copyIB(s.ref.pendS[o.a])
		}
		// a later snapshot with the same revision number denotes the same buffer state
		l := s.csnaps[o.a][:0]
		for _, r := range s.csnaps[o.a] {
			if r.rev != rev {
				l = append(l, r)
			}
		}
		s.csnaps[o.a] = append(l, rec)
	case "croll":
		cs := s.handles[o.a]
		var rec *csnapRec
		for _, r := range s.csnaps[o.a] {
			if r.rev == o.b {
				rec = r
			}
		}
		must(cs.Rollback(statedb.Snapshot(o.b)))
		h := s.rh[o.a]
		if h.private {
			h.over = map[int]sval{}
			for k, v := range rec.over {
				h.over[k] = v
			}
		} else {
			s.ref.stor[o.a] = copyII(rec.stor)
			s.ref.pendS[o.a] = copyIB(rec.pend)
		}
		s.invalidateAfter(rec.time)
		// surviving operations: drop the writes made through this handle since the snapshot
		keep := append([]op{}, s.live[:rec.live]...)
		for _, x := range s.live[rec.live:] {
			if (x.kind == "set" || x.kind == "del") && x.a == o.a {
				continue
			}
			keep = append(keep, x)
		}
		s.live = keep
	case "snap":
		sn := s.bs.Snapshot()
		s.snaps = append(s.snaps, sn)
		s.snapRecs = append(s.snapRecs, &snapRec{time: s.time, valid: true, ref: s.ref.clone(), live: len(s.live)})
		head = s.showSnap()
	case "roll":
		must(s.bs.Rollback(s.snaps[o.a]))
		rec := s.snapRecs[o.a]
		if s.count != nil {
			n, inner := len(s.live)-rec.live, 0
			for _, r := range s.snapRecs[o.a+1:] {
				if r.valid {
					inner++
				}
			}
			s.count(fmt.Sprintf("roll-reverts-ops=%s", bucket(n)))
			s.count(fmt.Sprintf("roll-discards-inner-snapshots=%s", bucket(inner)))
			if len(s.ref.cached) > len(rec.ref.cached) {
				s.count("roll-drops-contract-staged-later")
			}
			if len(rec.ref.cached) > 0 {
				s.count("roll-with-staged-storages")
			}
		}
		s.ref = rec.ref.clone()
		s.invalidateAfter(rec.time)
		s.killHandles()
		s.live = append(append([]op{}, s.live[:rec.live]...), op{kind: "kill"})
	case "kill":
		s.killHandles()
		s.live = append(s.live, o)
	case "update", "commit", "commit0":
		if o.kind != "commit0" {
			must(s.sdb.Update())
			s.refUpdate()
		}
		s.updated = o.kind == "update"
		if o.kind != "update" {
			must(s.sdb.Commit())
			var root []byte // keep a nil root nil (an empty non-nil root would make setMarker write under Hasher(""))
			if r := s.sdb.GetRoot(); r != nil {
				root = append([]byte{}, r...)
			}
			s.roots = append(s.roots, root)
			s.ref.pendA = map[int]bool{}
			s.ref.pendS = map[int]map[int]bool{}
			c := s.ref.clone()
			s.committed = append(s.committed, c)
		}
		s.invalidateAfter(-1)
		s.live = append(s.live, o)
	case "reopen":
		s.sdb = statedb.NewStateDB(s.store, s.roots[o.a], false)
		s.bs = state.NewBlockState(s.sdb)
		s.killHandles()
		c := s.committed[o.a]
		s.ref = newRef()
		s.ref.acct = copyII(c.acct)
		s.ref.stor = copyIII(c.stor)
		s.invalidateAfter(-1)
		s.live = append(s.live, o)
	default:
		panic("unknown op " + o.kind)
	}
	return head
}

// refUpdate: Update materialises the storage root in the account record of every staged storage whose
// content moved (an account without a record gets an empty one).
func (s *session) refUpdate() {
	for c := range s.ref.cached {
		if !eqII(s.ref.stor[c], s.ref.base[c]) {
			s.ref.dirty[c] = true
		}
		s.ref.base[c] = copyII(s.ref.stor[c])
		if s.ref.dirty[c] {
			if _, ok := s.ref.acct[c]; !ok {
				s.ref.acct[c] = 0
			}
		}
	}
}

func (s *session) showSnap() string {
	parts := []string{}
	ids := s.sdb.VerifCacheIDs()
	ix := make([]int, 0, len(ids))
	for _, id := range ids {
		ix = append(ix, s.u.aidIx[id])
	}
	sort.Ints(ix)
	// revisions: the storage snapshot map is unexported; the revision of a staged buffer is observable
	// through a handle on it
	for _, c := range ix {
		cs, err := statedb.OpenContractStateAccount(s.u.ids[c], s.sdb)
		must(err)
		parts = append(parts, fmt.Sprintf("%d:%d", c, int(cs.Snapshot())))
	}
	return fmt.Sprintf("snap=%d/%s", int(s.sdb.Snapshot()), joinDot(parts, ","))
}

func joinDot(l []string, sep string) string {
	if len(l) == 0 {
		return "."
	}
	return strings.Join(l, sep)
}

// ---- observations

type reads struct {
	acct []string
	stor []string
}

func (s *session) handleOrTemp(c int) *statedb.ContractState {
	if cs := s.handles[c]; cs != nil {
		return cs
	}
	cs, err := statedb.OpenContractStateAccount(s.u.ids[c], s.sdb)
	must(err)
	return cs
}

func (s *session) read() reads {
	var r reads
	for a := 0; a < s.na; a++ {
		st, err := s.sdb.GetState(s.u.aids[a])
		must(err)
		if st == nil {
			r.acct = append(r.acct, "-")
		} else {
			r.acct = append(r.acct, strconv.FormatUint(st.Nonce, 10))
		}
	}
	for c := 0; c < s.na; c++ {
		cs := s.handleOrTemp(c)
		for k := 0; k < s.nk; k++ {
			v, err := cs.GetData(s.u.keys[k])
			must(err)
			r.stor = append(r.stor, bytesTok(v))
		}
	}
	return r
}

func (s *session) refReads() reads {
	var r reads
	for a := 0; a < s.na; a++ {
		if n, ok := s.ref.acct[a]; ok {
			r.acct = append(r.acct, strconv.Itoa(n))
		} else {
			r.acct = append(r.acct, "-")
		}
	}
	for c := 0; c < s.na; c++ {
		h := s.rh[c]
		for k := 0; k < s.nk; k++ {
			var v sval
			if h != nil && h.private {
				if w, ok := h.over[k]; ok {
					v = w
				} else if t, ok := h.opened[k]; ok {
					v = sval{true, t}
				}
			} else if t, ok := s.ref.stor[c][k]; ok {
				v = sval{true, t}
			}
			if v.present {
				r.stor = append(r.stor, strconv.Itoa(v.v))
			} else {
				r.stor = append(r.stor, "-")
			}
		}
	}
	return r
}

type expEntry struct {
	key int
	tok string
}

func (s *session) decodeExport(keys, vals [][]byte, acct bool) ([]expEntry, bool) {
	out := make([]expEntry, len(keys))
	sorted := true
	for i := range keys {
		var k int
		var ok bool
		if acct {
			var id types.AccountID
			copy(id[:], keys[i])
			k, ok = s.u.aidIx[id]
		} else {
			var id types.HashID
			copy(id[:], keys[i])
			k, ok = s.u.keyIx[id]
		}
		if !ok {
			k = -1
		}
		t := "?"
		if !acct {
			if x, ok := hashTok[string(vals[i])]; ok {
				t = x
			}
		}
		out[i] = expEntry{k, t}
		if i > 0 && bytes.Compare(keys[i-1], keys[i]) >= 0 {
			sorted = false
		}
	}
	return out, sorted
}

// exports renders the export lists and checks oracle (iv) against the reads.
func (s *session) exports(rd reads) (string, string) {
	var sb strings.Builder
	bad := ""
	ak, av := s.sdb.VerifExport()
	ae, sorted := s.decodeExport(ak, av, true)
	if !sorted {
		bad = "account export not strictly ascending by key"
	}
	parts := []string{}
	seenA := map[int]bool{}
	for i, e := range ae {
		parts = append(parts, strconv.Itoa(e.key))
		seenA[e.key] = true
		// the exported hash must be the hash of the currently visible state of that account
		if e.key >= 0 {
			st, err := s.sdb.GetState(s.u.aids[e.key])
			must(err)
			if st == nil || !bytes.Equal(statedb.VerifHash(st), av[i]) {
				bad = fmt.Sprintf("account %d: exported value is not the visible state", e.key)
			}
		} else {
			bad = "account export contains an unknown key"
		}
	}
	for a := range s.ref.pendA {
		if !seenA[a] {
			bad = fmt.Sprintf("account %d has a surviving uncommitted put but is not exported", a)
		}
	}
	sb.WriteString(joinDot(parts, ","))
	one := func(tag string, c int, keys, vals [][]byte, pend map[int]bool, private bool) {
		es, sorted := s.decodeExport(keys, vals, false)
		if !sorted {
			bad = fmt.Sprintf("%s%d: export not strictly ascending by key", tag, c)
		}
		ps := []string{}
		seen := map[int]bool{}
		for _, e := range es {
			ps = append(ps, fmt.Sprintf("%d=%s", e.key, e.tok))
			seen[e.key] = true
			if e.key < 0 {
				bad = fmt.Sprintf("%s%d: export contains an unknown key", tag, c)
				continue
			}
			// visible value of (c, key): through the handle if it is the handle's buffer, else through the StateDB
			vis := rd.stor[c*s.nk+e.key]
			if private != (s.handles[c] != nil && s.rh[c] != nil && s.rh[c].private) {
				vis = "" // the buffer is not the one the recorded reads went through; skip
			}
			want := vis
			if vis == "-" {
				want = "d"
			}
			if vis != "" && e.tok != want {
				bad = fmt.Sprintf("%s%d key %d: exported %s but the visible value is %s", tag, c, e.key, e.tok, vis)
			}
		}
		for k := range pend {
			if !seen[k] {
				bad = fmt.Sprintf("%s%d key %d has a surviving uncommitted write but is not exported", tag, c, k)
			}
		}
		sb.WriteString(fmt.Sprintf(" %s%d[%s]", tag, c, joinDot(ps, ",")))
	}
	ids := s.sdb.VerifCacheIDs()
	ix := make([]int, 0, len(ids))
	for _, id := range ids {
		c, ok := s.u.aidIx[id]
		if !ok {
			bad = "storage cache holds an unknown account"
			continue
		}
		ix = append(ix, c)
	}
	sort.Ints(ix)
	for _, c := range ix {
		k, v, _ := s.sdb.VerifCacheExport(s.u.aids[c])
		one("c", c, k, v, s.ref.pendS[c], false)
	}
	hs := []int{}
	for c, cs := range s.handles {
		if !cs.VerifIsStaged(s.sdb) {
			hs = append(hs, c)
		}
	}
	sort.Ints(hs)
	for _, c := range hs {
		k, v := s.handles[c].VerifExport()
		pend := map[int]bool{}
		if h := s.rh[c]; h != nil && h.private {
			for kk := range h.over {
				pend[kk] = true
			}
		}
		one("h", c, k, v, pend, true)
	}
	// (which contracts are staged is not a visible read: it is compared with the model, not judged here)
	return sb.String(), bad
}

func (r reads) line() string {
	return "A " + strings.Join(r.acct, " ") + " | S " + strings.Join(r.stor, " ")
}

// ---------------------------------------------------------------- oracles

type failure struct {
	what string
	ops  []op
}

// replaySurvivors runs the surviving operations on a fresh store and returns the session.
func replaySurvivors(live []op) *session {
	var r *session
	for _, o := range live {
		if o.kind == "new" {
			r = newSession(o.a, o.b, true)
			continue
		}
		if !r.valid(o) {
			panic(fmt.Sprintf("surviving operation list is not executable at %q: %v", o.String(), opsString(live)))
		}
		r.apply(o)
	}
	return r
}

func dumpStore(d db.DB) map[string]string {
	m := map[string]string{}
	it := d.Iterator(nil, nil)
	for ; it.Valid(); it.Next() {
		m[string(it.Key())] = string(it.Value())
	}
	return m
}

// step applies o, evaluates the oracles, and returns (head, reads, exports, what-failed).
func (s *session) step(o op) (string, reads, string, string) {
	head := s.apply(o)
	rd := s.read()
	bad := ""
	if want := s.refReads(); want.line() != rd.line() {
		bad = fmt.Sprintf("after %q reads are [%s], the reference (maps with a snapshot stack) says [%s]", o.String(), rd.line(), want.line())
	}
	ex, b2 := s.exports(rd)
	if bad == "" && b2 != "" {
		bad = fmt.Sprintf("after %q: %s", o.String(), b2)
	}
	if !s.bare && bad == "" && (o.kind == "update" || o.kind == "commit" || o.kind == "commit0") {
		r := replaySurvivors(s.live)
		if !bytes.Equal(r.sdb.GetRoot(), s.sdb.GetRoot()) {
			bad = fmt.Sprintf("state root after %q differs from the root of a fresh StateDB that executed only the surviving operations %v", o.String(), opsString(s.live))
		} else if o.kind != "update" {
			a, b := dumpStore(s.store), dumpStore(r.store)
			if len(a) != len(b) {
				bad = fmt.Sprintf("persisted data after commit: %d pairs, %d pairs when only the surviving operations are executed", len(a), len(b))
			} else {
				for k, v := range a {
					if w, ok := b[k]; !ok || w != v {
						bad = "persisted data after commit differs from a run of only the surviving operations"
						break
					}
				}
			}
		}
		if bad == "" {
			// the fresh run must also read the same
			if x := r.read(); x.line() != rd.line() {
				bad = fmt.Sprintf("reads after %q differ from a run of only the surviving operations", o.String())
			}
		}
	}
	return head, rd, ex, bad
}

// check re-runs a whole op list silently; returns what failed ("" = nothing; "invalid" = not executable).
func check(ops []op) (res string) {
	defer func() {
		if e := recover(); e != nil {
			res = fmt.Sprintf("panic: %v", e)
		}
	}()
	var s *session
	for _, o := range ops {
		if o.kind == "new" {
			s = newSession(o.a, o.b, false)
			continue
		}
		if s == nil || !s.valid(o) {
			return "invalid"
		}
		if _, _, _, bad := s.step(o); bad != "" {
			return bad
		}
	}
	return ""
}

func class(what string) string {
	if i := strings.Index(what, ":"); i > 0 && strings.HasPrefix(what, "panic") {
		return "panic"
	}
	for _, k := range []string{"reads are", "state root", "persisted data", "exported", "not exported", "ascending", "differ from a run"} {
		if strings.Contains(what, k) {
			return k
		}
	}
	return what
}

// shrink deletes operations while the same class of failure persists.
func shrink(ops []op, what string) ([]op, string) {
	cl := class(what)
	cur := ops
	for pass := 0; pass < 6; pass++ {
		changed := false
		for i := len(cur) - 1; i >= 1; i-- {
			cand := append(append([]op{}, cur[:i]...), cur[i+1:]...)
			if w := check(cand); w != "" && w != "invalid" && class(w) == cl {
				cur, what, changed = cand, w, true
			}
		}
		if !changed {
			break
		}
	}
	return cur, what
}

// ---------------------------------------------------------------- generation

type gen struct {
	run      *vh.Run
	failures int
}

func (g *gen) record(s *session, o op) bool {
	var head, ex, bad string
	var rd reads
	out, panicked := vh.Guard(func() string {
		head, rd, ex, bad = s.step(o)
		return ""
	})
	if panicked {
		g.run.Op(o.String(), out, false)
		g.fail(out, s.all)
		return false
	}
	nontrivial := o.kind != "new"
	g.run.Op(o.String(), head+" | "+rd.line()+" | X "+ex, nontrivial)
	g.run.Count("op=" + o.kind)
	if bad != "" {
		g.fail(bad, s.all)
		return false
	}
	return true
}

func (g *gen) fail(what string, ops []op) {
	g.failures++
	if g.failures > 8 {
		g.run.Count("oracle-fail-not-shrunk")
		return
	}
	small, w := shrink(append([]op{}, ops...), what)
	g.run.Fail(w, map[string]interface{}{"ops": opsString(small), "full_session": opsString(ops),
		"how": "each line is one operation of harness/c12 (see its header); 'new <accounts> <keys>' starts a StateDB on an empty memorydb"})
}

func (g *gen) start(na, nk int) *session {
	s := newSession(na, nk, false)
	s.count = g.run.Count
	rd := s.read()
	ex, _ := s.exports(rd)
	g.run.Op(s.all[0].String(), "ok | "+rd.line()+" | X "+ex, false)
	return s
}

// candidates: every valid next operation over the session's universe (values are fresh tokens).
func (s *session) candidates(withC bool) []op {
	var l []op
	tok := s.nextTok
	if s.updated {
		l = append(l, op{kind: "commit0"})
	}
	for a := 0; a < s.na; a++ {
		l = append(l, op{kind: "put", a: a, b: tok})
	}
	for c := 0; c < s.na; c++ {
		if s.handles[c] == nil {
			l = append(l, op{kind: "open", a: c})
		} else {
			l = append(l, op{kind: "stage", a: c})
			for k := 0; k < s.nk; k++ {
				l = append(l, op{kind: "set", a: c, b: k, c: tok}, op{kind: "del", a: c, b: k})
			}
			if withC {
				l = append(l, op{kind: "csnap", a: c})
				for _, r := range s.csnaps[c] {
					l = append(l, op{kind: "croll", a: c, b: r.rev})
				}
			}
		}
	}
	l = append(l, op{kind: "snap"})
	for i, r := range s.snapRecs {
		if r.valid {
			l = append(l, op{kind: "roll", a: i})
		}
	}
	l = append(l, op{kind: "update"}, op{kind: "commit"})
	for i := range s.roots {
		l = append(l, op{kind: "reopen", a: i})
	}
	return l
}

// exhaustive: every valid sequence of `depth` operations; the model driver follows the depth-first walk
// with `back` lines, the real code re-executes the prefix on a fresh store.
func (g *gen) exhaustive(na, nk, depth int, withC bool, sample func(level int) bool) int {
	n := 0
	var prefix []op
	var walk func(level int)
	rebuild := func() *session {
		s := newSession(na, nk, false)
		s.bare = true // oracles (ii) were evaluated when each prefix op was the last op
		for _, o := range prefix {
			s.apply(o)
			if o.kind == "put" || o.kind == "set" {
				s.nextTok++
			}
		}
		s.bare = false
		s.count = g.run.Count
		return s
	}
	walk = func(level int) {
		s := rebuild()
		cands := s.candidates(withC)
		for _, o := range cands {
			if sample != nil && !sample(level) {
				continue
			}
			if s == nil {
				s = rebuild()
			}
			ok := g.record(s, o)
			n++
			if ok && level+1 < depth {
				prefix = append(prefix, o)
				walk(level + 1)
				prefix = prefix[:len(prefix)-1]
			}
			g.run.Op("back", "ok", false)
			s = nil
		}
	}
	g.run.Op(fmt.Sprintf("new %d %d", na, nk), func() string {
		s := newSession(na, nk, false)
		rd := s.read()
		ex, _ := s.exports(rd)
		return "ok | " + rd.line() + " | X " + ex
	}(), false)
	walk(0)
	return n
}

// random session
func (g *gen) random(length int) {
	rng := g.run.Rng
	na := 2 + rng.Intn(3)
	nk := 2
	if g.run.Thorough() && rng.Chance(1, 3) {
		nk = 3
	}
	s := g.start(na, nk)
	inTx := -1 // index of the snapshot opened by the current "transaction", if any
	for i := 0; i < length; i++ {
		cands := s.candidates(true)
		// weights: writes and snapshots dominate; update/commit/reopen are rare
		w := make([]int, len(cands))
		total := 0
		for j, o := range cands {
			switch o.kind {
			case "put":
				w[j] = 6
			case "set":
				w[j] = 8
			case "del":
				w[j] = 4
			case "open":
				w[j] = 5
			case "stage":
				w[j] = 6
			case "snap":
				w[j] = 8
			case "roll":
				w[j] = 5
				if o.a == inTx {
					w[j] = 12
				}
			case "csnap":
				w[j] = 3
			case "croll":
				w[j] = 4
			case "update":
				w[j] = 4
			case "commit":
				w[j] = 3
			case "commit0":
				w[j] = 6
			case "reopen":
				w[j] = 1
			}
			total += w[j]
		}
		x := rng.Intn(total)
		var o op
		for j := range cands {
			if x < w[j] {
				o = cands[j]
				break
			}
			x -= w[j]
		}
		// values: mostly fresh, sometimes the empty value or a repeat of the visible value
		if o.kind == "set" {
			switch {
			case rng.Chance(1, 12):
				o.c = 0
			case rng.Chance(1, 8):
				if t, ok := s.ref.stor[o.a][o.b]; ok {
					o.c = t
				}
			}
		}
		if o.kind == "put" && rng.Chance(1, 10) {
			if n, ok := s.ref.acct[o.a]; ok {
				o.b = n
			}
		}
		if o.kind == "snap" {
			inTx = len(s.snapRecs)
		}
		if !g.record(s, o) {
			return
		}
		if o.kind == "put" || o.kind == "set" {
			s.nextTok++
		}
	}
	depth := 0
	for _, r := range s.snapRecs {
		if r.valid {
			depth++
		}
	}
	g.run.Count(fmt.Sprintf("random-session-live-snapshots-at-end=%d", min(depth, 6)))
}

func min(a, b int) int {
	if a < b {
		return a
	}
	return b
}

// scripted sessions: shapes the proofs case-split on
func (g *gen) scripted() {
	scripts := [][]string{
		// rollback to the same snapshot twice; nested three deep; rollback of a key whose stack empties
		{"new 2 2", "put 0 1", "snap", "put 0 2", "put 1 3", "snap", "put 0 4", "snap", "put 1 5", "roll 2", "roll 1", "put 0 6", "roll 1", "roll 0", "roll 0", "update", "commit0", "reopen 0"},
		// contract staged after the snapshot is dropped; staged before is rolled back
		{"new 2 2", "open 0", "set 0 0 1", "stage 0", "snap", "open 0", "set 0 0 2", "del 0 1", "stage 0", "open 1", "set 1 1 3", "stage 1", "roll 0", "commit", "reopen 0"},
		// private handle discarded by a rollback; contract-level recovery points
		{"new 2 2", "snap", "open 0", "set 0 0 1", "csnap 0", "set 0 0 2", "set 0 1 3", "csnap 0", "del 0 0", "croll 0 3", "croll 0 1", "stage 0", "open 0", "set 0 1 9", "roll 0", "commit"},
		// delete then commit; empty value; re-put of equal value
		{"new 2 2", "open 1", "set 1 0 0", "set 1 1 5", "stage 1", "commit", "open 1", "del 1 0", "set 1 1 5", "stage 1", "update", "commit0", "reopen 0", "reopen 1"},
		// update between writes, account record materialised by a dirty storage
		{"new 3 2", "open 2", "set 2 0 1", "stage 2", "commit", "put 2 7", "snap", "open 2", "set 2 0 2", "stage 2", "put 2 8", "roll 0", "commit", "reopen 0", "reopen 1"},
	}
	scripts = append(scripts,
		// several Updates before a Commit, one with an unchanged buffer (pkg/trie storeNode defect, repaired in /repo d09c8a7f)
		[]string{"new 2 2", "put 0 1", "update", "update", "commit0", "reopen 0"},
		[]string{"new 2 2", "put 0 1", "put 1 2", "update", "put 0 3", "update", "open 1", "set 1 0 4", "stage 1", "update", "update", "commit", "reopen 0"},
	)
	for _, sc := range scripts {
		var s *session
		for _, line := range sc {
			o, ok := parseOp(line)
			if !ok {
				panic("bad script line " + line)
			}
			if o.kind == "new" {
				s = g.start(o.a, o.b)
				continue
			}
			if !s.valid(o) {
				panic("script not valid at " + line)
			}
			if !g.record(s, o) {
				break
			}
		}
		g.run.Count("scripted-session")
	}
	// ill-formed lines: the model must answer bad-op, never guess
	for _, l := range []string{"new 2 2", "put 0", "set 0 0", "stage 1", "roll 7", "reopen 0", "croll 0 1", "frobnicate", "put x 1"} {
		if l == "new 2 2" {
			g.start(2, 2)
			continue
		}
		g.run.Op(l, "bad-op", false)
		g.run.Count("malformed-line")
	}
}

func parseOp(line string) (op, bool) {
	f := strings.Fields(line)
	if len(f) == 0 {
		return op{}, false
	}
	o := op{kind: f[0]}
	var n [3]int
	for i := 1; i < len(f) && i <= 3; i++ {
		v, err := strconv.Atoi(f[i])
		if err != nil {
			return op{}, false
		}
		n[i-1] = v
	}
	o.a, o.b, o.c = n[0], n[1], n[2]
	return o, true
}

func main() {
	run := vh.Start("c12", "sessions on the real StateDB/ContractState/BlockState over memorydb: scripted shapes; every valid operation "+
		"sequence up to a fixed length on 2 accounts x 2 storage keys (depth-first, model follows with 'back'); random sessions "+
		"(2-4 accounts, 2-3 keys, nested block snapshots/rollbacks, contract-level snapshots, update/commit/reopen). "+
		"Every op records all reads and all buffer exports. non-trivial = any op other than 'new'/'back'; distinct by (op, answer)")
	defer run.Finish()
	scratch = filepath.Join(run.Out, "db")
	os.MkdirAll(scratch, 0o755)
	defer os.RemoveAll(scratch)
	g := &gen{run: run}

	if run.Replay != "" {
		// replay file written by ./check: {"input": {"ops": [...]}} — re-run that session with the oracles on
		var rp struct {
			Input struct {
				Ops []string `json:"ops"`
			} `json:"input"`
		}
		raw, err := os.ReadFile(run.Replay)
		must(err)
		must(json.Unmarshal(raw, &rp))
		var ops []op
		for _, l := range rp.Input.Ops {
			o, ok := parseOp(l)
			if !ok {
				panic("bad replay line " + l)
			}
			ops = append(ops, o)
		}
		what := check(ops)
		fmt.Fprintf(os.Stderr, "replay: %q\n", what)
		run.Eval(strings.Join(rp.Input.Ops, ";"), true)
		if what != "" {
			run.Fail(what, map[string]interface{}{"ops": rp.Input.Ops})
		}
		return
	}

	g.scripted()

	// exhaustive small scope: 2 accounts x 2 keys
	depth := run.Pick(5, 6)
	n := g.exhaustive(2, 2, depth, false, nil)
	run.Count(fmt.Sprintf("exhaustive-depth-%d-nodes=%d", depth, n))
	run.SetExhaustive(true)
	// one level deeper, sampled; with contract-level snapshots
	rng := run.Rng
	n2 := g.exhaustive(2, 2, depth+3, true, func(level int) bool {
		if level < 3 {
			return rng.Chance(1, 2)
		}
		return rng.Chance(1, 4)
	})
	run.Count(fmt.Sprintf("sampled-depth-%d-nodes=%d", depth+3, n2))

	for i := 0; i < run.Pick(4000, 60000); i++ {
		g.random(20 + rng.Intn(run.Pick(40, 80)))
		if g.failures > 8 {
			break
		}
	}
}
