// Harness c12: the real StateDB / ContractState / BlockState / AccountState (memorydb) driven by
// generated sessions of account puts, AccountState objects held across snapshots (SetNonce / AddBalance /
// Reset / PutState), storage sets/deletes, contract open/stage (also on the working record of a held
// AccountState, with SetCode), block snapshots and rollbacks in any nesting, contract-level
// snapshots/rollbacks, update, commit and reopen. tx.go drives the CALLERS of the snapshot API
// (chain.NewTxExecutor / executeTx / contract.Execute) and checks that they stay inside the discipline
// the generated sessions obey.
//
// After every operation it records all reads (every account: nonce/balance/code; every storage key of every
// contract; HasKey of every key) and the export lists of every buffer (trace compared line by line with the
// Lean model, whose driver also runs the definitions the theorems are stated over - runB, survivors, Spec,
// commitBlock - on the same operations and flags any disagreement), and it evaluates the property on the real code:
//
//	(i)   every read equals a plain reference (Go maps, a snapshot = a deep copy, a rollback = put the copy back;
//	      an AccountState = two records by value);
//	(ii)  the root after Update/Commit, and the persisted key/value pairs after Commit, equal those of a fresh
//	      StateDB that executed only the surviving operations (reverted spans deleted) - except contract code
//	      written by a reverted SetCode, which SetRawKV put into the store at call time;
//	(iii) a StateDB reopened at a committed root returns the surviving values;
//	(iv)  no buffer exports a value other than the currently visible one, and every key with a
//	      surviving uncommitted write is exported;
//	(v)   no entry of any undo log changes after it was written (the logs hold pointers, model and reference
//	      hold values: in-place mutation of a buffered record is what would separate them);
//	(vi)  HasKey = a surviving buffered write (a delete marker counts) or a value in the storage trie.
//
// Discipline of the generated sessions (documented in notes/C12.md): a block rollback closes all
// open contract handles and drops all held AccountStates (a transaction aborts); an AccountState that has
// been put is not touched again; none is kept across an Update; snapshots are invalidated by rollback to an
// earlier snapshot, by Update/Commit and by reopening; `commit` is Update+Commit (as in every caller in
// the repository), a bare Commit (`commit0`) is issued only directly after an Update. Any number of
// Updates may precede a Commit, with or without writes in between.
package main

import (
	"bytes"
	"encoding/json"
	"fmt"
	"math/big"
	"os"
	"path/filepath"
	"sort"
	"strconv"
	"strings"

	"github.com/aergoio/aergo-lib/db"
	"github.com/aergoio/aergo/v2/internal/common"
	"github.com/aergoio/aergo/v2/state"
	"github.com/aergoio/aergo/v2/state/statedb"
	"github.com/aergoio/aergo/v2/types"
	"github.com/aergoio/aergo/v2/zz_verif/vh"
)

// ---------------------------------------------------------------- operations

type op struct {
	kind    string // new put open stage set del csnap croll snap roll update commit reopen kill aget anonce abal areset aput code
	a, b, c int
}

func (o op) String() string {
	switch o.kind {
	case "new":
		return fmt.Sprintf("new %d %d", o.a, o.b)
	case "put":
		return fmt.Sprintf("put %d %d", o.a, o.b)
	case "open", "stage", "csnap", "roll", "reopen", "aget", "areset", "aput":
		return fmt.Sprintf("%s %d", o.kind, o.a)
	case "set":
		return fmt.Sprintf("set %d %d %d", o.a, o.b, o.c)
	case "del", "croll", "anonce", "abal", "code":
		return fmt.Sprintf("%s %d %d", o.kind, o.a, o.b)
	}
	return o.kind
}

func opsString(ops []op) []string {
	r := make([]string, len(ops))
	for i, o := range ops {
		r[i] = o.String()
	}
	return r
}

// ---------------------------------------------------------------- key universe

type universe struct {
	ids   [][]byte          // contract/account id bytes, numbered ascending by AccountID
	aids  []types.AccountID // their AccountIDs
	keys  [][]byte          // storage keys, numbered ascending by HashID
	aidIx map[types.AccountID]int
	keyIx map[types.HashID]int
}

var universes = map[[2]int]*universe{}

func getUniverse(na, nk int) *universe {
	if u, ok := universes[[2]int{na, nk}]; ok {
		return u
	}
	u := &universe{aidIx: map[types.AccountID]int{}, keyIx: map[types.HashID]int{}}
	for i := 0; i < na; i++ {
		u.ids = append(u.ids, []byte(fmt.Sprintf("verif-c12-account-%d", i)))
	}
	sort.Slice(u.ids, func(i, j int) bool {
		x, y := types.ToAccountID(u.ids[i]), types.ToAccountID(u.ids[j])
		return bytes.Compare(x[:], y[:]) < 0
	})
	for i, id := range u.ids {
		aid := types.ToAccountID(id)
		u.aids = append(u.aids, aid)
		u.aidIx[aid] = i
	}
	for i := 0; i < nk; i++ {
		u.keys = append(u.keys, []byte(fmt.Sprintf("key-%d", i)))
	}
	sort.Slice(u.keys, func(i, j int) bool {
		return types.GetHashID(u.keys[i]).Compare(types.GetHashID(u.keys[j])) < 0
	})
	for i, k := range u.keys {
		u.keyIx[types.GetHashID(k)] = i
	}
	universes[[2]int{na, nk}] = u
	return u
}

// token -> storage value bytes; token 0 is the empty (non-nil) value; every fifth token is a LARGE value
// (200..4200 bytes: a write path that treats big values differently must not escape the oracles)
func tokBytes(t int) []byte {
	if t == 0 {
		return []byte{}
	}
	b := []byte("v" + strconv.Itoa(t))
	if t%5 == 3 {
		b = append(b, bytes.Repeat([]byte("#"), 200+(t*37)%4000)...)
	}
	return b
}

// token -> contract code bytes (SetCode persists them at call time under their hash)
func codeBytes(t int) []byte {
	return []byte("code-" + strconv.Itoa(t) + strings.Repeat("!", (t*13)%300))
}

func bytesTok(b []byte) string {
	if b == nil {
		return "-"
	}
	if len(b) == 0 {
		return "0"
	}
	if b[0] == 'v' {
		r := string(b[1:])
		if i := strings.IndexByte(r, '#'); i >= 0 {
			if len(b) != len(tokBytes(atoi(r[:i]))) {
				return "?truncated" + r[:i]
			}
			r = r[:i]
		}
		return r
	}
	return "?" + fmt.Sprintf("%x", b)
}

func atoi(x string) int {
	n, err := strconv.Atoi(x)
	if err != nil {
		return -1
	}
	return n
}

var hashTok = map[string]string{} // export value hash -> token ("d" for the delete marker)

func init() {
	hashTok[string(statedb.VerifHash(nil))] = "d"
}

func noteTok(t int) {
	hashTok[string(statedb.VerifHash(tokBytes(t)))] = strconv.Itoa(t)
}

var codeTok = map[string]int{} // code hash -> token

func noteCode(t int) {
	codeTok[string(common.Hasher(codeBytes(t)))] = t
}

// ---------------------------------------------------------------- reference (the property's own notion of state)

type sval struct {
	present bool
	v       int
}

// aval: the fields of an account record this layer can see change
type aval struct{ nonce, bal, code int }

func (v aval) String() string {
	if v.bal == 0 && v.code == 0 {
		return strconv.Itoa(v.nonce)
	}
	return fmt.Sprintf("%d/%d/%d", v.nonce, v.bal, v.code)
}

type refStore struct {
	acct    map[int]aval         // account -> record (absent = no state)
	stor    map[int]map[int]int  // contract -> key -> token: what a reader of the StateDB sees
	cached  map[int]bool         // contract has a staged storage
	base    map[int]map[int]int  // content of the staged storage's trie (as of its last update)
	dirty   map[int]bool         // staged storage whose root moved in some update
	pendA   map[int]bool         // accounts with a surviving uncommitted put
	pendS   map[int]map[int]bool // staged storage keys with a surviving uncommitted write
}

func copyII(m map[int]int) map[int]int {
	r := make(map[int]int, len(m))
	for k, v := range m {
		r[k] = v
	}
	return r
}
func copyIA(m map[int]aval) map[int]aval {
	r := make(map[int]aval, len(m))
	for k, v := range m {
		r[k] = v
	}
	return r
}
func copyIB(m map[int]bool) map[int]bool {
	r := make(map[int]bool, len(m))
	for k, v := range m {
		r[k] = v
	}
	return r
}
func copyIII(m map[int]map[int]int) map[int]map[int]int {
	r := make(map[int]map[int]int, len(m))
	for k, v := range m {
		r[k] = copyII(v)
	}
	return r
}
func copyIIB(m map[int]map[int]bool) map[int]map[int]bool {
	r := make(map[int]map[int]bool, len(m))
	for k, v := range m {
		r[k] = copyIB(v)
	}
	return r
}
func (r *refStore) clone() *refStore {
	return &refStore{copyIA(r.acct), copyIII(r.stor), copyIB(r.cached), copyIII(r.base), copyIB(r.dirty), copyIB(r.pendA), copyIIB(r.pendS)}
}
func newRef() *refStore {
	return &refStore{map[int]aval{}, map[int]map[int]int{}, map[int]bool{}, map[int]map[int]int{}, map[int]bool{}, map[int]bool{}, map[int]map[int]bool{}}
}
func eqII(a, b map[int]int) bool {
	if len(a) != len(b) {
		return false
	}
	for k, v := range a {
		if w, ok := b[k]; !ok || w != v {
			return false
		}
	}
	return true
}

// a private (not yet staged) handle: writes on top of the content it was opened on
type refHandle struct {
	bound   bool // opened the way contract.Execute does: OpenContractState(id, accountState.State(), ...) - shares the held object's record
	private bool
	over    map[int]sval // private: key -> written value / deleted
	opened  map[int]int  // private: content at open time
}

// a held AccountState object, by value: what GetAccountState saw (old) and the working copy (new).
// sealed: it was put; the discipline of every caller in the repository is not to touch it again.
type refHeld struct {
	hasOld   bool
	old, new aval
	sealed   bool
}

type snapRec struct {
	time  int
	valid bool
	ref   *refStore
	live  int // len(live) when taken
}

type csnapRec struct {
	rev, time int
	live      int
	stor      map[int]int  // alias: copy of stor[c]
	pend      map[int]bool // alias: copy of pendS[c]
	over      map[int]sval // private: copy of the overlay
}

// ---------------------------------------------------------------- a session on the real code

type session struct {
	u       *universe
	na, nk  int
	dir     string
	store   db.DB
	sdb     *statedb.StateDB
	bs      *state.BlockState
	handles map[int]*statedb.ContractState
	held    map[int]*state.AccountState
	snaps   []state.BlockSnapshot
	roots   [][]byte

	// reference + validity bookkeeping (nil in a bare replay)
	ref       *refStore
	rh        map[int]*refHandle
	rheld     map[int]*refHeld
	codes     map[int]bool // every code token a SetCode of this session wrote (reverted or not)
	dig       *digests     // the undo logs by value after the previous operation (entries must never change)
	snapRecs  []*snapRec
	csnaps    map[int][]*csnapRec
	committed []*refStore
	time      int
	live      []op // the surviving operations
	all       []op
	nextTok   int
	bare      bool
	count     func(string)
	updated   bool // the previous operation was Update: a bare Commit (commit0) may follow
}

var dbSeq int
var scratch string

func newStore() db.DB {
	dbSeq++
	return db.NewDB(db.MemoryImpl, filepath.Join(scratch, fmt.Sprintf("mem-%d", dbSeq)))
}

func newSession(na, nk int, bare bool) *session {
	s := &session{u: getUniverse(na, nk), na: na, nk: nk, bare: bare}
	s.store = newStore()
	s.sdb = statedb.NewStateDB(s.store, nil, false)
	s.bs = state.NewBlockState(s.sdb)
	s.handles = map[int]*statedb.ContractState{}
	s.held = map[int]*state.AccountState{}
	s.ref = newRef()
	s.rh = map[int]*refHandle{}
	s.rheld = map[int]*refHeld{}
	s.codes = map[int]bool{}
	s.csnaps = map[int][]*csnapRec{}
	s.nextTok = 1
	o := op{kind: "new", a: na, b: nk}
	s.live = append(s.live, o)
	s.all = append(s.all, o)
	return s
}

func bucket(n int) string {
	switch {
	case n == 0:
		return "0"
	case n <= 3:
		return "1-3"
	case n <= 9:
		return "4-9"
	}
	return "10+"
}

func must(err error) {
	if err != nil {
		panic(err)
	}
}

// ---- validity (what the generator may choose; also guards replays of shrunk sessions)

func (s *session) valid(o op) bool {
	switch o.kind {
	case "put":
		return o.a < s.na
	case "open":
		return o.a < s.na && s.handles[o.a] == nil
	case "stage", "csnap":
		return s.handles[o.a] != nil
	case "set", "del":
		return s.handles[o.a] != nil && o.b < s.nk
	case "croll":
		if s.handles[o.a] == nil {
			return false
		}
		for _, r := range s.csnaps[o.a] {
			if r.rev == o.b {
				return true
			}
		}
		return false
	case "aget":
		return o.a < s.na
	case "anonce", "abal", "areset", "aput":
		h := s.rheld[o.a]
		return h != nil && !h.sealed
	case "code":
		h, a := s.rh[o.a], s.rheld[o.a]
		return s.handles[o.a] != nil && h != nil && h.bound && a != nil && !a.sealed
	case "snap", "update", "commit", "kill":
		return true
	case "commit0":
		return s.updated // a bare Commit: only directly after an Update (nothing unflushed)
	case "roll":
		return o.a < len(s.snapRecs) && s.snapRecs[o.a].valid
	case "reopen":
		return o.a < len(s.roots)
	}
	return false
}

func (s *session) invalidateAfter(t int) {
	for _, r := range s.snapRecs {
		if r.time > t {
			r.valid = false
		}
	}
	for c, l := range s.csnaps {
		k := l[:0]
		for _, r := range l {
			if r.time <= t {
				k = append(k, r)
			}
		}
		s.csnaps[c] = k
	}
}

func (s *session) killHandles() {
	s.handles = map[int]*statedb.ContractState{}
	s.rh = map[int]*refHandle{}
	s.csnaps = map[int][]*csnapRec{}
	s.killHeld()
}

// killHeld drops every held AccountState (end of a transaction; also before Update, whose updateStorage
// rewrites the StorageRoot of buffered records in place - no caller keeps an AccountState across it).
// Handles opened on a held object lose their binding.
func (s *session) killHeld() {
	s.held = map[int]*state.AccountState{}
	s.rheld = map[int]*refHeld{}
	for _, h := range s.rh {
		h.bound = false
	}
}

// apply executes one (valid) operation on the real code and on the reference; returns the head of the answer line.
func (s *session) apply(o op) string {
	s.time++
	s.all = append(s.all, o)
	head := "ok"
	u := s.u
	s.updated = false
	switch o.kind {
	case "put":
		as, err := state.GetAccountState(u.ids[o.a], s.sdb)
		must(err)
		as.SetNonce(uint64(o.b))
		must(as.PutState())
		v := s.ref.acct[o.a]
		v.nonce = o.b
		s.ref.acct[o.a] = v
		s.ref.pendA[o.a] = true
		s.live = append(s.live, o)
	case "aget":
		as, err := state.GetAccountState(u.ids[o.a], s.sdb)
		must(err)
		s.held[o.a] = as
		v, ok := s.ref.acct[o.a]
		s.rheld[o.a] = &refHeld{hasOld: ok, old: v, new: v}
		if h := s.rh[o.a]; h != nil {
			h.bound = false // an open handle keeps the record of the object it was opened on
		}
		s.live = append(s.live, o)
	case "anonce":
		s.held[o.a].SetNonce(uint64(o.b))
		s.rheld[o.a].new.nonce = o.b
		s.live = append(s.live, o)
	case "abal":
		s.held[o.a].AddBalance(big.NewInt(int64(o.b)))
		s.rheld[o.a].new.bal += o.b
		s.live = append(s.live, o)
	case "areset":
		s.held[o.a].Reset()
		s.rheld[o.a].new = s.rheld[o.a].old
		if h := s.rh[o.a]; h != nil {
			h.bound = false // Reset installs a NEW working record; an open handle still points at the discarded one
		}
		s.live = append(s.live, o)
	case "aput":
		must(s.held[o.a].PutState())
		s.rheld[o.a].sealed = true
		s.ref.acct[o.a] = s.rheld[o.a].new
		s.ref.pendA[o.a] = true
		s.live = append(s.live, o)
	case "code":
		noteCode(o.b)
		must(s.handles[o.a].SetCode(nil, codeBytes(o.b)))
		s.rheld[o.a].new.code = o.b
		s.codes[o.b] = true
		head = s.showRaw()
		s.live = append(s.live, o)
	case "open":
		var cs *statedb.ContractState
		var err error
		bound := false
		if a := s.rheld[o.a]; a != nil && !a.sealed {
			// the way contract.Execute / executeGovernanceTx open it: on the held object's working record
			cs, err = statedb.OpenContractState(u.ids[o.a], s.held[o.a].State(), s.sdb)
			bound = true
		} else {
			cs, err = statedb.OpenContractStateAccount(u.ids[o.a], s.sdb)
		}
		must(err)
		s.handles[o.a] = cs
		if s.ref.cached[o.a] {
			s.rh[o.a] = &refHandle{bound: bound}
		} else {
			s.rh[o.a] = &refHandle{bound: bound, private: true, over: map[int]sval{}, opened: copyII(s.ref.stor[o.a])}
		}
		s.csnaps[o.a] = nil
		s.live = append(s.live, o)
	case "stage":
		cs := s.handles[o.a]
		must(statedb.StageContractState(cs, s.sdb))
		h := s.rh[o.a]
		if h.private {
			m := copyII(h.opened)
			pend := map[int]bool{}
			for k, w := range h.over {
				pend[k] = true
				if w.present {
					m[k] = w.v
				} else {
					delete(m, k)
				}
			}
			s.ref.stor[o.a] = m
			s.ref.cached[o.a] = true
			s.ref.base[o.a] = copyII(h.opened)
			s.ref.dirty[o.a] = false
			s.ref.pendS[o.a] = pend
		}
		delete(s.handles, o.a)
		delete(s.rh, o.a)
		s.csnaps[o.a] = nil
		s.live = append(s.live, o)
	case "set", "del":
		cs := s.handles[o.a]
		h := s.rh[o.a]
		if o.kind == "set" {
			noteTok(o.c)
			must(cs.SetData(u.keys[o.b], tokBytes(o.c)))
		} else {
			must(cs.DeleteData(u.keys[o.b]))
		}
		w := sval{present: o.kind == "set", v: o.c}
		if h.private {
			h.over[o.b] = w
		} else {
			if s.ref.stor[o.a] == nil {
				s.ref.stor[o.a] = map[int]int{}
			}
			if s.ref.pendS[o.a] == nil {
				s.ref.pendS[o.a] = map[int]bool{}
			}
			if w.present {
				s.ref.stor[o.a][o.b] = w.v
			} else {
				delete(s.ref.stor[o.a], o.b)
			}
			s.ref.pendS[o.a][o.b] = true
		}
		s.live = append(s.live, o)
	case "csnap":
		cs := s.handles[o.a]
		rev := int(cs.Snapshot())
		head = fmt.Sprintf("rev=%d", rev)
		h := s.rh[o.a]
		rec := &csnapRec{rev: rev, time: s.time, live: len(s.live)}
		if h.private {
			rec.over = map[int]sval{}
			for k, v := range h.over {
				rec.over[k] = v
			}
		} else {
			rec.stor = copyII(s.ref.stor[o.a])
			rec.pend = copyIB(s.ref.pendS[o.a])
		}
		// a later snapshot with the same revision number denotes the same buffer state
		l := s.csnaps[o.a][:0]
		for _, r := range s.csnaps[o.a] {
			if r.rev != rev {
				l = append(l, r)
			}
		}
		s.csnaps[o.a] = append(l, rec)
	case "croll":
		cs := s.handles[o.a]
		var rec *csnapRec
		for _, r := range s.csnaps[o.a] {
			if r.rev == o.b {
				rec = r
			}
		}
		must(cs.Rollback(statedb.Snapshot(o.b)))
		h := s.rh[o.a]
		if h.private {
			h.over = map[int]sval{}
			for k, v := range rec.over {
				h.over[k] = v
			}
		} else {
			s.ref.stor[o.a] = copyII(rec.stor)
			s.ref.pendS[o.a] = copyIB(rec.pend)
		}
		s.invalidateAfter(rec.time)
		// surviving operations: drop the writes made through this handle since the snapshot
		keep := append([]op{}, s.live[:rec.live]...)
		for _, x := range s.live[rec.live:] {
			if (x.kind == "set" || x.kind == "del") && x.a == o.a {
				continue
			}
			keep = append(keep, x)
		}
		s.live = keep
	case "snap":
		sn := s.bs.Snapshot()
		s.snaps = append(s.snaps, sn)
		s.snapRecs = append(s.snapRecs, &snapRec{time: s.time, valid: true, ref: s.ref.clone(), live: len(s.live)})
		head = s.showSnap()
	case "roll":
		must(s.bs.Rollback(s.snaps[o.a]))
		rec := s.snapRecs[o.a]
		if s.count != nil {
			n, inner := len(s.live)-rec.live, 0
			for _, r := range s.snapRecs[o.a+1:] {
				if r.valid {
					inner++
				}
			}
			s.count(fmt.Sprintf("roll-reverts-ops=%s", bucket(n)))
			s.count(fmt.Sprintf("roll-discards-inner-snapshots=%s", bucket(inner)))
			if len(s.ref.cached) > len(rec.ref.cached) {
				s.count("roll-drops-contract-staged-later")
			}
			if len(rec.ref.cached) > 0 {
				s.count("roll-with-staged-storages")
			}
		}
		s.ref = rec.ref.clone()
		s.invalidateAfter(rec.time)
		s.killHandles()
		s.live = append(append([]op{}, s.live[:rec.live]...), op{kind: "kill"})
	case "kill":
		s.killHandles()
		s.live = append(s.live, o)
	case "update", "commit", "commit0":
		s.killHeld()
		if o.kind != "commit0" {
			must(s.sdb.Update())
			s.refUpdate()
		}
		s.updated = o.kind == "update"
		if o.kind != "update" {
			must(s.sdb.Commit())
			var root []byte // keep a nil root nil (an empty non-nil root would make setMarker write under Hasher(""))
			if r := s.sdb.GetRoot(); r != nil {
				root = append([]byte{}, r...)
			}
			s.roots = append(s.roots, root)
			s.ref.pendA = map[int]bool{}
			s.ref.pendS = map[int]map[int]bool{}
			c := s.ref.clone()
			s.committed = append(s.committed, c)
			head = s.showRaw()
		}
		s.invalidateAfter(-1)
		s.live = append(s.live, o)
	case "reopen":
		s.sdb = statedb.NewStateDB(s.store, s.roots[o.a], false)
		s.bs = state.NewBlockState(s.sdb)
		s.killHandles()
		c := s.committed[o.a]
		s.ref = newRef()
		s.ref.acct = copyIA(c.acct)
		s.ref.stor = copyIII(c.stor)
		s.invalidateAfter(-1)
		s.live = append(s.live, o)
	default:
		panic("unknown op " + o.kind)
	}
	return head
}

// refUpdate: Update materialises the storage root in the account record of every staged storage whose
// content moved (an account without a record gets an empty one).
func (s *session) refUpdate() {
	for c := range s.ref.cached {
		if !eqII(s.ref.stor[c], s.ref.base[c]) {
			s.ref.dirty[c] = true
		}
		s.ref.base[c] = copyII(s.ref.stor[c])
		if s.ref.dirty[c] {
			if _, ok := s.ref.acct[c]; !ok {
				s.ref.acct[c] = aval{}
			}
		}
	}
}

// showRaw: which of the code tokens this session ever wrote are in the store right now ("raw=1,4"):
// SetCode/SetRawKV write to the store at call time, not at Commit, and a rollback does not take them back.
func (s *session) showRaw() string {
	ts := []int{}
	for t := range s.codes {
		if s.store.Get(common.Hasher(codeBytes(t))) != nil {
			ts = append(ts, t)
		}
	}
	sort.Ints(ts)
	ps := make([]string, len(ts))
	for i, t := range ts {
		ps[i] = strconv.Itoa(t)
	}
	return "raw=" + joinDot(ps, ",")
}

func (s *session) showSnap() string {
	parts := []string{}
	ids := s.sdb.VerifCacheIDs()
	ix := make([]int, 0, len(ids))
	for _, id := range ids {
		ix = append(ix, s.u.aidIx[id])
	}
	sort.Ints(ix)
	// revisions: the storage snapshot map is unexported; the revision of a staged buffer is observable
	// through a handle on it
	for _, c := range ix {
		cs, err := statedb.OpenContractStateAccount(s.u.ids[c], s.sdb)
		must(err)
		parts = append(parts, fmt.Sprintf("%d:%d", c, int(cs.Snapshot())))
	}
	return fmt.Sprintf("snap=%d/%s", int(s.sdb.Snapshot()), joinDot(parts, ","))
}

func joinDot(l []string, sep string) string {
	if len(l) == 0 {
		return "."
	}
	return strings.Join(l, sep)
}

// ---- observations

type reads struct {
	acct []string
	stor []string
	has  []byte // ContractState.HasKey per (contract, key): '1' / '0'
}

func (s *session) handleOrTemp(c int) *statedb.ContractState {
	if cs := s.handles[c]; cs != nil {
		return cs
	}
	cs, err := statedb.OpenContractStateAccount(s.u.ids[c], s.sdb)
	must(err)
	return cs
}

func (s *session) read() reads {
	var r reads
	for a := 0; a < s.na; a++ {
		st, err := s.sdb.GetState(s.u.aids[a])
		must(err)
		if st == nil {
			r.acct = append(r.acct, "-")
		} else {
			v := aval{nonce: int(st.Nonce), bal: int(new(big.Int).SetBytes(st.Balance).Int64())}
			if len(st.CodeHash) > 0 {
				t, ok := codeTok[string(st.CodeHash)]
				if !ok {
					t = -1
				}
				v.code = t
			}
			r.acct = append(r.acct, v.String())
		}
	}
	for c := 0; c < s.na; c++ {
		cs := s.handleOrTemp(c)
		for k := 0; k < s.nk; k++ {
			v, err := cs.GetData(s.u.keys[k])
			must(err)
			r.stor = append(r.stor, bytesTok(v))
			if cs.HasKey(s.u.keys[k]) {
				r.has = append(r.has, '1')
			} else {
				r.has = append(r.has, '0')
			}
		}
	}
	return r
}

func (s *session) refReads() reads {
	var r reads
	for a := 0; a < s.na; a++ {
		if n, ok := s.ref.acct[a]; ok {
			r.acct = append(r.acct, n.String())
		} else {
			r.acct = append(r.acct, "-")
		}
	}
	for c := 0; c < s.na; c++ {
		h := s.rh[c]
		for k := 0; k < s.nk; k++ {
			var v sval
			if h != nil && h.private {
				if w, ok := h.over[k]; ok {
					v = w
				} else if t, ok := h.opened[k]; ok {
					v = sval{true, t}
				}
			} else if t, ok := s.ref.stor[c][k]; ok {
				v = sval{true, t}
			}
			if v.present {
				r.stor = append(r.stor, strconv.Itoa(v.v))
			} else {
				r.stor = append(r.stor, "-")
			}
			// HasKey: a surviving buffered write of the key (a delete marker counts) or a value in the storage trie
			hk := false
			if h != nil && h.private {
				_, w := h.over[k]
				_, t := h.opened[k]
				hk = w || t
			} else if s.ref.cached[c] {
				_, t := s.ref.base[c][k]
				hk = s.ref.pendS[c][k] || t
			} else {
				_, hk = s.ref.stor[c][k]
			}
			if hk {
				r.has = append(r.has, '1')
			} else {
				r.has = append(r.has, '0')
			}
		}
	}
	return r
}

type expEntry struct {
	key int
	tok string
}

func (s *session) decodeExport(keys, vals [][]byte, acct bool) ([]expEntry, bool) {
	out := make([]expEntry, len(keys))
	sorted := true
	for i := range keys {
		var k int
		var ok bool
		if acct {
			var id types.AccountID
			copy(id[:], keys[i])
			k, ok = s.u.aidIx[id]
		} else {
			var id types.HashID
			copy(id[:], keys[i])
			k, ok = s.u.keyIx[id]
		}
		if !ok {
			k = -1
		}
		t := "?"
		if !acct {
			if x, ok := hashTok[string(vals[i])]; ok {
				t = x
			}
		}
		out[i] = expEntry{k, t}
		if i > 0 && bytes.Compare(keys[i-1], keys[i]) >= 0 {
			sorted = false
		}
	}
	return out, sorted
}

// exports renders the export lists and checks oracle (iv) against the reads.
func (s *session) exports(rd reads) (string, string) {
	var sb strings.Builder
	bad := ""
	ak, av := s.sdb.VerifExport()
	ae, sorted := s.decodeExport(ak, av, true)
	if !sorted {
		bad = "account export not strictly ascending by key"
	}
	parts := []string{}
	seenA := map[int]bool{}
	for i, e := range ae {
		parts = append(parts, strconv.Itoa(e.key))
		seenA[e.key] = true
		// the exported hash must be the hash of the currently visible state of that account
		if e.key >= 0 {
			st, err := s.sdb.GetState(s.u.aids[e.key])
			must(err)
			if st == nil || !bytes.Equal(statedb.VerifHash(st), av[i]) {
				bad = fmt.Sprintf("account %d: exported value is not the visible state", e.key)
			}
		} else {
			bad = "account export contains an unknown key"
		}
	}
	for a := range s.ref.pendA {
		if !seenA[a] {
			bad = fmt.Sprintf("account %d has a surviving uncommitted put but is not exported", a)
		}
	}
	sb.WriteString(joinDot(parts, ","))
	one := func(tag string, c int, keys, vals [][]byte, pend map[int]bool, private bool) {
		es, sorted := s.decodeExport(keys, vals, false)
		if !sorted {
			bad = fmt.Sprintf("%s%d: export not strictly ascending by key", tag, c)
		}
		ps := []string{}
		seen := map[int]bool{}
		for _, e := range es {
			ps = append(ps, fmt.Sprintf("%d=%s", e.key, e.tok))
			seen[e.key] = true
			if e.key < 0 {
				bad = fmt.Sprintf("%s%d: export contains an unknown key", tag, c)
				continue
			}
			// visible value of (c, key): through the handle if it is the handle's buffer, else through the StateDB
			vis := rd.stor[c*s.nk+e.key]
			if private != (s.handles[c] != nil && s.rh[c] != nil && s.rh[c].private) {
				vis = "" // the buffer is not the one the recorded reads went through; skip
			}
			want := vis
			if vis == "-" {
				want = "d"
			}
			if vis != "" && e.tok != want {
				bad = fmt.Sprintf("%s%d key %d: exported %s but the visible value is %s", tag, c, e.key, e.tok, vis)
			}
		}
		for k := range pend {
			if !seen[k] {
				bad = fmt.Sprintf("%s%d key %d has a surviving uncommitted write but is not exported", tag, c, k)
			}
		}
		sb.WriteString(fmt.Sprintf(" %s%d[%s]", tag, c, joinDot(ps, ",")))
	}
	ids := s.sdb.VerifCacheIDs()
	ix := make([]int, 0, len(ids))
	for _, id := range ids {
		c, ok := s.u.aidIx[id]
		if !ok {
			bad = "storage cache holds an unknown account"
			continue
		}
		ix = append(ix, c)
	}
	sort.Ints(ix)
	for _, c := range ix {
		k, v, _ := s.sdb.VerifCacheExport(s.u.aids[c])
		one("c", c, k, v, s.ref.pendS[c], false)
	}
	hs := []int{}
	for c, cs := range s.handles {
		if !cs.VerifIsStaged(s.sdb) {
			hs = append(hs, c)
		}
	}
	sort.Ints(hs)
	for _, c := range hs {
		k, v := s.handles[c].VerifExport()
		pend := map[int]bool{}
		if h := s.rh[c]; h != nil && h.private {
			for kk := range h.over {
				pend[kk] = true
			}
		}
		one("h", c, k, v, pend, true)
	}
	// (which contracts are staged is not a visible read: it is compared with the model, not judged here)
	return sb.String(), bad
}

func (r reads) line() string {
	return "A " + strings.Join(r.acct, " ") + " | S " + strings.Join(r.stor, " ")
}

// full: the reads plus the HasKey bits
func (r reads) full() string {
	return r.line() + " | H " + string(r.has)
}

// ---------------------------------------------------------------- oracles

// digests: every undo log by VALUE (key ++ marshalled value of each entry, oldest first). The Lean model and
// the reference keep values; the code keeps pointers (*types.State handed to PutState, returned by GetState
// without a copy, shared between AccountState and ContractState). They agree as long as an entry, once
// written, never changes - which is checked here after every operation, on every log: an entry below the
// current length must be byte-identical to what it was after the previous operation. The one place where
// the code rewrites buffered records in place is StateDB.updateStorage (st.StorageRoot = ...), at Update:
// no snapshot survives an Update, the comparison restarts there.
type digests struct {
	acct []string
	stor map[int][]string
	obj  map[int]interface{}
}

func (s *session) takeDigests() *digests {
	d := &digests{acct: s.sdb.VerifEntryDigests(), stor: map[int][]string{}, obj: map[int]interface{}{}}
	for _, id := range s.sdb.VerifCacheIDs() {
		if c, ok := s.u.aidIx[id]; ok {
			d.stor[c] = s.sdb.VerifCacheEntryDigests(id)
			d.obj[c] = s.sdb.VerifCacheObj(id)
		}
	}
	return d
}

func firstChanged(old, cur []string) int {
	for i := 0; i < len(old) && i < len(cur); i++ {
		if old[i] != cur[i] {
			return i
		}
	}
	return -1
}

func (s *session) checkLogs(o op) string {
	cur := s.takeDigests()
	old := s.dig
	s.dig = cur
	if old == nil || o.kind == "update" || o.kind == "commit" || o.kind == "commit0" || o.kind == "reopen" {
		return ""
	}
	if i := firstChanged(old.acct, cur.acct); i >= 0 {
		return fmt.Sprintf("entry %d of the account undo log changed in place (it was written by an earlier operation; a later rollback restores the changed value, not the one visible at snapshot time)", i)
	}
	for c, l := range cur.stor {
		if old.obj[c] != nil && old.obj[c] == cur.obj[c] {
			if i := firstChanged(old.stor[c], l); i >= 0 {
				return fmt.Sprintf("entry %d of the undo log of contract %d's staged storage changed in place", i, c)
			}
		}
	}
	return ""
}

type failure struct {
	what string
	ops  []op
}

// replaySurvivors runs the surviving operations on a fresh store and returns the session.
func replaySurvivors(live []op) *session {
	var r *session
	for _, o := range live {
		if o.kind == "new" {
			r = newSession(o.a, o.b, true)
			continue
		}
		if !r.valid(o) {
			panic(fmt.Sprintf("surviving operation list is not executable at %q: %v", o.String(), opsString(live)))
		}
		r.apply(o)
	}
	return r
}

func dumpStore(d db.DB) map[string]string {
	m := map[string]string{}
	it := d.Iterator(nil, nil)
	for ; it.Valid(); it.Next() {
		m[string(it.Key())] = string(it.Value())
	}
	return m
}

// step applies o, evaluates the oracles, and returns (head, reads, exports, what-failed).
func (s *session) step(o op) (string, reads, string, string) {
	head := s.apply(o)
	rd := s.read()
	bad := ""
	want := s.refReads()
	if want.line() != rd.line() {
		bad = fmt.Sprintf("after %q reads are [%s], the reference (maps with a snapshot stack) says [%s]", o.String(), rd.line(), want.line())
	} else if string(want.has) != string(rd.has) {
		bad = fmt.Sprintf("after %q HasKey answers [%s]; surviving buffered writes and trie content say [%s]", o.String(), rd.has, want.has)
	}
	if b := s.checkLogs(o); bad == "" && b != "" {
		bad = fmt.Sprintf("after %q: %s", o.String(), b)
	}
	ex, b2 := s.exports(rd)
	if bad == "" && b2 != "" {
		bad = fmt.Sprintf("after %q: %s", o.String(), b2)
	}
	if !s.bare && bad == "" && (o.kind == "update" || o.kind == "commit" || o.kind == "commit0") {
		r := replaySurvivors(s.live)
		if !bytes.Equal(r.sdb.GetRoot(), s.sdb.GetRoot()) {
			bad = fmt.Sprintf("state root after %q differs from the root of a fresh StateDB that executed only the surviving operations %v", o.String(), opsString(s.live))
		} else if o.kind != "update" {
			a, b := dumpStore(s.store), dumpStore(r.store)
			// code written by SetCode in a reverted span is in the store already (SetRawKV writes at call time,
			// under the hash of the bytes); nothing else may distinguish the two stores
			extra := map[string]string{}
			for t := range s.codes {
				if !r.codes[t] {
					extra[string(common.Hasher(codeBytes(t)))] = string(codeBytes(t))
				}
			}
			for k, v := range b {
				if w, ok := a[k]; !ok || w != v {
					bad = "persisted data after commit lacks (or has a different value for) a pair that a run of only the surviving operations persists"
					break
				}
			}
			nExtra := 0
			for k, v := range a {
				if _, ok := b[k]; ok {
					continue
				}
				if w, ok := extra[k]; ok && w == v {
					nExtra++
					continue
				}
				bad = fmt.Sprintf("persisted data after commit: a pair (value of %d bytes) that a run of only the surviving operations does not persist, and that is not contract code written by a reverted SetCode", len(v))
				break
			}
			if nExtra > 0 && s.count != nil {
				s.count("commit-store-holds-code-of-reverted-SetCode")
			}
		}
		if bad == "" {
			// the fresh run must also read the same
			if x := r.read(); x.line() != rd.line() {
				bad = fmt.Sprintf("reads after %q differ from a run of only the surviving operations", o.String())
			}
		}
	}
	return head, rd, ex, bad
}

// check re-runs a whole op list silently; returns what failed ("" = nothing; "invalid" = not executable).
func check(ops []op) (res string) {
	defer func() {
		if e := recover(); e != nil {
			res = fmt.Sprintf("panic: %v", e)
		}
	}()
	var s *session
	for _, o := range ops {
		if o.kind == "new" {
			s = newSession(o.a, o.b, false)
			continue
		}
		if s == nil || !s.valid(o) {
			return "invalid"
		}
		if _, _, _, bad := s.step(o); bad != "" {
			return bad
		}
	}
	return ""
}

func class(what string) string {
	if i := strings.Index(what, ":"); i > 0 && strings.HasPrefix(what, "panic") {
		return "panic"
	}
	for _, k := range []string{"reads are", "HasKey", "changed in place", "state root", "persisted data", "exported", "not exported", "ascending", "differ from a run"} {
		if strings.Contains(what, k) {
			return k
		}
	}
	return what
}

// shrink deletes operations while the same class of failure persists.
func shrink(ops []op, what string) ([]op, string) {
	cl := class(what)
	cur := ops
	for pass := 0; pass < 6; pass++ {
		changed := false
		for i := len(cur) - 1; i >= 1; i-- {
			cand := append(append([]op{}, cur[:i]...), cur[i+1:]...)
			if w := check(cand); w != "" && w != "invalid" && class(w) == cl {
				cur, what, changed = cand, w, true
			}
		}
		if !changed {
			break
		}
	}
	return cur, what
}

// ---------------------------------------------------------------- generation

type gen struct {
	run      *vh.Run
	failures int
}

func (g *gen) record(s *session, o op) bool {
	var head, ex, bad string
	var rd reads
	out, panicked := vh.Guard(func() string {
		head, rd, ex, bad = s.step(o)
		return ""
	})
	if panicked {
		g.run.Op(o.String(), out, false)
		g.fail(out, s.all)
		return false
	}
	nontrivial := o.kind != "new"
	g.run.Op(o.String(), head+" | "+rd.full()+" | X "+ex, nontrivial)
	g.run.Count("op=" + o.kind)
	if bad != "" {
		g.fail(bad, s.all)
		return false
	}
	return true
}

func (g *gen) fail(what string, ops []op) {
	g.failures++
	if g.failures > 8 {
		g.run.Count("oracle-fail-not-shrunk")
		return
	}
	small, w := shrink(append([]op{}, ops...), what)
	g.run.Fail(w, map[string]interface{}{"ops": opsString(small), "full_session": opsString(ops),
		"how": "each line is one operation of harness/c12 (see its header); 'new <accounts> <keys>' starts a StateDB on an empty memorydb"})
}

func (g *gen) start(na, nk int) *session {
	s := newSession(na, nk, false)
	s.count = g.run.Count
	rd := s.read()
	ex, _ := s.exports(rd)
	g.run.Op(s.all[0].String(), "ok | "+rd.full()+" | X "+ex, false)
	return s
}

// candidates: every valid next operation over the session's universe (values are fresh tokens).
func (s *session) candidates(withC, withA bool) []op {
	var l []op
	tok := s.nextTok
	if s.updated {
		l = append(l, op{kind: "commit0"})
	}
	for a := 0; a < s.na; a++ {
		l = append(l, op{kind: "put", a: a, b: tok})
		if withA {
			l = append(l, op{kind: "aget", a: a})
			if h := s.rheld[a]; h != nil && !h.sealed {
				l = append(l, op{kind: "anonce", a: a, b: tok}, op{kind: "abal", a: a, b: 1 + tok%7}, op{kind: "areset", a: a}, op{kind: "aput", a: a})
				if rh := s.rh[a]; s.handles[a] != nil && rh != nil && rh.bound {
					l = append(l, op{kind: "code", a: a, b: tok})
				}
			}
		}
	}
	for c := 0; c < s.na; c++ {
		if s.handles[c] == nil {
			l = append(l, op{kind: "open", a: c})
		} else {
			l = append(l, op{kind: "stage", a: c})
			for k := 0; k < s.nk; k++ {
				l = append(l, op{kind: "set", a: c, b: k, c: tok}, op{kind: "del", a: c, b: k})
			}
			if withC {
				l = append(l, op{kind: "csnap", a: c})
				for _, r := range s.csnaps[c] {
					l = append(l, op{kind: "croll", a: c, b: r.rev})
				}
			}
		}
	}
	l = append(l, op{kind: "snap"})
	for i, r := range s.snapRecs {
		if r.valid {
			l = append(l, op{kind: "roll", a: i})
		}
	}
	l = append(l, op{kind: "update"}, op{kind: "commit"})
	for i := range s.roots {
		l = append(l, op{kind: "reopen", a: i})
	}
	return l
}

// exhaustive: every valid sequence of `depth` operations; the model driver follows the depth-first walk
// with `back` lines, the real code re-executes the prefix on a fresh store.
func (g *gen) exhaustive(na, nk, depth int, withC bool, sample func(level int) bool) int {
	n := 0
	var prefix []op
	var walk func(level int)
	rebuild := func() *session {
		s := newSession(na, nk, false)
		s.bare = true // oracles (ii) were evaluated when each prefix op was the last op
		for _, o := range prefix {
			s.apply(o)
			if freshTok(o) {
				s.nextTok++
			}
		}
		s.bare = false
		s.count = g.run.Count
		return s
	}
	walk = func(level int) {
		s := rebuild()
		cands := s.candidates(withC, withC)
		for _, o := range cands {
			if sample != nil && !sample(level) {
				continue
			}
			if s == nil {
				s = rebuild()
			}
			ok := g.record(s, o)
			n++
			if ok && level+1 < depth {
				prefix = append(prefix, o)
				walk(level + 1)
				prefix = prefix[:len(prefix)-1]
			}
			g.run.Op("back", "ok", false)
			s = nil
		}
	}
	g.run.Op(fmt.Sprintf("new %d %d", na, nk), func() string {
		s := newSession(na, nk, false)
		rd := s.read()
		ex, _ := s.exports(rd)
		return "ok | " + rd.full() + " | X " + ex
	}(), false)
	walk(0)
	return n
}

// random session
func (g *gen) random(length int) {
	rng := g.run.Rng
	na := 2 + rng.Intn(3)
	nk := 2
	if rng.Chance(1, 4) {
		nk = 3
	}
	wide := rng.Chance(1, 8)
	if wide {
		na, nk = 6+rng.Intn(3), 4
	}
	s := g.start(na, nk)
	g.run.Count(fmt.Sprintf("random-universe=%dx%d", na, nk))
	if wide {
		// many staged storages at once (a block that touched many contracts): stage most of them first
		for c := 0; c < na; c++ {
			if rng.Chance(1, 6) {
				continue
			}
			for _, o := range []op{{kind: "open", a: c}, {kind: "set", a: c, b: rng.Intn(nk), c: s.nextTok}, {kind: "stage", a: c}} {
				if !g.record(s, o) {
					return
				}
				if freshTok(o) {
					s.nextTok++
				}
			}
		}
	}
	inTx := -1 // index of the snapshot opened by the current "transaction", if any
	for i := 0; i < length; i++ {
		cands := s.candidates(true, true)
		// weights: writes and snapshots dominate; update/commit/reopen are rare
		w := make([]int, len(cands))
		total := 0
		for j, o := range cands {
			switch o.kind {
			case "put":
				w[j] = 5
			case "aget":
				w[j] = 3
				if s.rheld[o.a] != nil {
					w[j] = 1
				}
			case "anonce", "abal":
				w[j] = 4
			case "areset":
				w[j] = 4
			case "aput":
				w[j] = 7
			case "code":
				w[j] = 6
			case "set":
				w[j] = 8
			case "del":
				w[j] = 4
			case "open":
				w[j] = 5
			case "stage":
				w[j] = 6
			case "snap":
				w[j] = 8
			case "roll":
				w[j] = 5
				if o.a == inTx {
					w[j] = 12
				}
			case "csnap":
				w[j] = 3
			case "croll":
				w[j] = 4
			case "update":
				w[j] = 4
			case "commit":
				w[j] = 3
			case "commit0":
				w[j] = 6
			case "reopen":
				w[j] = 1
			}
			total += w[j]
		}
		x := rng.Intn(total)
		var o op
		for j := range cands {
			if x < w[j] {
				o = cands[j]
				break
			}
			x -= w[j]
		}
		// values: mostly fresh, sometimes the empty value or a repeat of the visible value
		if o.kind == "set" {
			switch {
			case rng.Chance(1, 12):
				o.c = 0
			case rng.Chance(1, 8):
				if t, ok := s.ref.stor[o.a][o.b]; ok {
					o.c = t
				}
			}
		}
		if o.kind == "put" && rng.Chance(1, 10) {
			if n, ok := s.ref.acct[o.a]; ok {
				o.b = n.nonce
			}
		}
		if o.kind == "snap" {
			inTx = len(s.snapRecs)
		}
		if !g.record(s, o) {
			return
		}
		if freshTok(o) {
			s.nextTok++
		}
	}
	depth := 0
	for _, r := range s.snapRecs {
		if r.valid {
			depth++
		}
	}
	g.run.Count(fmt.Sprintf("random-session-live-snapshots-at-end=%d", min(depth, 6)))
}

func freshTok(o op) bool {
	switch o.kind {
	case "put", "set", "anonce", "abal", "code":
		return true
	}
	return false
}

func min(a, b int) int {
	if a < b {
		return a
	}
	return b
}

// txShaped: sessions that look like what chain.executeTx / contract.Execute do with these objects: a block
// snapshot per transaction; sender (and receiver) AccountStates obtained inside it; the contract opened on the
// receiver's working record; storage writes, maybe a deploy (SetCode), maybe nested recovery points; then one
// of: success (nonce, PutState of both, stage), a VM error (the handle is dropped, resetAccount = Reset +
// fee + nonce + PutState on the sender), a fee-delegation VM error (resetAccount on sender and receiver), or
// rejection (BlockState.Rollback). Blocks end with Update (+ Commit).
func (g *gen) txShaped(ntx int) {
	rng := g.run.Rng
	na := 2 + rng.Intn(3)
	nk := 2 + rng.Intn(2)
	s := g.start(na, nk)
	do := func(kind string, a, b, c int) bool {
		o := op{kind: kind, a: a, b: b, c: c}
		if !s.valid(o) {
			panic(fmt.Sprintf("tx-shaped generator produced an invalid operation %q after %v", o.String(), opsString(s.all)))
		}
		ok := g.record(s, o)
		if freshTok(o) {
			s.nextTok++
		}
		return ok
	}
	for i := 0; i < ntx; i++ {
		snd, rcv := rng.Intn(na), rng.Intn(na)
		snapIx := len(s.snapRecs)
		if !do("snap", 0, 0, 0) || !do("aget", snd, 0, 0) {
			return
		}
		if rcv != snd && !do("aget", rcv, 0, 0) {
			return
		}
		if rng.Chance(1, 2) && !do("abal", rcv, 1+rng.Intn(5), 0) { // SendBalance
			return
		}
		call := rng.Chance(3, 4)
		if call {
			if !do("open", rcv, 0, 0) {
				return
			}
			if rng.Chance(1, 4) && !do("code", rcv, s.nextTok, 0) {
				return
			}
			for n := rng.Intn(4); n > 0; n-- {
				var ok bool
				switch rng.Intn(6) {
				case 0:
					ok = do("del", rcv, rng.Intn(nk), 0)
				case 1:
					ok = do("csnap", rcv, 0, 0)
				case 2:
					if l := s.csnaps[rcv]; len(l) > 0 {
						ok = do("croll", rcv, l[rng.Intn(len(l))].rev, 0)
					} else {
						ok = do("set", rcv, rng.Intn(nk), s.nextTok)
					}
				default:
					ok = do("set", rcv, rng.Intn(nk), s.nextTok)
				}
				if !ok {
					return
				}
			}
		}
		outcome := rng.Intn(10)
		switch {
		case outcome < 4: // success
			g.run.Count("txshape-success")
			if !do("anonce", snd, s.nextTok, 0) || !do("aput", snd, 0, 0) {
				return
			}
			if rcv != snd && !do("aput", rcv, 0, 0) {
				return
			}
			if call && !do("stage", rcv, 0, 0) {
				return
			}
			if !do("kill", 0, 0, 0) {
				return
			}
		case outcome < 7: // VM error: resetAccount(sender, fee, nonce); fee delegation: also resetAccount(receiver, fee, nil)
			g.run.Count("txshape-vm-error")
			if !do("areset", snd, 0, 0) || !do("abal", snd, 1+rng.Intn(3), 0) || !do("anonce", snd, s.nextTok, 0) || !do("aput", snd, 0, 0) {
				return
			}
			if rcv != snd && rng.Chance(1, 2) {
				if !do("areset", rcv, 0, 0) || !do("abal", rcv, 1, 0) || !do("aput", rcv, 0, 0) {
					return
				}
				// ... and the second resetAccount may fail after the first one has put: the executor rolls back
				if rng.Chance(1, 2) {
					g.run.Count("txshape-reject-after-reset-put")
					if !do("roll", snapIx, 0, 0) {
						return
					}
					continue
				}
			}
			if !do("kill", 0, 0, 0) {
				return
			}
		default: // rejected: NewTxExecutor rolls the block state back
			g.run.Count("txshape-rejected")
			if rng.Chance(1, 2) {
				// a system error / timeout arrives after writes, puts and a stage
				if !do("anonce", snd, s.nextTok, 0) || !do("aput", snd, 0, 0) {
					return
				}
				if call && rng.Chance(1, 2) && !do("stage", rcv, 0, 0) {
					return
				}
			}
			if !do("roll", snapIx, 0, 0) {
				return
			}
		}
		if rng.Chance(1, 5) {
			k := "update"
			if rng.Chance(1, 2) {
				k = "commit"
			}
			if !do(k, 0, 0, 0) {
				return
			}
		}
	}
	do("commit", 0, 0, 0)
}

// probeAliasing documents, on every run, what happens OUTSIDE the discipline of the generated sessions (nothing
// here is judged; the outcomes are counted so that a change of this behaviour is visible in the evidence):
//
//   - an AccountState that is mutated again after its PutState changes the buffered entry in place
//     (PutState stores as.newState itself): after a rollback to a snapshot taken between the put and the
//     mutation the account shows the post-snapshot value;
//   - SetCode through a handle from OpenContractStateAccount writes the code hash into the buffered record
//     (GetAccountState returns the buffered *types.State).
//
// No caller in the repository does either (see notes/C12.md, "pointer aliasing"); discipline D3 of tx.go and
// oracle (v) would report it if one did.
func (g *gen) probeAliasing() {
	u := getUniverse(2, 2)
	sdb := statedb.NewStateDB(newStore(), nil, false)
	bs := state.NewBlockState(sdb)
	as, err := state.GetAccountState(u.ids[0], sdb)
	must(err)
	as.SetNonce(1)
	must(as.PutState())
	sn := bs.Snapshot()
	as.SetNonce(2) // no PutState
	must(bs.Rollback(sn))
	st, err := sdb.GetState(u.aids[0])
	must(err)
	if st != nil && st.Nonce == 2 {
		g.run.Count("probe-outside-discipline: reuse of an AccountState after PutState aliases the buffered entry")
	} else {
		g.run.Count("probe-outside-discipline: reuse of an AccountState after PutState does NOT alias the buffered entry")
	}
	sdb2 := statedb.NewStateDB(newStore(), nil, false)
	bs2 := state.NewBlockState(sdb2)
	as2, err := state.GetAccountState(u.ids[1], sdb2)
	must(err)
	as2.SetNonce(1)
	must(as2.PutState())
	sn2 := bs2.Snapshot()
	cs, err := statedb.OpenContractStateAccount(u.ids[1], sdb2)
	must(err)
	must(cs.SetCode(nil, codeBytes(1)))
	must(bs2.Rollback(sn2))
	st2, err := sdb2.GetState(u.aids[1])
	must(err)
	if st2 != nil && len(st2.CodeHash) > 0 {
		g.run.Count("probe-outside-discipline: SetCode through OpenContractStateAccount writes into the buffered record")
	} else {
		g.run.Count("probe-outside-discipline: SetCode through OpenContractStateAccount does NOT write into the buffered record")
	}
}

// scripted sessions: shapes the proofs case-split on
func (g *gen) scripted() {
	scripts := [][]string{
		// rollback to the same snapshot twice; nested three deep; rollback of a key whose stack empties
		{"new 2 2", "put 0 1", "snap", "put 0 2", "put 1 3", "snap", "put 0 4", "snap", "put 1 5", "roll 2", "roll 1", "put 0 6", "roll 1", "roll 0", "roll 0", "update", "commit0", "reopen 0"},
		// contract staged after the snapshot is dropped; staged before is rolled back
		{"new 2 2", "open 0", "set 0 0 1", "stage 0", "snap", "open 0", "set 0 0 2", "del 0 1", "stage 0", "open 1", "set 1 1 3", "stage 1", "roll 0", "commit", "reopen 0"},
		// private handle discarded by a rollback; contract-level recovery points
		{"new 2 2", "snap", "open 0", "set 0 0 1", "csnap 0", "set 0 0 2", "set 0 1 3", "csnap 0", "del 0 0", "croll 0 3", "croll 0 1", "stage 0", "open 0", "set 0 1 9", "roll 0", "commit"},
		// delete then commit; empty value; re-put of equal value
		{"new 2 2", "open 1", "set 1 0 0", "set 1 1 5", "stage 1", "commit", "open 1", "del 1 0", "set 1 1 5", "stage 1", "update", "commit0", "reopen 0", "reopen 1"},
		// update between writes, account record materialised by a dirty storage
		{"new 3 2", "open 2", "set 2 0 1", "stage 2", "commit", "put 2 7", "snap", "open 2", "set 2 0 2", "stage 2", "put 2 8", "roll 0", "commit", "reopen 0", "reopen 1"},
	}
	scripts = append(scripts,
		// several Updates before a Commit, one with an unchanged buffer (pkg/trie storeNode defect, repaired in /repo d09c8a7f)
		[]string{"new 2 2", "put 0 1", "update", "update", "commit0", "reopen 0"},
		[]string{"new 2 2", "put 0 1", "put 1 2", "update", "put 0 3", "update", "open 1", "set 1 0 4", "stage 1", "update", "update", "commit", "reopen 0"},
		// resetAccount on an account that already has a buffered record, then the executor rolls back
		[]string{"new 2 2", "put 0 1", "snap", "aget 0", "areset 0", "abal 0 3", "anonce 0 2", "aput 0", "roll 0", "update", "commit0", "reopen 0"},
		// AccountState objects held across snapshots (obtained before, used after; re-obtained after a rollback)
		[]string{"new 2 2", "aget 0", "snap", "anonce 0 1", "aput 0", "snap", "aget 0", "abal 0 5", "aput 0", "roll 1", "aget 0", "areset 0", "anonce 0 4", "aput 0", "roll 0", "aget 0", "abal 0 2", "aput 0", "commit", "reopen 0"},
		// deploy: SetCode through a handle opened on the receiver's working record; a reverted deploy leaves its code in the store
		[]string{"new 2 2", "aget 1", "open 1", "code 1 1", "set 1 0 2", "stage 1", "aput 1", "commit", "snap", "aget 1", "open 1", "code 1 3", "set 1 1 4", "aput 1", "stage 1", "roll 0", "commit", "reopen 1", "reopen 0"},
		// HasKey on a delete marker, before and after the deletion reaches the trie, and after a reverted re-write
		[]string{"new 2 2", "open 0", "set 0 0 1", "stage 0", "commit", "open 0", "del 0 0", "stage 0", "snap", "open 0", "set 0 0 2", "stage 0", "roll 0", "update", "commit0", "reopen 1"},
		// a storage staged empty before the snapshot, written and reverted: no account record may appear at Update
		[]string{"new 2 2", "open 0", "stage 0", "snap", "open 0", "set 0 0 1", "stage 0", "roll 0", "update", "commit0", "reopen 0"},
		[]string{"new 2 2", "open 0", "set 0 0 3", "del 0 0", "stage 0", "update", "commit0", "reopen 0"},
		// only storage writes between snapshot and rollback (the account buffer's revision does not move)
		[]string{"new 2 2", "open 1", "set 1 0 1", "stage 1", "snap", "open 1", "set 1 0 2", "set 1 1 8", "stage 1", "open 0", "set 0 0 13", "stage 0", "roll 0", "commit", "reopen 0"},
	)
	for _, sc := range scripts {
		var s *session
		for _, line := range sc {
			o, ok := parseOp(line)
			if !ok {
				panic("bad script line " + line)
			}
			if o.kind == "new" {
				s = g.start(o.a, o.b)
				continue
			}
			if !s.valid(o) {
				panic("script not valid at " + line)
			}
			if !g.record(s, o) {
				break
			}
		}
		g.run.Count("scripted-session")
	}
	// ill-formed lines: the model must answer bad-op, never guess
	for _, l := range []string{"new 2 2", "put 0", "set 0 0", "stage 1", "roll 7", "reopen 0", "croll 0 1", "frobnicate", "put x 1", "aput 0", "anonce 1 2", "code 0 1", "aget"} {
		if l == "new 2 2" {
			g.start(2, 2)
			continue
		}
		g.run.Op(l, "bad-op", false)
		g.run.Count("malformed-line")
	}
}

func parseOp(line string) (op, bool) {
	f := strings.Fields(line)
	if len(f) == 0 {
		return op{}, false
	}
	o := op{kind: f[0]}
	var n [3]int
	for i := 1; i < len(f) && i <= 3; i++ {
		v, err := strconv.Atoi(f[i])
		if err != nil {
			return op{}, false
		}
		n[i-1] = v
	}
	o.a, o.b, o.c = n[0], n[1], n[2]
	return o, true
}

func main() {
	run := vh.Start("c12", "sessions on the real StateDB/ContractState/BlockState/AccountState over memorydb: scripted shapes; every valid operation "+
		"sequence up to a fixed length on 2 accounts x 2 storage keys (depth-first, model follows with 'back'); random sessions "+
		"(2-8 accounts, 2-4 keys, values up to 4 kB, nested block snapshots/rollbacks, contract-level snapshots, held AccountState objects, "+
		"SetCode, update/commit/reopen); transaction-shaped sessions; plus the real transaction executor (chain.NewTxExecutor, stub VM) "+
		"block after block with the usage-discipline checks D1-D5 after every transaction (counted as evaluations, no model line). "+
		"Every op records all reads, HasKey bits and all buffer exports. non-trivial = any op other than 'new'/'back'; distinct by (op, answer)")
	defer run.Finish()
	scratch = filepath.Join(run.Out, "db")
	os.MkdirAll(scratch, 0o755)
	defer os.RemoveAll(scratch)
	g := &gen{run: run}

	if run.Replay != "" {
		// replay file written by ./check: {"input": {"ops": [...]}} — re-run that session with the oracles on
		var rp struct {
			Input struct {
				Ops       []string `json:"ops"`
				TxSession *int     `json:"txsession"`
			} `json:"input"`
		}
		raw, err := os.ReadFile(run.Replay)
		must(err)
		must(json.Unmarshal(raw, &rp))
		if rp.Input.TxSession != nil {
			if *rp.Input.TxSession < 0 {
				g.txScripted()
			} else {
				g.txSession(*rp.Input.TxSession)
			}
			return
		}
		var ops []op
		for _, l := range rp.Input.Ops {
			o, ok := parseOp(l)
			if !ok {
				panic("bad replay line " + l)
			}
			ops = append(ops, o)
		}
		what := check(ops)
		fmt.Fprintf(os.Stderr, "replay: %q\n", what)
		run.Eval(strings.Join(rp.Input.Ops, ";"), true)
		if what != "" {
			run.Fail(what, map[string]interface{}{"ops": rp.Input.Ops})
		}
		return
	}

	g.scripted()
	g.probeAliasing()
	g.txScripted()

	// exhaustive small scope: 2 accounts x 2 keys
	depth := run.Pick(5, 6)
	n := g.exhaustive(2, 2, depth, false, nil)
	run.Count(fmt.Sprintf("exhaustive-depth-%d-nodes=%d", depth, n))
	run.SetExhaustive(true)
	// one level deeper, sampled; with contract-level snapshots
	rng := run.Rng
	n2 := g.exhaustive(2, 2, depth+3, true, func(level int) bool {
		if level < 3 {
			return rng.Chance(1, 2)
		}
		return rng.Chance(1, run.Pick(4, 5))
	})
	run.Count(fmt.Sprintf("sampled-depth-%d-nodes=%d", depth+3, n2))

	for i := 0; i < run.Pick(2400, 28000); i++ {
		g.random(20 + rng.Intn(run.Pick(40, 80)))
		if g.failures > 8 {
			break
		}
	}
	for i := 0; i < run.Pick(900, 9000); i++ {
		g.txShaped(3 + rng.Intn(run.Pick(8, 12)))
		if g.failures > 8 {
			break
		}
	}
	// the callers of the snapshot API, on the real executor (tx.go)
	for i := 0; i < run.Pick(100, 1000); i++ {
		g.txSession(i)
		if g.failures > 8 {
			break
		}
	}
}
