// Transaction-level driver of harness c12: the CALLERS of the snapshot API.
//
// Every theorem of Props/C12 assumes a usage discipline, and the generator of main.go produces only sessions
// inside it. This file runs the code that has to OBEY that discipline - chain.NewTxExecutor (BlockState.Snapshot,
// executeTx, BlockState.Rollback on error), executeTx's resetAccount, contract.Execute with the scripted stub VM
// (OpenContractState on the receiver's working record, StageContractState), fee delegation and its failure
// paths - on a real BlockState over memorydb, block after block, and after EVERY transaction checks on the real
// objects that the caller stayed inside the discipline:
//
//	D1  no Update inside the transaction loop: the account trie root and the trie root of every staged storage
//	    are what they were before the transaction (a snapshot does not cover the tries);
//	D2  a rejected transaction (the executor returned an error, i.e. it rolled back) leaves the block state
//	    exactly as it was: every undo log entry by value, the set of staged storages and their identity, every
//	    read of every known account and storage key, the receipts;
//	D3  no undo log entry that existed before the transaction changed (pointer aliasing: the logs hold
//	    *types.State objects; resetAccount, SendBalance, SetCode mutate records) and no staged storage object
//	    was replaced by another one (a second handle staged over the first: the earlier snapshot's revision would
//	    refer to a different log);
//	D4  an accepted transaction added exactly one receipt and only appended to the logs;
//
// and at the end of every block:
//
//	D5  the root after Update equals the root of a fresh BlockState on the same committed base that executed only
//	    the transactions that were not rejected (the reverted ones never influence the root), reads equal too,
//	    and a StateDB reopened at the committed root returns those reads.
//
// A known deviation that is NOT a misuse of the snapshot API is counted, not failed: an ERROR receipt whose
// contract writes stay in a storage staged earlier in the block (executeTx does not roll back on runtime
// errors; known_findings C03-toplevel-vm-error-keeps-staged-storage-writes, C03-vm-fee-check-after-commit).
package main

import (
	"bytes"
	"context"
	"encoding/hex"
	"encoding/json"
	"fmt"
	"math/big"
	"sort"
	"strings"

	"github.com/aergoio/aergo-lib/db"
	"github.com/aergoio/aergo/v2/chain"
	"github.com/aergoio/aergo/v2/config"
	"github.com/aergoio/aergo/v2/contract"
	"github.com/aergoio/aergo/v2/fee"
	"github.com/aergoio/aergo/v2/internal/common"
	"github.com/aergoio/aergo/v2/state"
	"github.com/aergoio/aergo/v2/state/statedb"
	"github.com/aergoio/aergo/v2/types"
	"github.com/aergoio/aergo/v2/zz_verif/vh"
)

const txKeys = 3

type txWorld struct {
	g       *gen
	rng     *vh.Rng
	idx     int
	store   db.DB
	root    []byte
	users   [][]byte
	ctrs    [][]byte // contracts deployed so far (committed or by an accepted tx of the current block)
	chainID []byte
	blockNo uint64
	hist    []string
	failed  bool
}

type txSpecC12 struct {
	typ      types.TxType
	from     []byte
	to       []byte // nil: deploy
	amount   int64
	nonceOff int // 0 = the right nonce
	script   map[string]interface{}
	label    string
}

func (w *txWorld) name(id []byte) string {
	for i, u := range w.users {
		if bytes.Equal(u, id) {
			return fmt.Sprintf("u%d", i)
		}
	}
	for i, c := range w.ctrs {
		if bytes.Equal(c, id) {
			return fmt.Sprintf("c%d", i)
		}
	}
	return "x" + hex.EncodeToString(id[:4])
}

func (w *txWorld) known() [][]byte {
	return append(append([][]byte{}, w.users...), w.ctrs...)
}

func (w *txWorld) newBS() (*state.BlockState, *types.BlockHeaderInfo) {
	bi := &types.BlockHeaderInfo{No: w.blockNo, Ts: 1700000000000000000 + int64(w.blockNo), PrevBlockHash: common.Hasher([]byte(fmt.Sprintf("prev-%d", w.blockNo))), ChainId: w.chainID, ForkVersion: 3}
	bs := state.NewBlockState(statedb.NewStateDB(w.store, w.root, false), state.SetPrevBlockHash(bi.PrevBlockHash))
	bs.SetGasPrice(big.NewInt(1))
	bs.Receipts().SetHardFork(config.AllEnabledHardforkConfig, bi.No)
	return bs, bi
}

func newTxWorld(g *gen, idx int) *txWorld {
	w := &txWorld{g: g, idx: idx, rng: vh.NewRng(g.run.Seed*1000003 + uint64(idx)), store: newStore(), blockNo: 1}
	gen := types.GetTestGenesis()
	gen.ID.PublicNet = false
	cid, _ := gen.ID.Bytes()
	w.chainID = types.MakeChainId(cid, 3)
	for i := 0; i < 4; i++ {
		a := append([]byte{2}, common.Hasher([]byte(fmt.Sprintf("verif-c12-user-%d", i)))...)
		w.users = append(w.users, a)
	}
	// genesis: fund the users
	sdb := statedb.NewStateDB(w.store, nil, false)
	for i, u := range w.users {
		as, err := state.GetAccountState(u, sdb)
		must(err)
		as.AddBalance(new(big.Int).Mul(big.NewInt(int64(1+i)), big.NewInt(1_000_000_000_000)))
		must(as.PutState())
	}
	must(sdb.Update())
	must(sdb.Commit())
	w.root = append([]byte{}, sdb.GetRoot()...)
	return w
}

// ---- observation of the real block state

type storObs struct {
	obj  interface{}
	dig  []string
	root []byte
	rev  int
}

type txObs struct {
	acct  []string
	root  []byte
	stor  map[types.AccountID]*storObs
	nrec  int
	reads string
}

func (w *txWorld) readAll(sdb *statedb.StateDB) string {
	var sb strings.Builder
	for _, id := range w.known() {
		st, err := sdb.GetState(types.ToAccountID(id))
		must(err)
		if st == nil {
			fmt.Fprintf(&sb, "%s:- ", w.name(id))
			continue
		}
		fmt.Fprintf(&sb, "%s:n%d,b%s,c%x,s%x ", w.name(id), st.Nonce, new(big.Int).SetBytes(st.Balance), shortHash(st.CodeHash), shortHash(st.StorageRoot))
	}
	for _, id := range w.ctrs {
		cs, err := statedb.OpenContractStateAccount(id, sdb)
		must(err)
		fmt.Fprintf(&sb, "| %s", w.name(id))
		for k := 0; k < txKeys; k++ {
			v, err := cs.GetData([]byte(fmt.Sprintf("k%d", k)))
			must(err)
			if v == nil {
				sb.WriteString(" -")
			} else {
				fmt.Fprintf(&sb, " %s", v)
			}
		}
	}
	return sb.String()
}

func shortHash(b []byte) []byte {
	if len(b) > 4 {
		return b[:4]
	}
	return b
}

func (w *txWorld) observe(bs *state.BlockState) *txObs {
	o := &txObs{acct: bs.StateDB.VerifEntryDigests(), root: append([]byte{}, bs.GetRoot()...), stor: map[types.AccountID]*storObs{},
		nrec: len(bs.Receipts().Get()), reads: w.readAll(bs.StateDB)}
	for _, id := range bs.StateDB.VerifCacheIDs() {
		r, rev, _ := bs.StateDB.VerifCacheRoot(id)
		o.stor[id] = &storObs{obj: bs.StateDB.VerifCacheObj(id), dig: bs.StateDB.VerifCacheEntryDigests(id), root: append([]byte{}, r...), rev: rev}
	}
	return o
}

func eqStrs(a, b []string) bool {
	if len(a) != len(b) {
		return false
	}
	for i := range a {
		if a[i] != b[i] {
			return false
		}
	}
	return true
}

// ---- transactions

func (w *txWorld) nonceOf(bs *state.BlockState, id []byte) uint64 {
	st, err := bs.StateDB.GetState(types.ToAccountID(id))
	must(err)
	if st == nil {
		return 0
	}
	return st.Nonce
}

func (w *txWorld) build(bs *state.BlockState, x *txSpecC12) *types.Tx {
	var payload []byte
	if x.script != nil {
		payload, _ = json.Marshal(x.script)
	}
	body := &types.TxBody{Nonce: uint64(int(w.nonceOf(bs, x.from)) + 1 + x.nonceOff), Account: x.from, Recipient: x.to,
		Amount: big.NewInt(x.amount).Bytes(), Payload: payload, Type: x.typ, ChainIdHash: common.Hasher(w.chainID)}
	tx := &types.Tx{Body: body}
	tx.Hash = tx.CalculateTxHash()
	return tx
}

func (w *txWorld) describe(x *txSpecC12, tx *types.Tx) string {
	to := "-"
	if x.to != nil {
		to = w.name(x.to)
	}
	sc := ""
	if x.script != nil {
		b, _ := json.Marshal(x.script)
		sc = " " + string(b)
	}
	return fmt.Sprintf("%s %s->%s amt=%d nonce=%d%s", x.typ.String(), w.name(x.from), to, x.amount, tx.Body.Nonce, sc)
}

func (w *txWorld) genScript(outcomes []string) map[string]interface{} {
	rng := w.rng
	sc := map[string]interface{}{"fee": fmt.Sprint(rng.Intn(5) * 1000)}
	out := outcomes[rng.Intn(len(outcomes))]
	if out != "ok" {
		sc["err"] = out
	}
	var sets []map[string]string
	for n := rng.Intn(3); n > 0; n-- {
		sets = append(sets, map[string]string{"k": fmt.Sprintf("k%d", rng.Intn(txKeys)), "v": fmt.Sprintf("v%d", rng.Intn(1000))})
	}
	if sets != nil {
		sc["sets"] = sets
	}
	if rng.Chance(1, 4) {
		sc["dels"] = []string{fmt.Sprintf("k%d", rng.Intn(txKeys))}
	}
	if rng.Chance(1, 3) {
		to := w.users[rng.Intn(len(w.users))]
		sc["xfers"] = []map[string]string{{"to": hex.EncodeToString(to), "amt": fmt.Sprint(rng.Intn(50))}}
	}
	return sc
}

var callOutcomes = []string{"ok", "ok", "ok", "vm", "vmlate", "vmlate", "system", "timeout", "negfee"}

func (w *txWorld) genTx() *txSpecC12 {
	rng := w.rng
	from := w.users[rng.Intn(len(w.users))]
	x := &txSpecC12{from: from}
	pick := rng.Intn(20)
	switch {
	case pick < 4 || len(w.ctrs) == 0 && pick < 8:
		x.typ, x.to, x.amount, x.label = types.TxType_TRANSFER, w.users[rng.Intn(len(w.users))], int64(rng.Intn(1000)), "transfer"
		if rng.Chance(1, 6) {
			x.amount, x.label = 9_000_000_000_000_000, "transfer-too-much" // rejected by ValidateWithSenderState
		}
	case pick < 5:
		x.typ, x.to, x.amount, x.nonceOff, x.label = types.TxType_TRANSFER, w.users[rng.Intn(len(w.users))], 1, 1+rng.Intn(2), "bad-nonce"
		if rng.Bool() {
			x.nonceOff = -1
		}
	case pick < 9 || len(w.ctrs) == 0:
		x.typ, x.label = types.TxType_DEPLOY, "deploy"
		x.script = w.genScript([]string{"ok", "ok", "ok", "vmlate", "system", "timeout"})
		x.amount = int64(rng.Intn(3) * 100000)
	case pick < 16:
		x.typ, x.to, x.label = types.TxType_CALL, w.ctrs[rng.Intn(len(w.ctrs))], "call"
		x.script = w.genScript(callOutcomes)
		x.amount = int64(rng.Intn(2) * 1000)
	default:
		x.typ, x.to, x.label = types.TxType_FEEDELEGATION, w.ctrs[rng.Intn(len(w.ctrs))], "feedelegation"
		x.script = w.genScript([]string{"ok", "vm", "vm", "vmlate", "nofd", "system"})
		if rng.Chance(1, 2) {
			// a fee the contract cannot pay: on a VM error executeTx's second resetAccount (receiver) fails AFTER the
			// first one (sender) has put - the executor has to roll that put back
			x.script["fee"] = "900000000000000000"
			x.label = "feedelegation-unpayable"
		}
	}
	return x
}

func (w *txWorld) fail(what string) {
	w.failed = true
	w.g.failures++
	w.g.run.Fail(what, map[string]interface{}{"txsession": w.idx, "history": append([]string{}, w.hist...),
		"how": "harness/c12/tx.go: session <txsession> of the transaction-level driver (deterministic in -seed); history lists the blocks and transactions executed through chain.NewTxExecutor"})
}

// runTx executes one transaction through the real executor and checks D1-D4; returns whether it was kept.
func (w *txWorld) runTx(bs *state.BlockState, exec chain.TxExecFn, x *txSpecC12) (kept bool, tx *types.Tx) {
	run := w.g.run
	tx = w.build(bs, x)
	pre := w.observe(bs)
	line := w.describe(x, tx)
	var err error
	out, panicked := vh.Guard(func() string {
		err = exec(bs, types.NewTransaction(tx))
		return ""
	})
	if panicked {
		w.hist = append(w.hist, line+" => PANIC")
		w.fail("panic inside the transaction executor: " + out)
		return false, tx
	}
	post := w.observe(bs)
	res := "accepted"
	if err != nil {
		res = "rejected: " + err.Error()
	}
	status := ""
	if err == nil && post.nrec > 0 {
		status = bs.Receipts().Get()[post.nrec-1].Status
		res += " " + status
	}
	w.hist = append(w.hist, line+" => "+res)
	run.Eval("tx "+x.label+" "+res+" "+post.reads, true)
	run.Count("txdrv-" + x.label)

	// D1: no Update inside the loop
	if !bytes.Equal(pre.root, post.root) {
		w.fail("discipline D1: the account trie root changed while a transaction was executed (an Update inside the transaction loop: a later rollback cannot take it back)")
		return err == nil, tx
	}
	for id, p := range pre.stor {
		if q := post.stor[id]; q != nil && q.obj == p.obj && !bytes.Equal(p.root, q.root) {
			w.fail("discipline D1: the trie root of a staged storage changed while a transaction was executed")
			return err == nil, tx
		}
	}
	// D3: entries are never rewritten, staged objects never replaced
	if i := firstChanged(pre.acct, post.acct); i >= 0 {
		w.fail(fmt.Sprintf("discipline D3: entry %d of the account undo log, written before this transaction, changed in place (a record was mutated after it had been put: a rollback restores the mutated value)", i))
		return err == nil, tx
	}
	for id, p := range pre.stor {
		q := post.stor[id]
		if q == nil {
			if err == nil {
				w.fail("discipline D3: a storage staged before an accepted transaction is gone after it")
				return true, tx
			}
			continue
		}
		if q.obj != p.obj {
			w.fail("discipline D3: the staged storage of a contract was replaced by another object during one transaction (a second handle staged over the first: its writes are lost and an earlier snapshot's revision refers to a different log)")
			return err == nil, tx
		}
		if i := firstChanged(p.dig, q.dig); i >= 0 {
			w.fail(fmt.Sprintf("discipline D3: entry %d of a staged storage's undo log, written before this transaction, changed in place", i))
			return err == nil, tx
		}
	}
	if err != nil {
		// D2: rolled back to exactly the state before
		run.Count("txdrv-rejected")
		what := ""
		switch {
		case !eqStrs(pre.acct, post.acct):
			what = fmt.Sprintf("the account undo log has %d entries, %d before", len(post.acct), len(pre.acct))
		case len(pre.stor) != len(post.stor):
			what = fmt.Sprintf("%d staged storages, %d before", len(post.stor), len(pre.stor))
		case pre.nrec != post.nrec:
			what = "a receipt was added"
		case pre.reads != post.reads:
			what = "reads differ: [" + post.reads + "] before: [" + pre.reads + "]"
		}
		for id, p := range pre.stor {
			if q := post.stor[id]; what == "" && (q == nil || !eqStrs(p.dig, q.dig) || q.rev != p.rev) {
				what = "the undo log of a staged storage differs"
			}
		}
		if what != "" {
			w.fail("discipline D2: a rejected transaction (" + err.Error() + ") did not leave the block state as it was: " + what)
		}
		if strings.Contains(err.Error(), "fee is greater than balance") {
			run.Count("txdrv-rejected-after-resetAccount-put")
		}
		return false, tx
	}
	// D4
	if post.nrec != pre.nrec+1 {
		w.fail(fmt.Sprintf("discipline D4: an accepted transaction added %d receipts", post.nrec-pre.nrec))
		return true, tx
	}
	if len(post.acct) < len(pre.acct) {
		w.fail("discipline D4: an accepted transaction shortened the account undo log")
		return true, tx
	}
	run.Count("txdrv-accepted-" + status)
	if status == "ERROR" {
		grew := false
		for id, q := range post.stor {
			if p := pre.stor[id]; p == nil || len(q.dig) != len(p.dig) {
				grew = true
			}
		}
		if grew {
			// not a misuse of the snapshot API (nobody asked for a rollback): executeTx keeps the block state on runtime errors
			run.Count("txdrv-known-C03-error-receipt-kept-storage-writes")
		}
	}
	return true, tx
}

func (w *txWorld) block(ntx int) {
	run := w.g.run
	bs, bi := w.newBS()
	exec := chain.NewTxExecutor(context.Background(), nil, nil, bi, contract.ChainService)
	w.hist = append(w.hist, fmt.Sprintf("block %d", w.blockNo))
	var kept []*types.Tx
	var newCtrs [][]byte
	for i := 0; i < ntx && !w.failed; i++ {
		x := w.genTx()
		ok, tx := w.runTx(bs, exec, x)
		if ok {
			kept = append(kept, tx)
			if x.typ == types.TxType_DEPLOY {
				id := contract.CreateContractID(tx.Body.Account, tx.Body.Nonce)
				if st, _ := bs.StateDB.GetState(types.ToAccountID(id)); st != nil && len(st.CodeHash) > 0 {
					w.ctrs = append(w.ctrs, id)
					newCtrs = append(newCtrs, id)
				}
			}
		}
	}
	if w.failed {
		return
	}
	must(bs.Update())
	root := append([]byte{}, bs.GetRoot()...)
	reads := w.readAll(bs.StateDB)
	// D5: only the kept transactions, on the same committed base
	bs2, bi2 := w.newBS()
	exec2 := chain.NewTxExecutor(context.Background(), nil, nil, bi2, contract.ChainService)
	for _, tx := range kept {
		if err := exec2(bs2, types.NewTransaction(tx)); err != nil {
			w.fail("a transaction that was accepted in the block is rejected when only the accepted transactions are executed: " + err.Error())
			return
		}
	}
	must(bs2.Update())
	if !bytes.Equal(bs2.GetRoot(), root) {
		w.fail("D5: the state root after Update differs from the root obtained by executing only the transactions that were not rejected (a reverted transaction influenced the root)")
		return
	}
	if r2 := w.readAll(bs2.StateDB); r2 != reads {
		w.fail("D5: reads after Update differ from those of a run of only the accepted transactions: [" + reads + "] vs [" + r2 + "]")
		return
	}
	must(bs.Commit())
	if r3 := w.readAll(statedb.NewStateDB(w.store, root, false)); r3 != reads {
		w.fail("D5: a StateDB reopened at the committed root reads [" + r3 + "], the block state read [" + reads + "]")
		return
	}
	run.Count("txdrv-block")
	w.root = root
	w.blockNo++
	_ = newCtrs
}

// txScripted: the shapes the discipline checks must meet at least once per run, in a fixed order.
func (g *gen) txScripted() {
	w := newTxWorld(g, -1)
	fee.EnableZeroFee()
	u := w.users
	set := func(k, v string) []map[string]string { return []map[string]string{{"k": k, "v": v}} }
	bs, bi := w.newBS()
	exec := chain.NewTxExecutor(context.Background(), nil, nil, bi, contract.ChainService)
	w.hist = append(w.hist, "block 1 (scripted)")
	step := func(x *txSpecC12) bool {
		if w.failed {
			return false
		}
		ok, tx := w.runTx(bs, exec, x)
		if ok && x.typ == types.TxType_DEPLOY {
			w.ctrs = append(w.ctrs, contract.CreateContractID(tx.Body.Account, tx.Body.Nonce))
		}
		return ok
	}
	step(&txSpecC12{typ: types.TxType_DEPLOY, from: u[0], amount: 500000, script: map[string]interface{}{"fee": "10", "sets": set("k0", "v1")}, label: "deploy"})
	if len(w.ctrs) != 1 || w.failed {
		if !w.failed {
			w.fail("scripted: the deploy transaction was not accepted")
		}
		return
	}
	c := w.ctrs[0]
	// the sender has a buffered record now; a call that fails in the VM goes through resetAccount
	step(&txSpecC12{typ: types.TxType_CALL, from: u[0], to: c, script: map[string]interface{}{"fee": "7", "err": "vm"}, label: "call"})
	// the contract's storage is staged: a top-level VM error after writes keeps them (known, C03)
	step(&txSpecC12{typ: types.TxType_CALL, from: u[1], to: c, script: map[string]interface{}{"fee": "7", "err": "vmlate", "sets": set("k1", "v2")}, label: "call"})
	// system error / timeout after writes to the staged storage and a third-party credit: the executor rolls back
	step(&txSpecC12{typ: types.TxType_CALL, from: u[1], to: c, script: map[string]interface{}{"fee": "7", "err": "system", "sets": set("k0", "v3"),
		"xfers": []map[string]string{{"to": hex.EncodeToString(u[2]), "amt": "5"}}}, label: "call"})
	step(&txSpecC12{typ: types.TxType_CALL, from: u[2], to: c, script: map[string]interface{}{"fee": "7", "err": "timeout", "sets": set("k2", "v4"), "dels": []string{"k0"}}, label: "call"})
	// fee delegation: sender u0 has a buffered record; VM error; the contract cannot pay the fee: resetAccount(sender) has
	// put when resetAccount(receiver) fails - rolled back by the executor
	step(&txSpecC12{typ: types.TxType_FEEDELEGATION, from: u[0], to: c, script: map[string]interface{}{"fee": "900000000000000000", "err": "vm"}, label: "feedelegation-unpayable"})
	step(&txSpecC12{typ: types.TxType_FEEDELEGATION, from: u[3], to: c, script: map[string]interface{}{"fee": "3", "err": "nofd"}, label: "feedelegation"})
	step(&txSpecC12{typ: types.TxType_FEEDELEGATION, from: u[3], to: c, script: map[string]interface{}{"fee": "3", "sets": set("k2", "v5")}, label: "feedelegation"})
	// a deploy that fails after SetCode and writes (its code stays in the store, nothing else)
	step(&txSpecC12{typ: types.TxType_DEPLOY, from: u[1], script: map[string]interface{}{"fee": "10", "err": "system", "sets": set("k0", "v9")}, label: "deploy"})
	step(&txSpecC12{typ: types.TxType_TRANSFER, from: u[2], to: u[3], amount: 9_000_000_000_000_000, label: "transfer-too-much"})
	step(&txSpecC12{typ: types.TxType_TRANSFER, from: u[2], to: u[3], amount: 17, label: "transfer"})
	if !w.failed {
		must(bs.Update())
		must(bs.Commit())
	}
	g.run.Count("txdrv-scripted-session")
}

func (g *gen) txSession(idx int) {
	w := newTxWorld(g, idx)
	fee.EnableZeroFee()
	nb := 2 + w.rng.Intn(g.run.Pick(3, 5))
	for b := 0; b < nb && !w.failed; b++ {
		w.block(3 + w.rng.Intn(8))
	}
	g.run.Count("txdrv-session")
}

func sortedIDs(m map[types.AccountID]*storObs) []types.AccountID {
	ids := make([]types.AccountID, 0, len(m))
	for id := range m {
		ids = append(ids, id)
	}
	sort.Slice(ids, func(i, j int) bool { return bytes.Compare(ids[i][:], ids[j][:]) < 0 })
	return ids
}
