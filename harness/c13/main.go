// Harness c13 (pool half): the real mempool.txList and the real mempool.MemPool driven directly (no actor system) against
// the Lean model `Aergo.Pool`; sessions, oracle and generators live in harness/c13lib (shared with c13chain).
package main

import "github.com/aergoio/aergo/v2/zz_verif/c13lib"

func main() { c13lib.MainPool() }
