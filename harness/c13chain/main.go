// Harness c13chain (chain half of C13): a real chain.ChainService and a real, started mempool.MemPool (actor, verifier
// pool) joined by a component hub; blocks arrive through the chain service (connect, side branch, reorganisation, failed
// reorganisation), submissions and queries go through the pool's actor messages. Same model driver as c13 (model-c13).
package main

import "github.com/aergoio/aergo/v2/zz_verif/c13lib"

func main() { c13lib.MainChain() }
