// Chain half of C13 (harness c13chain): a real chain.ChainService and a real, *started* mempool.MemPool (its actor, its
// round-robin pool of TxVerifier actors, its monitor goroutine) joined by a real component hub, exactly as
// cmd/aergosvr wires them. Blocks reach the pool only through the chain service (message.AddBlock -> ChainManager ->
// addBlock -> executeBlock/reorg -> notifyEvents / swapTxMapping -> MemPoolDel / MemPoolPut); submissions, removals,
// fetches and queries go through the pool's actor messages (MemPoolPut -> TxVerifier.Receive -> verifyTx -> put, ...).
// Public-net genesis: fees are not zero, balances exceed 2^64. The same Lean driver (model-c13) answers the op lines.
package c13lib

import (
	"bytes"
	"context"
	"encoding/json"
	"errors"
	"fmt"
	"math"
	"math/big"
	"os"
	"path/filepath"
	"sort"
	"strconv"
	"strings"
	"sync"
	"syscall"
	"time"

	"github.com/aergoio/aergo-actor/actor"
	"github.com/aergoio/aergo-lib/log"
	"github.com/aergoio/aergo/v2/account/key"
	crypto "github.com/aergoio/aergo/v2/account/key/crypto"
	"github.com/aergoio/aergo/v2/chain"
	"github.com/aergoio/aergo/v2/config"
	"github.com/aergoio/aergo/v2/consensus"
	cchain "github.com/aergoio/aergo/v2/consensus/chain"
	"github.com/aergoio/aergo/v2/contract"
	"github.com/aergoio/aergo/v2/contract/system"
	"github.com/aergoio/aergo/v2/fee"
	"github.com/aergoio/aergo/v2/internal/enc/proto"
	"github.com/aergoio/aergo/v2/mempool"
	"github.com/aergoio/aergo/v2/pkg/component"
	"github.com/aergoio/aergo/v2/state"
	"github.com/aergoio/aergo/v2/types"
	"github.com/aergoio/aergo/v2/types/message"
	"github.com/aergoio/aergo/v2/zz_verif/vh"
	"github.com/btcsuite/btcd/btcec/v2"
	"github.com/rs/zerolog"
)

const nodeTimeout = 180 * time.Second // the machine is shared: generous, a timeout is reported as a harness problem

// ---------------------------------------------------------------- stub consensus (exported interface only)

type stubCons struct {
	cs  *chain.ChainService
	bad map[string]bool
}

func (s *stubCons) SetStateDB(sdb *state.ChainStateDB)      {}
func (s *stubCons) IsTransactionValid(tx *types.Tx) bool    { return true }
func (s *stubCons) VerifyTimestamp(block *types.Block) bool { return true }
func (s *stubCons) VerifySign(block *types.Block) error     { return nil }
func (s *stubCons) IsBlockValid(block *types.Block, best *types.Block) error {
	if s.bad[string(block.BlockHash())] {
		return errors.New("scripted: block refused by the consensus")
	}
	return nil
}
func (s *stubCons) Update(block *types.Block)                    {}
func (s *stubCons) Save(tx consensus.TxWriter) error             { return nil }
func (s *stubCons) NeedReorganization(rootNo types.BlockNo) bool { return true }
func (s *stubCons) Info() string                                 { return "" }
func (s *stubCons) GetType() consensus.ConsensusType             { return consensus.ConsensusSBP }
func (s *stubCons) NeedNotify() bool                             { return true }
func (s *stubCons) HasWAL() bool                                 { return false }
func (s *stubCons) IsForkEnable() bool                           { return true }
func (s *stubCons) IsConnectedBlock(block *types.Block) bool {
	_, err := s.cs.GetBlock(block.BlockHash())
	return err == nil
}
func (s *stubCons) MakeConfChangeProposal(req *types.MembershipChange) (*consensus.ConfChangePropose, error) {
	return nil, consensus.ErrNotSupportedMethod
}

type stubCcc struct{}

func (stubCcc) MakeConfChangeProposal(req *types.MembershipChange) (*consensus.ConfChangePropose, error) {
	return nil, consensus.ErrNotSupportedMethod
}

// ---------------------------------------------------------------- components of the hub

// sink: a started component that swallows what the chain service and the pool tell the rpc / p2p / syncer services.
type sinkActor struct{}

func (sinkActor) BeforeStart()                        {}
func (sinkActor) AfterStart()                         {}
func (sinkActor) BeforeStop()                         {}
func (sinkActor) Receive(actor.Context)               {}
func (sinkActor) Statistics() *map[string]interface{} { return &map[string]interface{}{} }

func newSink(name string) *component.BaseComponent {
	return component.NewBaseComponent(name, sinkActor{}, log.NewLogger(name))
}

// tap: the real MemPool component registered under its own name; it only notes what the chain service sends
// (Request / Tell; the harness itself always uses RequestFuture) before handing the message on unchanged.
type tap struct {
	*mempool.MemPool
	n *cnode
}

func (t *tap) Tell(m interface{}) { t.n.rec(m); t.MemPool.Tell(m) }
func (t *tap) Request(m interface{}, sender *actor.PID) {
	t.n.rec(m)
	t.MemPool.Request(m, sender)
}

// ---------------------------------------------------------------- node

type cnode struct {
	w       *world
	dir     string
	cfg     *config.Config
	cs      *chain.ChainService
	cons    *stubCons
	hub     *component.ComponentHub
	core    *chain.Core // the block producer's own stores
	keys    [nAcc]*btcec.PrivateKey
	ts      int64
	mu      sync.Mutex
	dels    [][]byte // block hashes of the MemPoolDel messages the chain service sent since the last clear
	puts    [][]byte // tx hashes of the MemPoolPut messages the chain service sent
	deltx   [][]byte
	byHash  map[string]*blk
	gen     *blk
	price   *big.Int // gas price (chain parameter)
	nameP   *big.Int // name price (chain parameter)
	nverif  int
	nameSeq int
	view    *blk // the block the pool was last notified of
	tips    []*blk
	events  []string // replay: everything done to the node, in order
}

func (n *cnode) rec(m interface{}) {
	n.mu.Lock()
	defer n.mu.Unlock()
	switch x := m.(type) {
	case *message.MemPoolDel:
		n.dels = append(n.dels, append([]byte(nil), x.Block.BlockHash()...))
	case *message.MemPoolPut:
		n.puts = append(n.puts, append([]byte(nil), x.Tx.GetHash()...))
	case *message.MemPoolDelTx:
		n.deltx = append(n.deltx, append([]byte(nil), x.Tx.GetHash()...))
	}
}

func (n *cnode) clearRec() {
	n.mu.Lock()
	n.dels, n.puts, n.deltx = nil, nil, nil
	n.mu.Unlock()
}

func copyFile(src, dst string) {
	b, err := os.ReadFile(src)
	if err != nil {
		panic(err)
	}
	os.MkdirAll(filepath.Dir(dst), 0o755)
	if err := os.WriteFile(dst, b, 0o644); err != nil {
		panic(err)
	}
}

var nodeSeq int

// newNode: genesis initialisation as `aergosvr init --genesis` does it (a Core on the data directory), then a chain
// service and a pool on copies of it, registered in one hub and started.
func (w *world) newNode(verifiers int) *cnode {
	nodeSeq++
	root := filepath.Join(w.run.Out, "node", strconv.Itoa(nodeSeq))
	os.RemoveAll(root)
	n := &cnode{w: w, dir: filepath.Join(root, "n"), byHash: map[string]*blk{}, nverif: verifiers}
	seed := vh.NewRng(13) // fixed accounts: the same in every run
	for i := 0; i < nAcc; i++ {
		k, _ := btcec.PrivKeyFromBytes(seed.Bytes(32))
		n.keys[i] = k
		w.addr[i] = crypto.GenerateAddress(k.PubKey().ToECDSA())
	}
	w.aidx = map[string]int{}
	for i := 0; i < nAcc; i++ {
		w.aidx[string(w.addr[i])] = i
	}
	g := &types.Genesis{
		ID:        types.ChainID{Version: 0, Magic: "c13.verif", PublicNet: true, MainNet: false, Consensus: "sbp"},
		Timestamp: 1_600_000_000_000_000_000,
		Balance:   map[string]string{},
	}
	for i := 0; i < nAcc; i++ {
		// 1000 .. 5000 aergo: far beyond 2^64 aer
		g.Balance[types.EncodeAddress(w.addr[i])] = new(big.Int).Mul(big.NewInt(int64(1000*(i+1))), big.NewInt(1e18)).String()
	}
	tmpl := filepath.Join(root, "tmpl")
	core, err := chain.NewCore("memorydb", tmpl, false, 0, &config.DBConfig{})
	if err != nil {
		panic(err)
	}
	if err := core.InitGenesisBlock(g, false); err != nil {
		panic(err)
	}
	core.Close()
	for _, d := range []string{n.dir, filepath.Join(root, "producer")} {
		for _, sub := range []string{"chain", "state"} {
			copyFile(filepath.Join(tmpl, sub, "database"), filepath.Join(d, sub, "database"))
		}
	}
	cfg := config.NewServerContext("", "").GetDefaultConfig().(*config.Config)
	cfg.DbType = "memorydb"
	cfg.DataDir = n.dir
	cfg.Blockchain.NumWorkers = 1
	cfg.Blockchain.VerifierCount = 2
	cfg.Mempool.VerifierNumber = verifiers
	cfg.Mempool.EnableFadeout = true
	cfg.Mempool.FadeoutPeriod = 1
	cfg.Mempool.DumpFilePath = filepath.Join(root, "mempool.dump")
	n.cfg = cfg
	n.cs = chain.NewChainService(cfg)
	n.cons = &stubCons{cs: n.cs, bad: map[string]bool{}}
	n.cs.SetChainConsensus(n.cons)
	mp := mempool.NewMemPoolService(cfg, n.cs)
	w.mp = mp
	n.hub = component.NewComponentHub()
	n.hub.Register(n.cs, &tap{mp, n}, newSink(message.RPCSvc), newSink(message.P2PSvc), newSink(message.SyncerSvc))
	n.hub.Start()
	for i := 0; !mp.VerifC13Started(); i++ { // AfterStart (best block -> setStateDB) runs after the actor has been spawned
		if i > 600000 {
			panic("c13chain: the pool did not finish AfterStart")
		}
		time.Sleep(100 * time.Microsecond)
	}
	// the eviction sweep is driven by the harness (as the monitor goroutine would call it); horizon 1 h, no work timer cut
	mempool.VerifSetEvict(time.Hour, time.Hour)
	n.price = system.GetGasPrice()
	n.nameP = system.GetNamePrice()
	if fee.IsZeroFee() {
		panic("c13chain: the public-net node runs with zero fee")
	}
	// producer
	n.core, err = chain.NewCore("memorydb", filepath.Join(root, "producer"), false, 0, &config.DBConfig{})
	if err != nil {
		panic(err)
	}
	gi := n.core.GetGenesisInfo()
	n.ts = gi.Timestamp
	gb := gi.Block()
	n.gen = &blk{id: 1, chain: 1, root: gb.GetHeader().GetBlocksRootHash(), b: gb, names: map[string]int{}}
	n.readState(n.gen)
	w.blocks = []*blk{n.gen}
	n.byHash[string(gb.BlockHash())] = n.gen
	n.view = n.gen
	n.tips = []*blk{n.gen}
	return n
}

func (n *cnode) readState(b *blk) {
	sdb := n.core.VerifC13SDB().OpenNewStateDB(b.root)
	b.bigbal = &[nAcc]*big.Int{}
	for i := 0; i < nAcc; i++ {
		st, err := sdb.GetAccountState(types.ToAccountID(n.w.addr[i]))
		if err != nil {
			panic(err)
		}
		b.st[i].nonce = st.GetNonce()
		b.bigbal[i] = st.GetBalanceBigInt()
	}
}

func (n *cnode) stop() {
	// the pool first (dumps its content), then the chain service; the sinks have nothing to stop
	n.w.mp.Stop()
	for i := 0; i < 2000; i++ { // sign-verifier goroutines must be idle before their channels are closed
		if need, pending := chain.VerifC13VerifyState(n.cs); !need || pending == 1 {
			break
		}
		time.Sleep(100 * time.Microsecond)
	}
	n.cs.Stop()
	n.core.Close()
	os.RemoveAll(filepath.Dir(n.dir))
}

func (n *cnode) ask(target string, m interface{}) interface{} {
	r, err := n.hub.RequestFuture(target, m, nodeTimeout, "verif").Result()
	if err != nil {
		panic(fmt.Sprintf("c13chain: no answer from %s to %T: %v", target, m, err))
	}
	return r
}

// barrier: when it returns, everything the chain service sent to the pool before has been processed — the pool actor's
// mailbox is FIFO (one round trip), and every TxVerifier routee has answered one further request (round robin,
// nobody else is sending): a transaction with a foreign chain id hash, refused by verifyTx before it touches the pool.
func (n *cnode) barrier() {
	n.ask(message.MemPoolSvc, &message.MemPoolExist{Hash: []byte("verif-barrier")})
	fs := make([]*actor.Future, 0, n.nverif)
	for i := 0; i < n.nverif; i++ {
		tx := &types.Tx{Body: &types.TxBody{Nonce: uint64(i + 1), Account: n.w.addr[0], Recipient: n.w.addr[1], ChainIdHash: []byte("verif-barrier"), Type: types.TxType_TRANSFER}}
		tx.Hash = tx.CalculateTxHash()
		fs = append(fs, n.hub.RequestFuture(message.MemPoolSvc, &message.MemPoolPut{Tx: tx}, nodeTimeout, "verif"))
	}
	for _, f := range fs {
		r, err := f.Result()
		if err != nil {
			panic(fmt.Sprintf("c13chain: barrier: %v", err))
		}
		if r.(*message.MemPoolPutRsp).Err == nil {
			panic("c13chain: the barrier transaction was admitted")
		}
	}
	n.ask(message.MemPoolSvc, &message.MemPoolExist{Hash: []byte("verif-barrier")})
}

func (n *cnode) chainBest() *blk {
	b, err := n.cs.GetBestBlock()
	if err != nil {
		panic(err)
	}
	x := n.byHash[string(b.BlockHash())]
	if x == nil {
		panic("c13chain: the chain's best block is not one the harness made")
	}
	return x
}

// ---------------------------------------------------------------- transactions

type txSpec struct {
	from     int
	name     string // non-empty: the sender field is this account name
	to       int    // -1: outside the universe
	nonce    uint64
	amount   *big.Int
	typ      types.TxType
	gasLimit uint64
	payload  []byte
	signer   int // whose key signs (normally from)
	chainID  []byte
}

func (n *cnode) bi(parent *blk) *types.BlockHeaderInfo {
	return types.NewBlockHeaderInfoFromPrevBlock(parent.b, n.ts+1000, config.AllEnabledHardforkConfig)
}

// cost: what ValidateWithSenderState compares with the balance, by the rules of types/transaction.go and fee/:
// transfer-like types: amount + gasPrice*gasLimit (gasLimit 0: the minimum gas of the payload); governance name
// transactions and multicall: nothing.
func (n *cnode) costOf(s *txSpec) *big.Int {
	switch s.typ {
	case types.TxType_GOVERNANCE, types.TxType_MULTICALL:
		return big.NewInt(0)
	}
	gl := s.gasLimit
	if gl == 0 {
		gl = minGas(len(s.payload))
	}
	c := new(big.Int).Mul(n.price, new(big.Int).SetUint64(gl))
	return c.Add(c, s.amount)
}

// minGas: fee/gas.go TxGas for a non-zero fee chain: 100000 + 5 per payload byte beyond the 200 free ones (capped).
func minGas(payload int) uint64 {
	sz := payload - 200
	if sz < 0 {
		sz = 0
	}
	if sz > 200*1024 {
		sz = 200 * 1024
	}
	return 100000 + 5*uint64(sz)
}

func (n *cnode) mkTx(s *txSpec) *types.Tx {
	body := &types.TxBody{
		Nonce: s.nonce, Account: n.w.addr[s.from], Amount: s.amount.Bytes(), GasLimit: s.gasLimit,
		GasPrice: n.price.Bytes(), Type: s.typ, Payload: s.payload, ChainIdHash: n.bi(n.gen).ChainIdHash(),
	}
	if s.name != "" {
		body.Account = []byte(s.name)
	}
	switch {
	case s.typ == types.TxType_GOVERNANCE:
		body.Recipient = []byte(types.AergoName)
	case s.typ == types.TxType_DEPLOY || s.typ == types.TxType_MULTICALL:
	default:
		body.Recipient = n.w.addrOf(s.to)
	}
	if s.chainID != nil {
		body.ChainIdHash = s.chainID
	}
	tx := &types.Tx{Body: body}
	if err := key.SignTx(tx, n.keys[s.signer]); err != nil {
		panic(err)
	}
	if b, err := proto.Encode(tx); err == nil { // what arrives is the protobuf encoding
		t2 := &types.Tx{}
		if proto.Decode(b, t2) == nil {
			tx = t2
		}
	}
	w := n.w
	w.cost[string(tx.Hash)] = n.costOf(s).String()
	if s.name != "" {
		w.named[string(tx.Hash)] = s.from
	}
	w.idOf(tx)
	return tx
}

func createNamePayload(name string) []byte {
	b, _ := json.Marshal(&types.CallInfo{Name: types.NameCreate, Args: []interface{}{name}})
	return b
}

// ---------------------------------------------------------------- producer

// mkBlock executes the candidate transactions in order on the parent's state through the real transaction executor (a
// transaction that fails is left out, as a block producer does), commits the state into the producer's store and
// returns the block. badRoot: the header claims a state root the execution does not reach (the node must refuse it).
func (n *cnode) mkBlock(parent *blk, cand []*types.Tx, badRoot bool) *blk {
	w := n.w
	n.ts += 1000
	bi := types.NewBlockHeaderInfoFromPrevBlock(parent.b, n.ts, config.AllEnabledHardforkConfig)
	sdb := n.core.VerifC13SDB()
	bs := state.NewBlockState(sdb.OpenNewStateDB(parent.root), state.SetPrevBlockHash(parent.b.BlockHash()))
	bs.SetGasPrice(system.GetGasPrice())
	bs.Receipts().SetHardFork(config.AllEnabledHardforkConfig, bi.No)
	exec := chain.NewTxExecutor(context.Background(), stubCcc{}, nil, bi, contract.ChainService)
	var txs []*types.Tx
	for _, tx := range cand {
		if err := exec(bs, types.NewTransaction(tx)); err != nil {
			w.run.Count("producer:tx-left-out")
			continue
		}
		txs = append(txs, tx)
	}
	if err := bs.Update(); err != nil {
		panic(err)
	}
	if err := bs.Commit(); err != nil {
		panic(err)
	}
	root := append([]byte{}, bs.GetRoot()...)
	block := types.NewBlock(bi, root, bs.Receipts(), txs, nil, nil)
	if badRoot {
		block.Header.BlocksRootHash = w.rng.Bytes(32)
	}
	return n.finishBlock(parent, block, root, badRoot)
}

// produce: a block made the way a block producer of this node makes it — consensus/chain.BlockGenerator fetches from
// the node's pool (MemPoolGet through the hub) and runs every transaction it is handed through the transaction
// executor, in the order handed out. The executor's own nonce check judges the hand-out: the first transaction of an
// account must carry state nonce + 1, the following ones the next nonces.
func (n *cnode) produce(parent *blk) *blk {
	w := n.w
	n.ts += 1000
	bi := types.NewBlockHeaderInfoFromPrevBlock(parent.b, n.ts, config.AllEnabledHardforkConfig)
	sdb := n.core.VerifC13SDB()
	bs := state.NewBlockState(sdb.OpenNewStateDB(parent.root), state.SetPrevBlockHash(parent.b.BlockHash()))
	bs.SetGasPrice(system.GetGasPrice())
	bs.Receipts().SetHardFork(config.AllEnabledHardforkConfig, bi.No)
	exec := chain.NewTxExecutor(context.Background(), stubCcc{}, nil, bi, contract.BlockFactory)
	failed := map[int]bool{}
	handed := 0
	op := cchain.TxOpFn(func(bs *state.BlockState, tx types.Transaction) error {
		handed++
		err := exec(bs, tx)
		a, _ := w.senderIdx(tx.GetTx())
		if err != nil {
			if (err == types.ErrTxNonceTooLow || err == types.ErrTxNonceToohigh) && !failed[a] {
				w.run.Fail(fmt.Sprintf("block producer: account %d was handed nonce %d (%v) on state nonce %d of the chain's best block", a, tx.GetBody().GetNonce(), err, parent.st[a].nonce),
					map[string]interface{}{"node_ops": n.replay()})
			}
			failed[a] = true
			w.run.Count("producer:handed-out-tx-failed-in-execution")
		}
		return err
	})
	block, err := cchain.NewBlockGenerator(n.hub, context.Background(), bi, bs, op, false).GenerateBlock()
	if err != nil {
		panic(fmt.Sprintf("c13chain: block generator: %v", err))
	}
	if err := bs.Commit(); err != nil {
		panic(err)
	}
	w.run.Count(fmt.Sprintf("producer:generated-block-with-%d-of-%d-handed-out", min(len(block.GetBody().GetTxs()), 9), min(handed, 9)))
	w.ops = append(w.ops, "get")
	w.run.Eval(fmt.Sprintf("produce %d %d", parent.id, handed), handed > 0)
	return n.finishBlock(parent, block, append([]byte{}, bs.GetRoot()...), false)
}

// finishBlock: the harness' record of a block (what the model is told about it): transactions with the account they
// ran under, names registered so far on the branch, account states at its root.
func (n *cnode) finishBlock(parent *blk, block *types.Block, root []byte, badRoot bool) *blk {
	w := n.w
	// the chain id carries the hard-fork version: 0 in the genesis block, the current one in every later block (all
	// hard forks are enabled from block 1 on), so the first connected block changes the chain id and the pool resets
	b := &blk{id: len(w.blocks) + 1, parent: parent, height: parent.height + 1, chain: 2, names: map[string]int{}, bad: badRoot, root: root}
	for k, v := range parent.names {
		b.names[k] = v
	}
	for _, tx := range block.GetBody().GetTxs() {
		from, _ := w.senderIdx(tx)
		to := -1
		if i, ok := w.aidx[string(tx.Body.Recipient)]; ok {
			to = i
		}
		b.txs = append(b.txs, btx{from, to, tx})
		if tx.Body.Type == types.TxType_GOVERNANCE {
			var ci types.CallInfo
			if json.Unmarshal(tx.Body.Payload, &ci) == nil && ci.Name == types.NameCreate {
				b.names[ci.Args[0].(string)] = from
			}
		}
	}
	raw, err := proto.Encode(block) // what a peer sends is the protobuf encoding
	if err != nil {
		panic(err)
	}
	block = &types.Block{}
	if err := proto.Decode(raw, block); err != nil {
		panic(err)
	}
	b.b = block
	n.readState(b)
	// the sender's nonce in the committed state is what the harness' own count says (one per transaction of the sender)
	want := parent.st
	for _, t := range b.txs {
		want[t.from].nonce++
	}
	for i := 0; i < nAcc; i++ {
		if want[i].nonce != b.st[i].nonce {
			panic(fmt.Sprintf("c13chain: producer: account %d nonce %d in the committed state, %d transactions counted", i, b.st[i].nonce, want[i].nonce))
		}
	}
	w.blocks = append(w.blocks, b)
	n.byHash[string(block.BlockHash())] = b
	return b
}

// defLine: the block as the model is told about it (op `defblock`).
func (n *cnode) defLine(b *blk) string {
	w := n.w
	var ts []string
	for _, t := range b.txs {
		nm := 0
		if _, ok := w.named[string(t.tx.Hash)]; ok {
			nm = 1
		}
		ts = append(ts, fmt.Sprintf("%d/%d/%d/%s/%d", t.from, t.tx.Body.Nonce, w.idOf(t.tx), w.costOf(t.tx), nm))
	}
	return "def" + w.blockOp(b) + " t=" + orDash(strings.Join(ts, ","))
}

func ids(bs []*blk) string {
	var s []string
	for _, b := range bs {
		s = append(s, strconv.Itoa(b.id))
	}
	return orDash(strings.Join(s, ","))
}

// pathFrom: blocks after the common ancestor of a and b up to a (oldest first), and the same for b.
func pathFrom(a, b *blk) (pa, pb []*blk) {
	x, y := a, b
	for x != y {
		if x.height >= y.height {
			pa = append([]*blk{x}, pa...)
			x = x.parent
		} else {
			pb = append([]*blk{y}, pb...)
			y = y.parent
		}
	}
	return
}

// emitNode records one operation of a node session: the answer carries the complete pool state read at quiescence;
// then the property is evaluated on the real pool against the state of the chain's best block.
func (n *cnode) emitNode(op, res string, nontrivial bool) {
	w := n.w
	w.ops = append(w.ops, op)
	out := res
	if !strings.HasPrefix(op, "defblock") {
		out = res + " | " + w.dump()
	}
	w.run.Op(op, out, nontrivial)
	n.check(op)
}

func (n *cnode) check(op string) {
	w := n.w
	v := w.oracle()
	if v == "" {
		v = n.viewOracle()
	}
	if v == "" {
		return
	}
	w.run.Fail(v, map[string]interface{}{"after": op, "pool_after": w.dump(), "node_ops": n.replay()})
}

func (n *cnode) replay() []string {
	ops := n.w.ops
	if len(ops) > 400 {
		ops = append([]string{fmt.Sprintf("... %d earlier operations of this node ...", len(ops)-400)}, ops[len(ops)-400:]...)
	}
	return append([]string(nil), ops...)
}

// viewOracle: the account states the pool reads (its own StateDB at the root it was last told) are those of the chain's
// best block — "state" in the property is the chain's state, and after a processed notification the pool must see it.
func (n *cnode) viewOracle() string {
	w := n.w
	for i := 0; i < nAcc; i++ {
		nonce, bal := w.mp.VerifC13AccountState(w.addr[i])
		if nonce != w.best.st[i].nonce || bal.Cmp(w.best.bigbal[i]) != 0 {
			return fmt.Sprintf("pool view: account %d has nonce %d balance %s in the pool's state, nonce %d balance %s in the state of the chain's best block %d",
				i, nonce, bal, w.best.st[i].nonce, w.best.bigbal[i], w.best.id)
		}
	}
	return ""
}

// deliver hands a block to the chain service the way the p2p layer does and records what the model must do for it.
func (n *cnode) deliver(b *blk, kind string) {
	w := n.w
	n.emitNode(n.defLine(b), "ok", false)
	before := n.chainBest()
	n.clearRec()
	rsp := n.ask(message.ChainSvc, &message.AddBlock{PeerID: "verif-peer", Block: b.b})
	aerr := rsp.(*message.AddBlockRsp).Err
	n.barrier()
	after := n.chainBest()
	n.mu.Lock()
	dels, puts := n.dels, n.puts
	n.mu.Unlock()
	w.best = after
	newP, oldP := pathFrom(after, before)
	switch {
	case after == before:
		// nothing connected. A refused side branch may have been executed block by block first (failed reorganisation):
		// the pool follows those blocks and must be brought back to the unchanged best block (finding
		// C13-failed-reorg-pool-left-on-abandoned-branch, repaired by 245caf14: a last notification of the best block).
		// How it is brought back is the chain service's business: the model is told the notifications it did send;
		// that the pool ends up on the chain's best block is what the oracle demands.
		var sent []*blk
		for _, h := range dels {
			sent = append(sent, n.byHash[string(h)])
		}
		if len(sent) > 0 {
			n.view = sent[len(sent)-1]
			w.run.Count("event:failed-reorg(" + strconv.Itoa(len(sent)-1) + "-side-blocks-executed)")
			n.emitNode("notes "+ids(sent), "ok", true)
		} else {
			w.run.Count("event:none(" + kind + "," + errWord(aerr) + ")")
			n.emitNode("notes -", "ok", false)
		}
		return
	case len(oldP) == 0:
		w.run.Count(fmt.Sprintf("event:connect-%d", min(len(newP), 3)))
	default:
		w.run.Count(fmt.Sprintf("event:reorg-old%d-new%d", min(len(oldP), 3), min(len(newP), 4)))
	}
	// rolled-back transactions the verifier must refuse again: their sender name does not resolve on the new branch
	// (names are per branch), or they create a name the new branch already has
	var drop []string
	inNew := map[string]bool{}
	for _, x := range newP {
		for _, t := range x.txs {
			inNew[string(t.tx.Hash)] = true
		}
	}
	nback := 0
	for _, x := range oldP {
		for _, t := range x.txs {
			if inNew[string(t.tx.Hash)] {
				continue
			}
			nback++
			if !n.admissibleAt(t.tx, after) {
				drop = append(drop, strconv.Itoa(w.idOf(t.tx)))
			}
		}
	}
	if nback > 0 {
		w.run.Count("event:rolled-back-txs-resubmitted")
	}
	n.view = after
	n.emitNode(fmt.Sprintf("event old=%s new=%s drop=%s", ids(oldP), ids(newP), orDash(strings.Join(drop, ","))), "ok", true)
	// what the chain service sent, against what the connected path asks for (reported, not a property clause by itself:
	// the end state above is)
	if len(dels) != len(newP) {
		w.run.Count(fmt.Sprintf("note:notifications-sent-%d-for-%d-connected-blocks", len(dels), len(newP)))
	}
	if len(puts) != nback {
		w.run.Count(fmt.Sprintf("note:resubmitted-%d-of-%d-rolled-back", len(puts), nback))
	}
}

func errWord(err error) string {
	if err == nil {
		return "ok"
	}
	return "err"
}

// admissibleAt: can the front end (verifyTx + the name part of validateTx) accept this transaction when the pool sees
// block b? The harness' own bookkeeping of names per branch decides; nonce and balance are the model's business.
func (n *cnode) admissibleAt(tx *types.Tx, b *blk) bool {
	if len(tx.Body.Account) != types.AddressLength {
		if _, ok := b.names[string(tx.Body.Account)]; !ok {
			return false
		}
		if b.names[string(tx.Body.Account)] != n.w.named[string(tx.Hash)] {
			return false
		}
	}
	if tx.Body.Type == types.TxType_GOVERNANCE {
		var ci types.CallInfo
		if json.Unmarshal(tx.Body.Payload, &ci) == nil && ci.Name == types.NameCreate {
			if _, taken := b.names[ci.Args[0].(string)]; taken {
				return false
			}
			// name.ValidateNameTx: the sender must hold the amount when the transaction is admitted (FilterByState
			// never asks again)
			if from, _ := n.w.senderIdx(tx); b.bigbal[from].Cmp(new(big.Int).SetBytes(tx.Body.Amount)) < 0 {
				return false
			}
		}
	}
	return true
}

// ---------------------------------------------------------------- pool operations through the actor messages

func classifyNode(err error) string {
	switch c := classify(err); {
	case strings.HasPrefix(c, "other:"):
		return "rejected"
	default:
		return c
	}
}

func (n *cnode) submit(tx *types.Tx, from int, kind string, wantReject bool) {
	w := n.w
	id := w.idOf(tx)
	r := n.ask(message.MemPoolSvc, &message.MemPoolPut{Tx: tx}).(*message.MemPoolPutRsp)
	res := classifyNode(r.Err)
	w.run.Count("put:" + kind + ":" + res)
	if res == "rejected" && !wantReject {
		w.run.Count("put:unexpected-refusal:" + kind + ":" + r.Err.Error())
	}
	if wantReject {
		// refused by the front end for a reason outside the model (signature, name resolution, governance pre-checks):
		// any refusal will do, the pool must be unchanged
		if res != "ok" {
			res = "rejected"
		}
		n.emitNode(fmt.Sprintf("bad %d", id), res, false)
		return
	}
	verb := "put"
	if _, ok := w.named[string(tx.Hash)]; ok {
		verb = "putn"
	}
	n.emitNode(fmt.Sprintf("%s %d %d %d %s", verb, from, tx.Body.Nonce, id, w.costOf(tx)), res, res == "ok")
	if res == "ok" {
		if x := n.ask(message.MemPoolSvc, &message.MemPoolExist{Hash: tx.Hash}).(*message.MemPoolExistRsp); x.Tx == nil {
			w.run.Fail("accepted transaction is not found by hash", map[string]interface{}{"node_ops": n.replay()})
		}
	}
}

func (n *cnode) lowestFree(a int) uint64 {
	_, by := n.w.pooled()
	nn := n.w.best.st[a].nonce + 1
	have := map[uint64]bool{}
	for _, t := range by[a] {
		have[t.GetBody().GetNonce()] = true
	}
	for have[nn] {
		nn++
	}
	return nn
}

var plainTypes = []types.TxType{types.TxType_TRANSFER, types.TxType_NORMAL, types.TxType_TRANSFER, types.TxType_CALL}

func (n *cnode) genSubmit() {
	w, rng := n.w, n.w.rng
	a := rng.Intn(nAcc)
	st := w.best.st[a]
	bal := w.best.bigbal[a]
	all, by := w.pooled()
	mine := by[a]
	small := func() *big.Int { return new(big.Int).Mul(big.NewInt(int64(1+rng.Intn(900))), big.NewInt(1e15)) }
	spec := &txSpec{from: a, signer: a, to: rng.Intn(nAcc+1) - 1, typ: plainTypes[rng.Intn(len(plainTypes))], amount: small(),
		gasLimit: 100000 + uint64(rng.Intn(3))*50000}
	if rng.Chance(1, 5) {
		spec.gasLimit = 0
	}
	if rng.Chance(1, 6) {
		spec.payload = rng.Bytes(rng.Intn(400))
		if spec.gasLimit != 0 {
			spec.gasLimit += 2000
		}
	}
	switch k := rng.Intn(100); {
	case k < 6 && len(all) > 0: // the same transaction again
		t := all[rng.Intn(len(all))].GetTx()
		la, _ := w.senderIdx(t)
		n.submit(t, la, "dup-hash", false)
	case k < 13 && len(mine) > 0: // same account and nonce, other content
		spec.nonce = mine[rng.Intn(len(mine))].GetBody().GetNonce()
		n.submit(n.mkTx(spec), a, "same-nonce", false)
	case k < 19: // stale
		spec.nonce = st.nonce - min64(st.nonce, uint64(rng.Intn(3)))
		n.submit(n.mkTx(spec), a, "stale", false)
	case k < 25: // amount + fee just above the balance
		spec.nonce = st.nonce + 1 + uint64(rng.Intn(3))
		if spec.gasLimit == 0 {
			spec.gasLimit = minGas(len(spec.payload))
		}
		feeMax := new(big.Int).Mul(n.price, new(big.Int).SetUint64(spec.gasLimit))
		spec.amount = new(big.Int).Sub(bal, feeMax)
		spec.amount.Add(spec.amount, big.NewInt(int64(1+rng.Intn(3))))
		if spec.amount.Sign() < 0 {
			spec.amount = small()
		}
		n.submit(n.mkTx(spec), a, "too-expensive-by-fee", false)
	case k < 30: // amount + fee exactly the balance (one time in two: beyond a gap, a little below the balance — what the
		// balCheck pass of FilterByState has to find again when the balance has gone down)
		spec.nonce = st.nonce + 1 + uint64(rng.Intn(3))
		if rng.Bool() {
			spec.nonce = n.lowestFree(a) + 1 + uint64(rng.Intn(3))
		}
		if spec.gasLimit == 0 {
			spec.gasLimit = minGas(len(spec.payload))
		}
		feeMax := new(big.Int).Mul(n.price, new(big.Int).SetUint64(spec.gasLimit))
		spec.amount = new(big.Int).Sub(bal, feeMax)
		if rng.Chance(1, 3) {
			spec.amount.Sub(spec.amount, new(big.Int).Mul(big.NewInt(int64(rng.Intn(3000))), big.NewInt(1e15)))
		}
		if spec.amount.Sign() < 0 {
			spec.amount = small()
		}
		n.submit(n.mkTx(spec), a, "exact-balance-with-fee", false)
	case k < 50: // the lowest missing nonce
		spec.nonce = n.lowestFree(a)
		n.submit(n.mkTx(spec), a, "fill-gap", false)
	case k < 54: // far ahead
		spec.nonce = st.nonce + 20 + uint64(rng.Intn(1000))
		n.submit(n.mkTx(spec), a, "far", false)
	case k < 62: // sent under an account name
		n.genNamed(a)
	case k < 66: // a governance transaction: create a name
		n.nameSeq++
		nm := fmt.Sprintf("verif%07d", n.nameSeq)
		if have := n.namesOf(n.seen(), -1); len(have) > 0 && rng.Chance(1, 3) {
			nm = have[rng.Intn(len(have))] // a name the pool's state already has: refused
		}
		spec.typ, spec.payload, spec.amount, spec.gasLimit = types.TxType_GOVERNANCE, createNamePayload(nm), new(big.Int).Set(n.nameP), 0
		spec.nonce = n.lowestFree(a)
		tx := n.mkTx(spec)
		// name.ValidateNameTx: the sender must hold the amount at admission (never re-checked by FilterByState)
		n.submit(tx, a, "create-name", !n.admissibleAt(tx, n.seen()))
	case k < 70: // deploy / multicall: admitted by the pool (fee from the payload size / no balance check)
		spec.to, spec.payload, spec.nonce = -1, append([]byte("verif-code"), rng.Bytes(rng.Intn(300))...), n.lowestFree(a)+uint64(rng.Intn(2))
		if rng.Bool() {
			spec.typ, spec.gasLimit = types.TxType_DEPLOY, minGas(len(spec.payload))+uint64(rng.Intn(5000))
		} else {
			spec.typ, spec.amount, spec.gasLimit = types.TxType_MULTICALL, big.NewInt(0), 0
		}
		n.submit(n.mkTx(spec), a, "type-"+spec.typ.String(), false)
	case k < 78: // refused by the front end: signature, chain id, hash, malformed fields
		n.genBad(a, spec)
	default: // somewhere in a small window above the state nonce
		spec.nonce = st.nonce + 1 + uint64(rng.Intn(7))
		n.submit(n.mkTx(spec), a, "window", false)
	}
}

// seen: the block whose state the pool reads (name resolution of the front end): the chain's best block.
func (n *cnode) seen() *blk { return n.w.best }

func (n *cnode) namesOf(b *blk, owner int) []string {
	var out []string
	for k, v := range b.names {
		if owner < 0 || v == owner {
			out = append(out, k)
		}
	}
	sort.Strings(out)
	return out
}

func (n *cnode) genNamed(a int) {
	rng := n.w.rng
	spec := &txSpec{from: a, signer: a, to: rng.Intn(nAcc), typ: types.TxType_TRANSFER, amount: big.NewInt(int64(1 + rng.Intn(1000))), gasLimit: 100000}
	mine := n.namesOf(n.seen(), a) // names resolve in the state the pool sees
	switch {
	case len(mine) > 0 && rng.Chance(4, 5):
		spec.name = mine[rng.Intn(len(mine))]
		spec.nonce = n.lowestFree(a) + uint64(rng.Intn(2))
		n.submit(n.mkTx(spec), a, "named-sender", false)
	case len(mine) > 0: // signed by somebody who does not hold the name
		spec.name = mine[rng.Intn(len(mine))]
		spec.signer = (a + 1) % nAcc
		spec.nonce = n.lowestFree(a)
		n.submit(n.mkTx(spec), a, "named-sender-foreign-key", true)
	default: // a name nobody has
		spec.name = "verifnobody1"
		spec.nonce = n.lowestFree(a)
		n.submit(n.mkTx(spec), a, "named-sender-unknown-name", true)
	}
}

func (n *cnode) genBad(a int, spec *txSpec) {
	w, rng := n.w, n.w.rng
	spec.nonce = n.lowestFree(a)
	kind := ""
	var tx *types.Tx
	switch rng.Intn(7) {
	case 6:
		kind = "gas-limit-below-the-minimum"
		spec.payload = rng.Bytes(300 + rng.Intn(200))
		spec.gasLimit = minGas(len(spec.payload)) - 1 - uint64(rng.Intn(400))
		tx = n.mkTx(spec)
	case 0:
		kind = "foreign-key"
		spec.signer = (a + 1 + rng.Intn(nAcc-1)) % nAcc
		tx = n.mkTx(spec)
	case 1:
		kind = "other-chain-id"
		spec.chainID = rng.Bytes(32)
		tx = n.mkTx(spec)
	case 2:
		kind = "hash-does-not-match"
		tx = proto.Clone(n.mkTx(spec)).(*types.Tx)
		tx.Body.Amount = new(big.Int).Add(spec.amount, big.NewInt(1)).Bytes()
		w.cost[string(tx.Hash)+"x"] = "0"
	case 3:
		kind = "signature-bit-flipped"
		t0 := n.mkTx(spec)
		tx = proto.Clone(t0).(*types.Tx)
		tx.Body.Sign[9] ^= 0x40
		tx.Hash = tx.CalculateTxHash()
		w.cost[string(tx.Hash)] = w.cost[string(t0.Hash)]
		w.idOf(tx)
	case 4:
		kind = "recipient-of-wrong-length"
		t0 := n.mkTx(spec)
		tx = proto.Clone(t0).(*types.Tx)
		tx.Body.Recipient = tx.Body.Recipient[:20]
		key.SignTx(tx, n.keys[a])
		w.cost[string(tx.Hash)] = w.cost[string(t0.Hash)]
		w.idOf(tx)
	default:
		kind = "deploy-with-recipient"
		spec.typ, spec.payload = types.TxType_DEPLOY, []byte("verif-code")
		spec.gasLimit = minGas(len(spec.payload))
		t0 := n.mkTx(spec)
		tx = proto.Clone(t0).(*types.Tx)
		tx.Body.Recipient = w.addr[(a+1)%nAcc]
		key.SignTx(tx, n.keys[a])
		w.cost[string(tx.Hash)] = w.cost[string(t0.Hash)]
		w.idOf(tx)
	}
	n.submit(tx, a, "bad:"+kind, true)
}

func (n *cnode) genRemoveNode() {
	w, rng := n.w, n.w.rng
	all, _ := w.pooled()
	var t *types.Tx
	kind := "pooled"
	if len(all) == 0 || rng.Chance(1, 5) {
		if len(w.txs) == 0 {
			return
		}
		t = w.txs[1+rng.Intn(len(w.txs))].GetTx()
		kind = "seen-before"
	} else {
		t = all[rng.Intn(len(all))].GetTx()
	}
	_, a := w.senderIdx(t)
	r := n.ask(message.MemPoolSvc, &message.MemPoolDelTx{Tx: t}).(*message.MemPoolDelTxRsp)
	res := classify(r.Err)
	if r.Err == types.ErrTxNotFound {
		res = "notfound"
	}
	w.run.Count("rm:" + kind + ":" + res)
	n.emitNode(fmt.Sprintf("rm %d %d", a, w.idOf(t)), res, res == "ok")
}

// fetch: what a block producer is handed (MemPoolGet), per account, and the property's clause on it.
func (n *cnode) fetch() []types.Transaction {
	w := n.w
	lists, _, _, _, _ := w.observe()
	r := n.ask(message.MemPoolSvc, &message.MemPoolGet{MaxBlockBodySize: math.MaxUint32}).(*message.MemPoolGetRsp)
	by := map[int][]types.Transaction{}
	for _, t := range r.Txs {
		la, _ := w.senderIdx(t.GetTx())
		by[la] = append(by[la], t)
	}
	var parts []string
	for a := 0; a < nAcc; a++ {
		if len(by[a]) == 0 {
			continue
		}
		var ts []string
		for k, t := range by[a] {
			ts = append(ts, fmt.Sprintf("%d/%d", t.GetBody().GetNonce(), w.idOf(t.GetTx())))
			if want := w.best.st[a].nonce + 1 + uint64(k); t.GetBody().GetNonce() != want {
				w.run.Fail(fmt.Sprintf("fetch: account %d is offered nonce %d where %d is due (state nonce %d of the chain's best block)", a, t.GetBody().GetNonce(), want, w.best.st[a].nonce),
					map[string]interface{}{"node_ops": n.replay()})
			}
		}
		parts = append(parts, fmt.Sprintf("a%d:%s", a, strings.Join(ts, ",")))
	}
	_ = lists
	w.run.Count("get")
	w.ops = append(w.ops, "get")
	w.run.Op("get", orDash(strings.Join(parts, " ")), len(r.Txs) > 0)
	// a fetch under a block body size limit (which accounts make it depends on the map order): whatever is handed out
	// must still be, per account, the run state+1, state+2, ... with no transaction left out in the middle. Payloads
	// of 0..500 bytes make the sizes differ. Oracle only.
	if len(r.Txs) > 1 && w.rng.Chance(1, 2) {
		limit := uint32(150 + w.rng.Intn(1200))
		c := n.ask(message.MemPoolSvc, &message.MemPoolGet{MaxBlockBodySize: limit}).(*message.MemPoolGetRsp)
		next := map[int]uint64{}
		for _, t := range c.Txs {
			a, _ := w.senderIdx(t.GetTx())
			if _, ok := next[a]; !ok {
				next[a] = w.best.st[a].nonce + 1
			}
			if t.GetBody().GetNonce() != next[a] {
				w.run.Fail(fmt.Sprintf("size-limited fetch (%d bytes): account %d is handed nonce %d where %d is due", limit, a, t.GetBody().GetNonce(), next[a]),
					map[string]interface{}{"node_ops": n.replay()})
				break
			}
			next[a]++
		}
		w.run.Eval(fmt.Sprintf("getcap %d %d %v", limit, len(c.Txs), len(w.ops)), len(c.Txs) > 0)
		w.run.Count("get-size-limited")
	}
	return r.Txs
}

func (n *cnode) genQuery() {
	w, rng := n.w, n.w.rng
	switch rng.Intn(6) {
	case 0: // existence of several hashes in one request (what the block validator's sign verifier asks)
		var hs [][]byte
		var is []string
		k := 1 + rng.Intn(6)
		for i := 0; i < k && len(w.txs) > 0; i++ {
			t := w.txs[1+rng.Intn(len(w.txs))].GetTx()
			hs = append(hs, t.Hash)
			is = append(is, strconv.Itoa(w.idOf(t)))
		}
		if len(hs) == 0 {
			return
		}
		r := n.ask(message.MemPoolSvc, &message.MemPoolExistEx{Hashes: hs}).(*message.MemPoolExistExRsp)
		var out []string
		for i := range hs {
			switch {
			case i >= len(r.Txs):
				out = append(out, "missing-slot")
			case r.Txs[i] == nil:
				out = append(out, "0")
			default:
				out = append(out, strconv.Itoa(w.idOf(r.Txs[i])))
			}
		}
		w.run.Count("existx")
		w.ops = append(w.ops, "existx "+strings.Join(is, ","))
		w.run.Op("existx "+strings.Join(is, ","), strings.Join(out, ","), true)
		// existence queries by hash: one answer per hash, the pooled transaction with that hash or nothing
		_, cache, _, _, _ := w.observe()
		held := map[int]bool{}
		for _, c := range cache {
			held[c] = true
		}
		for i := range hs {
			want := "0"
			if held[w.txid[string(hs[i])]] {
				want = is[i]
			}
			if out[i] != want {
				w.run.Fail(fmt.Sprintf("bulk existence query: hash #%d of the request (transaction %s) answered %s, held: %v", i, is[i], out[i], want != "0"),
					map[string]interface{}{"asked": is, "answers": out, "node_ops": n.replay()})
				break
			}
		}
	case 1: // hashes of the offered transactions
		lim := 1 + rng.Intn(60)
		r := n.ask(message.MemPoolSvc, &message.MemPoolList{Limit: lim}).(*message.MemPoolListRsp)
		var got []int
		for _, h := range r.Hashes {
			got = append(got, w.txid[string(h[:])])
		}
		sort.Ints(got)
		_, _, l, o, _ := w.observe()
		// which `lim` of the offered ones are listed depends on the map order: compared in full only when all fit
		res := fmt.Sprintf("%d more=%v", len(got), r.HasMore)
		if l-o <= lim {
			var s []string
			for _, g := range got {
				s = append(s, strconv.Itoa(g))
			}
			res = fmt.Sprintf("all %s more=%v", orDash(strings.Join(s, ",")), r.HasMore)
		}
		if want := min(l-o, lim); len(got) != want || r.HasMore != (l-o > lim) {
			w.run.Fail(fmt.Sprintf("hash list: %d hashes (more=%v) for limit %d with %d transactions offered", len(got), r.HasMore, lim, l-o),
				map[string]interface{}{"node_ops": n.replay()})
		}
		w.run.Count("listhash")
		w.ops = append(w.ops, "listhash")
		w.run.Op(fmt.Sprintf("listhash %d", lim), res, len(got) > 0)
	case 2: // statistics of the component (reported totals)
		s := *w.mp.Statistics()
		if _, _, l, o, _ := w.observe(); s["total"] != l || s["orphan"] != o {
			w.run.Fail(fmt.Sprintf("statistics report total %v orphan %v, the pool holds %d with %d held aside", s["total"], s["orphan"], l, o),
				map[string]interface{}{"node_ops": n.replay()})
		}
		w.ops = append(w.ops, "stats")
		w.run.Count("stats")
		w.run.Op("stats", fmt.Sprintf("%v %v", s["total"], s["orphan"]), s["total"].(int) > 0)
	case 3: // the unconfirmed-transaction report over every account (JSON as the RPC layer gets it)
		r := n.ask(message.MemPoolSvc, &message.MemPoolTxStat{}).(*message.MemPoolTxStatRsp)
		var rep []struct {
			Address string `json:"address"`
			Pooled  struct {
				Count int `json:"count"`
			} `json:"pooled"`
			Orphaned struct {
				Count int `json:"count"`
			} `json:"orphaned"`
		}
		if err := json.Unmarshal(r.Data, &rep); err != nil {
			panic(err)
		}
		var parts []string
		for _, e := range rep {
			if e.Pooled.Count+e.Orphaned.Count == 0 {
				continue // an empty list left by an earlier report for one account
			}
			raw, _ := types.DecodeAddress(e.Address)
			parts = append(parts, fmt.Sprintf("a%d:%d:%d", w.aidx[string(raw)], e.Pooled.Count, e.Orphaned.Count))
		}
		sort.Strings(parts)
		{
			lists, _, _, _, _ := w.observe()
			var want []string
			for _, v := range lists {
				if len(v.txs) > 0 {
					want = append(want, fmt.Sprintf("a%d:%d:%d", v.acc, v.ready, len(v.txs)-v.ready))
				}
			}
			sort.Strings(want)
			if strings.Join(want, " ") != strings.Join(parts, " ") {
				w.run.Fail(fmt.Sprintf("unconfirmed report says [%s], the lists hold [%s] (account:offered:held aside)", strings.Join(parts, " "), strings.Join(want, " ")),
					map[string]interface{}{"node_ops": n.replay()})
			}
		}
		w.ops = append(w.ops, "txstat")
		w.run.Count("txstat")
		w.run.Op("txstat", orDash(strings.Join(parts, " ")), len(parts) > 0)
	case 4: // the report for one account, with ids
		a := rng.Intn(nAcc)
		r := n.ask(message.MemPoolSvc, &message.MemPoolTx{Accounts: []types.Address{w.addr[a]}}).(*message.MemPoolTxRsp)
		var rep []struct {
			Pooled struct {
				Count int      `json:"count"`
				IDs   []string `json:"id"`
			} `json:"pooled"`
			Orphaned struct {
				Count int      `json:"count"`
				IDs   []string `json:"id"`
			} `json:"orphaned"`
		}
		if err := json.Unmarshal(r.Data, &rep); err != nil || len(rep) != 1 {
			panic(fmt.Sprintf("unconfirmed report: %v %d", err, len(rep)))
		}
		toIDs := func(ss []string) string {
			var out []string
			for _, s := range ss {
				found := 0
				for h, id := range w.txid {
					if types.ToTxID([]byte(h)).String() == s {
						found = id
					}
				}
				out = append(out, strconv.Itoa(found))
			}
			return orDash(strings.Join(out, ","))
		}
		w.run.Count("unconf")
		n.emitNode(fmt.Sprintf("unconf %d", a), fmt.Sprintf("%d %d p=%s o=%s", rep[0].Pooled.Count, rep[0].Orphaned.Count, toIDs(rep[0].Pooled.IDs), toIDs(rep[0].Orphaned.IDs)), rep[0].Pooled.Count+rep[0].Orphaned.Count > 0)
	default:
		if len(w.txs) == 0 {
			return
		}
		t := w.txs[1+rng.Intn(len(w.txs))].GetTx()
		r := n.ask(message.MemPoolSvc, &message.MemPoolExist{Hash: t.Hash}).(*message.MemPoolExistRsp)
		res := "0"
		if r.Tx != nil {
			la, _ := w.senderIdx(r.Tx)
			res = fmt.Sprintf("1 a%d %d", la, r.Tx.Body.Nonce)
		}
		w.run.Count("exist:" + res[:1])
		w.ops = append(w.ops, "exist")
		w.run.Op(fmt.Sprintf("exist %d", w.idOf(t)), res, r.Tx != nil)
	}
}

func (n *cnode) genEvictNode() {
	w, rng := n.w, n.w.rng
	lists, _, _, _, _ := w.observe()
	var old []string
	for _, v := range lists {
		if rng.Chance(1, 3) {
			w.mp.VerifBackdate(w.addr[v.acc], 3*time.Hour)
			old = append(old, strconv.Itoa(v.acc))
		} else if v.last.IsZero() {
			old = append(old, strconv.Itoa(v.acc))
		}
	}
	w.mp.VerifEvict() // what the monitor goroutine calls on its ticker
	w.run.Count(fmt.Sprintf("evict:%d-lists", min(len(old), 3)))
	n.emitNode("evict "+orDash(strings.Join(old, ",")), "ok", len(old) > 0)
}

// ---------------------------------------------------------------- block events

// blockTxs: what a producer working on `parent` puts into its block: offered pool transactions that fit the parent's
// state, fresh ones, ones conflicting with pooled ones, now and then a name creation.
func (n *cnode) blockTxs(parent *blk, offered []types.Transaction) []*types.Tx {
	w, rng := n.w, n.w.rng
	st := parent.st
	var out []*types.Tx
	if rng.Chance(1, 5) {
		return nil // an empty block (a branch of empty blocks changes the state by being connected, not by its content)
	}
	byAcc := map[int][]types.Transaction{}
	for _, t := range offered {
		a, _ := w.senderIdx(t.GetTx())
		byAcc[a] = append(byAcc[a], t)
	}
	for a := 0; a < nAcc; a++ {
		if !rng.Chance(2, 5) {
			continue
		}
		k := 1 + rng.Intn(3)
		for j := 0; j < k; j++ {
			next := st[a].nonce + 1
			var tx *types.Tx
			if rng.Chance(2, 3) {
				for _, t := range byAcc[a] {
					if t.GetBody().GetNonce() == next && n.admissibleAt(t.GetTx(), parent) && t.GetBody().GetType() != types.TxType_DEPLOY &&
						t.GetBody().GetType() != types.TxType_MULTICALL && t.GetBody().GetType() != types.TxType_CALL {
						tx = t.GetTx()
					}
				}
			}
			if tx == nil {
				spec := &txSpec{from: a, signer: a, to: rng.Intn(nAcc+1) - 1, typ: types.TxType_TRANSFER, nonce: next,
					amount: new(big.Int).Mul(big.NewInt(int64(1+rng.Intn(900))), big.NewInt(1e15)), gasLimit: 100000}
				if mine := n.namesOf(parent, a); len(mine) > 0 && rng.Chance(1, 4) {
					spec.name = mine[rng.Intn(len(mine))]
				} else if rng.Chance(1, 8) {
					n.nameSeq++
					spec.typ, spec.payload, spec.amount, spec.gasLimit = types.TxType_GOVERNANCE, createNamePayload(fmt.Sprintf("verif%07d", n.nameSeq)), new(big.Int).Set(n.nameP), 0
				}
				tx = n.mkTx(spec)
			}
			st[a].nonce = next
			out = append(out, tx)
		}
	}
	return out
}

func (n *cnode) genBlockEvent() {
	w, rng := n.w, n.w.rng
	best := w.best
	// where to build: mostly on the best block; else on a block a few steps back or on the tip of a side branch
	parent := best
	kind := "extend"
	if rng.Chance(45, 100) {
		kind = "side"
		var cands, near []*blk
		p := best
		for d := 0; d < 3 && p.parent != nil; d++ {
			p = p.parent
			cands = append(cands, p)
		}
		for _, t := range n.tips {
			if t != best && !t.bad && best.height < t.height+4 && t.height+3 > best.height {
				near = append(near, t)
			}
		}
		if len(near) > 0 && rng.Chance(5, 6) {
			parent = near[rng.Intn(len(near))] // grow a side branch until it overtakes
		} else if len(cands) > 0 {
			parent = cands[rng.Intn(len(cands))]
		}
	}
	if parent.bad {
		parent = best
	}
	var offered []types.Transaction
	if parent == best || rng.Bool() {
		offered = n.fetch()
	}
	bad := rng.Chance(1, 12)
	if parent != best && parent.height >= best.height && rng.Chance(1, 3) {
		bad = true // the block that would make the side branch win is refused: failed reorganisation
	}
	var b *blk
	if parent == best && !bad && rng.Chance(1, 2) {
		kind = "produced"
		b = n.produce(parent)
	} else {
		b = n.mkBlock(parent, n.blockTxs(parent, offered), bad)
	}
	if bad {
		kind += "+bad-root"
	}
	// tips
	var tips []*blk
	for _, t := range n.tips {
		if t != parent {
			tips = append(tips, t)
		}
	}
	n.tips = append(tips, b)
	if len(n.tips) > 6 {
		n.tips = n.tips[len(n.tips)-6:]
	}
	n.deliver(b, kind)
}

// ---------------------------------------------------------------- scripted scenarios

func (n *cnode) transfer(from int, nonce uint64) *types.Tx {
	return n.mkTx(&txSpec{from: from, signer: from, to: (from + 1) % nAcc, typ: types.TxType_TRANSFER, nonce: nonce,
		amount: big.NewInt(1e15), gasLimit: 100000})
}

// failedReorgScenario (regression for finding C13-failed-reorg-pool-left-on-abandoned-branch, repaired by 245caf14):
// main chain A1, A2 spend nonces 1, 2 of account 0; account 0's nonce 3 waits in the pool. A side branch B1, B2 (nothing
// from account 0) is stored; B3 makes it longer but claims a wrong state root. The chain service executes B1 and B2
// (one notification each), refuses B3 and stays on A2. Before the repair the pool stayed on B2's state: nonce 3 was held
// aside, the already executed nonce 1 was admitted again and handed to producers.
func (n *cnode) failedReorgScenario() {
	w := n.w
	base := w.best
	a1 := n.mkBlock(base, []*types.Tx{n.transfer(0, base.st[0].nonce+1)}, false)
	n.deliver(a1, "scenario")
	a2 := n.mkBlock(a1, []*types.Tx{n.transfer(0, base.st[0].nonce+2)}, false)
	n.deliver(a2, "scenario")
	n.submit(n.transfer(0, base.st[0].nonce+3), 0, "scenario", false)
	b1 := n.mkBlock(base, []*types.Tx{n.transfer(1, base.st[1].nonce+1)}, false)
	n.deliver(b1, "scenario-side")
	b2 := n.mkBlock(b1, nil, false)
	n.deliver(b2, "scenario-side")
	b3 := n.mkBlock(b2, nil, true)
	n.deliver(b3, "scenario-side+bad-root")
	n.fetch()
	n.submit(n.transfer(0, base.st[0].nonce+1), 0, "scenario-stale-after-failed-reorg", false)
	n.fetch()
	a3 := n.mkBlock(a2, nil, false)
	n.deliver(a3, "scenario")
	n.fetch()
	n.tips = []*blk{a3}
}

// ---------------------------------------------------------------- concurrent mix on the started node

// storm: the production goroutine structure under load. Submissions are fired without waiting (the pool actor hands
// them round-robin to its TxVerifier actors, which run verifyTx + put concurrently); meanwhile the chain service
// connects blocks and reorganises (MemPoolDel / MemPoolPut from the chain manager's goroutine), one goroutine does what
// the monitor does (evictTransactions on backdated lists), one sends removals, fetches, reports, bulk existence
// queries and reads the component statistics. No model line is written; the property is evaluated on the real pool at
// quiescence against the state of the chain's best block. Testing, not proof.
func (n *cnode) storm(perAcc int) {
	w, rng := n.w, n.w.rng
	base := w.best
	var subs []*types.Tx
	for a := 0; a < nAcc; a++ {
		names := n.namesOf(base, a)
		for k := 0; k < perAcc; k++ {
			spec := &txSpec{from: a, signer: a, to: (a + 1 + k) % nAcc, typ: plainTypes[k%len(plainTypes)], nonce: base.st[a].nonce + 1 + uint64(k),
				amount: big.NewInt(int64(1 + k)), gasLimit: 100000}
			if len(names) > 0 && k%5 == 4 {
				spec.name, spec.typ = names[k%len(names)], types.TxType_TRANSFER
			}
			subs = append(subs, n.mkTx(spec))
			if k%6 == 0 { // same account and nonce, other content
				spec2 := *spec
				spec2.amount = big.NewInt(int64(1000 + k))
				subs = append(subs, n.mkTx(&spec2))
			}
			if k%9 == 0 { // refused by the front end
				spec3 := *spec
				spec3.signer = (a + 1) % nAcc
				spec3.amount = big.NewInt(int64(5000 + k))
				subs = append(subs, n.mkTx(&spec3))
			}
		}
	}
	for i := len(subs) - 1; i > 0; i-- {
		j := rng.Intn(i + 1)
		subs[i], subs[j] = subs[j], subs[i]
	}
	// blocks to connect meanwhile: a main extension spending the first nonces, then a longer side branch from `base`
	mk := func(parent *blk, from, cnt int) *blk {
		var txs []*types.Tx
		for a := 0; a < nAcc; a++ {
			for k := 0; k < cnt; k++ {
				txs = append(txs, n.mkTx(&txSpec{from: a, signer: a, to: (a + 2) % nAcc, typ: types.TxType_TRANSFER,
					nonce: parent.st[a].nonce + 1 + uint64(k), amount: big.NewInt(int64(7 + from)), gasLimit: 100000}))
			}
		}
		return n.mkBlock(parent, txs, false)
	}
	m1 := mk(base, 0, 4)
	m2 := mk(m1, 1, 3)
	s1 := mk(base, 2, 2)
	s2 := mk(s1, 3, 2)
	s3 := mk(s2, 4, 1)
	chainBlocks := []*blk{m1, s1, m2, s2, s3} // s3 makes the side branch longer: reorganisation m1,m2 -> s1,s2,s3
	if rng.Bool() {
		m3 := mk(m2, 5, 2)
		m4 := mk(m3, 6, 1)
		chainBlocks = append(chainBlocks, m3, m4) // and back again
	}
	var wg sync.WaitGroup
	stop := make(chan struct{})
	const senders = 4
	futs := make([][]*actor.Future, senders)
	for g := 0; g < senders; g++ {
		wg.Add(1)
		go func(g int) {
			defer wg.Done()
			for i := g; i < len(subs); i += senders {
				futs[g] = append(futs[g], n.hub.RequestFuture(message.MemPoolSvc, &message.MemPoolPut{Tx: subs[i]}, nodeTimeout, "verif"))
				if i%64 == 63 {
					time.Sleep(50 * time.Microsecond)
				}
			}
		}(g)
	}
	wg.Add(1)
	go func() { // the chain
		defer wg.Done()
		for _, b := range chainBlocks {
			time.Sleep(time.Duration(200+50*b.id%7) * time.Microsecond)
			n.hub.RequestFuture(message.ChainSvc, &message.AddBlock{PeerID: "verif-peer", Block: b.b}, nodeTimeout, "verif").Result()
		}
	}()
	var aux sync.WaitGroup
	aux.Add(2)
	go func() { // the monitor's job
		defer aux.Done()
		k := 0
		for {
			select {
			case <-stop:
				return
			default:
			}
			if k%4 == 0 {
				w.mp.VerifBackdate(w.addr[(k/4)%nAcc], 3*time.Hour)
			}
			w.mp.VerifEvict()
			w.mp.Size()
			k++
			time.Sleep(400 * time.Microsecond)
		}
	}()
	go func() { // the other clients of the pool actor
		defer aux.Done()
		k := 0
		for {
			select {
			case <-stop:
				return
			default:
			}
			switch k % 5 {
			case 0:
				r, err := n.hub.RequestFuture(message.MemPoolSvc, &message.MemPoolGet{MaxBlockBodySize: math.MaxUint32}, nodeTimeout, "verif").Result()
				if err == nil {
					txs := r.(*message.MemPoolGetRsp).Txs
					if len(txs) > 0 { // a producer drops what fails: here, remove one handed-out transaction
						n.hub.RequestFuture(message.MemPoolSvc, &message.MemPoolDelTx{Tx: txs[k%len(txs)].GetTx()}, nodeTimeout, "verif").Result()
					}
				}
			case 1:
				n.hub.RequestFuture(message.MemPoolSvc, &message.MemPoolTx{Accounts: []types.Address{w.addr[k%nAcc], w.addr[(k+2)%nAcc]}}, nodeTimeout, "verif").Result()
			case 2:
				hs := make([][]byte, 0, 8)
				for i := 0; i < 8; i++ {
					hs = append(hs, subs[(k+i*13)%len(subs)].Hash)
				}
				n.hub.RequestFuture(message.MemPoolSvc, &message.MemPoolExistEx{Hashes: hs}, nodeTimeout, "verif").Result()
			case 3:
				n.hub.RequestFuture(message.MemPoolSvc, &message.MemPoolTxStat{}, nodeTimeout, "verif").Result()
				w.mp.Statistics()
			default:
				n.hub.RequestFuture(message.MemPoolSvc, &message.MemPoolList{Limit: 50}, nodeTimeout, "verif").Result()
			}
			k++
		}
	}()
	wg.Wait()
	acc := 0
	for _, fs := range futs {
		for _, f := range fs {
			if r, err := f.Result(); err == nil && r.(*message.MemPoolPutRsp).Err == nil {
				acc++
			}
		}
	}
	close(stop)
	aux.Wait()
	n.barrier()
	w.best = n.chainBest()
	v := w.oracle()
	if v == "" {
		v = n.viewOracle()
	}
	if v == "" { // and what a producer is handed now
		r := n.ask(message.MemPoolSvc, &message.MemPoolGet{MaxBlockBodySize: math.MaxUint32}).(*message.MemPoolGetRsp)
		next := map[int]uint64{}
		for _, t := range r.Txs {
			a, _ := w.senderIdx(t.GetTx())
			if _, ok := next[a]; !ok {
				next[a] = w.best.st[a].nonce + 1
			}
			if t.GetBody().GetNonce() != next[a] {
				v = fmt.Sprintf("fetch: account %d is offered nonce %d where %d is due", a, t.GetBody().GetNonce(), next[a])
				break
			}
			next[a]++
		}
	}
	if v != "" {
		w.run.Fail("after concurrent submissions / chain events / evictions / removals / reports on the started node: "+v,
			map[string]interface{}{"pool_after": w.dump(), "best": w.best.id, "note": "schedule-dependent; the operations before the storm are in node_ops", "node_ops": n.replay()})
	}
	_, _, l, o, _ := w.observe()
	w.run.Eval(fmt.Sprintf("storm %d %d %s", nodeSeq, acc, w.dump()), true)
	w.run.Count("support:storm-on-started-node(testing)")
	w.run.Count(fmt.Sprintf("support:storm-left-%d-pooled", min(l/10*10, 200)))
	_ = o
}

// emptyBranchScenario: the main chain block A1 spends nonce 1 of account 0, nonce 2 waits in the pool; a side branch of
// two *empty* blocks overtakes. Nothing in the new blocks names account 0, yet its state is rewound: the pool must be
// notified of them all the same, rebase the list (nonce 2 now beyond a gap) and take the rolled-back nonce 1 back.
func (n *cnode) emptyBranchScenario() {
	w := n.w
	base := w.best
	a1 := n.mkBlock(base, []*types.Tx{n.transfer(0, base.st[0].nonce+1)}, false)
	n.deliver(a1, "scenario")
	n.submit(n.transfer(0, base.st[0].nonce+2), 0, "scenario", false)
	b1 := n.mkBlock(base, nil, false)
	n.deliver(b1, "scenario-side-empty")
	b2 := n.mkBlock(b1, nil, false)
	n.deliver(b2, "scenario-side-empty")
	n.fetch()
	n.tips = []*blk{b2}
}

// balanceDownScenario: balances are beyond 2^64. Account 2 holds nonce+3 (cheap) and nonce+4 (costs nearly the whole
// balance) beyond a gap; a block then spends so much from account 2 that nonce+4 is no longer affordable — by an amount
// chosen so that the low 64 bits of the balance go *up*. FilterByState must notice that the balance went down (balCheck),
// look past the first nonce-too-high transaction and drop nonce+4.
func (n *cnode) balanceDownScenario() {
	w := n.w
	base := w.best
	const a = 2
	st, bal := base.st[a], base.bigbal[a]
	fee := new(big.Int).Mul(n.price, big.NewInt(100000))
	n.submit(n.mkTx(&txSpec{from: a, signer: a, to: 3, typ: types.TxType_TRANSFER, nonce: st.nonce + 3, amount: big.NewInt(1e15), gasLimit: 100000}), a, "scenario", false)
	big4 := new(big.Int).Sub(bal, fee)
	big4.Sub(big4, big.NewInt(1e15))
	n.submit(n.mkTx(&txSpec{from: a, signer: a, to: 3, typ: types.TxType_TRANSFER, nonce: st.nonce + 4, amount: big4, gasLimit: 100000}), a, "scenario", false)
	mask := new(big.Int).SetUint64(math.MaxUint64)
	low := new(big.Int).And(bal, mask)
	var blk1 *blk
	for k := int64(1); k < 40 && blk1 == nil; k++ {
		amt := new(big.Int).Add(low, big.NewInt(k*1e15)) // more than the low 64 bits: the subtraction borrows
		if amt.Cmp(new(big.Int).Sub(bal, fee)) > 0 {
			break
		}
		c := n.mkBlock(base, []*types.Tx{n.mkTx(&txSpec{from: a, signer: a, to: 3, typ: types.TxType_TRANSFER, nonce: st.nonce + 1, amount: amt, gasLimit: 100000})}, false)
		if len(c.txs) == 1 && new(big.Int).And(c.bigbal[a], mask).Cmp(low) > 0 && c.bigbal[a].Cmp(bal) < 0 {
			blk1 = c
		}
	}
	if blk1 == nil {
		w.run.Count("scenario:balance-down-not-constructed")
		return
	}
	w.run.Count("scenario:balance-down(low-64-bits-up)")
	n.deliver(blk1, "scenario")
	n.fetch()
	n.tips = []*blk{blk1}
}

// ---------------------------------------------------------------- sessions

func (w *world) nodeSession(nops, verifiers int, scripted bool, storm int) {
	w.nsdb++
	w.txid = map[string]int{}
	w.txs = map[int]types.Transaction{}
	w.named = map[string]int{}
	w.cost = map[string]string{}
	w.ops = nil
	n := w.newNode(verifiers)
	w.node = n
	defer func() { w.node = nil }()
	w.best, w.settled = n.gen, true
	w.run.Op("new", "ok | "+w.dump(), false)
	w.ops = append(w.ops, "new")
	// AfterStart has told the pool the chain's best block (genesis): the model's first notification
	n.emitNode(n.defLine(n.gen), "ok", false)
	n.barrier()
	n.emitNode("event old=- new=1 drop=-", "ok", false)
	if scripted {
		n.failedReorgScenario()
		n.emptyBranchScenario()
		n.balanceDownScenario()
	}
	for i := 0; i < nops; i++ {
		switch k := w.rng.Intn(100); {
		case k < 50:
			n.genSubmit()
		case k < 56:
			n.genRemoveNode()
		case k < 76:
			n.genBlockEvent()
		case k < 80:
			n.genEvictNode()
		case k < 86:
			n.fetch()
		default:
			n.genQuery()
		}
	}
	n.storm(storm)
	n.stop()
}

// MainChain: harness c13chain.
func MainChain() {
	zerolog.SetGlobalLevel(zerolog.Disabled)
	run := vh.Start("c13chain", "real ChainService + real started MemPool (actor, TxVerifier pool) on one hub, public-net genesis (non-zero fee, balances "+
		"beyond 2^64). Blocks arrive through message.AddBlock (extension, side branch, reorganisation of depth <= 3, refused blocks, failed "+
		"reorganisation); submissions through MemPoolPut -> TxVerifier (transfer / normal / call / deploy / multicall / governance name creation; "+
		"sender names; refused: foreign key, other chain id, wrong hash, bad signature, malformed); removals, fetches, bulk existence, hash list, "+
		"statistics, unconfirmed reports through the actor; eviction as the monitor calls it. non-trivial = the operation changed or returned pool content")
	defer run.Finish()
	w := &world{run: run, rng: run.Rng.Fork(), aidx: map[string]int{}}
	for s := 0; s < run.Pick(3, 10); s++ {
		nops := run.Pick(300, 900)
		w.safely("node", func() { w.nodeSession(nops, 2+3*(s%3), s == 0, run.Pick(120, 400)) })
	}
	_ = bytes.Equal
}

// MainRace: harness c13race — the bare-pool concurrent mix of C13 alone, meant to be built with the race detector
// (`check` does: CGO_ENABLED=1 go build -race; the overlay removes the cgo files of package contract) and run with
// GORACE=log_path=...: every pair of racing sites it reports is turned into a failure by `check`. The goroutines play the
// production roles: N verifier routees (exist, verifyTx, put), the pool actor (block notifications, removals,
// unconfirmed reports, existence queries, hash lists, fetches — one goroutine, as in production), the monitor
// (eviction sweeps, Size) and the statistics collector. The started node (real actors, chain service) is *not* part of
// this run: the actor library's lock-free mailbox and the chain service's own goroutines have races of their own that
// are not the pool's. Without -race the binary runs the same mix and evaluates the property at quiescence.
func MainRace() {
	zerolog.SetGlobalLevel(zerolog.Disabled)
	// A binary built with -race exits with status 66 when any race was reported (also a listed one), which the check
	// would take for a crash of the harness: the reports are read from GORACE's log_path, the exit status must stay 0.
	// GORACE is read by the runtime at start-up, so re-execute once with exitcode=0 appended.
	if g := os.Getenv("GORACE"); g != "" && !strings.Contains(g, "exitcode=") {
		if exe, err := os.Executable(); err == nil {
			os.Setenv("GORACE", g+" exitcode=0")
			if err := syscall.Exec(exe, os.Args, os.Environ()); err != nil {
				fmt.Fprintln(os.Stderr, "c13race: re-exec with exitcode=0 failed:", err)
			}
		}
	}
	run := vh.Start("c13race", "bare-pool concurrent mix only (for the race detector): 10 goroutines in the verifier role (exist, verifyTx, put), one in the pool "+
		"actor's (notifications, removals, reports, queries, fetches), one in the monitor's (eviction, Size, Statistics). The property is evaluated at quiescence")
	defer run.Finish()
	w := &world{run: run, rng: run.Rng.Fork(), aidx: map[string]int{}}
	for i := 0; i < nAcc; i++ {
		a := make([]byte, types.AddressLength)
		a[0] = 2
		a[1] = byte(i + 1)
		for k := 5; k < len(a); k++ {
			a[k] = byte(17*i + k)
		}
		w.addr[i] = a
		w.aidx[string(a)] = i
	}
	w.safely("session", func() { w.concurrent(run.Pick(6, 60)) })
}
