// Harness c13: the real mempool.txList and the real mempool.MemPool (on a real StateDB, no actor
// system) driven operation by operation against the Lean model `Aergo.Pool`, with the property's
// own predicate (C13) evaluated on the real structures after every operation.
package c13lib

import (
	"bytes"
	"encoding/binary"
	"fmt"
	"math"
	"math/big"
	"path/filepath"
	"sort"
	"strconv"
	"strings"
	"sync"
	"time"

	"github.com/aergoio/aergo/v2/mempool"
	"github.com/aergoio/aergo/v2/state"
	"github.com/aergoio/aergo/v2/types"
	"github.com/aergoio/aergo/v2/zz_verif/vh"
	"github.com/rs/zerolog"
)

const nAcc = 5 // accounts of the universe (model ids 0..nAcc-1)

type acct struct {
	nonce uint64
	bal   uint64
}

type btx struct {
	from, to int // to: -1 = an address outside the universe
	tx       *types.Tx
}

type blk struct {
	id     int
	parent *blk
	height uint64
	chain  int
	st     [nAcc]acct
	bigbal *[nAcc]*big.Int // node sessions: balances beyond uint64 (nil in the synthetic sessions)
	root   []byte
	b      *types.Block
	txs    []btx
	names  map[string]int // node sessions: account names registered on this branch -> owner
	bad    bool           // node sessions: the header claims a wrong state root
}

type world struct {
	run     *vh.Run
	rng     *vh.Rng
	sdb     *state.ChainStateDB
	mp      *mempool.MemPool
	addr    [nAcc][]byte
	aidx    map[string]int
	blocks  []*blk
	best    *blk // what the pool was last notified of
	settled bool // the last notification completed a connect / a whole reorganisation
	txid    map[string]int
	txs     map[int]types.Transaction
	chains  [][]byte
	ops     []string // session so far (replay)
	nsdb    int
	bare    *mempool.VerifTxList
	bareOps []string
	nshrunk int
	named   map[string]int // tx hash -> verified account, for transactions whose sender field is a name
	nknown  int
	known   string            // class id to tag the next oracle failure with (set around one operation only)
	cost    map[string]string // tx hash -> what ValidateWithSenderState compares with the balance (node sessions: amount + fee)
	node    *cnode            // non-nil in a chain-service session
}

func (w *world) addrOf(i int) []byte {
	if i >= 0 {
		return w.addr[i]
	}
	b := make([]byte, types.AddressLength)
	b[0] = 3
	b[1] = 0xEE
	return b
}

func (w *world) idOf(tx *types.Tx) int {
	k := string(tx.Hash)
	if id, ok := w.txid[k]; ok {
		return id
	}
	id := len(w.txid) + 1
	w.txid[k] = id
	w.txs[id] = types.NewTransaction(tx)
	return id
}

func (w *world) mkTx(from, to int, nonce, amount uint64, salt int) *types.Tx {
	body := &types.TxBody{
		Nonce:     nonce,
		Account:   w.addrOf(from),
		Recipient: w.addrOf(to),
		Amount:    new(big.Int).SetUint64(amount).Bytes(),
		Type:      types.TxType_NORMAL,
	}
	if salt > 0 {
		body.Payload = []byte(strconv.Itoa(salt))
	}
	tx := &types.Tx{Body: body}
	tx.Hash = tx.CalculateTxHash()
	w.idOf(tx)
	return tx
}

// mkNamedTx: a transaction whose sender field is an account *name* (<= 12 bytes). MemPool.verifyTx resolves
// the name and records the address with SetVerifedAccount; put() files the transaction under that address.
func (w *world) mkNamedTx(from, to int, nonce, amount uint64) *types.Tx {
	body := &types.TxBody{
		Nonce:     nonce,
		Account:   []byte(fmt.Sprintf("verifname%d", from)),
		Recipient: w.addrOf(to),
		Amount:    new(big.Int).SetUint64(amount).Bytes(),
		Type:      types.TxType_NORMAL,
	}
	tx := &types.Tx{Body: body}
	tx.Hash = tx.CalculateTxHash()
	w.named[string(tx.Hash)] = from
	w.idOf(tx)
	return tx
}

// wrap does what the verifier does before put(): NewTransaction, plus the verified account of a named sender.
func (w *world) wrap(tx *types.Tx) types.Transaction {
	t := types.NewTransaction(tx)
	if a, ok := w.named[string(tx.Hash)]; ok {
		t.SetVerifedAccount(w.addr[a])
	}
	return t
}

// senderIdx: model account of the list the transaction belongs to / of the account field removeTx reads.
func (w *world) senderIdx(tx *types.Tx) (listAcc, fieldAcc int) {
	if a, ok := w.named[string(tx.Hash)]; ok {
		return a, 100 + a
	}
	a := w.aidx[string(tx.Body.Account)]
	return a, a
}

func amountOf(tx *types.Tx) uint64 { return new(big.Int).SetBytes(tx.Body.Amount).Uint64() }

// costOf: the amount the admission check compares with the sender's balance (the model's `cost`), as a decimal string.
func (w *world) costOf(tx *types.Tx) string {
	if c, ok := w.cost[string(tx.Hash)]; ok {
		return c
	}
	return new(big.Int).SetBytes(tx.Body.Amount).String()
}

// ---------------------------------------------------------------- chain side (block tree with real state roots)

func (w *world) newSession() {
	w.nsdb++
	w.sdb = state.NewChainStateDB()
	if err := w.sdb.Init("memorydb", filepath.Join(w.run.Out, "sdb", strconv.Itoa(w.nsdb)), nil, false, nil); err != nil {
		panic(err)
	}
	w.mp = mempool.VerifNew(w.sdb)
	// NewMemPoolService resets the package-level eviction period (0 when fade-out is off in the config):
	// eviction horizon 1 h; a sweep is never cut short by its 4 ms work timer
	mempool.VerifSetEvict(time.Hour, time.Hour)
	w.blocks = nil
	w.txid = map[string]int{}
	w.txs = map[int]types.Transaction{}
	w.named = map[string]int{}
	w.ops = nil
	w.chains = nil
	w.chainBytes(0)
	w.best = nil
	w.settled = false
}

func (w *world) chainBytes(version int32) int {
	cid := types.NewChainID()
	cid.PublicNet = true
	cid.Magic = "verif"
	cid.Consensus = "dpos"
	cid.Version = version
	b, err := cid.Bytes()
	if err != nil {
		panic(err)
	}
	for i, c := range w.chains {
		if bytes.Equal(c, b) {
			return i + 1
		}
	}
	w.chains = append(w.chains, b)
	return len(w.chains)
}

// mkBlock builds a block on parent (nil = genesis) with the given transactions and extra
// balance-only changes, commits the resulting account states and returns the block.
func (w *world) mkBlock(parent *blk, txs []btx, bump map[int]int64, chain int, genesis *[nAcc]acct) *blk {
	b := &blk{id: len(w.blocks) + 1, parent: parent, chain: chain, txs: txs}
	var root []byte
	var prev []byte
	if parent != nil {
		b.st = parent.st
		b.height = parent.height + 1
		root = parent.root
		prev = parent.b.BlockHash()
	} else {
		b.st = *genesis
	}
	changed := map[int]bool{}
	if parent == nil {
		for i := 0; i < nAcc; i++ {
			changed[i] = true
		}
	}
	for _, t := range txs {
		a := amountOf(t.tx)
		b.st[t.from].nonce = t.tx.Body.Nonce
		b.st[t.from].bal -= a
		changed[t.from] = true
		if t.to >= 0 {
			b.st[t.to].bal += a
			changed[t.to] = true
		}
	}
	for i, d := range bump {
		nb := int64(b.st[i].bal) + d
		if nb < 0 {
			nb = 0
		}
		b.st[i].bal = uint64(nb)
		changed[i] = true
	}
	sdb := w.sdb.OpenNewStateDB(root)
	for i := 0; i < nAcc; i++ {
		if changed[i] {
			st := &types.State{Nonce: b.st[i].nonce, Balance: new(big.Int).SetUint64(b.st[i].bal).Bytes()}
			if err := sdb.PutState(types.ToAccountID(w.addr[i]), st); err != nil {
				panic(err)
			}
		}
	}
	if err := sdb.Update(); err != nil {
		panic(err)
	}
	if err := sdb.Commit(); err != nil {
		panic(err)
	}
	b.root = sdb.GetRoot()
	body := &types.BlockBody{}
	for _, t := range txs {
		body.Txs = append(body.Txs, t.tx)
	}
	b.b = &types.Block{
		Header: &types.BlockHeader{ChainID: w.chains[chain-1], PrevBlockHash: prev, BlockNo: b.height,
			Timestamp: int64(1000 + b.id), BlocksRootHash: b.root},
		Body: body,
	}
	b.b.BlockHash()
	w.blocks = append(w.blocks, b)
	return b
}

func (w *world) blockOp(b *blk) string {
	pid := 0
	if b.parent != nil {
		pid = b.parent.id
	}
	dirty := map[int]bool{}
	for _, t := range b.txs {
		dirty[t.from] = true
		if t.to >= 0 {
			dirty[t.to] = true
		}
	}
	var ds []string
	for i := 0; i < nAcc; i++ {
		if dirty[i] {
			ds = append(ds, strconv.Itoa(i))
		}
	}
	var ss []string
	for i := 0; i < nAcc; i++ {
		if b.bigbal != nil {
			ss = append(ss, fmt.Sprintf("%d:%d:%s", i, b.st[i].nonce, b.bigbal[i].String()))
			continue
		}
		ss = append(ss, fmt.Sprintf("%d:%d:%d", i, b.st[i].nonce, b.st[i].bal))
	}
	return fmt.Sprintf("block %d %d %d d=%s s=%s", b.id, pid, b.chain, orDash(strings.Join(ds, ",")), strings.Join(ss, ","))
}

func orDash(s string) string {
	if s == "" {
		return "-"
	}
	return s
}

// ---------------------------------------------------------------- observation of the real pool

type listView struct {
	acc   int
	bal   string // base balance in decimal
	base  acct
	ready int
	txs   []types.Transaction
	last  time.Time
}

func (w *world) observe() (lists []listView, cache []int, length, orphan int, bad string) {
	ls, ck, l, o := w.mp.VerifDump()
	for _, v := range ls {
		if v.Account == nil {
			bad = "pool map key differs from the list's account"
			continue
		}
		i, ok := w.aidx[string(v.Account)]
		if !ok {
			bad = "list for an account outside the universe"
			continue
		}
		lists = append(lists, listView{acc: i, bal: v.BaseBalance.String(), base: acct{v.BaseNonce, v.BaseBalance.Uint64()}, ready: v.Ready, txs: v.Txs, last: v.LastTime})
	}
	sort.Slice(lists, func(i, j int) bool { return lists[i].acc < lists[j].acc })
	for _, k := range ck {
		id, ok := w.txid[string(k[:])]
		if !ok {
			bad = "hash index holds a hash never submitted"
			continue
		}
		cache = append(cache, id)
	}
	sort.Ints(cache)
	return lists, cache, l, o, bad
}

func (w *world) showList(nonce uint64, bal string, ready int, txs []types.Transaction) string {
	var ts []string
	for _, t := range txs {
		ts = append(ts, fmt.Sprintf("%d/%d/%s", t.GetBody().GetNonce(), w.idOf(t.GetTx()), w.costOf(t.GetTx())))
	}
	return fmt.Sprintf("n%d:b%s:r%d[%s]", nonce, bal, ready, orDash(strings.Join(ts, ",")))
}

func (w *world) dump() string {
	lists, cache, l, o, _ := w.observe()
	var cs, ls []string
	for _, c := range cache {
		cs = append(cs, strconv.Itoa(c))
	}
	for _, v := range lists {
		if len(v.txs) == 0 {
			// an empty list (the unconfirmed report creates one for an account it is asked about) is not part of the
			// canonical state: no clause speaks about it, the next notification or eviction drops it
			continue
		}
		ls = append(ls, fmt.Sprintf("a%d:%s", v.acc, w.showList(v.base.nonce, v.bal, v.ready, v.txs)))
	}
	return fmt.Sprintf("L=%d O=%d C=%s | %s", l, o, orDash(strings.Join(cs, ",")), orDash(strings.Join(ls, " ")))
}

// oracle: the property C13 evaluated on the real pool. Returns the first violated clause ("" = holds).
func (w *world) oracle() string {
	lists, cache, length, orphan, bad := w.observe()
	if bad != "" {
		return bad
	}
	seen := map[int]int{}
	sumLen, sumOrphan := 0, 0
	for _, v := range lists {
		prev := uint64(0)
		for k, t := range v.txs {
			n := t.GetBody().GetNonce()
			if la, _ := w.senderIdx(t.GetTx()); la != v.acc {
				return fmt.Sprintf("account %d: holds a transaction of another account", v.acc)
			}
			if k > 0 && n == prev {
				return fmt.Sprintf("account %d: two pooled transactions with nonce %d", v.acc, n)
			}
			if k > 0 && n < prev {
				return fmt.Sprintf("account %d: nonces not ascending (%d after %d)", v.acc, n, prev)
			}
			prev = n
			id := w.idOf(t.GetTx())
			seen[id]++
			if seen[id] > 1 {
				return fmt.Sprintf("transaction %d (one hash) is held twice", id)
			}
		}
		if v.ready < 0 || v.ready > len(v.txs) {
			return fmt.Sprintf("account %d: ready=%d outside the list (len %d)", v.acc, v.ready, len(v.txs))
		}
		// the offered run is base+1, base+2, ... and is maximal (a tx is held aside only beyond a gap)
		for k := 0; k < v.ready; k++ {
			if v.txs[k].GetBody().GetNonce() != v.base.nonce+uint64(k)+1 {
				return fmt.Sprintf("account %d: offered run has a gap at position %d (nonce %d, base %d)", v.acc, k,
					v.txs[k].GetBody().GetNonce(), v.base.nonce)
			}
		}
		if v.ready < len(v.txs) && v.txs[v.ready].GetBody().GetNonce() == v.base.nonce+uint64(v.ready)+1 {
			return fmt.Sprintf("account %d: transaction with nonce %d fills the gap but is held aside", v.acc, v.txs[v.ready].GetBody().GetNonce())
		}
		sumLen += len(v.txs)
		sumOrphan += len(v.txs) - v.ready
		// against the account state the pool has been told about
		if w.best != nil {
			st := w.best.st[v.acc]
			// no stale entry after a processed notification: at every point (the chain side of the harness is
			// faithful: a block changes nonces only of the senders it names)
			for _, t := range v.txs {
				if t.GetBody().GetNonce() <= st.nonce {
					return fmt.Sprintf("account %d: stale transaction nonce %d <= state nonce %d", v.acc, t.GetBody().GetNonce(), st.nonce)
				}
			}
			// the offered run starts at state+1: after every processed notification and every other operation
			if len(v.txs) > 0 && v.base.nonce != st.nonce {
				return fmt.Sprintf("account %d: offered run starts from %d+1 but the state nonce is %d", v.acc, v.base.nonce, st.nonce)
			}
		}
	}
	if len(cache) != len(seen) {
		return fmt.Sprintf("hash index has %d entries, lists hold %d transactions", len(cache), len(seen))
	}
	for _, c := range cache {
		if seen[c] != 1 {
			return fmt.Sprintf("hash index knows transaction %d which no list holds", c)
		}
	}
	if length != sumLen {
		return fmt.Sprintf("reported total %d, held %d", length, sumLen)
	}
	if orphan != sumOrphan {
		return fmt.Sprintf("reported orphans %d, held aside %d", orphan, sumOrphan)
	}
	up, uo := w.mp.VerifUnconfirmedAll()
	if up != sumLen-sumOrphan || uo != sumOrphan {
		return fmt.Sprintf("unconfirmed report says %d pooled %d orphaned, held %d and %d", up, uo, sumLen-sumOrphan, sumOrphan)
	}
	return ""
}

func (w *world) emit(op, res string, nontrivial bool) {
	w.ops = append(w.ops, op)
	out := res
	if !strings.HasPrefix(op, "get") && !strings.HasPrefix(op, "exist") && !strings.HasPrefix(op, "size") {
		out = res + " | " + w.dump()
	}
	w.run.Op(op, out, nontrivial)
	if v := w.oracle(); v != "" {
		w.failPool(v)
	}
}

// failPool records a property failure of the current pool session with a minimised operation sequence.
func (w *world) failPool(v string) {
	rep := map[string]interface{}{"pool_after": w.dump()}
	ops := append([]string(nil), w.ops...)
	if w.known != "" {
		rep["named_sender_txs"] = "the transaction removed last has an account *name* in its sender field; it was filed under its verified address"
	}
	if w.nshrunk < 4 && (w.known == "" || w.nknown < 2) {
		w.nshrunk++
		if r := w.replayPool(ops); r != "" {
			ops = w.shrink(ops, 2, w.replayPool)
			rep["minimised_from"] = len(w.ops)
			rep["verdict_on_minimised"] = w.replayPool(ops)
		} else {
			rep["note"] = "not reproduced by a plain replay of the session (fetch-only or schedule-dependent failure)"
		}
	}
	rep["session_ops"] = ops
	known := w.known
	if known != "" && !(strings.HasPrefix(v, "hash index") || strings.HasPrefix(v, "reported total")) {
		known = "" // a different clause broke: not the listed class
	}
	if known != "" {
		// a listed class: record the first occurrences only, so that the bounded failure list stays free for anything else
		w.run.Count("known-class-hit:" + w.known)
		w.nknown++
		if w.nknown > 2 {
			return
		}
	}
	w.run.FailKnown(v, known, rep)
}

// shrink greedily deletes operations (never the first `keep` ones) while the replay still fails.
func (w *world) shrink(ops []string, keep int, replay func([]string) string) []string {
	for pass := 0; pass < 3; pass++ {
		changed := false
		for i := len(ops) - 1; i >= keep; i-- {
			if strings.HasPrefix(ops[i], "block ") {
				continue // the notification sequence stays as the chain produced it
			}
			cand := append(append([]string(nil), ops[:i]...), ops[i+1:]...)
			if replay(cand) != "" {
				ops = cand
				changed = true
			}
		}
		if !changed {
			break
		}
	}
	return ops
}

// replayPool re-runs a pool session (operation lines of this session: transactions and blocks are looked up
// by their ids) on a fresh real MemPool over the same state DB and returns the first oracle failure ("" = none).
func (w *world) replayPool(ops []string) (verdict string) {
	smp, sbest, ssettled, sops := w.mp, w.best, w.settled, w.ops
	defer func() {
		if e := recover(); e != nil {
			verdict = fmt.Sprintf("panic: %v", e)
		}
		w.mp, w.best, w.settled, w.ops = smp, sbest, ssettled, sops
	}()
	atoi := func(x string) int { n, _ := strconv.Atoi(x); return n }
	for _, op := range ops {
		f := strings.Fields(op)
		switch f[0] {
		case "new":
			w.mp = mempool.VerifNew(w.sdb)
			mempool.VerifSetEvict(time.Hour, time.Hour)
			w.best, w.settled = nil, false
		case "put", "putn":
			w.mp.VerifPut(w.wrap(w.txs[atoi(f[3])].GetTx()))
		case "rm":
			w.mp.VerifRemoveTx(w.txs[atoi(f[2])].GetTx())
		case "block":
			b := w.blocks[atoi(f[1])-1]
			if w.best == nil {
				w.mp.VerifInit(b.b)
				w.best, w.settled = b, true
			}
			w.mp.VerifBlockArrival(b.b)
			w.best = b
		case "evict":
			if f[1] != "-" {
				for _, a := range strings.Split(f[1], ",") {
					w.mp.VerifBackdate(w.addr[atoi(a)], 3*time.Hour)
				}
			}
			w.mp.VerifEvict()
		case "get":
			w.mp.VerifGet(math.MaxUint32)
		case "unconf":
			w.mp.VerifUnconfirmed(w.addr[atoi(f[1])])
		}
		if w.best != nil {
			if v := w.oracle(); v != "" {
				return v
			}
		}
	}
	return ""
}

// ---------------------------------------------------------------- pool operations

func classify(err error) string {
	switch err {
	case nil:
		return "ok"
	case types.ErrTxAlreadyInMempool:
		return "already"
	case types.ErrTxNonceTooLow:
		return "low"
	case types.ErrInsufficientBalance:
		return "insufficient"
	case types.ErrSameNonceAlreadyInMempool:
		return "samenonce"
	}
	return "other:" + err.Error()
}

func (w *world) doPut(tx *types.Tx, from int, kind string) {
	id := w.idOf(tx)
	verb := "put"
	if _, ok := w.named[string(tx.Hash)]; ok {
		verb = "putn" // sender field is a name; `from` is the verified address the transaction is filed under
	}
	op := fmt.Sprintf("%s %d %d %d %d", verb, from, tx.Body.Nonce, id, amountOf(tx))
	res, _ := vh.Guard(func() string { return classify(w.mp.VerifPut(w.wrap(tx))) })
	w.run.Count("put:" + kind + ":" + strings.SplitN(res, ":", 2)[0])
	w.emit(op, res, res == "ok")
	if res == "ok" {
		// a transaction accepted beyond a gap must be held, and existence queries must find it
		if w.mp.VerifExist(tx.Hash) == nil {
			w.run.Fail("accepted transaction is not found by hash", map[string]interface{}{"session_ops": append([]string(nil), w.ops...)})
		}
	}
}

func (w *world) pooled() (all []types.Transaction, byAcc map[int][]types.Transaction) {
	lists, _, _, _, _ := w.observe()
	byAcc = map[int][]types.Transaction{}
	for _, v := range lists {
		all = append(all, v.txs...)
		byAcc[v.acc] = v.txs
	}
	return
}

func (w *world) genPut() {
	rng := w.rng
	a := rng.Intn(nAcc)
	all, by := w.pooled()
	st := w.best.st[a]
	mine := by[a]
	if rng.Chance(1, 16) {
		// sender field is an account name: filed under the verified address, and it stays pooled through whatever
		// follows (notifications, reorganisations, evictions, reports, removal by the bare transaction)
		n := st.nonce + 1
		have := map[uint64]bool{}
		for _, t := range mine {
			have[t.GetBody().GetNonce()] = true
		}
		for have[n] {
			n++
		}
		if rng.Chance(1, 3) {
			n += uint64(1 + rng.Intn(3))
		}
		w.doPut(w.mkNamedTx(a, rng.Intn(nAcc), n, uint64(rng.Intn(int(min64(st.bal, 30))+1))), a, "named-sender")
		return
	}
	switch k := rng.Intn(100); {
	case k < 8 && len(all) > 0: // exact duplicate (same hash)
		t := all[rng.Intn(len(all))].GetTx()
		la, _ := w.senderIdx(t)
		w.doPut(t, la, "dup-hash")
	case k < 18 && len(mine) > 0: // replacement attempt: same account and nonce, other content
		t := mine[rng.Intn(len(mine))].GetTx()
		w.doPut(w.mkTx(a, rng.Intn(nAcc), t.Body.Nonce, amountOf(t)+uint64(rng.Intn(3)), 1+rng.Intn(1000)), a, "same-nonce")
	case k < 26: // stale nonce
		n := uint64(0)
		if st.nonce > 0 {
			n = st.nonce - uint64(rng.Intn(int(min64(st.nonce, 3))+1))
		}
		w.doPut(w.mkTx(a, rng.Intn(nAcc), n, uint64(rng.Intn(5)), rng.Intn(3)), a, "stale")
	case k < 34: // more than the balance
		w.doPut(w.mkTx(a, rng.Intn(nAcc), st.nonce+1+uint64(rng.Intn(3)), st.bal+1+uint64(rng.Intn(3)), 0), a, "too-expensive")
	case k < 40: // exactly the balance
		w.doPut(w.mkTx(a, rng.Intn(nAcc), st.nonce+1+uint64(rng.Intn(3)), st.bal, 0), a, "exact-balance")
	case k < 60: // the lowest missing nonce (fills the first gap / extends the run)
		n := st.nonce + 1
		have := map[uint64]bool{}
		for _, t := range mine {
			have[t.GetBody().GetNonce()] = true
		}
		for have[n] {
			n++
		}
		w.doPut(w.mkTx(a, rng.Intn(nAcc), n, uint64(rng.Intn(int(min64(st.bal, 40))+1)), rng.Intn(2)), a, "fill-gap")
	case k < 64: // far ahead
		w.doPut(w.mkTx(a, rng.Intn(nAcc), st.nonce+20+uint64(rng.Intn(1000)), uint64(rng.Intn(5)), 0), a, "far")
	default: // somewhere in a small window above the state nonce, arbitrary order
		w.doPut(w.mkTx(a, rng.Intn(nAcc), st.nonce+1+uint64(rng.Intn(7)), uint64(rng.Intn(int(min64(st.bal, 60))+1)), rng.Intn(2)), a, "window")
	}
}

func min64(a, b uint64) uint64 {
	if a < b {
		return a
	}
	return b
}

func (w *world) genRemove() {
	rng := w.rng
	all, _ := w.pooled()
	var t *types.Tx
	kind := "pooled"
	if len(all) == 0 || rng.Chance(1, 5) {
		kind = "unknown"
		if len(w.txs) > 0 && rng.Bool() {
			t = w.txs[1+rng.Intn(len(w.txs))].GetTx() // some tx seen before (maybe no longer pooled)
			kind = "seen-before"
		} else {
			t = w.mkTx(rng.Intn(nAcc), 0, uint64(1+rng.Intn(9)), 1, 7000+rng.Intn(1000))
		}
	} else {
		t = all[rng.Intn(len(all))].GetTx()
	}
	_, a := w.senderIdx(t)
	op := fmt.Sprintf("rm %d %d", a, w.idOf(t))
	res, _ := vh.Guard(func() string {
		err := w.mp.VerifRemoveTx(t)
		if err == types.ErrTxNotFound {
			return "notfound"
		}
		return classify(err)
	})
	w.run.Count("rm:" + kind + ":" + res)
	w.emit(op, res, res == "ok")
}

// contents of a block built on parent p: pooled ready transactions, fresh ones, conflicting ones
func (w *world) genBlockTxs(p *blk, usePool bool) ([]btx, map[int]int64) {
	rng := w.rng
	st := p.st
	var out []btx
	_, by := w.pooled()
	for a := 0; a < nAcc; a++ {
		if !rng.Chance(2, 5) {
			continue
		}
		n := 1 + rng.Intn(3)
		for k := 0; k < n; k++ {
			next := st[a].nonce + 1
			var tx *types.Tx
			if usePool && rng.Chance(2, 3) {
				for _, t := range by[a] {
					if t.GetBody().GetNonce() == next && amountOf(t.GetTx()) <= st[a].bal {
						tx = t.GetTx()
					}
				}
			}
			to := rng.Intn(nAcc+1) - 1
			if tx == nil {
				amt := uint64(rng.Intn(int(min64(st[a].bal, 30)) + 1))
				tx = w.mkTx(a, to, next, amt, 100+rng.Intn(1000))
				w.idOf(tx)
			} else {
				to = -1
				if i, ok := w.aidx[string(tx.Body.Recipient)]; ok {
					to = i
				}
			}
			amt := amountOf(tx)
			st[a].nonce = next
			st[a].bal -= amt
			if to >= 0 {
				st[to].bal += amt
			}
			out = append(out, btx{a, to, tx})
		}
	}
	bump := map[int]int64{}
	if rng.Chance(1, 4) { // balance-only effects (contract-internal transfers, rewards): not named in the block body
		bump[rng.Intn(nAcc)] = int64(rng.Intn(81)) - 40
	}
	return out, bump
}

func (w *world) notify(b *blk, last bool, kind string) {
	op := w.blockOp(b)
	before, _, _, _, _ := w.observe()
	nb := 0
	for _, v := range before {
		nb += len(v.txs)
	}
	if w.best != nil && b != w.best && b.parent != w.best {
		w.run.Count("block:parent-is-not-the-pools-best(first-block-of-a-reorganisation)")
	}
	res, _ := vh.Guard(func() string { return classify(w.mp.VerifBlockArrival(b.b)) })
	w.best = b
	w.settled = true
	after, _, _, _, _ := w.observe()
	na := 0
	for _, v := range after {
		na += len(v.txs)
	}
	w.run.Count("block:" + kind)
	if na < nb {
		w.run.Count("block:removed-some")
	}
	w.emit(op, res, na < nb || nb > 0)
}

func (w *world) genBlock() {
	txs, bump := w.genBlockTxs(w.best, true)
	b := w.mkBlock(w.best, txs, bump, w.best.chain, nil)
	w.notify(b, true, "extend")
}

// a side branch growing from an ancestor of best; when it is longer than the main branch the
// chain service executes its blocks in order and notifies the pool for each (chain/reorg.go)
func (w *world) genReorg() {
	rng := w.rng
	fork := w.best
	depth := 1 + rng.Intn(3)
	for k := 0; k < depth && fork.parent != nil; k++ {
		fork = fork.parent
	}
	if fork == w.best {
		w.genBlock()
		return
	}
	need := int(w.best.height-fork.height) + 1 + rng.Intn(2)
	var path []*blk
	p := fork
	for k := 0; k < need; k++ {
		txs, bump := w.genBlockTxs(p, rng.Bool())
		p = w.mkBlock(p, txs, bump, fork.chain, nil)
		path = append(path, p)
	}
	for k, b := range path {
		w.notify(b, k == len(path)-1, fmt.Sprintf("reorg-step%d", min(k, 2)))
		if k < len(path)-1 && rng.Chance(1, 2) {
			// submissions / fetches landing between two notifications of one reorganisation
			if rng.Bool() {
				w.genPut()
			} else {
				w.genGet()
			}
			w.run.Count("op-inside-reorg")
		}
	}
}

func (w *world) genEvict() {
	rng := w.rng
	lists, _, _, _, _ := w.observe()
	var old []string
	for _, v := range lists {
		if rng.Chance(1, 3) {
			w.mp.VerifBackdate(w.addr[v.acc], 3*time.Hour)
			old = append(old, strconv.Itoa(v.acc))
		} else if v.last.IsZero() {
			// a list that was never modified (created empty by the unconfirmed report) is always past the horizon
			old = append(old, strconv.Itoa(v.acc))
			w.run.Count("evict:never-modified-list")
		}
	}
	res, _ := vh.Guard(func() string { w.mp.VerifEvict(); return "ok" })
	w.run.Count(fmt.Sprintf("evict:%d-lists", min(len(old), 3)))
	w.emit("evict "+orDash(strings.Join(old, ",")), res, len(old) > 0)
}

func (w *world) genGet() {
	lists, _, _, _, _ := w.observe()
	res, _ := vh.Guard(func() string {
		txs, err := w.mp.VerifGet(math.MaxUint32)
		if err != nil {
			return classify(err)
		}
		by := map[int][]types.Transaction{}
		for _, t := range txs {
			la, _ := w.senderIdx(t.GetTx())
			by[la] = append(by[la], t)
		}
		var parts []string
		for a := 0; a < nAcc; a++ {
			if len(by[a]) == 0 {
				continue
			}
			var ts []string
			for _, t := range by[a] {
				ts = append(ts, fmt.Sprintf("%d/%d", t.GetBody().GetNonce(), w.idOf(t.GetTx())))
			}
			parts = append(parts, fmt.Sprintf("a%d:%s", a, strings.Join(ts, ",")))
		}
		// oracle for the fetch itself: per account exactly base+1.. in ascending order, nothing from beyond a gap
		for _, v := range lists {
			g := by[v.acc]
			want := uint64(0)
			for k, t := range g {
				if k == 0 {
					want = v.base.nonce + 1
				}
				if t.GetBody().GetNonce() != want {
					w.run.Fail(fmt.Sprintf("fetch: account %d gets nonce %d where %d is due", v.acc, t.GetBody().GetNonce(), want),
						map[string]interface{}{"session_ops": append([]string(nil), w.ops...)})
					break
				}
				want++
			}
			if len(g) > 0 && g[0].GetBody().GetNonce() != w.best.st[v.acc].nonce+1 {
				w.run.Fail(fmt.Sprintf("fetch: account %d run starts at %d, state nonce is %d", v.acc, g[0].GetBody().GetNonce(), w.best.st[v.acc].nonce),
					map[string]interface{}{"session_ops": append([]string(nil), w.ops...)})
			}
		}
		return orDash(strings.Join(parts, " "))
	})
	w.run.Count("get")
	w.emit("get", res, res != "-")
	// capped fetch: any prefix of the runs (map order decides which); oracle only
	if len(lists) > 0 && w.rng.Chance(1, 3) {
		cap := uint32(40 + w.rng.Intn(400))
		txs, _ := w.mp.VerifGet(cap)
		next := map[int]uint64{}
		for _, t := range txs {
			a, _ := w.senderIdx(t.GetTx())
			if _, ok := next[a]; !ok {
				for _, v := range lists {
					if v.acc == a {
						next[a] = v.base.nonce + 1
					}
				}
			}
			if t.GetBody().GetNonce() != next[a] {
				w.run.Fail(fmt.Sprintf("capped fetch: account %d gets nonce %d where %d is due", a, t.GetBody().GetNonce(), next[a]),
					map[string]interface{}{"session_ops": append([]string(nil), w.ops...), "cap": cap})
			}
			next[a]++
		}
		w.run.Eval(fmt.Sprintf("getcap %d %v", cap, w.ops), len(txs) > 0)
		w.run.Count("get-capped")
	}
}

func (w *world) genExist() {
	var t *types.Tx
	all, _ := w.pooled()
	if len(all) > 0 && w.rng.Bool() {
		t = all[w.rng.Intn(len(all))].GetTx()
	} else if len(w.txs) > 0 {
		t = w.txs[1+w.rng.Intn(len(w.txs))].GetTx()
	} else {
		return
	}
	r := w.mp.VerifExist(t.Hash)
	res := "0"
	if r != nil {
		la, _ := w.senderIdx(r)
		res = fmt.Sprintf("1 a%d %d", la, r.Body.Nonce)
	}
	w.run.Count("exist:" + res[:1])
	w.emit(fmt.Sprintf("exist %d", w.idOf(t)), res, r != nil)
}

func (w *world) genUnconf() {
	a := w.rng.Intn(nAcc)
	p, o, pi, oi := w.mp.VerifUnconfirmed(w.addr[a])
	toIDs := func(ss []string) string {
		var out []string
		for _, s := range ss {
			found := 0
			for h, id := range w.txid {
				if types.ToTxID([]byte(h)).String() == s {
					found = id
				}
			}
			out = append(out, strconv.Itoa(found))
		}
		return orDash(strings.Join(out, ","))
	}
	w.run.Count("unconf")
	w.emit(fmt.Sprintf("unconf %d", a), fmt.Sprintf("%d %d p=%s o=%s", p, o, toIDs(pi), toIDs(oi)), p+o > 0)
}

func (w *world) poolSession(nops int) {
	rng := w.rng
	w.newSession()
	w.run.Op("new", "ok | "+w.dump(), false)
	w.ops = append(w.ops, "new")
	var g [nAcc]acct
	for i := range g {
		g[i] = acct{uint64(rng.Intn(4)) * uint64(rng.Intn(3)), uint64(20 + rng.Intn(200))}
	}
	gen := w.mkBlock(nil, nil, nil, 1, &g)
	// AfterStart: setStateDB(best block); the first notification is the same block again
	w.mp.VerifInit(gen.b)
	w.best, w.settled = gen, true
	// the model starts from an empty pool with best=0: the first notification establishes best/state there
	w.notify(gen, true, "genesis")
	for i := 0; i < nops; i++ {
		switch k := rng.Intn(100); {
		case k < 52:
			w.genPut()
		case k < 60:
			w.genRemove()
		case k < 74:
			w.genBlock()
		case k < 78:
			w.genReorg()
		case k < 79:
			w.notify(w.best, true, "same-again")
		case k < 80:
			// hard fork: the chain id version changes; the pool resets
			b := w.mkBlock(w.best, nil, nil, w.chainBytes(int32(len(w.chains))), nil)
			w.notify(b, true, "chain-id-change")
		case k < 84:
			w.genEvict()
		case k < 92:
			w.genGet()
		case k < 96:
			w.genExist()
		case k < 97:
			l, o := w.mp.Size()
			w.emit("size", fmt.Sprintf("%d %d", l, o), l > 0)
		default:
			w.genUnconf()
		}
	}
	if rng.Chance(1, 4) {
		w.namedSenderEpilogue()
	}
}

// The shortest history of the named-sender removal: genesis, one submission, its removal.
func (w *world) namedSenderMinimal() {
	w.newSession()
	w.run.Op("new", "ok | "+w.dump(), false)
	w.ops = append(w.ops, "new")
	var g [nAcc]acct
	for i := range g {
		g[i] = acct{0, 100}
	}
	gen := w.mkBlock(nil, nil, nil, 1, &g)
	w.mp.VerifInit(gen.b)
	w.best, w.settled = gen, true
	w.notify(gen, true, "genesis")
	w.namedSenderRemoval(0, 1, 5, 0)
}

func (w *world) namedSenderRemoval(a int, n, amount uint64, between int) {
	tx := w.mkNamedTx(a, (a+1)%nAcc, n, amount)
	w.doPut(tx, a, "named-sender")
	for k := between; k > 0; k-- {
		if w.rng.Bool() {
			w.genPut()
		} else {
			w.genGet()
		}
	}
	_, fa := w.senderIdx(tx)
	op := fmt.Sprintf("rm %d %d", fa, w.idOf(tx))
	res, _ := vh.Guard(func() string {
		err := w.mp.VerifRemoveTx(tx)
		if err == types.ErrTxNotFound {
			return "notfound"
		}
		return classify(err)
	})
	w.run.Count("rm:named-sender:" + res)
	w.emit(op, res, res == "ok")
}

// The first notification of a reorganisation, step by step (deterministic regression scenario for finding
// C13-reorg-first-block-partial-recheck, repaired by af8aff9a): account 0 had nonce 1 executed on the abandoned
// branch and holds nonce 2 in the pool; the first new-branch block does not name account 0 and its state nonce is
// back to 0. The pool must rebase account 0's list (nonce 2 becomes an orphan) and accept nonce 1 again.
func (w *world) reorgWindow() {
	w.newSession()
	w.run.Op("new", "ok | "+w.dump(), false)
	w.ops = append(w.ops, "new")
	var g [nAcc]acct
	for i := range g {
		g[i] = acct{0, 100}
	}
	gen := w.mkBlock(nil, nil, nil, 1, &g)
	w.mp.VerifInit(gen.b)
	w.best, w.settled = gen, true
	w.notify(gen, true, "genesis")
	t1 := w.mkTx(0, 1, 1, 5, 0)
	a1 := w.mkBlock(gen, []btx{{0, 1, t1}}, nil, 1, nil)
	w.notify(a1, true, "extend")
	w.doPut(w.mkTx(0, 1, 2, 5, 0), 0, "window-scenario")
	b1 := w.mkBlock(gen, []btx{{1, 2, w.mkTx(1, 2, 1, 3, 0)}}, nil, 1, nil)
	b2 := w.mkBlock(b1, nil, nil, 1, nil)
	w.notify(b1, false, "reorg-step0")
	w.genGetPlain()
	w.doPut(t1, 0, "window-resubmission") // the rolled-back transaction, valid in the new state
	w.notify(b2, true, "reorg-step1")
	w.doPut(t1, 0, "window-resubmission")
	w.genGetPlain()
}

func (w *world) genGetPlain() { w.genGet() }

// A transaction whose sender field is a name is submitted (filed under its verified address), and later removed
// through removeTx the way the chain service does for a transaction that timed out in block production
// (MemPoolDelTx carries the bare *types.Tx). Last operations of the session.
func (w *world) namedSenderEpilogue() {
	rng := w.rng
	a := rng.Intn(nAcc)
	st := w.best.st[a]
	_, by := w.pooled()
	n := st.nonce + 1
	have := map[uint64]bool{}
	for _, t := range by[a] {
		have[t.GetBody().GetNonce()] = true
	}
	for have[n] {
		n++
	}
	if rng.Chance(1, 3) {
		n += 2
	}
	w.namedSenderRemoval(a, n, uint64(rng.Intn(int(min64(st.bal, 20))+1)), rng.Intn(3))
}

// ---------------------------------------------------------------- bare txList sessions

func (w *world) bareView() string {
	v := w.bare.View()
	return w.showList(v.BaseNonce, v.BaseBalance.String(), v.Ready, v.Txs)
}

func (w *world) bareOracle() string {
	v := w.bare.View()
	prev := v.BaseNonce
	for k, t := range v.Txs {
		n := t.GetBody().GetNonce()
		if n <= prev {
			if k == 0 {
				return fmt.Sprintf("list: nonce %d not above the base nonce %d", n, prev)
			}
			return fmt.Sprintf("list: nonce %d after %d (not strictly ascending)", n, prev)
		}
		prev = n
	}
	if v.Ready < 0 || v.Ready > len(v.Txs) {
		return "list: ready outside the list"
	}
	for k := 0; k < v.Ready; k++ {
		if v.Txs[k].GetBody().GetNonce() != v.BaseNonce+uint64(k)+1 {
			return "list: ready run has a gap"
		}
	}
	if v.Ready < len(v.Txs) && v.Txs[v.Ready].GetBody().GetNonce() == v.BaseNonce+uint64(v.Ready)+1 {
		return "list: gap-filling transaction held aside"
	}
	g := w.bare.Get()
	if len(g) != v.Ready {
		return "list: Get() is not the ready prefix"
	}
	return ""
}

func (w *world) bareEmit(op, res string, nontrivial bool) {
	w.bareOps = append(w.bareOps, op)
	w.run.Op(op, res+" | "+w.bareView(), nontrivial)
	if v := w.bareOracle(); v != "" {
		w.failBare(v)
	}
}

func (w *world) failBare(v string) {
	rep := map[string]interface{}{"list_after": w.bareView()}
	ops := append([]string(nil), w.bareOps...)
	if w.nshrunk < 4 {
		w.nshrunk++
		if w.replayBare(ops) != "" {
			ops = w.shrink(ops, 1, w.replayBare)
			rep["minimised_from"] = len(w.bareOps)
			rep["verdict_on_minimised"] = w.replayBare(ops)
		}
	}
	rep["list_ops"] = ops
	w.run.Fail(v, rep)
}

// replayBare re-runs list operations on a fresh real txList; first oracle failure or "".
func (w *world) replayBare(ops []string) (verdict string) {
	saved := w.bare
	defer func() {
		if e := recover(); e != nil {
			verdict = fmt.Sprintf("panic: %v", e)
		}
		w.bare = saved
	}()
	atou := func(x string) uint64 { n, _ := strconv.ParseUint(x, 10, 64); return n }
	st := func(n, b string) *types.State {
		return &types.State{Nonce: atou(n), Balance: new(big.Int).SetUint64(atou(b)).Bytes()}
	}
	for _, op := range ops {
		f := strings.Fields(op)
		switch f[0] {
		case "lnew":
			w.bare = w.mp.VerifNewTxList(w.addr[0], st(f[1], f[2]))
		case "lput":
			w.bare.Put(types.NewTransaction(w.txs[int(atou(f[2]))].GetTx()))
		case "lfilter":
			w.bare.FilterByState(st(f[1], f[2]))
			for _, t := range w.bare.View().Txs {
				if t.GetBody().GetNonce() <= atou(f[1]) {
					return "list: stale nonce kept after FilterByState"
				}
			}
		case "lrm":
			w.bare.RemoveTx(w.txs[int(atou(f[1]))].GetTx())
		case "lget":
			w.bare.Get()
		}
		if v := w.bareOracle(); v != "" {
			return v
		}
	}
	return ""
}

func (w *world) bareNew(n, b uint64) {
	w.bare = w.mp.VerifNewTxList(w.addr[0], &types.State{Nonce: n, Balance: new(big.Int).SetUint64(b).Bytes()})
	w.bareOps = nil
	w.bareEmit(fmt.Sprintf("lnew %d %d", n, b), "ok", false)
}

func (w *world) barePut(n, c uint64, salt int) {
	tx := w.mkTx(0, 1, n, c, salt)
	d, err := w.bare.Put(types.NewTransaction(tx))
	res := classify(err)
	if err == nil {
		res = fmt.Sprintf("ok %d", d)
	}
	w.run.Count("lput:" + strings.Fields(res)[0])
	w.bareEmit(fmt.Sprintf("lput %d %d %d", n, w.idOf(tx), c), res, err == nil)
}

func (w *world) bareFilter(n, b uint64) {
	before := w.bare.View()
	d, rm := w.bare.FilterByState(&types.State{Nonce: n, Balance: new(big.Int).SetUint64(b).Bytes()})
	var ids []string
	for _, t := range rm {
		ids = append(ids, strconv.Itoa(w.idOf(t.GetTx())))
	}
	kind := "advance"
	if n == before.BaseNonce {
		kind = "same-nonce"
	} else if n < before.BaseNonce {
		kind = "rewind"
	}
	if b < before.BaseBalance.Uint64() {
		kind += "+balance-down"
	}
	w.run.Count("lfilter:" + kind)
	w.bareEmit(fmt.Sprintf("lfilter %d %d", n, b), fmt.Sprintf("%d rm=%s", d, orDash(strings.Join(ids, ","))), len(before.Txs) > 0)
	// no stale entry after the notification; what was removed + what is left = what was held
	after := w.bare.View()
	for _, t := range after.Txs {
		if t.GetBody().GetNonce() <= n {
			w.run.Fail(fmt.Sprintf("list: stale nonce %d kept after state nonce %d", t.GetBody().GetNonce(), n),
				map[string]interface{}{"list_ops": append([]string(nil), w.bareOps...)})
		}
	}
	if len(after.Txs)+len(rm) != len(before.Txs) {
		w.run.Fail("list: FilterByState lost or duplicated transactions", map[string]interface{}{"list_ops": append([]string(nil), w.bareOps...)})
	}
}

func (w *world) bareRemove(tx *types.Tx) {
	d, x := w.bare.RemoveTx(tx)
	res := fmt.Sprintf("%d -", d)
	if x != nil {
		res = fmt.Sprintf("%d %d", d, x.GetBody().GetNonce())
	}
	w.run.Count("lrm")
	w.bareEmit(fmt.Sprintf("lrm %d", w.idOf(tx)), res, x != nil)
}

func (w *world) bareGet() {
	var ts []string
	for _, t := range w.bare.Get() {
		ts = append(ts, fmt.Sprintf("%d/%d", t.GetBody().GetNonce(), w.idOf(t.GetTx())))
	}
	w.bareOps = append(w.bareOps, "lget")
	w.run.Op("lget", orDash(strings.Join(ts, ",")), len(ts) > 0)
}

// safely runs one session; a Go panic inside the real code is reported as a failure with the session so far.
func (w *world) safely(kind string, f func()) {
	defer func() {
		if e := recover(); e != nil {
			ops := w.ops
			if kind == "list" {
				ops = w.bareOps
			}
			w.run.Fail(fmt.Sprintf("panic in the pool code during a %s session: %v", kind, e),
				map[string]interface{}{kind + "_ops": append([]string(nil), ops...)})
			w.run.Count("panic:" + kind)
		}
	}()
	f()
}

func (w *world) bareRandom(nsess, nops int) {
	for s := 0; s < nsess; s++ {
		w.safely("list", func() { w.bareRandomSession(nops) })
	}
}

func (w *world) bareRandomSession(nops int) {
	rng := w.rng
	{
		base := uint64(rng.Intn(5))
		bal := uint64(rng.Intn(60))
		w.bareNew(base, bal)
		cur := base
		for i := 0; i < nops; i++ {
			switch k := rng.Intn(100); {
			case k < 60:
				n := cur + uint64(rng.Intn(9))
				if rng.Chance(1, 10) && cur > 0 {
					n = uint64(rng.Intn(int(cur) + 1))
				}
				w.barePut(n, uint64(rng.Intn(40)), rng.Intn(2))
			case k < 80:
				n := cur
				switch rng.Intn(4) {
				case 0: // same
				case 1: // rewind
					n = uint64(rng.Intn(int(cur) + 1))
				default: // advance
					n = cur + uint64(rng.Intn(5))
				}
				cur = n
				w.bareFilter(n, uint64(rng.Intn(60)))
			case k < 92:
				v := w.bare.View()
				if len(v.Txs) > 0 && rng.Chance(4, 5) {
					w.bareRemove(v.Txs[rng.Intn(len(v.Txs))].GetTx())
				} else {
					w.bareRemove(w.mkTx(0, 1, 1+uint64(rng.Intn(9)), 1, 9000+rng.Intn(100)))
				}
			default:
				w.bareGet()
			}
		}
	}
}

// every order of arrival of every multiset of k nonces from 1..m on base nonce 0, then every new
// state nonce 0..m with unchanged / lower balance (small-scope enumeration; labelled as such)
func (w *world) bareEnumerate(m, k int) {
	seq := make([]int, k)
	var rec func(pos int)
	count := 0
	rec = func(pos int) {
		if pos == k {
			for sn := 0; sn <= m; sn++ {
				for _, bal := range []uint64{100, 2} {
					w.safely("list", func() {
						w.bareNew(0, 100)
						for _, n := range seq {
							w.barePut(uint64(n), uint64(n), 0) // cost = nonce: a low balance removes the high ones
						}
						w.bareFilter(uint64(sn), bal)
						w.bareGet()
					})
					count++
				}
			}
			return
		}
		for n := 1; n <= m; n++ {
			seq[pos] = n
			rec(pos + 1)
		}
	}
	rec(0)
	w.run.Count(fmt.Sprintf("enumerated:put-orders-%d-of-%d-x-states", k, m))
}

// ---------------------------------------------------------------- concurrent support run (testing, not proof)

func (w *world) concurrent(rounds int) {
	for r := 0; r < rounds; r++ {
		w.newSession()
		var g [nAcc]acct
		for i := range g {
			g[i] = acct{0, 1000000}
		}
		gen := w.mkBlock(nil, nil, nil, 1, &g)
		w.mp.VerifInit(gen.b)
		w.mp.VerifBlockArrival(gen.b)
		w.best, w.settled = gen, true
		// pre-generate everything from the single PRNG; the schedule is the only nondeterminism
		const perAcc = 120 // long lists: a removal or insertion moves many elements of the backing array
		var subs [nAcc][]*types.Tx
		for a := 0; a < nAcc; a++ {
			perm := make([]int, perAcc)
			for i := range perm {
				perm[i] = i
			}
			for i := len(perm) - 1; i > 0; i-- {
				j := w.rng.Intn(i + 1)
				perm[i], perm[j] = perm[j], perm[i]
			}
			for _, p := range perm {
				subs[a] = append(subs[a], w.mkTx(a, (a+1)%nAcc, uint64(p+1), 1, 0))
				if w.rng.Chance(1, 5) {
					subs[a] = append(subs[a], w.mkTx(a, (a+2)%nAcc, uint64(p+1), 2, 1)) // same nonce, other hash
				}
			}
		}
		// blocks that consume nonces 1..8, 9..16, ... of every account
		var chain []*blk
		p := gen
		for k := 0; k < 3; k++ {
			var txs []btx
			for a := 0; a < nAcc; a++ {
				for n := k*8 + 1; n <= k*8+8; n++ {
					txs = append(txs, btx{a, (a + 1) % nAcc, w.mkTx(a, (a+1)%nAcc, uint64(n), 1, 0)})
				}
			}
			p = w.mkBlock(p, txs, nil, 1, nil)
			chain = append(chain, p)
		}
		var wg sync.WaitGroup
		var mu sync.Mutex
		fetchBad := ""
		for a := 0; a < nAcc; a++ {
			for half := 0; half < 2; half++ {
				wg.Add(1)
				go func(a, half int) {
					defer wg.Done()
					for i, t := range subs[a] {
						if i%2 == half {
							// what a TxVerifier routee does: exist, verifyTx, put (the synthetic transactions are unsigned:
							// verifyTx reads the chain id hash and refuses them; put is called all the same)
							if w.mp.VerifExist(t.Hash) == nil {
								tx := types.NewTransaction(t)
								w.mp.VerifVerifyTx(tx)
								w.mp.VerifPut(tx)
							}
						}
					}
				}(a, half)
			}
		}
		// The pool actor's work, on two goroutines so that fetches really overlap removals and notifications ("submissions,
		// block notifications and producer fetches run concurrently"): the *changing* requests — block notifications,
		// removals of transactions handed out before — on one; the *reading* requests — fetches in a tight loop, hash
		// lists, existence queries, unconfirmed reports — on the other. The reading requests stay on ONE goroutine: the
		// unconfirmed report may insert an empty list while holding only the read lock, which is tolerable in production
		// only because every other map reader runs on the actor too.
		var flat []*types.Tx
		for a := 0; a < nAcc; a++ {
			flat = append(flat, subs[a]...)
		}
		stopRead := make(chan struct{})
		var rd sync.WaitGroup
		rd.Add(1)
		go func() {
			defer rd.Done()
			for k := 0; ; k++ {
				select {
				case <-stopRead:
					return
				default:
				}
				// a producer's fetch: per account the nonces handed out are consecutive — strictly ascending, no
				// transaction twice, none left out (whatever moment of the list the fetch saw)
				txs, _ := w.mp.VerifGet(math.MaxUint32)
				last := map[string]uint64{}
				for _, t := range txs {
					key := string(t.GetBody().GetAccount())
					if l, ok := last[key]; ok && t.GetBody().GetNonce() != l+1 {
						mu.Lock()
						fetchBad = fmt.Sprintf("concurrent fetch: nonce %d follows %d in the run handed out for one account", t.GetBody().GetNonce(), l)
						mu.Unlock()
					}
					last[key] = t.GetBody().GetNonce()
				}
				switch k % 8 {
				case 1:
					w.mp.VerifUnconfirmed(w.addr[k%nAcc])
				case 3:
					w.mp.VerifExist(flat[(k*7)%len(flat)].Hash)
				case 5:
					w.mp.VerifListHash(20)
				}
			}
		}()
		wg.Add(1)
		go func() {
			defer wg.Done()
			k := 0
			for _, b := range chain {
				for j := 0; j < 60; j++ {
					// remove from the middle of a list (a producer dropping a transaction that failed): the list shifts its
					// tail down in place
					// (picked from what was submitted, not from a fetch: this goroutine must not walk the map while the reading
					// one may be inserting an empty list under the read lock)
					w.mp.VerifRemoveTx(flat[(k*7+j*31)%len(flat)])
					k++
				}
				time.Sleep(100 * time.Microsecond)
				w.mp.VerifBlockArrival(b.b)
			}
		}()
		// the monitor goroutine: eviction sweeps over backdated lists, size read for the metrics line
		stopMon := make(chan struct{})
		var mon sync.WaitGroup
		mon.Add(1)
		go func() {
			defer mon.Done()
			for k := 0; ; k++ {
				select {
				case <-stopMon:
					return
				default:
				}
				if k%3 == 0 {
					w.mp.VerifBackdate(w.addr[(k/3)%nAcc], 3*time.Hour)
				}
				w.mp.VerifEvict()
				w.mp.Size()
				if k%5 == 0 {
					w.mp.Statistics() // the hub's statistics collector reads the component's counters
				}
				time.Sleep(150 * time.Microsecond)
			}
		}()
		wg.Wait()
		close(stopRead)
		rd.Wait()
		close(stopMon)
		mon.Wait()
		w.best = chain[len(chain)-1]
		w.settled = true
		v := w.oracle()
		if v == "" {
			v = fetchBad
		}
		if v != "" {
			w.run.Fail("after concurrent submissions/notifications/removals/reports/evictions/fetches: "+v, map[string]interface{}{"round": r, "pool_after": w.dump()})
		}
		w.run.Eval(fmt.Sprintf("concurrent %d %s", r, w.dump()), true)
		w.run.Count("support:concurrent-round(testing)")
	}
}

func MainPool() {
	zerolog.SetGlobalLevel(zerolog.Disabled)
	run := vh.Start("c13", "real txList / MemPool vs model, op by op. list sessions: random Put/FilterByState/RemoveTx/Get plus enumeration of every "+
		"arrival order of k nonces out of 1..m followed by every new state; pool sessions: submissions (arbitrary order, duplicates by hash, same-nonce "+
		"replacements, gaps, stale, unaffordable), removals, blocks built on a real state DB (extensions, multi-block reorganisations with rewound "+
		"accounts, repeated notification, chain-id change), evictions with backdated lists, fetches, existence and size queries, unconfirmed report. "+
		"non-trivial = the operation changed or returned pool content; distinct by (op, answer incl. full pool state)")
	defer run.Finish()
	// vh.NewRng(seed+1) is vh.NewRng(seed) advanced by one step (additive splitmix state), so neighbouring seeds
	// would replay almost the same stream; fork once through the output mixer to decorrelate them.
	w := &world{run: run, rng: run.Rng.Fork(), aidx: map[string]int{}}
	for i := 0; i < nAcc; i++ {
		a := make([]byte, types.AddressLength)
		a[0] = 2
		binary.BigEndian.PutUint32(a[1:], uint32(i+1))
		for k := 5; k < len(a); k++ {
			a[k] = byte(17*i + k)
		}
		w.addr[i] = a
		w.aidx[string(a)] = i
	}
	// bare list level
	w.newSession()
	var g [nAcc]acct
	gen := w.mkBlock(nil, nil, nil, 1, &g)
	w.mp.VerifInit(gen.b)
	w.bareRandom(run.Pick(2000, 15000), 40)
	if run.Thorough() {
		w.bareEnumerate(5, 4)
	} else {
		w.bareEnumerate(4, 3)
	}
	// pool level
	w.safely("session", w.namedSenderMinimal)
	w.safely("session", w.reorgWindow)
	for s := 0; s < run.Pick(1000, 12000); s++ {
		n := 60 + w.rng.Intn(120)
		w.safely("session", func() { w.poolSession(n) })
	}
	// concurrency: support only
	w.safely("session", func() { w.concurrent(run.Pick(10, 200)) })
}
