// Harness c13race: the concurrent support runs of C13, to be built with the race detector (see c13lib.MainRace).
package main

import "github.com/aergoio/aergo/v2/zz_verif/c13lib"

func main() { c13lib.MainRace() }
