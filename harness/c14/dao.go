package main

// Scenarios in which the system parameters are changed by won parameter votes (STAKINGMIN / GASPRICE / NAMEPRICE /
// BPCOUNT at their extremes), each followed by a probe of every transaction type in the new state; the regression
// scenarios of the two crashes this check found in round 3 (threshold's division by zero: f9db0000; the tally sort on
// a 39-character candidate: 3f9132cd); unstaking with old votes on several issues.

import (
	"fmt"
	"math/big"
	"path/filepath"
	"strings"

	"github.com/aergoio/aergo/v2/contract"
	"github.com/aergoio/aergo/v2/contract/system"
	"github.com/aergoio/aergo/v2/types"
	"github.com/aergoio/aergo/v2/zz_verif/vh"
)

type scen struct {
	w    *world
	run  *vh.Run
	dead bool // a step that has to succeed did not: the rest of the scenario is skipped (the failure itself is reported by runCase's oracle or shows as a trace difference)
}

func (s *scen) gov(who int, rcpt, payload string, amt *big.Int, commit bool) (string, string) {
	return s.w.runCase(&txCase{who: who, rcpt: []byte(rcpt), payload: []byte(payload), amount: amt, typ: types.TxType_GOVERNANCE, label: "scenario"}, commit)
}

func (s *scen) must(who int, rcpt, payload string, amt *big.Int) {
	if s.dead {
		return
	}
	for try := 0; try < 20; try++ {
		a, e := s.gov(who, rcpt, payload, amt, true)
		if a == "ok" && e == "done" {
			return
		}
		if !strings.HasPrefix(e, "panic") {
			break // (a panic that depends on the map iteration order may not repeat: try again)
		}
	}
	s.dead = true
	s.run.Count("scenario-step-failed")
}

func (s *scen) attempt(who int, rcpt, payload string, amt *big.Int) {
	if s.dead {
		return
	}
	a, e := s.gov(who, rcpt, payload, amt, true)
	s.run.Count("scenario-attempt:" + a + "/" + e)
}

func (s *scen) day() { s.w.blockNo += system.VotingDelay + 10; s.w.mp = nil }

// probe: every transaction type in the current state: the valid governance calls and their argument mutations
// (a sample), and the other types with the fee on.
func (s *scen) probe(label string, contractAddr []byte, senders []int) {
	if s.dead {
		return
	}
	w := s.w
	g := &gen{w: w, rng: s.run.Rng}
	g.structured(false)
	k := 0
	for _, c := range g.out {
		if c.label == "valid" || c.label == "args-dropped" || (c.label == "arg-string" && k%7 == 0) || (c.label == "arg-kind" && k%11 == 0) {
			for _, who := range senders {
				cc := *c
				cc.who = who
				s.run.Count("phase:" + label)
				w.runCase(&cc, false)
			}
		}
		k++
	}
	w.zeroFee = false
	for i, c := range w.otherCases(contractAddr, true, false) {
		if i%3 == 0 || c.label != "other-types" {
			cc := *c
			s.run.Count("phase:" + label + "-other")
			w.runCase(&cc, false)
		}
	}
	w.zeroFee = true
	w.applyFee()
}

func daoScenarios(run *vh.Run, dir string, thorough bool) {
	sys, nam := types.AergoSystem, types.AergoName
	maxAER := types.MaxAER.String()

	// ---- world "dao": account 0 holds two thirds of the stake, its parameter votes win at once
	w := newWorld(run, filepath.Join(dir, "dao"), false)
	s := &scen{w: w, run: run}
	s.must(0, sys, `{"Name":"v1stake"}`, coins(40000))
	s.must(1, sys, `{"Name":"v1stake"}`, coins(10000))
	s.must(2, sys, `{"Name":"v1stake"}`, coins(10000))
	s.must(0, nam, `{"Name":"v1createName","Args":["abcdefghijkl"]}`, coins(1))
	// a contract (stub VM: the payload is its code and its script)
	da, de := w.runCase(&txCase{who: 0, payload: []byte(`{"ret":"deployed"}`), typ: types.TxType_DEPLOY, label: "scenario"}, true)
	if da != "ok" || de != "done" {
		s.dead = true
		run.Count("scenario-step-failed:deploy")
	}
	contractAddr := contract.CreateContractID(w.addrs[0], w.lastNonce(0))
	run.Count("scenario-contract-deployed")
	s.day()

	vote := func(id, val string) {
		s.must(0, sys, `{"Name":"v1voteDAO","Args":["`+id+`","`+val+`"]}`, nil)
		s.day()
	}

	// STAKINGMIN down to 1 aer: the 5000-aer account can stake; its parameter vote has a tally below 100 aer
	// (regression of f9db0000: VoteResult.threshold divided by power/100 = 0)
	vote("STAKINGMIN", "1")
	if !s.dead && system.GetStakingMinimum().Cmp(big.NewInt(1)) != 0 {
		s.dead = true
		run.Count("scenario-step-failed:STAKINGMIN-not-in-force")
	}
	s.must(4, sys, `{"Name":"v1stake"}`, big.NewInt(50))
	s.day()
	s.must(4, sys, `{"Name":"v1voteDAO","Args":["NAMEPRICE","7"]}`, nil) // the only NAMEPRICE vote: top tally = 50 aer
	run.Count("regression:threshold-tally-below-100-aer")
	s.probe("dao-stakingmin-1", contractAddr, []int{0, 4})
	s.day()
	s.must(4, sys, `{"Name":"v1unstake"}`, big.NewInt(10)) // refreshAllVote: the 50-aer NAMEPRICE vote is re-synced with 40 aer
	s.day()

	// GASPRICE: smallest, negative (its magnitude comes into force since 949e5958), largest; zero is refused
	for _, v := range []string{"1", "-5", maxAER} {
		vote("GASPRICE", v)
		s.probe("dao-gasprice-"+v, contractAddr, []int{0})
	}
	s.attempt(0, sys, `{"Name":"v1voteDAO","Args":["GASPRICE","0"]}`, nil)
	s.attempt(0, sys, `{"Name":"v1voteDAO","Args":["GASPRICE","-0"]}`, nil)
	s.attempt(0, sys, `{"Name":"v1voteDAO","Args":["GASPRICE","-`+maxAER+`1"]}`, nil)
	s.probe("dao-gasprice-after-refused-votes", contractAddr, []int{0}) // (a zero price would make every paid transaction divide by zero)
	vote("GASPRICE", "50000000000")

	// NAMEPRICE and STAKINGMIN at their extremes
	for _, v := range []string{"1", "-3", maxAER} {
		vote("NAMEPRICE", v)
		s.probe("dao-nameprice-"+v, contractAddr, []int{0, 1})
	}
	vote("STAKINGMIN", maxAER)
	s.probe("dao-stakingmin-max", contractAddr, []int{0, 1})
	vote("STAKINGMIN", "-1")
	s.probe("dao-stakingmin--1", contractAddr, []int{0, 3})

	// BPCOUNT: 1, 100, refused 101 and -101, negative within the cap
	for _, v := range []string{"1", "100", "-7"} {
		vote("BPCOUNT", v)
	}
	s.attempt(0, sys, `{"Name":"v1voteDAO","Args":["BPCOUNT","101"]}`, nil)
	s.attempt(0, sys, `{"Name":"v1voteDAO","Args":["BPCOUNT","-101"]}`, nil)
	s.probe("dao-bpcount", contractAddr, []int{0})

	// account 0 has old votes on all four parameter issues (and votes for a producer): a partial unstake refreshes them all
	s.must(0, sys, `{"Name":"v1voteBP","Args":["16Uiu2HAmPZE7gT1hF2bjpg1UVH65xyNUbBVRf3mBFBJpz3tgLGGt"]}`, nil)
	s.day()
	s.must(0, sys, `{"Name":"v1unstake"}`, coins(15000))
	run.Count("scenario-unstake-refreshes-five-issues")
	s.day()
	s.probe("dao-after-unstake", contractAddr, []int{0, 1})
	// a stake withdrawn completely (its votes stay recorded with amount 0), then every kind of transaction by that account
	s.must(1, sys, `{"Name":"v1unstake"}`, coins(10000))
	s.day()
	s.probe("dao-fully-unstaked", contractAddr, []int{1})

	// ---- regression of 3f9132cd: a 39-character parameter candidate tied with a short one, both orders, many
	// executions on the same state (which pairs VoteList.Less compares depends on Go's map iteration order)
	b39 := strings.Repeat("0", 38) + "5"
	for ord, first := range []string{"3", b39} {
		second := b39
		if ord == 1 {
			second = "3"
		}
		wl := newWorld(run, filepath.Join(dir, fmt.Sprintf("less%d", ord)), false)
		sl := &scen{w: wl, run: run}
		sl.must(0, sys, `{"Name":"v1stake"}`, coins(10000))
		sl.must(1, sys, `{"Name":"v1stake"}`, coins(10000))
		sl.must(2, sys, `{"Name":"v1stake"}`, coins(10000))
		sl.day()
		sl.must(0, sys, `{"Name":"v1voteDAO","Args":["BPCOUNT","`+first+`"]}`, nil)
		for i := 0; i < run.Pick(60, 300) && !sl.dead; i++ {
			sl.gov(1, sys, `{"Name":"v1voteDAO","Args":["BPCOUNT","`+second+`"]}`, nil, false)
		}
		sl.must(1, sys, `{"Name":"v1voteDAO","Args":["BPCOUNT","`+second+`"]}`, nil)
		// a third voter with the same stake and another short value: three tied entries
		for i := 0; i < run.Pick(60, 300) && !sl.dead; i++ {
			sl.gov(2, sys, `{"Name":"v1voteDAO","Args":["BPCOUNT","4"]}`, nil, false)
		}
		sl.must(2, sys, `{"Name":"v1voteDAO","Args":["BPCOUNT","4"]}`, nil)
		sl.day()
		// revotes and an unstake walk over the stored (sorted) tally again
		for i := 0; i < run.Pick(30, 150) && !sl.dead; i++ {
			sl.gov(0, sys, `{"Name":"v1voteDAO","Args":["BPCOUNT","2"]}`, nil, false)
			sl.gov(1, sys, `{"Name":"v1unstake"}`, coins(10000), false)
		}
		run.Count("regression:less-39-character-candidate")
	}
	_ = thorough
}

// lastNonce: the nonce of the signer's last committed transaction.
func (w *world) lastNonce(who int) uint64 {
	sdb := w.sdb.OpenNewStateDB(w.sdb.GetRoot())
	st, err := sdb.GetAccountState(types.ToAccountID(w.addrs[who]))
	if err != nil {
		panic(err)
	}
	return st.Nonce
}
