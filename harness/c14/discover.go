package main

// Command names are taken from the code under test, not from a list in the harness: system operations through the
// real enumeration (types.OpSysTx … OpSysTxMax, Cmd()), name and enterprise commands from the string constants that
// the validators' `switch ….Name` statements use as case labels (the source files of the tree being checked, located
// through the runtime's file table).  A command the hand-written templates do not know gets generic calls.

import (
	"go/ast"
	"go/parser"
	"go/token"
	"path/filepath"
	"reflect"
	"runtime"
	"sort"
	"strconv"
	"strings"

	"github.com/aergoio/aergo/v2/types"
)

func repoRoot() string {
	f := runtime.FuncForPC(reflect.ValueOf(types.GetOpSysTx).Pointer())
	if f == nil {
		return ""
	}
	file, _ := f.FileLine(f.Entry())
	return filepath.Dir(filepath.Dir(file))
}

// stringConsts: name -> value of the package-level string constants of a file set.
func stringConsts(files []*ast.File) map[string]string {
	out := map[string]string{}
	for _, af := range files {
		for _, d := range af.Decls {
			gd, ok := d.(*ast.GenDecl)
			if !ok || gd.Tok != token.CONST {
				continue
			}
			for _, sp := range gd.Specs {
				vs := sp.(*ast.ValueSpec)
				for i, nm := range vs.Names {
					if i < len(vs.Values) {
						if bl, ok := vs.Values[i].(*ast.BasicLit); ok && bl.Kind == token.STRING {
							if v, err := strconv.Unquote(bl.Value); err == nil {
								out[nm.Name] = v
							}
						}
					}
				}
			}
		}
	}
	return out
}

// switchNameLabels: the case labels of every `switch <x>.Name` in the files, resolved to string values.
func switchNameLabels(files []*ast.File, local, typesConsts map[string]string) []string {
	seen := map[string]bool{}
	for _, af := range files {
		ast.Inspect(af, func(n ast.Node) bool {
			sw, ok := n.(*ast.SwitchStmt)
			if !ok || sw.Tag == nil {
				return true
			}
			se, ok := sw.Tag.(*ast.SelectorExpr)
			if !ok || se.Sel.Name != "Name" {
				return true
			}
			for _, c := range sw.Body.List {
				for _, e := range c.(*ast.CaseClause).List {
					switch v := e.(type) {
					case *ast.Ident:
						if s, ok := local[v.Name]; ok {
							seen[s] = true
						}
					case *ast.SelectorExpr:
						if s, ok := typesConsts[v.Sel.Name]; ok {
							seen[s] = true
						}
					case *ast.BasicLit:
						if s, err := strconv.Unquote(v.Value); err == nil {
							seen[s] = true
						}
					}
				}
			}
			return true
		})
	}
	var out []string
	for s := range seen {
		out = append(out, s)
	}
	sort.Strings(out)
	return out
}

func parseFiles(paths ...string) []*ast.File {
	var out []*ast.File
	for _, p := range paths {
		ms, _ := filepath.Glob(p)
		for _, m := range ms {
			if strings.HasSuffix(m, "_test.go") {
				continue
			}
			af, err := parser.ParseFile(token.NewFileSet(), m, nil, parser.SkipObjectResolution)
			if err == nil {
				out = append(out, af)
			}
		}
	}
	return out
}

var discovered map[string][]string

// discoverCommands: recipient -> command names the current source dispatches on.
func discoverCommands() map[string][]string {
	if discovered != nil {
		return discovered
	}
	out := map[string][]string{}
	discovered = out
	for op := types.OpSysTx(0); op < types.OpSysTxMax; op++ {
		out[types.AergoSystem] = append(out[types.AergoSystem], op.Cmd())
	}
	root := repoRoot()
	if root == "" {
		return out
	}
	tf := parseFiles(filepath.Join(root, "types", "*.go"))
	tc := stringConsts(tf)
	nf := parseFiles(filepath.Join(root, "contract", "name", "*.go"))
	out[types.AergoName] = switchNameLabels(append(append([]*ast.File{}, nf...), tf...), stringConsts(nf), tc)
	ef := parseFiles(filepath.Join(root, "contract", "enterprise", "*.go"))
	out[types.AergoEnterprise] = switchNameLabels(ef, stringConsts(ef), tc)
	return out
}

// unknownCommandTemplates: generic calls for every discovered command the templates do not cover.
func (w *world) unknownCommandTemplates() []tmpl {
	known := map[string]bool{}
	for _, t := range w.templates() {
		known[t.rcpt+"/"+t.name] = true
	}
	a0 := types.EncodeAddress(w.addrs[0])
	shapes := [][]string{{}, {q("abcdefghijkl")}, {q(a0)}, {q("BPCOUNT"), q("3")}, {q("x"), q("y"), q("z")}, {`1`}, {`null`}, {q("p2pwhite"), `true`},
		{`{"command":"add"}`}, {q("16Uiu2HAmPZE7gT1hF2bjpg1UVH65xyNUbBVRf3mBFBJpz3tgLGGt")}, {q("abcdefghijkl"), `5`}, {q("x"), `null`, `[]`}}
	var out []tmpl
	for rcpt, names := range discoverCommands() {
		for _, n := range names {
			if known[rcpt+"/"+n] {
				continue
			}
			for _, sh := range shapes {
				out = append(out, tmpl{rcpt, n, sh, nil}, tmpl{rcpt, n, sh, coins(1)})
			}
		}
	}
	sort.SliceStable(out, func(i, j int) bool { return out[i].rcpt+out[i].name < out[j].rcpt+out[j].name })
	return out
}
